#!/usr/bin/env python3
"""Prints the prompt for a sub-agent that produces BEHAVIOUR-PRESERVING maintenance edits (false-alarm probes).
usage: benign_prompt.py <tag> <worktree> <outdir> <n> <files...>"""
import sys
tag, wt, out, n = sys.argv[1:5]
files = [f for f in sys.argv[5:] if f != "r2"]
r2 = "r2" in sys.argv[5:]
KINDS = ("rewrite boolean conditions into equivalent ones (De Morgan, `a == b` -> `b == a`, `x < y` -> `y > x`, `len(s) > 0` <-> `len(s) != 0`, `!(a && b)` -> `!a || !b`, double negation removed); merge two nested ifs into one `&&` condition or split an `&&` condition into nested ifs; hoist a statement that is duplicated at the end of both branches out of the if (or the reverse: sink it into both branches); replace an if/else that assigns a variable by a default assignment followed by one if; convert `for i := 0; i < len(s); i++` into `for i := range s` (or the reverse); replace `var x T; x = f()` by `x := f()`; turn a method that does not use its receiver into a package-level function of the same package (or the reverse); change a value receiver name / parameter order of an UNEXPORTED helper consistently at all call sites; split one long function in two sequential helper calls; replace a chain of `append` calls by one; replace manual map-copy / slice-copy loops by `maps.Copy` / `copy` / `slices.Clone` style helpers from the standard library or samber/lo (both are already dependencies); introduce an intermediate local variable for a call result that was passed directly as an argument; reorder `case` clauses of a switch whose cases are mutually exclusive; reorder independent statements; add a defensive nil / empty check that callers already guarantee; add metrics / log lines (never printing credentials); change log and error message wording; also: ") if r2 else ""
print(f"""You are helping to evaluate static-analysis tooling for the Go project zilliztech/milvus-cdc (a change-data-capture service for Milvus). You have your own scratch git worktree of the project at {wt} (three Go modules: core/, server/, rocksdb/). Work ONLY inside {wt} and {out}; never touch /repo or /verif and do not read anything under /verif.

Your task: produce {n} DIFFERENT, independent, realistic maintenance edits to the NON-TEST source files listed below, each of which PRESERVES BEHAVIOUR EXACTLY — for every input, every goroutine schedule, every failure — while looking like something a maintainer would really do. The files:
  {chr(10).join('  ' + f for f in files)}

Kinds of edit wanted (use a different kind for each, and touch the central functions of those files, not only their fringes): {KINDS}extract a block of a long function into a helper function or method (same package); inline a small helper into its only caller; rename local variables, parameters or unexported functions/fields; reorder statements that are independent of each other; turn an if/else-if chain into a switch (or the reverse); invert a condition and swap its branches; replace a hand-written loop by an equivalent helper (or the reverse); introduce a named constant or a local variable for a repeated expression; add log lines, metrics or comments that do not print secrets; change the wording of log or error messages; restructure with early returns / guard clauses; move a function to a new file of the same package; wrap an error with more context where the caller only tests it against nil; add a nil/empty guard that is redundant because callers already guarantee it. Each edit should be between a few and ~60 changed lines.

Hard requirements for each edit: the project compiles; every existing test that passes today still passes; the observable behaviour (messages emitted, requests sent downstream, what is persisted, what is logged apart from wording, state transitions, locking and ordering of side effects, error/no-error outcomes) is unchanged. Do NOT change which lock protects what, the order of externally visible side effects, which goroutine does what, any comparison operator, any key or name construction, or what is persisted. If you are not sure an edit is behaviour-preserving, do not deliver it.

For EACH edit i deliver a directory {out}/{tag}-<letter>/ (letters a, b, ...) containing:
  - patch.diff : output of `git -C {wt} diff` for that edit alone (relative to the worktree's HEAD; it must apply with `git apply` on a clean checkout of HEAD). If you add a new file, `git add -N` it first so it shows up in the diff.
  - meta.json : {{"kind": "benign", "title": short title, "edit_kind": which kind from the list, "why_preserving": two or three sentences arguing that behaviour is unchanged, "files_changed": [...]}}

How to build and test offline (no network at all; use exactly this environment in every shell call):
  export GOFLAGS=-mod=mod GOPROXY=off GOSUMDB=off GOTOOLCHAIN=local
  cd {wt}/core   && go build ./... && go test -vet=off -count=1 ./...
  cd {wt}/server && go build ./... && go test -vet=off -count=1 ./...
Some tests fail already at HEAD because they need etcd/MySQL; first record which tests pass at HEAD (go test -json or -v) and make sure exactly those still pass with each edit.

Process for each edit: make the edit in {wt}; build both modules; run the tests of the touched packages; save the diff as patch.diff; then `git -C {wt} checkout -- .` (and remove new files) before the next edit. Leave the worktree clean at the end. Finally reply with a short list: directory, one sentence per edit.""")
