#!/usr/bin/env python3
"""Regenerates /verif/MANIFEST.json from tools/claims.json and the set of properties
the checker implements (bin/vcheck -list)."""
import json, subprocess, os, sys
V = os.path.dirname(os.path.dirname(os.path.abspath(__file__)))
claims = json.load(open(os.path.join(V, "tools", "claims.json")))
impl = subprocess.run([os.path.join(V, "bin", "vcheck"), "-list"], capture_output=True, text=True).stdout.split()
props = [json.loads(l) for l in open(os.path.join(V, "properties.jsonl"))]
checks, na = [], []
for p in props:
    pid = p["id"]
    c = claims.get(pid)
    if pid in impl and c and not c.get("not_applicable"):
        checks.append({
            "property_id": pid,
            "quick_cmd": f"./check.sh {pid} quick",
            "thorough_cmd": f"./check.sh {pid} thorough",
            "evidence_file": f"/verif/evidence/{pid}.json",
            "replay_cmd_template": "cat {path}",
            "engine": "vcheck",
            "level_claimed": {"category": "other", "text": c["text"], "design_ref": f"DESIGN.md section 3, {pid}"},
            "level_note": c["note"],
            "technique": c["technique"],
        })
    else:
        reason = (c or {}).get("not_applicable") or "no check registered in this revision: the structural rules designed for it in DESIGN.md section 3 are not implemented yet, so nothing is claimed"
        na.append({"property_id": pid, "reason": reason})
m = {
    "version": 1,
    "setup_cmd": "./setup.sh",
    "hooks": {
        "guard": "verif",
        "enable": "none needed: the checks analyse source and never build or run /repo; the build tag 'verif' is reserved and unused",
        "baseline_off_cmd": "for m in core rocksdb server; do (cd /repo/$m && GOFLAGS=-mod=mod go test -vet=off -count=1 -timeout 25m ./...); done",
        "source_commits": [],
        "add_only": True,
    },
    "engines": [{
        "name": "vcheck",
        "path": "/verif/checker",
        "serves_properties": [c["property_id"] for c in checks],
        "kind_free_text": "repository-specific static analyser (Go, golang.org/x/tools v0.29.0: go/packages + go/ssa + go/types) run over /repo's current working tree; rules are dataflow / dominance / who-may-write / field-correspondence / exhaustiveness checks over resolved symbols",
    }],
    "checks": checks,
    "not_applicable": na,
    "notes": "All claims are level 'other': each check decides structural necessary conditions of its property from the resolved program (typed AST + SSA) of /repo's working tree, never the behaviour itself; what is and is not decided is stated per check in level_claimed.text and in DESIGN.md. Genuine defects found are either repaired in /repo ('fix:' commits, listed as fixed in known_findings.json) or listed as known in known_findings.json.",
}
json.dump(m, open(os.path.join(V, "MANIFEST.json"), "w"), indent=1)
print("checks:", [c["property_id"] for c in checks], "not_applicable:", [n["property_id"] for n in na])
