#!/bin/bash
# usage: seed_eval_many.sh <slot> <seed-dir>...   evaluates the seeds one after the other in scratch worktree /tmp/mutS<slot>
SLOT=$1; shift
export MUT=/tmp/mutS$SLOT
[ -d $MUT ] || git -C /repo worktree add -q --detach $MUT HEAD
for d in "$@"; do
  n=$(basename $d)
  python3 /verif/tools/seed_eval.py $d --keep --all > /tmp/seedout/eval_$n.json 2>&1
  echo "$n $(python3 -c "import json,sys; r=json.load(open('/tmp/seedout/eval_$n.json')); print('confirmed=',r.get('confirmed'),'caught=',r.get('caught_by'), r.get('baseline_tests_broken',''), r.get('error',''))" 2>&1 | tail -1)"
done
