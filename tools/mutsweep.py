#!/usr/bin/env python3
"""usage: mutsweep.py <mutants-dir> [-j N] [--repo /repo]
Analyses every generated variant (see `vcheck -mutgen`) through VERIF_OVERLAY (nothing is written into the repository),
with all checks in one process, and records per variant: invalid (does not type-check), killed (rules that reported it)
or survived. Writes <dir>/results.json and prints a per-function summary of survivors."""
import json, os, subprocess, sys, concurrent.futures as cf, collections, tempfile, shutil
HERE = os.path.dirname(os.path.dirname(os.path.abspath(__file__)))
d = sys.argv[1].rstrip('/')
J = int(sys.argv[sys.argv.index('-j') + 1]) if '-j' in sys.argv else 14
repo = sys.argv[sys.argv.index('--repo') + 1] if '--repo' in sys.argv else '/repo'
ENV = dict(os.environ, GOFLAGS='-mod=mod', GOPROXY='off', GOSUMDB='off', GOTOOLCHAIN='local', GOWORK='off', VERIF_REPO=repo, VERIF_NOCANON='1')
idx = json.load(open(d + '/index.json'))
def run(m):
    vd = tempfile.mkdtemp(prefix='mv-')
    for f in ('properties.jsonl', 'known_findings.json'): shutil.copy(HERE + '/' + f, vd + '/' + f)
    env = dict(ENV, VERIF_OVERLAY=f"{repo}/{m['file']}={m['path']}")
    p = subprocess.run([HERE + '/bin/vcheck', '-verif', vd, '-prop', 'all', '-tier', 'quick'], env=env, capture_output=True, text=True, errors='replace')
    shutil.rmtree(vd, ignore_errors=True)
    out = p.stdout
    if 'LOAD FAILURE' in out: return dict(m, verdict='invalid')
    rules = sorted({l.split()[1] for l in out.splitlines() if l.startswith(('VIOLATION C', 'UNDECIDED'))})
    return dict(m, verdict='killed' if rules else 'survived', rules=rules)
res = []
with cf.ThreadPoolExecutor(J) as ex:
    stream = open(d + '/results.jsonl', 'w')
    for i, r in enumerate(ex.map(run, idx)):
        res.append(r)
        stream.write(json.dumps(r) + '\n'); stream.flush()
        if i % 100 == 0: print(i, '/', len(idx), file=sys.stderr, flush=True)
json.dump(res, open(d + '/results.json', 'w'), indent=1)
c = collections.Counter(r['verdict'] for r in res)
print(dict(c))
byf = collections.defaultdict(lambda: collections.Counter())
for r in res: byf[(r['file'], r['func'])][r['verdict']] += 1
for (f, fn), v in sorted(byf.items()):
    print(f"{f:50s} {fn:60s} killed={v['killed']:3d} survived={v['survived']:3d} invalid={v['invalid']:3d}")
