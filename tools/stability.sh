#!/bin/bash
# Runs every implemented check N times on the unchanged tree and reports any difference in verdict lines (non-determinism).
cd "$(dirname "$0")/.."
N=${1:-4}
rc=0
for p in $(bin/vcheck -list); do
  ref=""
  for i in $(seq 1 $N); do
    out=$(bin/vcheck -verif /tmp/stab-verif -prop $p 2>&1 | grep -v "wall=" | grep -v "^VIOLATION property" | sort | md5sum)
    if [ -z "$ref" ]; then ref="$out"; elif [ "$ref" != "$out" ]; then echo "UNSTABLE $p"; rc=1; break; fi
  done
  echo "stable $p"
done
exit $rc
