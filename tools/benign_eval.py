#!/usr/bin/env python3
"""usage: benign_eval.py <dir-with-patch.diff>... [--keep]
Applies each behaviour-preserving edit to /tmp/mut (reset to /repo HEAD), checks it builds, runs ALL checks on it
(VERIF_REPO=/tmp/mut, one process) and prints every VIOLATION / UNDECIDED line: each one is a false alarm.
--keep copies the edit to /verif/seeded/benign/<name>/ with the result in meta.json."""
import json, os, subprocess, sys, shutil
ENV = dict(os.environ, GOFLAGS='-mod=mod', GOPROXY='off', GOSUMDB='off', GOTOOLCHAIN='local', GOWORK='off')
MUT = os.environ.get('MUT', '/tmp/mut4')
MV = MUT + '-verif'
def sh(cmd, cwd=None, timeout=1800):
    p = subprocess.run(cmd, shell=True, cwd=cwd, env=ENV, capture_output=True, text=True, timeout=timeout)
    return p.returncode, (p.stdout + p.stderr)
keep = '--keep' in sys.argv
nobuild = '--nobuild' in sys.argv
head = subprocess.check_output(['git', '-C', '/repo', 'rev-parse', 'HEAD'], text=True).strip()
if not os.path.isdir(MUT): sh(f'git -C /repo worktree add -q --detach {MUT} HEAD')
os.makedirs(MV + '', exist_ok=True)
for f in ('properties.jsonl', 'known_findings.json'): shutil.copy('/verif/' + f, MV + '/' + f)
bad = 0
for d in [a.rstrip('/') for a in sys.argv[1:] if not a.startswith('--')]:
    name = os.path.basename(d)
    sh(f'git -C {MUT} reset -q --hard; git -C {MUT} checkout -q --detach {head}; git -C {MUT} reset -q --hard; git -C {MUT} clean -fdq')
    rc, out = sh(f'git -C {MUT} apply {d}/patch.diff')
    if rc != 0:
        print(name, 'PATCH DOES NOT APPLY', out[-200:]); continue
    builds = True
    if not nobuild:
        for m in ('core', 'server'):
            rc, out = sh('go build ./...', cwd=f'{MUT}/{m}')
            if rc != 0: builds = False; print(name, 'DOES NOT BUILD', out[-300:])
    rc, out = sh(f'VERIF_REPO={MUT} /verif/bin/vcheck -verif {MV} -prop all -tier quick', timeout=900)
    alarms = [l[:400] for l in out.splitlines() if l.startswith(('VIOLATION C', 'UNDECIDED', 'LOAD FAILURE'))]
    print(name, 'builds' if builds else 'NOBUILD', 'ALARMS=%d' % len(alarms))
    for a in alarms: print('   ', a)
    if alarms: bad += 1
    if keep and builds:
        dst = '/verif/seeded/benign/' + name
        os.makedirs(dst, exist_ok=True)
        shutil.copy(d + '/patch.diff', dst + '/patch.diff')
        meta = json.load(open(d + '/meta.json')) if os.path.exists(d + '/meta.json') else {}
        meta['result'] = {'repo_head': head[:7], 'alarms': alarms}
        json.dump(meta, open(dst + '/meta.json', 'w'), indent=1)
sh(f'git -C {MUT} reset -q --hard; git -C {MUT} clean -fdq')
sys.exit(1 if bad else 0)
