#!/bin/bash
# usage: quick_detect.sh <seed-dir>...  -- applies each patch to /tmp/mut4, runs all checks, prints the rules that fire
export GOFLAGS=-mod=mod GOPROXY=off GOSUMDB=off GOTOOLCHAIN=local GOWORK=off
M=${MUT:-/tmp/mut4}
[ -d $M ] || git -C /repo worktree add -q --detach $M HEAD
mkdir -p $M-verif && cp /verif/properties.jsonl /verif/known_findings.json $M-verif/
for d in "$@"; do
  n=$(basename $d); p=${n%%-*}
  git -C $M checkout -q --detach $(git -C /repo rev-parse HEAD) 2>/dev/null; git -C $M checkout -q -- .; git -C $M clean -fdq
  git -C $M apply $d/patch.diff || { echo "$n PATCH DOES NOT APPLY"; continue; }
  out=$(VERIF_REPO=$M /verif/bin/vcheck -verif $M-verif -prop all -tier ${TIER:-quick} 2>&1)
  rules=$(echo "$out" | grep '^VIOLATION C\|^UNDECIDED\|^LOAD FAILURE' | awk '{print $2}' | sort -u | tr '\n' ' ')
  own=$(echo "$rules" | tr ' ' '\n' | grep "^$p-" | tr '\n' ' ')
  echo "$n own=[$own] all=[$rules]"
  git -C $M checkout -q -- .; git -C $M clean -fdq
done
