#!/usr/bin/env python3
"""Refreshes the generated parts of DESIGN.md from what the checker wrote: the 'As implemented' rule lists per property
(evidence/*.json), the disposition table of section 4 (known_findings.json) and the seed matrix of section 6
(seeded/*/meta.json). Hand-written text is left alone; generated blocks sit between <!-- x:begin --> / <!-- x:end -->."""
import json, re, glob, os
p = '/verif/DESIGN.md'
s = open(p).read()
s = re.sub(r'\n<!-- impl:begin -->.*?<!-- impl:end -->\n', '\n', s, flags=re.S)
heads = [(m.start(), m.group(1)) for m in re.finditer(r'^### (C\d\d) — .*$', s, flags=re.M)]
end = s.index('### Summary of section 3')
out = s
for i in range(len(heads) - 1, -1, -1):
    st, pid = heads[i]
    en = heads[i + 1][0] if i + 1 < len(heads) else end
    sec = s[st:en]
    rules = json.load(open(f'/verif/evidence/{pid}.json'))['coverage']['rules']
    short = lambda r: r['id'].split('-', 1)[1]
    new = [r for r in rules if not short(r).startswith('G') and not re.search(r'\*\*' + re.escape(short(r)) + r'\b', sec) and not re.search(r'\b' + re.escape(short(r)) + r'\*\*', sec)]
    blk = '\n<!-- impl:begin -->\n*As implemented* (authoritative list with counts: `RULES.md`): ' + ', '.join(short(r) for r in rules if not short(r).startswith('G')) + ', plus the generic rules G2–G5 (2.4) on the anchored functions.'
    if new:
        blk += ' Rules added after the first design:\n\n'
        for r in new:
            blk += f"* **{short(r)} {r['kind']}** — {r['text']}. ({r['instances_seen']} instances, min {r['min_instances_confirmed_by_hand']})\n"
    else:
        blk += '\n'
    blk += '<!-- impl:end -->\n'
    out = out[:en].rstrip('\n') + '\n' + blk + '\n' + out[en:]
s = out
def block(tag, text):
    global s
    pat = re.compile(r'<!-- %s:begin -->.*?<!-- %s:end -->' % (tag, tag), re.S)
    rep = f'<!-- {tag}:begin -->\n{text}\n<!-- {tag}:end -->'
    if pat.search(s): s = pat.sub(lambda m: rep, s)
# section 4 table
kf = json.load(open('/verif/known_findings.json'))['findings']
rows = ['| property / rule | construct | status | what fails |', '|---|---|---|---|']
for k in kf:
    st = 'known' if k['status'] == 'known' else 'fixed ' + k.get('commit', '')
    what = k['what']
    what = re.sub(r'^fixed: property=C\d\d \w+ ', '', what)
    rows.append(f"| {k['rule']} | `{k['construct']}` | {st} | {what[:300].replace('|', '/')} |")
block('findings', '\n'.join(rows))
# section 6 matrix
rows = ['| seed | property | reported by | change |', '|---|---|---|---|']
nseed = nmiss = 0
for d in sorted(glob.glob('/verif/seeded/*/meta.json')):
    m = json.load(open(d)); name = os.path.basename(os.path.dirname(d))
    det = m.get('detection', {})
    rules = det.get('rules') or []
    nseed += 1
    if not rules: nmiss += 1
    rows.append(f"| {name} | {m.get('property')} | {', '.join(rules) if rules else '**not reported**'} | {m.get('title', '')[:160].replace('|', '/')} |")
block('seeds', f'{nseed} confirmed seeded changes, {nseed - nmiss} reported, {nmiss} not reported.\n\n' + '\n'.join(rows))
nb = len(glob.glob('/verif/seeded/benign/*/patch.diff'))
alarms = sum(1 for d in glob.glob('/verif/seeded/benign/*/meta.json') if json.load(open(d)).get('result', {}).get('alarms'))
block('benign', f'{nb} behaviour-preserving edits kept under `seeded/benign/`; {alarms} raise an alarm with the current rules.')
open(p, 'w').write(s)
print('DESIGN.md refreshed:', len(s.splitlines()), 'lines')
