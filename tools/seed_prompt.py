#!/usr/bin/env python3
"""Prints the prompt for a seeding sub-agent: only the property text and its scratch worktree."""
import json, sys
pid, wt, out = sys.argv[1], sys.argv[2], sys.argv[3]
n = sys.argv[4] if len(sys.argv) > 4 else "2"
r2 = len(sys.argv) > 5 and sys.argv[5] == "r2"
r3 = len(sys.argv) > 5 and sys.argv[5] == "r3"
r8 = len(sys.argv) > 5 and sys.argv[5] == "r8"
r6 = (len(sys.argv) > 5 and sys.argv[5] == "r6") or r8
r5 = (len(sys.argv) > 5 and sys.argv[5] == "r5") or r6
KINDS = """ Make the changes of DIFFERENT kinds: (1) a one-token or one-line slip in a place the tests do not look at - the wrong variable of the same type, a flipped or off-by-one comparison, an inverted condition, two swapped arguments, an error check dropped or its polarity reversed, a wrong map/table used; (2) an ordering change - a statement moved across a lock boundary, before/after a store or downstream call, into/out of a loop, before/after a validity check; (3) a plausible 'improvement' - a cache, an early return, a fast path, batching, reuse of an object - that is wrong in a corner case. Spread them over different functions and mechanisms of the property.""" if r2 else (""" Make the changes of DIFFERENT kinds, chosen from: (a) error handling - an error that is logged but no longer returned, returned but wrapped into nil by a later assignment, handled on the wrong branch, or a retry that gives up silently; (b) concurrency - a lock taken later or released earlier, a read of shared state moved outside its lock, a channel send/receive or goroutine start moved across a state change, a check-then-act split; (c) state and cleanup - a table entry not removed / removed too early, a flag set on the wrong object or never reset, a counter updated on one path only, a resource released twice or not at all; (d) boundary and identity - an off-by-one or inclusive/exclusive boundary, the wrong one of two similar identifiers (source vs target, id vs name, task vs collection, begin vs end), a key built from the wrong components; (e) data flow - a value computed before instead of after a rewrite, a stale copy used after an update, a shared object mutated where a copy was needed, a default that masks a missing value. Prefer the less central functions of the listed mechanisms and the paths that only run on failure, restart, pause/resume or with several tasks/collections.""" if r3 else "")
if r5:
    KINDS = """ Make the changes of DIFFERENT kinds, chosen from: (a) two cooperating sites - a change in one function that is only wrong because of what another function (possibly in another file or package) assumes: a producer and a consumer of a table, a writer and a reader of a persisted record, a setter whose callers pass a different kind of value, a helper whose contract is changed for one caller and silently for the others; (b) restart / pause-resume / multi-task paths - state that is rebuilt from the store, reference counts, tables shared by several tasks of one target, clean-up on the failure path of start-up; (c) a changed helper or utility (key/name composition, parsing, a comparison or merge helper, a constructor default, a copy that became shallow) whose effect only shows for unusual names, ids, several shards or channels, or a second incarnation of an object; (d) a new feature-like addition (a metric-driven fast path, a config option with a wrong default, a retry with a wrong retriable set, a timeout that fires in a legal slow case) that breaks the property only in a corner; (e) a change of WHEN something happens relative to a lock, a store write, a downstream call, a channel send or a goroutine start. Avoid the most central 20 lines of each mechanism (they have been studied a lot); prefer secondary functions, constructors, the store/back-end implementations, helper packages and failure paths."""
p = next(json.loads(l) for l in open('/verif/properties.jsonl') if json.loads(l)['id'] == pid)
LET = "s, t" if r8 else "o, p, q, r" if r6 else "k, l, m, n" if r5 else ("g, h, i, j" if r3 else "d, e, f")
print(f"""You are helping to evaluate a verification effort for the Go project zilliztech/milvus-cdc (a change-data-capture service for Milvus). You have your own scratch git worktree of the project at {wt} (three Go modules: core/, server/, rocksdb/). Work ONLY inside {wt} and {out}; never touch /repo or /verif and do not read anything under /verif.

Here is a semantic property the project is supposed to satisfy:

  Title: {p['title']}
  Statement: {p['statement']}
  It must hold for: {p['quantifier']['text']}
  Files where the mechanisms live: {', '.join(p['anchors']['files'])}
  Mechanisms: {'; '.join(m['name'] + ' @ ' + m['where'] for m in p['anchors']['mechanism'])}

Your task: produce {n} DIFFERENT, independent, realistic code changes (the kind of mistake a developer could plausibly make in a refactoring, an optimisation, a bug-fix attempt or a feature addition) each of which BREAKS this property, while the project still compiles and all existing tests that pass today still pass. Prefer changes that need something specific to manifest — a particular interleaving, a crash or fault at a particular point, a multi-step sequence of operations, an unusual input, or two cooperating sites that each look fine alone — not ones ordinary use would expose at once.{KINDS} Changes should be small (a few lines to a few dozen), should be to non-test source files only, and must not be mere deletions of whole functions or obviously sabotaging code (no 'if false', no panics added on purpose, no comments announcing the bug).

For EACH change i (1..{n}) deliver a directory {out}/{pid}-<letter>/ (letters {LET}) containing:
  - patch.diff : output of `git -C {wt} diff` for that change alone (relative to the worktree's HEAD; it must apply with `git apply` on a clean checkout of HEAD)
  - a demonstration: a Go test file (name it zz_seed_demo_test.go, say which package directory it must be copied into) or a small program, that FAILS with the change applied and PASSES without it. The demonstration must not need network, etcd, MySQL, Kafka or a Milvus server; use fakes / mocks (the repo has mockery mocks under core/mocks and server/mocks) or call the functions directly. Test function names must start with TestSeedDemo.
  - meta.json : {{"property": "{pid}", "title": short title of the change, "what_breaks": which clause of the property fails and how, "needs_to_manifest": what input/schedule/sequence/fault is needed, "demo": {{"copy_to": "<dir relative to repo root>", "run": "<exact go test command, run from which module dir>"}}, "files_changed": [...]}}

How to build and test offline (no network at all; use exactly this environment in every shell call):
  export GOFLAGS=-mod=mod GOPROXY=off GOSUMDB=off GOTOOLCHAIN=local
  cd {wt}/core   && go build ./... && go test -vet=off -count=1 ./...
  cd {wt}/server && go build ./... && go test -vet=off -count=1 ./...
Some tests fail already at HEAD because they need etcd/MySQL (e.g. packages core/reader partially, server main tests); first record which tests pass at HEAD (go test -json or -v) and make sure exactly those still pass with each change. Run the touched packages' tests at least twice.

Process for each change: make the edit in {wt}; build; run the tests; add your demo test, check it FAILS; save `git diff` (without the demo file — keep the demo untracked or save it separately before diffing) as patch.diff; then `git -C {wt} checkout -- .` and remove the demo file, check the demo PASSES on the clean tree (copy it in again, run, remove); then go on to the next change. Leave the worktree clean (no modifications, no untracked files) at the end.

Finally reply with a short summary listing, per change, the directory, one sentence on what it breaks, and confirmation that (a) build ok, (b) existing passing tests still pass, (c) demo fails with / passes without the change. If you cannot make a change satisfy all of this, do not deliver it.""")
