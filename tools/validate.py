#!/opt/veriftools/pyvenv/bin/python
import json, jsonschema, glob, sys
m=json.load(open('/verif/MANIFEST.json')); jsonschema.validate(m, json.load(open('/root/.vp/MANIFEST.schema.json')))
es=json.load(open('/root/.vp/EVIDENCE.schema.json'))
for c in m['checks']:
    e=json.load(open(c['evidence_file'])); jsonschema.validate(e, es)
    assert e['property_id']==c['property_id'] and e['level']==c['level_claimed']['category']
ids={json.loads(l)['id'] for l in open('/verif/properties.jsonl')}
got={c['property_id'] for c in m['checks']}|{n['property_id'] for n in m.get('not_applicable',[])}
assert ids==got, ids^got
print("manifest + %d evidence files valid"%len(m['checks']))
