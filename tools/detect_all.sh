#!/bin/bash
# usage: tools/detect_all.sh [N]  -- runs the per-seed detection over all kept seeds in N parallel scratch worktrees, then
# writes seeded/RESULTS.md from the refreshed meta.json files.
N=${1:-6}
cd /verif
ls -d seeded/*/ | xargs -n1 basename | grep -v '^benign$' > /tmp/sd_all.txt
rm -f /tmp/sd_chunk_*
split -n l/$N -d /tmp/sd_all.txt /tmp/sd_chunk_
i=0
for f in /tmp/sd_chunk_*; do
  i=$((i+1))
  ( MUT=/tmp/mutD$i python3 tools/seed_detect.py $(cat $f) > /tmp/sd_out_$i.log 2>&1 ) &
done
wait
python3 tools/seed_results.py
