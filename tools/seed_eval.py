#!/usr/bin/env python3
"""usage: seed_eval.py <seed-dir> [--keep]   Confirms a seeded change in the scratch worktree /tmp/mut and runs the checks on it.
 - /tmp/mut is reset to /repo HEAD; patch applied; build; demo must FAIL; checks run (VERIF_REPO=/tmp/mut);
 - patch reverted; demo must PASS.
Prints a JSON summary; with --keep copies the seed to /verif/seeded/<name>/ with the results in meta.json."""
import json, os, subprocess, sys, shutil, glob
seed = sys.argv[1].rstrip('/')
keep = '--keep' in sys.argv
ENV = dict(os.environ, GOFLAGS='-mod=mod', GOPROXY='off', GOSUMDB='off', GOTOOLCHAIN='local', GOWORK='off')
MUT = os.environ.get('MUT', '/tmp/mut')
MV = MUT + '-verif'
def sh(cmd, cwd=None, timeout=1800):
    p = subprocess.run(cmd, shell=True, cwd=cwd, env=ENV, capture_output=True, text=True, timeout=timeout)
    return p.returncode, (p.stdout + p.stderr)
meta = json.load(open(seed + '/meta.json'))
prop = meta['property']
head = subprocess.check_output(['git', '-C', '/repo', 'rev-parse', 'HEAD'], text=True).strip()
sh(f'git -C {MUT} reset -q --hard; git -C {MUT} checkout -q --detach {head}; git -C {MUT} reset -q --hard; git -C {MUT} clean -fdq')
res = {'seed': os.path.basename(seed), 'property': prop, 'repo_head': head[:7]}
rc, out = sh(f'git -C {MUT} apply --check {seed}/patch.diff')
if rc != 0:
    rc3, out3 = sh(f'git -C {MUT} apply --3way {seed}/patch.diff')
    if rc3 != 0:
        sh(f'git -C {MUT} reset -q --hard; git -C {MUT} clean -fdq')
        res['error'] = 'patch does not apply: ' + out[-300:]
        print(json.dumps(res, indent=1)); sys.exit(2)
    sh(f'git -C {MUT} reset -q')
    sh(f'git -C {MUT} diff > /tmp/rebased.diff')
    res['rebased'] = True
else:
    sh(f'git -C {MUT} apply {seed}/patch.diff')
# demo
demo = meta['demo']
copy_to = demo['copy_to'].strip('/')
demos = [f for f in glob.glob(seed + '/*_test.go')]
run = demo['run']
# normalise run command: find "go test ..." and module dir
mod = 'server' if copy_to.startswith('server') else 'core'
gocmd = run[run.index('go test'):] if 'go test' in run else 'go test -count=1 -run TestSeedDemo ./...'
import re
gocmd = re.split(r'\s+\(|\s+#|;|&&|\|', gocmd)[0].strip()
if '-vet=off' not in gocmd: gocmd = gocmd.replace('go test', 'go test -vet=off', 1)
def run_demo():
    for f in demos: shutil.copy(f, f'{MUT}/{copy_to}/' + os.path.basename(f))
    rc, out = sh(gocmd, cwd=f'{MUT}/{mod}', timeout=900)
    for f in demos:
        try: os.remove(f'{MUT}/{copy_to}/' + os.path.basename(f))
        except FileNotFoundError: pass
    return rc, out
rc, out = sh('go build ./...', cwd=f'{MUT}/{mod}')
res['builds'] = rc == 0
rc, out = run_demo()
res['demo_fails_with_change'] = rc != 0
res['demo_tail_with'] = out[-400:]
# existing tests of touched packages
pkgs = sorted({os.path.dirname(f) for f in meta.get('files_changed', [])})
tests_ok = True
for pk in pkgs:
    m = 'server' if pk.startswith('server') else 'core'
    rel = './' + pk[len(m)+1:] if len(pk) > len(m) else '.'
    rc, out = sh(f'go test -vet=off -count=1 -json {rel}', cwd=f'{MUT}/{m}', timeout=1500)
    passed = set()
    for l in out.splitlines():
        try: e = json.loads(l)
        except: continue
        if e.get('Test') and e.get('Action') == 'pass': passed.add(e['Package'] + '::' + e['Test'])
    base = {t for t in json.load(open('/root/.vp/BASELINE.json'))['stable_pass'] if t.startswith('github.com/zilliztech/milvus-cdc/' + pk + '::')}
    if base - passed:
        tests_ok = False
        res.setdefault('baseline_tests_broken', []).extend(sorted(base - passed)[:5])
res['existing_tests_pass'] = tests_ok
# checks
os.makedirs(MV + '', exist_ok=True)
for f in ('properties.jsonl', 'known_findings.json'): shutil.copy('/verif/' + f, MV + '/' + f)
implemented = subprocess.check_output(['/verif/bin/vcheck', '-list'], text=True).split()
props = [p for p in [prop] + [p for p in meta.get('also_check', [])] if p in implemented]
if '--all' in sys.argv:
    props = subprocess.check_output(['/verif/bin/vcheck', '-list'], text=True).split()
caught = {}
rc, out = sh(f'VERIF_REPO={MUT} /verif/bin/vcheck -verif {MV} -prop all -tier quick', timeout=900)
cur = []
for l in out.splitlines():
    if l.startswith(('VIOLATION C', 'UNDECIDED', 'LOAD FAILURE')): cur.append(l[:300])
    elif l.startswith('VIOLATION property='):
        pid = l.split('property=')[1].split()[0]
        if pid in props:
            caught.setdefault(pid, {'exit': 1, 'violations': []})
            caught[pid]['violations'] += [c for c in cur if c not in caught[pid]['violations']][:6]
        cur = []
for p in props: caught.setdefault(p, {'exit': 0, 'violations': []})
res['checks'] = caught
res['caught_by'] = [p for p, c in caught.items() if c['exit'] != 0]
sh(f'git -C {MUT} reset -q --hard; git -C {MUT} clean -fdq')
rc, out = run_demo()
res['demo_passes_without_change'] = rc == 0
if rc != 0: res['demo_tail_without'] = out[-400:]
sh(f'git -C {MUT} reset -q --hard; git -C {MUT} clean -fdq')
res['confirmed'] = bool(res['builds'] and res['demo_fails_with_change'] and res['demo_passes_without_change'] and res['existing_tests_pass'])
print(json.dumps({k: v for k, v in res.items() if k not in ('demo_tail_with',)}, indent=1))
if keep and res['confirmed']:
    dst = '/verif/seeded/' + os.path.basename(seed)
    os.makedirs(dst, exist_ok=True)
    if res.get('rebased'): shutil.copy('/tmp/rebased.diff', dst + '/patch.diff')
    else: shutil.copy(seed + '/patch.diff', dst + '/patch.diff')
    for f in demos: shutil.copy(f, dst + '/' + os.path.basename(f) + '.txt')
    meta['confirmed'] = {'repo_head': head[:7], 'builds': True, 'demo_fails_with_change': True, 'demo_passes_without_change': True,
                         'existing_tests_of_touched_packages_pass': True,
                         'ran': [f'git apply patch.diff (scratch worktree of /repo HEAD)', f'cd {mod} && {gocmd}', 'go test -json of touched packages compared with BASELINE stable_pass', 'bin/vcheck -prop <id> with VERIF_REPO=<scratch>']}
    meta['detection'] = {'caught_by': res['caught_by'], 'violations': {p: c['violations'] for p, c in caught.items() if c['exit'] != 0}}
    meta['demo']['note'] = 'demo test stored as *.go.txt so that it is not compiled here; copy to demo.copy_to as *_test.go'
    json.dump(meta, open(dst + '/meta.json', 'w'), indent=1)
