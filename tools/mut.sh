#!/bin/bash
# usage: tools/mut.sh <prop> <patch.diff>   -- applies the patch to the scratch worktree /tmp/mut4 (reset to /repo HEAD), runs the check there
set -u
PROP=$1; PATCH=$2
git -C /tmp/mut4 checkout -q --detach $(git -C /repo rev-parse HEAD) 2>/dev/null
git -C /tmp/mut4 checkout -q -- . ; git -C /tmp/mut4 clean -fdq
git -C /tmp/mut4 apply "$PATCH" || { echo "PATCH DOES NOT APPLY"; exit 3; }
mkdir -p /tmp/mut4-verif && cp /verif/properties.jsonl /verif/known_findings.json /tmp/mut4-verif/
VERIF_REPO=/tmp/mut4 /verif/bin/vcheck -verif /tmp/mut4-verif -prop $PROP -tier ${3:-quick} | grep -v '^rule ' | grep -v '^VIOLATION property' | cut -c1-400
rc=${PIPESTATUS[0]}
git -C /tmp/mut4 checkout -q -- . ; git -C /tmp/mut4 clean -fdq
echo "exit=$rc"
