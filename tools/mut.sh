#!/bin/bash
# usage: tools/mut.sh <prop> <patch.diff>   -- applies the patch to the scratch worktree /tmp/mut (reset to /repo HEAD), runs the check there
set -u
PROP=$1; PATCH=$2
git -C /tmp/mut checkout -q --detach $(git -C /repo rev-parse HEAD) 2>/dev/null
git -C /tmp/mut checkout -q -- . ; git -C /tmp/mut clean -fdq
git -C /tmp/mut apply "$PATCH" || { echo "PATCH DOES NOT APPLY"; exit 3; }
mkdir -p /tmp/mut-verif && cp /verif/properties.jsonl /verif/known_findings.json /tmp/mut-verif/
VERIF_REPO=/tmp/mut /verif/bin/vcheck -verif /tmp/mut-verif -prop $PROP -tier ${3:-quick} | grep -v '^rule ' | grep -v '^VIOLATION property' | cut -c1-400
rc=${PIPESTATUS[0]}
git -C /tmp/mut checkout -q -- . ; git -C /tmp/mut clean -fdq
echo "exit=$rc"
