#!/bin/bash
# Runs the repository test suite (guard off; no hooks exist) and compares with /root/.vp/BASELINE.json stable_pass.
export GOFLAGS=-mod=mod GOPROXY=off GOSUMDB=off GOTOOLCHAIN=local
REPO=${1:-/repo}
OUT=$(mktemp)
for m in core rocksdb server; do (cd $REPO/$m && go test -json -vet=off -count=1 -timeout 25m ./... 2>/dev/null); done > $OUT
python3 - "$OUT" <<'PY'
import json,sys
passed=set(); failed=set()
for l in open(sys.argv[1]):
    try: e=json.loads(l)
    except: continue
    if e.get('Test') and e.get('Action') in('pass','fail'):
        (passed if e['Action']=='pass' else failed).add(e['Package']+'::'+e['Test'])
b=set(json.load(open('/root/.vp/BASELINE.json'))['stable_pass'])
miss=sorted(b-passed)
print("baseline stable_pass:",len(b),"passing now:",len(passed&b),"missing:",len(miss))
for m in miss[:20]: print("  MISSING",m, "(failed)" if m in failed else "(not run)")
sys.exit(1 if miss else 0)
PY
rc=$?; rm -f $OUT; exit $rc
