#!/usr/bin/env python3
"""For every 'fix:' commit in /repo creates /verif/seeded/revert-<sha>/ holding the patch that re-introduces the
defect on top of the current HEAD (git revert --no-commit in the scratch worktree), so that each repaired defect is a
permanent regression seed for the checks."""
import json, os, subprocess
MUT='/tmp/mut'
PROP={'56a8bb1':'C03','be34a46':'C12','3566403':'C17','222a5c8':'C17','80d5101':'C09','b6bb892':'C09','0872a1b':'C09','980b5cf':'C09','7f2255f':'C06','2318dd7':'C06',
      '374e927':'C11','6ac7204':'C13','7b82da3':'C15','8adef75':'C02','041d2ad':'C18','64428d8':'C19','a45f0b3':'C19','8f55be1':'C10'}
ALSO={'8adef75':['C04'],'64428d8':['C12','C06'],'8f55be1':['C19'],'374e927':['C04']}
def sh(c):
    p=subprocess.run(c,shell=True,capture_output=True,text=True); return p.returncode,p.stdout+p.stderr
head=subprocess.check_output(['git','-C','/repo','rev-parse','HEAD'],text=True).strip()
log=subprocess.check_output(['git','-C','/repo','log','--format=%h %s','d18c233..HEAD'],text=True).splitlines()
for l in log:
    sha,subj=l.split(' ',1)
    if not subj.startswith('fix:'): continue
    sh(f'git -C {MUT} reset -q --hard; git -C {MUT} checkout -q --detach {head}; git -C {MUT} reset -q --hard; git -C {MUT} clean -fdq')
    rc,out=sh(f'git -C {MUT} revert --no-commit {sha}')
    if rc!=0:
        print('CONFLICT reverting',sha,subj); sh(f'git -C {MUT} revert --abort; git -C {MUT} reset -q --hard'); continue
    rc,diff=sh(f'git -C {MUT} diff HEAD')
    sh(f'git -C {MUT} reset -q --hard')
    d=f'/verif/seeded/revert-{sha}'
    os.makedirs(d,exist_ok=True)
    open(d+'/patch.diff','w').write(diff)
    prop=PROP.get(sha,'?')
    meta={'property':prop,'also_check':ALSO.get(sha,[]),'title':'re-introduces the defect repaired by '+sha+': '+subj[5:],
          'what_breaks':'see the commit message of '+sha+' in /repo and DESIGN.md section 4','needs_to_manifest':'see the demonstration',
          'demo':{'file':f'/verif/findings/{prop}/demo_test.go','note':'fails on the pre-fix tree, passes on the fixed tree (run recorded in DESIGN.md)'},
          'kind':'revert-of-fix'}
    if os.path.exists(d+'/meta.json'):
        old=json.load(open(d+'/meta.json'))
        if 'detection' in old: meta['detection']=old['detection']
    json.dump(meta,open(d+'/meta.json','w'),indent=1)
    print('ok',sha,prop)
