package meta

// Demonstration for the C17 findings (lost update in the merge branch, partitions never
// removed from memory). Copy into /repo/core/meta and run:
//   go test -run 'TestVerifC17' ./meta/
// Fails on d18c233, passes after the fix commits.

import (
	"context"
	"sort"
	"testing"

	"github.com/zilliztech/milvus-cdc/core/api"
)

type verifMemStore struct{ m map[string]api.MetaMsg }

func (s *verifMemStore) Get(ctx context.Context, key string, withPrefix bool) ([]api.MetaMsg, error) {
	var out []api.MetaMsg
	for _, v := range s.m {
		out = append(out, v)
	}
	return out, nil
}
func (s *verifMemStore) Put(ctx context.Context, key string, value api.MetaMsg) error {
	s.m[key] = value
	return nil
}
func (s *verifMemStore) Remove(ctx context.Context, key string) error { delete(s.m, key); return nil }

func TestVerifC17ThreeShards(t *testing.T) {
	st := &verifMemStore{m: map[string]api.MetaMsg{}}
	impl, err := NewReplicateMetaImpl(st)
	if err != nil {
		t.Fatal(err)
	}
	target := []string{"v1", "v2", "v3"}
	var ready bool
	for _, ch := range target {
		ready, err = impl.UpdateTaskDropCollectionMsg(context.Background(), api.TaskDropCollectionMsg{
			Base: api.BaseTaskMsg{TaskID: "t", MsgID: "m", TargetChannels: target, ReadyChannels: []string{ch}},
		})
		if err != nil {
			t.Fatal(err)
		}
	}
	if !ready {
		t.Errorf("after all three shards reported, the message is not ready")
	}
	got := st.m[GetMetaKey("t", "m")].Base.ReadyChannels
	sort.Strings(got)
	if len(got) != 3 {
		t.Errorf("store holds %v, want the union of all three reports", got)
	}
	mem, _ := impl.GetTaskDropCollectionMsg(context.Background(), "t", "m")
	if len(mem) != 1 || len(mem[0].Base.ReadyChannels) != 3 {
		t.Errorf("memory holds %v, want the union of all three reports", mem)
	}
}

func TestVerifC17RemovePartition(t *testing.T) {
	st := &verifMemStore{m: map[string]api.MetaMsg{}}
	impl, _ := NewReplicateMetaImpl(st)
	_, err := impl.UpdateTaskDropPartitionMsg(context.Background(), api.TaskDropPartitionMsg{
		Base: api.BaseTaskMsg{TaskID: "t", MsgID: "p", TargetChannels: []string{"v1"}, ReadyChannels: []string{"v1"}},
	})
	if err != nil {
		t.Fatal(err)
	}
	if err := impl.RemoveTaskMsg(context.Background(), "t", "p"); err != nil {
		t.Fatal(err)
	}
	if msgs, err := impl.GetTaskDropPartitionMsg(context.Background(), "t", "p"); err == nil {
		t.Errorf("partition drop message still in memory after RemoveTaskMsg: %v", msgs)
	}
}
