package reader

// Demonstration for the C02-R7 known finding: RemovePartitionInfo compares the DOWNSTREAM partition id stored in
// PartitionInfo[name] with the SOURCE partition id its callers pass, so the name->id entry of a dropped partition
// stays. A partition re-created under the same name is then re-addressed with the dropped partition's downstream id.
// Copy into /repo/core/reader; go test -count=1 -run TestVerifC02RemovePartition ./reader/

import (
	"context"
	"testing"
	"time"

	"github.com/milvus-io/milvus/pkg/util/retry"
	"github.com/sasha-s/go-deadlock"

	"github.com/zilliztech/milvus-cdc/core/api"
	"github.com/zilliztech/milvus-cdc/core/log"
	"github.com/zilliztech/milvus-cdc/core/model"
)

func TestVerifC02RemovePartitionForgetsTheDownstreamID(t *testing.T) {
	cnt := 0
	h := &replicateChannelHandler{
		replicateCtx:        context.Background(),
		replicateID:         "verifc02b",
		targetPChannel:      "dst-dml_0",
		collectionRecords:   map[int64]*model.TargetCollectionInfo{},
		collectionNames:     map[string]*model.HandlerCollectionInfo{},
		apiEventChan:        make(chan *api.ReplicateAPIEvent, 4),
		isDroppedCollection: func(int64) bool { return false },
		isDroppedPartition:  func(int64) bool { return false },
		handlerOpts:         &model.HandlerOpts{RetryOptions: []retry.Option{retry.Attempts(1), retry.Sleep(time.Millisecond)}},
		ttRateLog:           log.NewRateLog(1, log.L()),
		addCollectionLock:   &deadlock.RWMutex{},
		addCollectionCnt:    &cnt,
	}
	// source collection 5 -> downstream 77; source partition 50 "p" -> downstream partition 900
	info := &model.TargetCollectionInfo{CollectionID: 77, CollectionName: "c",
		PartitionInfo:        map[string]int64{"p": 900},
		PartitionBarrierChan: map[int64]*model.OnceWriteChan[*model.BarrierSignal]{},
		DroppedPartition:     map[int64]struct{}{}}
	h.collectionRecords[5] = info
	// the drop of source partition 50 was replayed: both callers pass the SOURCE id
	h.RemovePartitionInfo(5, "p", 50)
	if id, still := info.PartitionInfo["p"]; still {
		// a new partition "p" (source id 51) is created later: its messages are addressed with the stale id
		got, err := h.getPartitionID(5, 51, info, "p")
		t.Errorf("after the drop of partition p was replayed its downstream id %d is still cached; a re-created partition p is re-addressed with %d (err=%v)", id, got, err)
	}
}
