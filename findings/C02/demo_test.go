package reader

// Demonstration for the C02/C04 finding: in the DropPartition arm of handlePack the set of dropped SOURCE
// collection ids is probed with the message's collection id AFTER it was overwritten with the DOWNSTREAM id.
// A drop-partition message is then skipped whenever its downstream collection id happens to equal the source
// id of some dropped collection. Copy into /repo/core/reader; go test -count=1 -run TestVerifC02 ./reader/

import (
	"context"
	"testing"
	"time"

	"github.com/milvus-io/milvus-proto/go-api/v2/commonpb"
	"github.com/milvus-io/milvus-proto/go-api/v2/msgpb"
	"github.com/milvus-io/milvus/pkg/mq/msgstream"
	"github.com/milvus-io/milvus/pkg/util/retry"
	"github.com/sasha-s/go-deadlock"

	"github.com/zilliztech/milvus-cdc/core/api"
	"github.com/zilliztech/milvus-cdc/core/log"
	"github.com/zilliztech/milvus-cdc/core/model"
)

func TestVerifC02DropPartitionNotSkippedByForeignDroppedCollection(t *testing.T) {
	events := make(chan *api.ReplicateAPIEvent, 10)
	cnt := 0
	signals := make(chan *model.BarrierSignal, 1)
	h := &replicateChannelHandler{
		replicateCtx:      context.Background(),
		replicateID:       "verifc02",
		sourcePChannel:    "src-dml_0",
		targetPChannel:    "dst-dml_0",
		collectionRecords: map[int64]*model.TargetCollectionInfo{},
		collectionNames:   map[string]*model.HandlerCollectionInfo{},
		apiEventChan:      events,
		// source collection 77 (an unrelated, older collection) has been dropped
		isDroppedCollection: func(id int64) bool { return id == 77 },
		isDroppedPartition:  func(int64) bool { return false },
		handlerOpts:         &model.HandlerOpts{RetryOptions: []retry.Option{retry.Attempts(1), retry.Sleep(time.Millisecond)}},
		ttRateLog:           log.NewRateLog(1, log.L()),
		addCollectionLock:   &deadlock.RWMutex{},
		addCollectionCnt:    &cnt,
	}
	// source collection 5 is replicated to the downstream collection whose id is 77
	h.collectionRecords[5] = &model.TargetCollectionInfo{
		CollectionID: 77, CollectionName: "c", PChannel: "dst-dml_0", VChannel: "dst-dml_0_77v0",
		PartitionInfo:        map[string]int64{"p": 900},
		PartitionBarrierChan: map[int64]*model.OnceWriteChan[*model.BarrierSignal]{50: model.NewOnceWriteChan[*model.BarrierSignal](signals)},
		DroppedPartition:     map[int64]struct{}{},
	}
	h.collectionNames["c"] = &model.HandlerCollectionInfo{CollectionID: 5, PChannel: "src-dml_0"}
	GetTSManager().InitTSInfo("verifc02", "dst-dml_0", time.Second, 1, 10)
	pos := &msgpb.MsgPosition{ChannelName: "src-dml_0_5v0", MsgID: []byte("m"), Timestamp: 15}
	pack := &msgstream.MsgPack{
		BeginTs: 10, EndTs: 20,
		StartPositions: []*msgpb.MsgPosition{{ChannelName: "src-dml_0_5v0", MsgID: []byte("a"), Timestamp: 10}},
		EndPositions:   []*msgpb.MsgPosition{{ChannelName: "src-dml_0_5v0", MsgID: []byte("b"), Timestamp: 20}},
		Msgs: []msgstream.TsMsg{&msgstream.DropPartitionMsg{
			BaseMsg: msgstream.BaseMsg{BeginTimestamp: 15, EndTimestamp: 15, HashValues: []uint32{0}, MsgPosition: pos},
			DropPartitionRequest: &msgpb.DropPartitionRequest{
				Base:         &commonpb.MsgBase{MsgType: commonpb.MsgType_DropPartition},
				CollectionID: 5, CollectionName: "c", PartitionID: 50, PartitionName: "p",
			},
		}},
	}
	out := h.handlePack(false, pack, "task-A")
	select {
	case <-signals:
	default:
		t.Errorf("the drop-partition message of source collection 5 was skipped (no barrier signal); handlePack returned %v", out)
	}
}
