package server

// Demonstration for the C18 findings: credentials of a (rejected) create request end up in the log, and the
// request sanitiser leaves the Kafka SASL password in place. Copy into /repo/server;
//   go test -count=1 -run TestVerifC18 .
// The repository logger writes to stdout and to /tmp/cdc_log/cdc.log; the test inspects that file.

import (
	"fmt"
	"os"
	"strings"
	"testing"
	"time"

	"github.com/zilliztech/milvus-cdc/core/log"
	"github.com/zilliztech/milvus-cdc/server/model"
	"github.com/zilliztech/milvus-cdc/server/model/request"
)

var (
	verifSecret1 = fmt.Sprintf("verif-sasl-%d", time.Now().UnixNano())
	verifSecret2 = fmt.Sprintf("verif-token-%d", time.Now().UnixNano())
)

func verifLogContains(t *testing.T, needle string) bool {
	_ = log.L().Sync()
	b, err := os.ReadFile("/tmp/cdc_log/cdc.log")
	if err != nil {
		t.Skipf("log file not readable: %v", err)
	}
	return strings.Contains(string(b), needle)
}

func TestVerifC18RejectedCreateDoesNotLogCredentials(t *testing.T) {
	cdc := &MetaCDC{config: &CDCServerConfig{MaxNameLength: 256}}
	// rejected by validation (no collection info): the deferred failure log prints the request
	_, err := cdc.Create(&request.CreateRequest{
		KafkaConnectParam: model.KafkaConnectParam{Address: "127.0.0.1:9092", Topic: "t", EnableSASL: true,
			SASL: model.KafkaSASL{Username: "u", Password: verifSecret1}},
	})
	if err == nil {
		t.Fatal("request unexpectedly accepted")
	}
	if verifLogContains(t, verifSecret1) {
		t.Errorf("the Kafka SASL password of a rejected create request was written to the log")
	}
	_, err = cdc.Create(&request.CreateRequest{
		MilvusConnectParam: model.MilvusConnectParam{URI: "http://127.0.0.1:1", Token: verifSecret2},
	})
	if err == nil {
		t.Fatal("request unexpectedly accepted")
	}
	if verifLogContains(t, verifSecret2) {
		t.Errorf("the Milvus token of a rejected create request was written to the log")
	}
}

func TestVerifC18RequestSanitiserMasksKafkaSecret(t *testing.T) {
	s := GetRequestInfo(&request.CreateRequest{
		KafkaConnectParam: model.KafkaConnectParam{Address: "a", Topic: "t", SASL: model.KafkaSASL{Username: "u", Password: "verif-sasl-Pw9"}},
	})
	if strings.Contains(s, "verif-sasl-Pw9") {
		t.Errorf("GetRequestInfo (logged for every request) still contains the SASL password: %s", s)
	}
}
