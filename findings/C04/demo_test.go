package reader

// Demonstration for the C04-R3 known finding: AddPartition sizes the drop-partition barrier by the number of channel
// handlers that happen to have the collection registered at the moment of the call. startReadChannel registers a
// collection on an already existing handler asynchronously (`go channelHandler.AddCollection(...)`), so a partition
// added right after StartReadCollection can see one of two shards: the barrier is sized 1, the second shard never
// gets a partition barrier, and the drop-partition request is sent downstream after ONE shard reached the drop.
// Copy into /repo/core/reader; go test -count=1 -run TestVerifC04 ./reader/

import (
	"context"
	"testing"
	"time"

	"github.com/milvus-io/milvus-proto/go-api/v2/commonpb"
	"github.com/milvus-io/milvus-proto/go-api/v2/msgpb"
	"github.com/milvus-io/milvus-proto/go-api/v2/schemapb"
	"github.com/milvus-io/milvus/pkg/mq/msgstream"
	"github.com/milvus-io/milvus/pkg/util/retry"
	"github.com/sasha-s/go-deadlock"

	"github.com/zilliztech/milvus-cdc/core/api"
	"github.com/zilliztech/milvus-cdc/core/log"
	"github.com/zilliztech/milvus-cdc/core/model"
	"github.com/zilliztech/milvus-cdc/core/pb"
)

type verifC04Meta struct{}

func (verifC04Meta) UpdateTaskDropCollectionMsg(context.Context, api.TaskDropCollectionMsg) (bool, error) {
	return false, nil
}

func (verifC04Meta) GetTaskDropCollectionMsg(context.Context, string, string) ([]api.TaskDropCollectionMsg, error) {
	return nil, nil
}

func (verifC04Meta) UpdateTaskDropPartitionMsg(context.Context, api.TaskDropPartitionMsg) (bool, error) {
	return false, nil
}

func (verifC04Meta) GetTaskDropPartitionMsg(context.Context, string, string) ([]api.TaskDropPartitionMsg, error) {
	return nil, nil
}
func (verifC04Meta) RemoveTaskMsg(context.Context, string, string) error { return nil }

func verifC04Handler(events chan *api.ReplicateAPIEvent, pch string) *replicateChannelHandler {
	cnt := 0
	return &replicateChannelHandler{
		replicateCtx:        context.Background(),
		replicateID:         "verifc04",
		sourcePChannel:      pch,
		targetPChannel:      "dst-" + pch,
		collectionRecords:   map[int64]*model.TargetCollectionInfo{},
		collectionNames:     map[string]*model.HandlerCollectionInfo{},
		apiEventChan:        events,
		isDroppedCollection: func(int64) bool { return false },
		isDroppedPartition:  func(int64) bool { return false },
		handlerOpts:         &model.HandlerOpts{RetryOptions: []retry.Option{retry.Attempts(1), retry.Sleep(time.Millisecond)}},
		ttRateLog:           log.NewRateLog(1, log.L()),
		addCollectionLock:   &deadlock.RWMutex{},
		addCollectionCnt:    &cnt,
	}
}

func verifC04Record() *model.TargetCollectionInfo {
	return &model.TargetCollectionInfo{CollectionID: 77, CollectionName: "c",
		PartitionInfo:        map[string]int64{"p": 900},
		PartitionBarrierChan: map[int64]*model.OnceWriteChan[*model.BarrierSignal]{},
		DroppedPartition:     map[int64]struct{}{}}
}

func TestVerifC04PartitionBarrierSizedBySnapshot(t *testing.T) {
	events := make(chan *api.ReplicateAPIEvent, 4)
	a := verifC04Handler(events, "src-dml_0")
	b := verifC04Handler(events, "src-dml_1")
	m := &replicateChannelManager{
		replicateCtx:         context.Background(),
		replicateMeta:        verifC04Meta{},
		retryOptions:         []retry.Option{retry.Attempts(1), retry.Sleep(time.Millisecond)},
		channelHandlerMap:    map[string]*replicateChannelHandler{"src-dml_0": a, "src-dml_1": b},
		replicateCollections: map[int64]chan struct{}{},
		replicatePartitions:  map[int64]map[int64]chan struct{}{},
		apiEventChan:         events,
	}
	// a two-shard collection: shard 0 is registered, shard 1's `go AddCollection` has not run yet
	coll := &pb.CollectionInfo{ID: 5, Schema: &schemapb.CollectionSchema{Name: "c"},
		VirtualChannelNames:  []string{"src-dml_0_5v0", "src-dml_1_5v1"},
		PhysicalChannelNames: []string{"src-dml_0", "src-dml_1"}}
	a.collectionRecords[5] = verifC04Record()
	a.collectionNames["c"] = &model.HandlerCollectionInfo{CollectionID: 5, PChannel: "src-dml_0"}
	part := &pb.PartitionInfo{PartitionID: 50, PartitionName: "p", CollectionId: 5}
	if err := m.AddPartition(context.Background(), &model.DatabaseInfo{Name: "default"}, coll, part); err != nil {
		t.Fatal(err)
	}
	// shard 1 finishes registering
	b.collectionRecords[5] = verifC04Record()
	b.collectionNames["c"] = &model.HandlerCollectionInfo{CollectionID: 5, PChannel: "src-dml_1"}

	// shard 0 reaches the drop of partition p; shard 1 has not
	drop := &msgstream.DropPartitionMsg{
		BaseMsg: msgstream.BaseMsg{BeginTimestamp: 100, EndTimestamp: 100},
		DropPartitionRequest: &msgpb.DropPartitionRequest{Base: &commonpb.MsgBase{MsgType: commonpb.MsgType_DropPartition, Timestamp: 100},
			CollectionName: "c", PartitionName: "p", CollectionID: 5, PartitionID: 50},
	}
	ch := a.collectionRecords[5].PartitionBarrierChan[50]
	if ch == nil {
		t.Fatal("shard 0 has no partition barrier")
	}
	ch.Write(&model.BarrierSignal{Msg: drop, VChannel: "src-dml_0_5v0"})
	select {
	case ev := <-events:
		if ev.EventType == api.ReplicateDropPartition {
			t.Errorf("the drop of partition p was requested downstream after 1 of %d shards reached it (shard 1 has a partition barrier: %v)",
				len(coll.VirtualChannelNames), b.collectionRecords[5].PartitionBarrierChan[50] != nil)
		}
	case <-time.After(500 * time.Millisecond):
	}
}
