package reader

// Demonstration for the C06 findings (nil result of handlePack dereferenced; error event without
// task id). Copy into /repo/core/reader and run
//   go test -count=1 -run 'TestVerifC06' ./reader/
// On d18c233 the first test dies with a nil-pointer panic; after the fixes both pass.

import (
	"context"
	"testing"
	"time"

	"github.com/milvus-io/milvus-proto/go-api/v2/commonpb"
	"github.com/milvus-io/milvus-proto/go-api/v2/msgpb"
	"github.com/milvus-io/milvus/pkg/mq/msgstream"
	"github.com/milvus-io/milvus/pkg/util/retry"
	"github.com/sasha-s/go-deadlock"

	"github.com/zilliztech/milvus-cdc/core/api"
	"github.com/zilliztech/milvus-cdc/core/log"
	"github.com/zilliztech/milvus-cdc/core/model"
)

func verifC06Handler(events chan *api.ReplicateAPIEvent) *replicateChannelHandler {
	cnt := 0
	return &replicateChannelHandler{
		replicateCtx:        context.Background(),
		replicateID:         "verif",
		sourcePChannel:      "src-dml_0",
		targetPChannel:      "dst-dml_0",
		collectionRecords:   map[int64]*model.TargetCollectionInfo{},
		collectionNames:     map[string]*model.HandlerCollectionInfo{},
		apiEventChan:        events,
		isDroppedCollection: func(int64) bool { return false },
		isDroppedPartition:  func(int64) bool { return false },
		handlerOpts:         &model.HandlerOpts{RetryOptions: []retry.Option{retry.Attempts(1), retry.Sleep(time.Millisecond)}},
		ttRateLog:           log.NewRateLog(1, log.L()),
		addCollectionLock:   &deadlock.RWMutex{},
		addCollectionCnt:    &cnt,
	}
}

func TestVerifC06UnknownCollectionDoesNotCrashAndNamesTask(t *testing.T) {
	events := make(chan *api.ReplicateAPIEvent, 10)
	h := verifC06Handler(events)
	pack := &msgstream.MsgPack{
		BeginTs: 10, EndTs: 20,
		StartPositions: []*msgpb.MsgPosition{{ChannelName: "src-dml_0_1v0", MsgID: []byte("a"), Timestamp: 10}},
		EndPositions:   []*msgpb.MsgPosition{{ChannelName: "src-dml_0_1v0", MsgID: []byte("b"), Timestamp: 20}},
		Msgs: []msgstream.TsMsg{&msgstream.InsertMsg{
			BaseMsg: msgstream.BaseMsg{BeginTimestamp: 15, EndTimestamp: 15, HashValues: []uint32{0},
				MsgPosition: &msgpb.MsgPosition{ChannelName: "src-dml_0_1v0", MsgID: []byte("b")}},
			InsertRequest: &msgpb.InsertRequest{
				Base:         &commonpb.MsgBase{MsgType: commonpb.MsgType_Insert},
				CollectionID: 4242, CollectionName: "unknown", PartitionName: "_default",
			},
		}},
	}
	func() {
		defer func() {
			if e := recover(); e != nil {
				t.Fatalf("a message for an unknown collection crashed the handler: %v", e)
			}
		}()
		h.innerHandleReplicateMsg(false, api.GetReplicateMsg("src-dml_0", "unknown", 4242, pack, "task-A"))
	}()
	select {
	case ev := <-events:
		if ev.EventType != api.ReplicateError {
			t.Fatalf("unexpected event %v", ev.EventType)
		}
		if ev.TaskID != "task-A" {
			t.Errorf("error event names task %q, want %q (the server pauses exactly event.TaskID)", ev.TaskID, "task-A")
		}
	default:
		t.Errorf("no error event was sent")
	}
}
