package writer

// Demonstration for the known finding C15-R5 (also C08): the keys of the dropped-object tables
// join database / collection / partition names with "_", a character Milvus allows inside names,
// so two different objects can share one key.
// Copy into /repo/core/writer and run
//   go test -vet=off -count=1 -run 'TestVerifC15KeyCollision' ./writer/
// Fails on the current tree (recorded as a known finding: the existing TestKey in core/util pins the
// "db_collection" format, so the separator cannot be changed without editing that test).

import (
	"context"
	"testing"

	"github.com/stretchr/testify/mock"

	"github.com/milvus-io/milvus-proto/go-api/v2/commonpb"
	"github.com/milvus-io/milvus-proto/go-api/v2/milvuspb"
	"github.com/milvus-io/milvus-proto/go-api/v2/msgpb"
	"github.com/milvus-io/milvus/pkg/mq/msgstream"

	"github.com/zilliztech/milvus-cdc/core/api"
	"github.com/zilliztech/milvus-cdc/core/util"
)

// Collection "b_c" of database "a" was dropped at time 500 (snapshot entry or replayed drop).
// Collection "c" of database "a_b" is alive. An index creation on a_b.c stamped 100 must reach the
// downstream; with the shared key "a_b_c" it is skipped as "object dropped".
func TestVerifC15KeyCollision(t *testing.T) {
	dataHandler, w := GetMockObjs(t)
	cw := w.(*ChannelWriter)
	for _, db := range []string{"a", "a_b"} {
		ck, _ := util.GetDBInfoKeys(db)
		cw.dbInfos.Store(ck, 1)
	}
	_, droppedKey := util.GetCollectionInfoKeys("b_c", "a")
	cw.collectionInfos.Store(droppedKey, 500)

	dataHandler.EXPECT().DescribeCollection(mock.Anything, mock.Anything).Return(nil).Maybe()
	called := false
	dataHandler.EXPECT().CreateIndex(mock.Anything, mock.Anything).RunAndReturn(func(ctx context.Context, p *api.CreateIndexParam) error {
		called = true
		return nil
	}).Maybe()
	_, err := w.HandleOpMessagePack(context.Background(), &msgstream.MsgPack{
		EndPositions: []*msgpb.MsgPosition{{ChannelName: "rpc", MsgID: []byte("x"), Timestamp: 100}},
		Msgs: []msgstream.TsMsg{&msgstream.CreateIndexMsg{
			BaseMsg: msgstream.BaseMsg{BeginTimestamp: 100, EndTimestamp: 100},
			CreateIndexRequest: &milvuspb.CreateIndexRequest{
				Base:   &commonpb.MsgBase{MsgType: commonpb.MsgType_CreateIndex},
				DbName: "a_b", CollectionName: "c", FieldName: "f", IndexName: "idx",
			},
		}},
	})
	if err != nil {
		t.Fatal(err)
	}
	if !called {
		t.Errorf("CreateIndex on the live collection a_b.c was skipped because the dropped collection a.b_c shares its key %q", droppedKey)
	}
}
