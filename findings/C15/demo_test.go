package reader

// Demonstration for the C15 finding (stale database name in the partition loop of GetAllDroppedObj when the
// downstream is not Milvus). Uses an embedded etcd (go.etcd.io/etcd/server/v3/embed is in the module cache).
// Copy into /repo/core/reader; go test -count=1 -run TestVerifC15 ./reader/ ; afterwards `git checkout core/go.mod`.

import (
	"context"
	"fmt"
	"net/url"
	"testing"
	"time"

	"github.com/golang/protobuf/proto"
	clientv3 "go.etcd.io/etcd/client/v3"
	"go.etcd.io/etcd/server/v3/embed"

	"github.com/milvus-io/milvus-proto/go-api/v2/schemapb"
	"github.com/milvus-io/milvus/pkg/util/typeutil"

	"github.com/zilliztech/milvus-cdc/core/config"
	"github.com/zilliztech/milvus-cdc/core/pb"
	"github.com/zilliztech/milvus-cdc/core/util"
)

func verifEtcd(t *testing.T, port int) (string, *clientv3.Client) {
	cfg := embed.NewConfig()
	cfg.Dir = t.TempDir()
	u1, _ := url.Parse(fmt.Sprintf("http://127.0.0.1:%d", port))
	u2, _ := url.Parse(fmt.Sprintf("http://127.0.0.1:%d", port+1))
	cfg.LCUrls, cfg.ACUrls = []url.URL{*u1}, []url.URL{*u1}
	cfg.LPUrls, cfg.APUrls = []url.URL{*u2}, []url.URL{*u2}
	cfg.InitialCluster = cfg.InitialClusterFromName(cfg.Name)
	cfg.LogLevel = "error"
	e, err := embed.StartEtcd(cfg)
	if err != nil {
		t.Fatal(err)
	}
	t.Cleanup(e.Close)
	select {
	case <-e.Server.ReadyNotify():
	case <-time.After(20 * time.Second):
		t.Fatal("etcd not ready")
	}
	cli, err := clientv3.New(clientv3.Config{Endpoints: []string{u1.Host}, DialTimeout: 5 * time.Second})
	if err != nil {
		t.Fatal(err)
	}
	t.Cleanup(func() { cli.Close() })
	return u1.Host, cli
}

func verifPut(t *testing.T, cli *clientv3.Client, key string, m proto.Message) {
	b, err := proto.Marshal(m)
	if err != nil {
		t.Fatal(err)
	}
	if _, err := cli.Put(context.Background(), key, string(b)); err != nil {
		t.Fatal(err)
	}
}

func TestVerifC15PartitionKeysUseTheirOwnDatabase(t *testing.T) {
	addr, cli := verifEtcd(t, 23790)
	root := "by-dev/meta/"
	cli.Put(context.Background(), "by-dev/kv/gid/timestamp", string(typeutil.Uint64ToBytesBigEndian(uint64(time.Now().UnixNano()))))
	verifPut(t, cli, root+databasePrefix+"/1", &pb.DatabaseInfo{Id: 1, Name: "db1", State: pb.DatabaseState_DatabaseCreated})
	verifPut(t, cli, root+databasePrefix+"/2", &pb.DatabaseInfo{Id: 2, Name: "db2", State: pb.DatabaseState_DatabaseCreated})
	verifPut(t, cli, root+collectionPrefix+"/1/100", &pb.CollectionInfo{ID: 100, DbId: 1, Schema: &schemapb.CollectionSchema{Name: "a"}, State: pb.CollectionState_CollectionCreated, CreateTime: 10})
	verifPut(t, cli, root+collectionPrefix+"/2/200", &pb.CollectionInfo{ID: 200, DbId: 2, Schema: &schemapb.CollectionSchema{Name: "b"}, State: pb.CollectionState_CollectionCreated, CreateTime: 10})
	// a dropped partition "px" of collection a, which lives in db1
	verifPut(t, cli, root+partitionPrefix+"/100/1001", &pb.PartitionInfo{PartitionID: 1001, PartitionName: "px", CollectionId: 100, State: pb.PartitionState_PartitionDropped})

	op, err := NewEtcdOp(config.EtcdServerConfig{Address: []string{addr}, RootPath: "by-dev", MetaSubPath: "meta"}, "_default", config.EtcdRetryConfig{}, nil /* downstream is not milvus */)
	if err != nil {
		t.Fatal(err)
	}
	res := op.GetAllDroppedObj()
	_, want := util.GetPartitionInfoKeys("px", "a", "db1")
	if _, ok := res[util.DroppedPartitionKey][want]; !ok {
		t.Errorf("dropped partition px of db1.a has no entry %q; entries: %v", want, res[util.DroppedPartitionKey])
	}
}
