package reader

// Demonstration for the C03-R2 known finding: the closing tick of a pack is published under the channel's key lock
// inside handlePack, but the pack is enqueued on the downstream queue afterwards, outside that lock. Two stream
// goroutines of one handler can therefore enqueue in the opposite order of their ticks. The test runs the REAL
// innerHandleReplicateMsg from two goroutines (as two collections sharing one channel do) and looks for a closing
// tick that is lower than its predecessor in the downstream queue.
// Copy into /repo/core/reader;  go test -count=1 -run TestVerifC03Window ./reader/   (schedule dependent: the
// test repeats until the window is hit or 20000 packs per stream were sent).

import (
	"context"
	"sync"
	"testing"
	"time"

	"github.com/milvus-io/milvus-proto/go-api/v2/commonpb"
	"github.com/milvus-io/milvus-proto/go-api/v2/msgpb"
	"github.com/milvus-io/milvus/pkg/mq/msgstream"
	"github.com/milvus-io/milvus/pkg/util/retry"
	"github.com/sasha-s/go-deadlock"

	"github.com/zilliztech/milvus-cdc/core/api"
	"github.com/zilliztech/milvus-cdc/core/log"
	"github.com/zilliztech/milvus-cdc/core/model"
)

func TestVerifC03WindowEnqueueOrderFollowsTickOrder(t *testing.T) {
	deadlock.Opts.Disable = true
	cnt := 0
	const n = 20000
	h := &replicateChannelHandler{
		replicateCtx:        context.Background(),
		replicateID:         "verifc03w",
		sourcePChannel:      "src-dml_0",
		targetPChannel:      "dst-dml_0",
		collectionRecords:   map[int64]*model.TargetCollectionInfo{},
		collectionNames:     map[string]*model.HandlerCollectionInfo{},
		apiEventChan:        make(chan *api.ReplicateAPIEvent, 10),
		isDroppedCollection: func(int64) bool { return false },
		isDroppedPartition:  func(int64) bool { return false },
		handlerOpts:         &model.HandlerOpts{RetryOptions: []retry.Option{retry.Attempts(1), retry.Sleep(time.Millisecond)}},
		ttRateLog:           log.NewRateLog(0.0001, log.L()),
		addCollectionLock:   &deadlock.RWMutex{},
		addCollectionCnt:    &cnt,
	}
	GetTSManager().InitTSInfo("verifc03w", "dst-dml_0", 0, 1, 2*n+10)
	out := GetTSManager().GetTargetMsgChan("verifc03w", "dst-dml_0")
	var wg sync.WaitGroup
	for g := 0; g < 2; g++ {
		wg.Add(1)
		go func(g int) {
			defer wg.Done()
			for i := 0; i < n; i++ {
				ts := uint64(1000 + i*2 + g)
				p := []*msgpb.MsgPosition{{ChannelName: "src-dml_0_5v0", MsgID: []byte("m"), Timestamp: ts}}
				pack := &msgstream.MsgPack{BeginTs: ts, EndTs: ts, StartPositions: p, EndPositions: []*msgpb.MsgPosition{{ChannelName: "src-dml_0_5v0", MsgID: []byte("m"), Timestamp: ts}}}
				h.innerHandleReplicateMsg(false, api.GetReplicateMsg("src-dml_0", "c", int64(5+g), pack, "task"))
			}
		}(g)
	}
	wg.Wait()
	var last uint64
	seen := 0
	for len(out) > 0 {
		m := <-out
		msgs := m.MsgPack.Msgs
		tick := msgs[len(msgs)-1]
		if tick.Type() != commonpb.MsgType_TimeTick {
			t.Fatalf("pack without closing tick")
		}
		seen++
		if tick.EndTs() < last {
			t.Errorf("downstream queue of dst-dml_0: closing tick %d is enqueued after closing tick %d (pack #%d)", tick.EndTs(), last, seen)
			return
		}
		last = tick.EndTs()
	}
	t.Logf("%d packs, no inversion observed in this run", seen)
}
