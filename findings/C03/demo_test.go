package reader

// Demonstration for the C03 finding "closing tick goes down on a tick-only pack". Two source streams feed one
// downstream channel; stream B's clock is ahead. After B's pack was emitted (closing tick T_B), a tick-only pack of
// stream A whose source time is far below T_B is emitted with closing tick = A's raw end timestamp < T_B.
// Copy into /repo/core/reader;  go test -count=1 -run TestVerifC03 ./reader/

import (
	"context"
	"testing"
	"time"

	"github.com/milvus-io/milvus-proto/go-api/v2/commonpb"
	"github.com/milvus-io/milvus-proto/go-api/v2/msgpb"
	"github.com/milvus-io/milvus/pkg/mq/msgstream"
	"github.com/milvus-io/milvus/pkg/util/retry"
	"github.com/sasha-s/go-deadlock"

	"github.com/zilliztech/milvus-cdc/core/api"
	"github.com/zilliztech/milvus-cdc/core/log"
	"github.com/zilliztech/milvus-cdc/core/model"
)

func verifC03Tick(t *testing.T, p *api.ReplicateMsg) uint64 {
	if p == nil || p == api.EmptyMsgPack {
		t.Fatalf("no pack emitted")
	}
	last := p.MsgPack.Msgs[len(p.MsgPack.Msgs)-1]
	if last.Type() != commonpb.MsgType_TimeTick {
		t.Fatalf("pack does not end with a tick")
	}
	return last.EndTs()
}

func TestVerifC03ClosingTickNeverDecreases(t *testing.T) {
	cnt := 0
	h := &replicateChannelHandler{
		replicateCtx:        context.Background(),
		replicateID:         "verifc03",
		sourcePChannel:      "src-dml_0",
		targetPChannel:      "dst-dml_0",
		collectionRecords:   map[int64]*model.TargetCollectionInfo{},
		collectionNames:     map[string]*model.HandlerCollectionInfo{},
		apiEventChan:        make(chan *api.ReplicateAPIEvent, 10),
		isDroppedCollection: func(int64) bool { return false },
		isDroppedPartition:  func(int64) bool { return false },
		handlerOpts:         &model.HandlerOpts{RetryOptions: []retry.Option{retry.Attempts(1), retry.Sleep(time.Millisecond)}},
		ttRateLog:           log.NewRateLog(1, log.L()),
		addCollectionLock:   &deadlock.RWMutex{},
		addCollectionCnt:    &cnt,
	}
	h.collectionRecords[5] = &model.TargetCollectionInfo{CollectionID: 77, CollectionName: "c", PChannel: "dst-dml_0", VChannel: "dst-dml_0_77v0",
		PartitionInfo: map[string]int64{"_default": 900}, PartitionBarrierChan: map[int64]*model.OnceWriteChan[*model.BarrierSignal]{}, DroppedPartition: map[int64]struct{}{}}
	// tick period 0: every pack is closed with a tick
	GetTSManager().InitTSInfo("verifc03", "dst-dml_0", 0, 1, 10)
	pos := func(ts uint64) []*msgpb.MsgPosition {
		return []*msgpb.MsgPosition{{ChannelName: "src-dml_0_5v0", MsgID: []byte("m"), Timestamp: ts}}
	}
	// stream B (clock ahead): a data pack at source time 1000..1010
	packB := &msgstream.MsgPack{BeginTs: 1000, EndTs: 1010, StartPositions: pos(1000), EndPositions: pos(1010),
		Msgs: []msgstream.TsMsg{&msgstream.InsertMsg{
			BaseMsg: msgstream.BaseMsg{BeginTimestamp: 1005, EndTimestamp: 1005, HashValues: []uint32{0}, MsgPosition: pos(1005)[0]},
			InsertRequest: &msgpb.InsertRequest{Base: &commonpb.MsgBase{MsgType: commonpb.MsgType_Insert}, CollectionID: 5, CollectionName: "c", PartitionName: "_default", NumRows: 1, Timestamps: []uint64{1005}, RowIDs: []int64{1}},
		}}}
	tickB := verifC03Tick(t, h.handlePack(false, packB, "task-B"))
	// stream A (clock behind): a tick-only pack at source time 50..60
	packA := &msgstream.MsgPack{BeginTs: 50, EndTs: 60, StartPositions: pos(50), EndPositions: pos(60)}
	tickA := verifC03Tick(t, h.handlePack(false, packA, "task-A"))
	if tickA < tickB {
		t.Errorf("closing tick went down on channel dst-dml_0: %d after %d", tickA, tickB)
	}
}
