package writer

// Demonstration for the C09 findings. Copy into /repo/core/writer and run
//   go test -count=1 -run 'TestVerifC09' ./writer/
// Fails on d18c233, passes after the C09 fix commits.

import (
	"context"
	"errors"
	"testing"

	"github.com/stretchr/testify/mock"

	"github.com/milvus-io/milvus-proto/go-api/v2/commonpb"
	"github.com/milvus-io/milvus-proto/go-api/v2/milvuspb"
	"github.com/milvus-io/milvus-proto/go-api/v2/msgpb"
	"github.com/milvus-io/milvus-proto/go-api/v2/schemapb"
	"github.com/milvus-io/milvus/pkg/mq/msgstream"

	"github.com/zilliztech/milvus-cdc/core/api"
	"github.com/zilliztech/milvus-cdc/core/pb"
	"github.com/zilliztech/milvus-cdc/core/util"
)

func verifOpPack(m msgstream.TsMsg) *msgstream.MsgPack {
	return &msgstream.MsgPack{
		EndPositions: []*msgpb.MsgPosition{{ChannelName: "rpc", MsgID: []byte("x"), Timestamp: 100}},
		Msgs:         []msgstream.TsMsg{m},
	}
}

// alterIndex: a collection living in database "foo" must not be altered in the default database.
func TestVerifC09AlterIndexDatabase(t *testing.T) {
	dataHandler, w := GetMockObjs(t)
	cw := w.(*ChannelWriter)
	ck, _ := util.GetDBInfoKeys("foo")
	cw.dbInfos.Store(ck, 1)
	cck, _ := util.GetCollectionInfoKeys("col", "foo")
	cw.collectionInfos.Store(cck, 1)
	var got *api.AlterIndexParam
	dataHandler.EXPECT().AlterIndex(mock.Anything, mock.Anything).RunAndReturn(func(ctx context.Context, p *api.AlterIndexParam) error {
		got = p
		return nil
	}).Once()
	_, err := w.HandleOpMessagePack(context.Background(), verifOpPack(&msgstream.AlterIndexMsg{
		BaseMsg: msgstream.BaseMsg{BeginTimestamp: 100, EndTimestamp: 100},
		AlterIndexRequest: &milvuspb.AlterIndexRequest{
			Base:   &commonpb.MsgBase{MsgType: commonpb.MsgType_AlterIndex},
			DbName: "foo", CollectionName: "col", IndexName: "idx",
		},
	}))
	if err != nil {
		t.Fatal(err)
	}
	if got.Database != "foo" {
		t.Errorf("AlterIndex routed to database %q, want %q", got.Database, "foo")
	}
}

// releasePartitions with a whole-database mapping foo -> bar must be routed to bar.
func TestVerifC09ReleasePartitionsDatabase(t *testing.T) {
	dataHandler, w := GetMockObjs(t)
	cw := w.(*ChannelWriter)
	cw.UpdateNameMappings(map[string]string{"foo.*": "bar.*"})
	ck, _ := util.GetDBInfoKeys("foo")
	cw.dbInfos.Store(ck, 1)
	cck, _ := util.GetCollectionInfoKeys("col", "foo")
	cw.collectionInfos.Store(cck, 1)
	pck, _ := util.GetPartitionInfoKeys("p1", "col", "foo")
	cw.partitionInfos.Store(pck, 1)
	var got *api.ReleasePartitionsParam
	dataHandler.EXPECT().ReleasePartitions(mock.Anything, mock.Anything).RunAndReturn(func(ctx context.Context, p *api.ReleasePartitionsParam) error {
		got = p
		return nil
	}).Once()
	_, err := w.HandleOpMessagePack(context.Background(), verifOpPack(&msgstream.ReleasePartitionsMsg{
		BaseMsg: msgstream.BaseMsg{BeginTimestamp: 100, EndTimestamp: 100},
		ReleasePartitionsRequest: &milvuspb.ReleasePartitionsRequest{
			Base:   &commonpb.MsgBase{MsgType: commonpb.MsgType_ReleasePartitions},
			DbName: "foo", CollectionName: "col", PartitionNames: []string{"p1"},
		},
	}))
	if err != nil {
		t.Fatal(err)
	}
	if got.Database != "bar" {
		t.Errorf("ReleasePartitions routed to database %q, want the mapped %q", got.Database, "bar")
	}
}

// createPartition: downstream call fails because the collection was dropped meanwhile (the drop
// is recorded under the SOURCE names); the re-check must find it although the database is mapped.
func TestVerifC09CreatePartitionRecheckUsesSourceNames(t *testing.T) {
	dataHandler, w := GetMockObjs(t)
	cw := w.(*ChannelWriter)
	cw.UpdateNameMappings(map[string]string{"foo.*": "bar.*"})
	ck, _ := util.GetDBInfoKeys("foo")
	cw.dbInfos.Store(ck, 1)
	cck, cdk := util.GetCollectionInfoKeys("col", "foo")
	cw.collectionInfos.Store(cck, 1)
	dataHandler.EXPECT().CreatePartition(mock.Anything, mock.Anything).RunAndReturn(func(ctx context.Context, p *api.CreatePartitionParam) error {
		// the collection is dropped (at ts 200 >= event ts 100) while the call is in flight
		cw.collectionInfos.Store(cdk, 200)
		cw.collectionInfos.Delete(cck)
		return errors.New("collection not found")
	}).Once()
	// any probe under a wrong (mapped) key falls through to these and fails
	dataHandler.EXPECT().DescribeDatabase(mock.Anything, mock.Anything).Return(errors.New("no such database")).Maybe()
	dataHandler.EXPECT().DescribeCollection(mock.Anything, mock.Anything).Return(errors.New("no such collection")).Maybe()
	err := w.HandleReplicateAPIEvent(context.Background(), &api.ReplicateAPIEvent{
		EventType:      api.ReplicateCreatePartition,
		CollectionInfo: &pb.CollectionInfo{Schema: &schemapb.CollectionSchema{Name: "col"}},
		PartitionInfo:  &pb.PartitionInfo{PartitionName: "p1"},
		ReplicateInfo:  &commonpb.ReplicateInfo{IsReplicate: true, MsgTimestamp: 100},
		ReplicateParam: api.ReplicateParam{Database: "foo"},
	})
	if err != nil {
		t.Errorf("create partition on a collection dropped meanwhile must be skipped, got error: %v", err)
	}
}

// mapping precedence: with foo.* and foo.c both present the collection-level entry must always win.
func TestVerifC09MappingPrecedence(t *testing.T) {
	for i := 0; i < 300; i++ {
		_, w := GetMockObjs(t)
		cw := w.(*ChannelWriter)
		cw.UpdateNameMappings(map[string]string{"foo.*": "bar.*", "foo.c": "baz.c2", "foo.d": "baz.d2", "foo.e": "baz.e2"})
		db, col := cw.mapDBAndCollectionName("foo", "c")
		if db != "baz" || col != "c2" {
			t.Fatalf("iteration %d: foo.c mapped to %s.%s, want baz.c2", i, db, col)
		}
	}
}
