package store

// Demonstration for the C12 findings (known, not repaired: no MySQL in the sandbox to validate a repair).
// A recording fake database/sql driver shows the statements the MySQL stores send:
//  - deleting task "t1" under root path /cdcA and under root path /cdcB sends the very same DELETE statement
//    with the very same arguments: on a shared database each server deletes the other's record of task t1;
//  - the replicate store's prefix read of root "cdc" sends LIKE 'cdc%', which by SQL semantics also matches
//    every key of root "cdc2".
// Copy into /repo/server/store;  go test -vet=off -count=1 -run TestVerifC12 ./store/

import (
	"context"
	"database/sql"
	"database/sql/driver"
	"fmt"
	"io"
	"strings"
	"sync"
	"testing"

	"github.com/zilliztech/milvus-cdc/core/log"
	"github.com/zilliztech/milvus-cdc/server/model/meta"
)

var (
	verifMu  sync.Mutex
	verifLog []string
)

type verifDrv struct{}
type verifConn struct{}
type verifStmt struct{ q string }
type verifRows struct{}

func (verifDrv) Open(name string) (driver.Conn, error)  { return verifConn{}, nil }
func (verifConn) Prepare(q string) (driver.Stmt, error) { return verifStmt{q}, nil }
func (verifConn) Close() error                          { return nil }
func (verifConn) Begin() (driver.Tx, error)             { return nil, fmt.Errorf("no tx") }
func (verifStmt) Close() error                          { return nil }
func (verifStmt) NumInput() int                         { return -1 }
func (s verifStmt) Exec(args []driver.Value) (driver.Result, error) {
	verifMu.Lock()
	verifLog = append(verifLog, fmt.Sprintf("%s %v", s.q, args))
	verifMu.Unlock()
	return driver.RowsAffected(1), nil
}
func (s verifStmt) Query(args []driver.Value) (driver.Rows, error) {
	verifMu.Lock()
	verifLog = append(verifLog, fmt.Sprintf("%s %v", s.q, args))
	verifMu.Unlock()
	return verifRows{}, nil
}
func (verifRows) Columns() []string              { return []string{"v"} }
func (verifRows) Close() error                   { return nil }
func (verifRows) Next(dest []driver.Value) error { return io.EOF }

func verifDB(t *testing.T) *sql.DB {
	found := false
	for _, d := range sql.Drivers() {
		if d == "verif-recording" {
			found = true
		}
	}
	if !found {
		sql.Register("verif-recording", verifDrv{})
	}
	db, err := sql.Open("verif-recording", "")
	if err != nil {
		t.Fatal(err)
	}
	return db
}

func TestVerifC12MysqlDeleteIsScopedToItsRootPath(t *testing.T) {
	db := verifDB(t)
	send := func(root string) []string {
		verifLog = nil
		info := &TaskInfoMysqlStore{db: db, rootPath: root, log: log.L()}
		pos := &TaskCollectionPositionMysqlStore{db: db, rootPath: root, log: log.L()}
		_ = info.Delete(context.Background(), &meta.TaskInfo{TaskID: "t1"}, nil)
		_ = pos.Delete(context.Background(), &meta.TaskCollectionPosition{TaskID: "t1"}, nil)
		return append([]string{}, verifLog...)
	}
	a, b := send("/cdcA"), send("/cdcB")
	for i := range a {
		if a[i] == b[i] {
			t.Errorf("server with root /cdcA and server with root /cdcB send the identical statement %q: each deletes the other's records of task t1", a[i])
		}
	}
}

func TestVerifC12ReplicateStorePrefixReadStaysInsideItsRoot(t *testing.T) {
	db := verifDB(t)
	verifLog = nil
	s := &MySQLReplicateStore{db: db, rootPath: "cdc", log: log.L()}
	_, _ = s.Get(context.Background(), "", true)
	if len(verifLog) != 1 {
		t.Fatalf("statements: %v", verifLog)
	}
	if strings.Contains(verifLog[0], "LIKE 'cdc%'") {
		t.Errorf("prefix read of root \"cdc\" sends %q, which also matches every key of root \"cdc2\"", verifLog[0])
	}
}
