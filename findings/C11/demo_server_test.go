package server

// Demonstration for the C11 findings. Copy into /repo/server; go test -vet=off -count=1 -run TestVerifC11 .
//  (a) pauseTaskWithReason sets the in-memory state to Paused although the persisted update failed: the API
//      (get/list read the store) keeps reporting Running while the server itself treats the task as paused.
//  (b) startInternal registers the quit function and increments the per-target reference count BEFORE the
//      persisted state update; when that update fails the error is returned without undoing either, so every
//      failed resume leaks one reference and the target's entity is never released.

import (
	"context"
	"errors"
	"testing"

	"github.com/milvus-io/milvus/pkg/mq/msgdispatcher"
	"github.com/milvus-io/milvus/pkg/util/typeutil"
	"github.com/stretchr/testify/mock"

	coreapi "github.com/zilliztech/milvus-cdc/core/api"
	"github.com/zilliztech/milvus-cdc/core/mocks"
	serverapi "github.com/zilliztech/milvus-cdc/server/api"
	"github.com/zilliztech/milvus-cdc/server/model"
	"github.com/zilliztech/milvus-cdc/server/model/meta"
)

type verifPosStore11 struct {
	puts []*meta.TaskCollectionPosition
}

func (s *verifPosStore11) Put(ctx context.Context, o *meta.TaskCollectionPosition, txn any) error {
	s.puts = append(s.puts, o)
	return nil
}
func (s *verifPosStore11) Get(ctx context.Context, o *meta.TaskCollectionPosition, txn any) ([]*meta.TaskCollectionPosition, error) {
	return nil, nil
}
func (s *verifPosStore11) Delete(ctx context.Context, o *meta.TaskCollectionPosition, txn any) error {
	return nil
}

type verifInfoStore11 struct {
	tasks   map[string]*meta.TaskInfo
	failPut bool
}

func (s *verifInfoStore11) Put(ctx context.Context, o *meta.TaskInfo, txn any) error {
	if s.failPut {
		return errors.New("injected store failure")
	}
	c := *o
	s.tasks[o.TaskID] = &c
	return nil
}
func (s *verifInfoStore11) Get(ctx context.Context, o *meta.TaskInfo, txn any) ([]*meta.TaskInfo, error) {
	if t, ok := s.tasks[o.TaskID]; ok {
		c := *t
		return []*meta.TaskInfo{&c}, nil
	}
	return nil, nil
}
func (s *verifInfoStore11) Delete(ctx context.Context, o *meta.TaskInfo, txn any) error { return nil }

type verifFactory11 struct {
	pos  *verifPosStore11
	info *verifInfoStore11
}

func (f *verifFactory11) GetTaskInfoMetaStore(ctx context.Context) serverapi.MetaStore[*meta.TaskInfo] {
	return f.info
}
func (f *verifFactory11) GetTaskCollectionPositionMetaStore(ctx context.Context) serverapi.MetaStore[*meta.TaskCollectionPosition] {
	return f.pos
}
func (f *verifFactory11) GetReplicateStore(ctx context.Context) coreapi.ReplicateStore { return nil }
func (f *verifFactory11) Txn(ctx context.Context) (any, func(err error) error, error) {
	return nil, func(err error) error { return err }, nil
}


type verifDispatcher struct{}

func (verifDispatcher) Register(ctx context.Context, c *msgdispatcher.StreamConfig) (<-chan *msgdispatcher.MsgPack, error) {
	return make(chan *msgdispatcher.MsgPack), nil
}
func (verifDispatcher) Deregister(vchannel string) {}
func (verifDispatcher) Close()                     {}

func verifC11CDC(state meta.TaskState) (*MetaCDC, *verifFactory11, *meta.TaskInfo) {
	cdc := &MetaCDC{config: &CDCServerConfig{MaxNameLength: 256, MaxTaskNum: 10}}
	cdc.config.SourceConfig.ReplicateChan = "by-dev-replicate-msg"
	cdc.collectionNames.data = map[string][]string{}
	cdc.collectionNames.excludeData = map[string][]string{}
	cdc.collectionNames.extraInfos = map[string]model.ExtraInfo{}
	cdc.collectionNames.nameMapping = map[string]map[string]string{}
	cdc.cdcTasks.data = map[string]*meta.TaskInfo{}
	cdc.replicateEntityMap.data = map[string]*ReplicateEntity{}
	info := &meta.TaskInfo{TaskID: "t1", KafkaConnectParam: model.KafkaConnectParam{Address: "kafka:9092", Topic: "t"},
		CollectionInfos: []model.CollectionInfo{{Name: "a"}}, State: state}
	f := &verifFactory11{pos: &verifPosStore11{}, info: &verifInfoStore11{tasks: map[string]*meta.TaskInfo{}}}
	_ = f.info.Put(context.Background(), info, nil)
	cdc.metaStoreFactory = f
	cdc.cdcTasks.data[info.TaskID] = info
	return cdc, f, info
}

func TestVerifC11PauseKeepsMemoryAndStoreInAgreement(t *testing.T) {
	cdc, f, info := verifC11CDC(meta.TaskStateRunning)
	f.info.failPut = true
	err := cdc.pauseTaskWithReason(info.TaskID, "downstream rejected a write", []meta.TaskState{})
	if err == nil {
		t.Fatal("the injected store failure was not reported")
	}
	persisted := f.info.tasks[info.TaskID].State
	memory := cdc.cdcTasks.data[info.TaskID].State
	if persisted != memory {
		t.Errorf("after a pause whose persisted update failed, the store (and get/list) say %s but the server's in-memory state is %s", persisted, memory)
	}
}

func TestVerifC11FailedResumeDoesNotLeakAReference(t *testing.T) {
	cdc, f, info := verifC11CDC(meta.TaskStatePaused)
	cm := mocks.NewChannelManager(t)
	metaOp := mocks.NewMetaOp(t)
	metaOp.EXPECT().UnsubscribeEvent(mock.Anything, mock.Anything).Return().Maybe()
	released := false
	entity := &ReplicateEntity{channelManager: cm, metaOp: metaOp, mqDispatcher: verifDispatcher{},
		entityQuitFunc: func() { released = true }, taskQuitFuncs: typeutil.NewConcurrentMap[string, func()]()}
	cdc.replicateEntityMap.data["kafka:9092"] = entity
	f.info.failPut = true
	for i := 0; i < 2; i++ { // two resume attempts while the meta store is failing
		if err := cdc.startInternal(info, false); err == nil {
			t.Fatal("the injected store failure was not reported")
		}
	}
	f.info.failPut = false
	// the task never ran; now it is paused/removed for good: the target has no running task left
	_ = cdc.pauseTaskWithReason(info.TaskID, "cleanup", []meta.TaskState{})
	if !released || len(cdc.replicateEntityMap.data) != 0 {
		t.Errorf("no task of the target is running, but its replication entity was not released (reference count %d)", entity.refCnt.Load())
	}
}
