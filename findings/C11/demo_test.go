package reader

// Demonstration for the C11 finding: after StopReadCollection closes a barrier's CloseChan the barrier
// goroutine spins forever. Copy into /repo/core/reader; go test -count=1 -run TestVerifC11 ./reader/

import (
	"runtime"
	"syscall"
	"testing"
	"time"
)

func verifCPU() time.Duration {
	var ru syscall.Rusage
	_ = syscall.Getrusage(syscall.RUSAGE_SELF, &ru)
	return time.Duration(ru.Utime.Nano() + ru.Stime.Nano())
}

func TestVerifC11ClosedBarrierLeavesNoBusyWork(t *testing.T) {
	before := runtime.NumGoroutine()
	b := NewBarrier(2, func(msgTs uint64, b *Barrier) {}, nil)
	close(b.CloseChan)
	time.Sleep(50 * time.Millisecond)
	c0 := verifCPU()
	time.Sleep(300 * time.Millisecond)
	used := verifCPU() - c0
	if n := runtime.NumGoroutine(); n > before {
		t.Errorf("barrier goroutine still alive after its CloseChan was closed (%d goroutines, %d before)", n, before)
	}
	if used > 150*time.Millisecond {
		t.Errorf("closed barrier burned %v of CPU in 300ms of wall time (busy loop)", used)
	}
}
