package server

// Demonstration for the C19-R3 / C12-R5 findings: adversarial but structurally valid create requests.
//  - a collection / database / mapping name containing '.' makes util.GetCollectionNameFromFull panic inside the
//    handler (net/http recovers the goroutine but the client gets no JSON answer);
//  - a task id containing '/' is accepted and becomes a nested key segment of the metadata store.
// Copy into /repo/server;  go test -vet=off -count=1 -run TestVerifC19 .

import (
	"context"
	"testing"

	"github.com/milvus-io/milvus-proto/go-api/v2/msgpb"

	coreapi "github.com/zilliztech/milvus-cdc/core/api"
	"github.com/zilliztech/milvus-cdc/core/util"
	serverapi "github.com/zilliztech/milvus-cdc/server/api"

	"github.com/zilliztech/milvus-cdc/server/model"
	"github.com/zilliztech/milvus-cdc/server/model/meta"
	"github.com/zilliztech/milvus-cdc/server/model/request"
)

func verifC19CDC() *MetaCDC {
	cdc := &MetaCDC{config: &CDCServerConfig{MaxNameLength: 256, MaxTaskNum: 10}}
	cdc.collectionNames.data = map[string][]string{}
	cdc.collectionNames.excludeData = map[string][]string{}
	cdc.collectionNames.extraInfos = map[string]model.ExtraInfo{}
	cdc.collectionNames.nameMapping = map[string]map[string]string{}
	cdc.cdcTasks.data = map[string]*meta.TaskInfo{}
	return cdc
}

func verifC19Create(t *testing.T, req *request.CreateRequest) (err error, panicked any) {
	defer func() { panicked = recover() }()
	_, err = verifC19CDC().Create(req)
	return
}

func TestVerifC19DottedNamesAreRejectedNotPanicking(t *testing.T) {
	kafka := model.KafkaConnectParam{Address: "127.0.0.1:9092", Topic: "t"}
	for name, req := range map[string]*request.CreateRequest{
		"collection name with dot in a name mapping": {
			KafkaConnectParam: kafka,
			CollectionInfos:   []model.CollectionInfo{{Name: "a.b"}},
			NameMapping:       []model.NameMapping{{SourceDB: "default", TargetDB: "default", CollectionMapping: map[string]string{"a.b": "c"}}},
		},
		"database name with dot in a name mapping": {
			KafkaConnectParam: kafka,
			CollectionInfos:   []model.CollectionInfo{{Name: "a"}},
			NameMapping:       []model.NameMapping{{SourceDB: "x.y", TargetDB: "z"}},
		},
	} {
		err, p := verifC19Create(t, req)
		if p != nil {
			t.Errorf("%s: the create handler panicked: %v", name, p)
		} else if err == nil {
			t.Errorf("%s: accepted", name)
		}
	}
}

func TestVerifC19TaskIDWithSeparatorIsRejected(t *testing.T) {
	cdc := &MetaCDC{config: &CDCServerConfig{MaxNameLength: 256}}
	for _, id := range []string{"a/b", "../x", ".."} {
		err := cdc.validCreateRequest(&request.CreateRequest{
			TaskID:            id,
			KafkaConnectParam: model.KafkaConnectParam{Address: "127.0.0.1:9092", Topic: "t"},
			CollectionInfos:   []model.CollectionInfo{{Name: "a"}},
		})
		if err == nil {
			t.Errorf("task id %q accepted: it becomes a nested / escaping key segment (deleting task %q would also delete its checkpoints)", id, "a")
		}
	}
}

// C19-R4: an undecodable rpc_channel_info.position is detected only after the collection checkpoint of the
// rejected request was already written to the store.
type verifPosStore struct {
	puts []*meta.TaskCollectionPosition
}

func (s *verifPosStore) Put(ctx context.Context, o *meta.TaskCollectionPosition, txn any) error {
	s.puts = append(s.puts, o)
	return nil
}
func (s *verifPosStore) Get(ctx context.Context, o *meta.TaskCollectionPosition, txn any) ([]*meta.TaskCollectionPosition, error) {
	return nil, nil
}
func (s *verifPosStore) Delete(ctx context.Context, o *meta.TaskCollectionPosition, txn any) error {
	return nil
}

type verifInfoStore struct{}

func (s *verifInfoStore) Put(ctx context.Context, o *meta.TaskInfo, txn any) error { return nil }
func (s *verifInfoStore) Get(ctx context.Context, o *meta.TaskInfo, txn any) ([]*meta.TaskInfo, error) {
	return nil, nil
}
func (s *verifInfoStore) Delete(ctx context.Context, o *meta.TaskInfo, txn any) error { return nil }

type verifFactory struct {
	pos  *verifPosStore
	info *verifInfoStore
}

func (f *verifFactory) GetTaskInfoMetaStore(ctx context.Context) serverapi.MetaStore[*meta.TaskInfo] {
	return f.info
}
func (f *verifFactory) GetTaskCollectionPositionMetaStore(ctx context.Context) serverapi.MetaStore[*meta.TaskCollectionPosition] {
	return f.pos
}
func (f *verifFactory) GetReplicateStore(ctx context.Context) coreapi.ReplicateStore { return nil }
func (f *verifFactory) Txn(ctx context.Context) (any, func(err error) error, error) {
	return nil, func(err error) error { return err }, nil
}

func TestVerifC19RejectedCreateLeavesNoCheckpoint(t *testing.T) {
	cdc := verifC19CDC()
	f := &verifFactory{pos: &verifPosStore{}, info: &verifInfoStore{}}
	cdc.metaStoreFactory = f
	cdc.config.SourceConfig.ReplicateChan = "by-dev-replicate-msg"
	goodPos := util.Base64MsgPosition(&msgpb.MsgPosition{ChannelName: "by-dev-rootcoord-dml_0_100v0", MsgID: []byte("id")})
	_, err := cdc.Create(&request.CreateRequest{
		KafkaConnectParam: model.KafkaConnectParam{Address: "127.0.0.1:9092", Topic: "t"},
		CollectionInfos:   []model.CollectionInfo{{Name: "a", Positions: map[string]string{"by-dev-rootcoord-dml_0_100v0": goodPos}}},
		RPCChannelInfo:    model.ChannelInfo{Position: "!!! not base64 !!!"},
	})
	if err == nil {
		t.Fatal("request with an undecodable rpc position was accepted")
	}
	if len(f.pos.puts) != 0 {
		t.Errorf("the rejected request left %d checkpoint record(s) in the store (task %q, collection %d)", len(f.pos.puts), f.pos.puts[0].TaskID, f.pos.puts[0].CollectionID)
	}
}
