package reader

// Demonstration for the C13 finding: two tasks (A selects nothing of collection 7, B selects it) share one
// catalog watcher. The watcher (EtcdOp.WatchPartition) hands a new partition to the subscribed consumers in
// sync.Map order and stops at the first consumer returning true ("consumed"). Task A's partition consumer
// returned true for a partition of a collection it does NOT replicate, so whenever A is visited first the
// partition never reaches B. The dispatcher below is the loop body of EtcdOp.WatchPartition verbatim.
// Copy into /repo/core/reader; go test -count=1 -run TestVerifC13 ./reader/

import (
	"context"
	"testing"

	"github.com/stretchr/testify/mock"

	"github.com/zilliztech/milvus-cdc/core/api"
	"github.com/zilliztech/milvus-cdc/core/config"
	"github.com/zilliztech/milvus-cdc/core/mocks"
	"github.com/zilliztech/milvus-cdc/core/model"
	"github.com/zilliztech/milvus-cdc/core/pb"
)

func verifC13Consumer(t *testing.T, taskID string, selects bool, added *[]string) api.PartitionEventConsumer {
	metaOp := mocks.NewMetaOp(t)
	cm := mocks.NewChannelManager(t)
	var consumer api.PartitionEventConsumer
	metaOp.EXPECT().SubscribeCollectionEvent(mock.Anything, mock.Anything).Return()
	metaOp.EXPECT().SubscribePartitionEvent(mock.Anything, mock.Anything).Run(func(_ string, c api.PartitionEventConsumer) { consumer = c }).Return()
	metaOp.EXPECT().WatchCollection(mock.Anything, mock.Anything).Return()
	metaOp.EXPECT().WatchPartition(mock.Anything, mock.Anything).Return()
	metaOp.EXPECT().GetAllCollection(mock.Anything, mock.Anything).Return(nil, nil)
	metaOp.EXPECT().GetAllPartition(mock.Anything, mock.Anything).Return(nil, nil)
	metaOp.EXPECT().StartWatch().Return()
	metaOp.EXPECT().GetCollectionNameByID(mock.Anything, mock.Anything).Return("col7").Maybe()
	metaOp.EXPECT().GetDatabaseInfoForCollection(mock.Anything, mock.Anything).Return(model.DatabaseInfo{Name: "default"}).Maybe()
	cm.EXPECT().AddDroppedCollection(mock.Anything).Return().Maybe()
	cm.EXPECT().AddPartition(mock.Anything, mock.Anything, mock.Anything, mock.Anything).RunAndReturn(
		func(ctx context.Context, db *model.DatabaseInfo, c *pb.CollectionInfo, p *pb.PartitionInfo) error {
			*added = append(*added, taskID+":"+p.PartitionName)
			return nil
		}).Maybe()
	r, err := NewCollectionReader(taskID, cm, metaOp, nil, nil,
		func(*model.DatabaseInfo, *pb.CollectionInfo) (bool, bool) { return false, selects }, config.ReaderConfig{})
	if err != nil {
		t.Fatal(err)
	}
	r.StartRead(context.Background())
	return consumer
}

func TestVerifC13PartitionReachesTheSelectingTask(t *testing.T) {
	var added []string
	a := verifC13Consumer(t, "task-A", false, &added) // does not select collection 7
	b := verifC13Consumer(t, "task-B", true, &added)  // selects it
	newPartition := &pb.PartitionInfo{PartitionID: 70, PartitionName: "p70", CollectionId: 7, State: pb.PartitionState_PartitionCreated}
	// EtcdOp.WatchPartition: Range over the consumers, stop at the first one that returns true
	for _, order := range [][]api.PartitionEventConsumer{{a, b}, {b, a}} {
		added = nil
		for _, consumer := range order {
			if consumer != nil && consumer(newPartition) {
				break
			}
		}
		if len(added) != 1 || added[0] != "task-B:p70" {
			t.Errorf("partition p70 of a collection selected by task-B was started for %v", added)
		}
	}
}
