package reader

// Demonstration for the C13-R5 finding: the per-target catalog client (EtcdOp) opens its collection watch once
// (sync.Once) under the context of whichever task started first. Pausing / deleting that task cancels the context,
// the watch goroutine exits, and the remaining tasks of the target never learn about collections created later.
// Uses an embedded etcd. Copy into /repo/core/reader; go test -count=1 -run TestVerifC13Watch ./reader/ ;
// afterwards `git checkout core/go.mod`.

import (
	"context"
	"fmt"
	"net/url"
	"testing"
	"time"

	"github.com/golang/protobuf/proto"
	clientv3 "go.etcd.io/etcd/client/v3"
	"go.etcd.io/etcd/server/v3/embed"

	"github.com/milvus-io/milvus-proto/go-api/v2/schemapb"
	"github.com/milvus-io/milvus/pkg/util/typeutil"

	"github.com/zilliztech/milvus-cdc/core/config"
	"github.com/zilliztech/milvus-cdc/core/pb"
)

var _ = typeutil.Uint64ToBytesBigEndian

func verifEtcd13(t *testing.T, port int) (string, *clientv3.Client) {
	cfg := embed.NewConfig()
	cfg.Dir = t.TempDir()
	u1, _ := url.Parse(fmt.Sprintf("http://127.0.0.1:%d", port))
	u2, _ := url.Parse(fmt.Sprintf("http://127.0.0.1:%d", port+1))
	cfg.LCUrls, cfg.ACUrls = []url.URL{*u1}, []url.URL{*u1}
	cfg.LPUrls, cfg.APUrls = []url.URL{*u2}, []url.URL{*u2}
	cfg.InitialCluster = cfg.InitialClusterFromName(cfg.Name)
	cfg.LogLevel = "error"
	e, err := embed.StartEtcd(cfg)
	if err != nil {
		t.Fatal(err)
	}
	t.Cleanup(e.Close)
	select {
	case <-e.Server.ReadyNotify():
	case <-time.After(20 * time.Second):
		t.Fatal("etcd not ready")
	}
	cli, err := clientv3.New(clientv3.Config{Endpoints: []string{u1.Host}, DialTimeout: 5 * time.Second})
	if err != nil {
		t.Fatal(err)
	}
	t.Cleanup(func() { cli.Close() })
	return u1.Host, cli
}

func verifPut13(t *testing.T, cli *clientv3.Client, key string, m proto.Message) {
	b, err := proto.Marshal(m)
	if err != nil {
		t.Fatal(err)
	}
	if _, err := cli.Put(context.Background(), key, string(b)); err != nil {
		t.Fatal(err)
	}
}


func TestVerifC13WatchSurvivesTheFirstTask(t *testing.T) {
	addr, cli := verifEtcd13(t, 23890)
	root := "by-dev/meta/"
	verifPut13(t, cli, root+databasePrefix+"/1", &pb.DatabaseInfo{Id: 1, Name: "default", State: pb.DatabaseState_DatabaseCreated})
	op, err := NewEtcdOp(config.EtcdServerConfig{Address: []string{addr}, RootPath: "by-dev", MetaSubPath: "meta"}, "_default", config.EtcdRetryConfig{}, nil)
	if err != nil {
		t.Fatal(err)
	}
	seenByB := make(chan int64, 4)
	// task A starts first: its reader subscribes and opens the (shared) watch under ITS context
	ctxA, cancelA := context.WithCancel(context.Background())
	op.SubscribeCollectionEvent("task-A", func(info *pb.CollectionInfo) bool { return false })
	op.WatchCollection(ctxA, nil)
	// task B starts on the same target: same EtcdOp, the Once makes its WatchCollection a no-op
	ctxB, cancelB := context.WithCancel(context.Background())
	defer cancelB()
	op.SubscribeCollectionEvent("task-B", func(info *pb.CollectionInfo) bool { seenByB <- info.ID; return true })
	op.WatchCollection(ctxB, nil)
	op.StartWatch()
	// task A is paused: its quit function cancels its context
	cancelA()
	time.Sleep(200 * time.Millisecond)
	// a collection selected by task B is created afterwards (fields first, as Milvus writes them)
	verifPut13(t, cli, root+fieldPrefix+"/300/100", &schemapb.FieldSchema{FieldID: 100, Name: "pk", IsPrimaryKey: true, DataType: schemapb.DataType_Int64})
	verifPut13(t, cli, root+collectionPrefix+"/1/300", &pb.CollectionInfo{ID: 300, DbId: 1, Schema: &schemapb.CollectionSchema{Name: "late"}, State: pb.CollectionState_CollectionCreated, CreateTime: 10})
	select {
	case id := <-seenByB:
		if id != 300 {
			t.Fatalf("unexpected collection %d", id)
		}
	case <-time.After(3 * time.Second):
		t.Errorf("task B (still running) was never notified about a collection created after task A was paused")
	}
}
