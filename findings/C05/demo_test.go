package server

// Demonstration for the C05-R5 known finding. Copy into /repo/server; go test -vet=off -count=1 -run TestVerifC05 .
//
// The checkpoint of a source channel stores Time = the END TIME OF THE PACK HANDED TO THE WRITER. That pack's times were
// rewritten by the reader for the downstream channel (handlePack / UnsafeUpdatePackTS shift a pack forward whenever the
// downstream channel's clock - which is shared by every source stream mapped to it - is not below the pack's begin).
// On resume startInternal turns Time into the Timestamp of the SOURCE seek position (ComposeTS(Time+1, 0)), and milvus'
// MqTtMsgStream.Seek (pkg/mq/msgstream/mq_msgstream.go, "skip all data before current tt") drops every source message
// after the seek id whose timestamp is <= that Timestamp. So a source message that was never acknowledged, with a source
// time between the acknowledged pack's source time and the rewritten time, is skipped by the next incarnation.
//
// The test drives the real replicate loop (startReplicateDMLMsg) with a writer that acknowledges one pack, then starts
// the task again (startInternal + CollectionReader.StartRead) and looks at the seek position handed to the channel
// manager for the same source channel.

import (
	"context"
	"sync"
	"testing"
	"time"

	"github.com/milvus-io/milvus-proto/go-api/v2/commonpb"
	"github.com/milvus-io/milvus-proto/go-api/v2/msgpb"
	"github.com/milvus-io/milvus-proto/go-api/v2/schemapb"
	"github.com/milvus-io/milvus/pkg/mq/msgdispatcher"
	"github.com/milvus-io/milvus/pkg/mq/msgstream"
	"github.com/milvus-io/milvus/pkg/util/tsoutil"
	"github.com/milvus-io/milvus/pkg/util/typeutil"

	coreapi "github.com/zilliztech/milvus-cdc/core/api"
	coremodel "github.com/zilliztech/milvus-cdc/core/model"
	"github.com/zilliztech/milvus-cdc/core/pb"
	serverapi "github.com/zilliztech/milvus-cdc/server/api"
	"github.com/zilliztech/milvus-cdc/server/model"
	"github.com/zilliztech/milvus-cdc/server/model/meta"
	"github.com/zilliztech/milvus-cdc/server/msgpacker"
)

type verifC05PosStore struct {
	sync.Mutex
	recs map[int64]*meta.TaskCollectionPosition
}

func (s *verifC05PosStore) Put(ctx context.Context, o *meta.TaskCollectionPosition, txn any) error {
	s.Lock()
	defer s.Unlock()
	s.recs[o.CollectionID] = o
	return nil
}

func (s *verifC05PosStore) Get(ctx context.Context, o *meta.TaskCollectionPosition, txn any) ([]*meta.TaskCollectionPosition, error) {
	s.Lock()
	defer s.Unlock()
	var out []*meta.TaskCollectionPosition
	for _, r := range s.recs {
		if o.CollectionID == 0 || o.CollectionID == r.CollectionID {
			out = append(out, r)
		}
	}
	return out, nil
}

func (s *verifC05PosStore) Delete(ctx context.Context, o *meta.TaskCollectionPosition, txn any) error {
	return nil
}

type verifC05InfoStore struct{ tasks map[string]*meta.TaskInfo }

func (s *verifC05InfoStore) Put(ctx context.Context, o *meta.TaskInfo, txn any) error {
	c := *o
	s.tasks[o.TaskID] = &c
	return nil
}

func (s *verifC05InfoStore) Get(ctx context.Context, o *meta.TaskInfo, txn any) ([]*meta.TaskInfo, error) {
	if t, ok := s.tasks[o.TaskID]; ok {
		c := *t
		return []*meta.TaskInfo{&c}, nil
	}
	return nil, nil
}
func (s *verifC05InfoStore) Delete(ctx context.Context, o *meta.TaskInfo, txn any) error { return nil }

type verifC05Factory struct {
	pos  *verifC05PosStore
	info *verifC05InfoStore
}

func (f *verifC05Factory) GetTaskInfoMetaStore(ctx context.Context) serverapi.MetaStore[*meta.TaskInfo] {
	return f.info
}

func (f *verifC05Factory) GetTaskCollectionPositionMetaStore(ctx context.Context) serverapi.MetaStore[*meta.TaskCollectionPosition] {
	return f.pos
}
func (f *verifC05Factory) GetReplicateStore(ctx context.Context) coreapi.ReplicateStore { return nil }
func (f *verifC05Factory) Txn(ctx context.Context) (any, func(err error) error, error) {
	return nil, func(err error) error { return err }, nil
}

type verifC05Dispatcher struct{}

func (verifC05Dispatcher) Register(ctx context.Context, c *msgdispatcher.StreamConfig) (<-chan *msgdispatcher.MsgPack, error) {
	return make(chan *msgdispatcher.MsgPack), nil
}
func (verifC05Dispatcher) Deregister(vchannel string) {}
func (verifC05Dispatcher) Close()                     {}

// the downstream: acknowledges every pack with the pack's own end position
type verifC05Writer struct {
	coreapi.DefaultWriter
	acked chan struct{}
}

func (w *verifC05Writer) HandleReplicateMessage(ctx context.Context, channelName string, msgPack *msgstream.MsgPack) ([]byte, []byte, error) {
	defer func() { w.acked <- struct{}{} }()
	return msgPack.EndPositions[0].MsgID, []byte("target-position"), nil
}

type verifC05ChannelManager struct {
	coreapi.DefaultChannelManager
	msgs  chan *coreapi.ReplicateMsg
	seeks chan []*msgpb.MsgPosition
}

func (m *verifC05ChannelManager) GetMsgChan(string) <-chan *coreapi.ReplicateMsg { return m.msgs }
func (m *verifC05ChannelManager) StartReadCollection(ctx context.Context, db *coremodel.DatabaseInfo, info *pb.CollectionInfo, seekPositions []*msgpb.MsgPosition, channelStartTsMap map[string]uint64) error {
	m.seeks <- seekPositions
	return nil
}

type verifC05MetaOp struct {
	coreapi.DefaultMetaOp
	coll *pb.CollectionInfo
}

func (o *verifC05MetaOp) WatchCollection(context.Context, coreapi.CollectionFilter) {}
func (o *verifC05MetaOp) WatchPartition(context.Context, coreapi.PartitionFilter)   {}
func (o *verifC05MetaOp) StartWatch()                                               {}
func (o *verifC05MetaOp) SubscribeCollectionEvent(string, coreapi.CollectionEventConsumer) {
}

func (o *verifC05MetaOp) SubscribePartitionEvent(string, coreapi.PartitionEventConsumer) {
}
func (o *verifC05MetaOp) UnsubscribeEvent(string, coreapi.WatchEventType) {}
func (o *verifC05MetaOp) GetAllCollection(context.Context, coreapi.CollectionFilter) ([]*pb.CollectionInfo, error) {
	return []*pb.CollectionInfo{o.coll}, nil
}

func (o *verifC05MetaOp) GetAllPartition(context.Context, coreapi.PartitionFilter) ([]*pb.PartitionInfo, error) {
	return nil, nil
}
func (o *verifC05MetaOp) GetAllDroppedObj() map[string]map[string]uint64 { return nil }
func (o *verifC05MetaOp) GetCollectionNameByID(context.Context, int64) string {
	return o.coll.Schema.Name
}

func (o *verifC05MetaOp) GetDatabaseInfoForCollection(context.Context, int64) coremodel.DatabaseInfo {
	return coremodel.DatabaseInfo{ID: 1, Name: "default"}
}

func TestVerifC05ResumeSeekFilterIsInTheSourceTimeDomain(t *testing.T) {
	cdc := &MetaCDC{config: &CDCServerConfig{MaxNameLength: 256, MaxTaskNum: 10,
		Packer: msgpacker.PackerConfig{TimerInterval: 10000, MaxCount: 1, MaxMsgSize: 1 << 20, MemoryLimit: 1 << 20}}}
	cdc.config.SourceConfig.ReplicateChan = "by-dev-replicate-msg"
	cdc.collectionNames.data = map[string][]string{}
	cdc.collectionNames.excludeData = map[string][]string{}
	cdc.collectionNames.extraInfos = map[string]model.ExtraInfo{}
	cdc.collectionNames.nameMapping = map[string]map[string]string{}
	cdc.cdcTasks.data = map[string]*meta.TaskInfo{}
	cdc.replicateEntityMap.data = map[string]*ReplicateEntity{}
	info := &meta.TaskInfo{TaskID: "t1", KafkaConnectParam: model.KafkaConnectParam{Address: "kafka:9092", Topic: "t"},
		CollectionInfos: []model.CollectionInfo{{Name: "c"}}, State: meta.TaskStateRunning}
	f := &verifC05Factory{pos: &verifC05PosStore{recs: map[int64]*meta.TaskCollectionPosition{}}, info: &verifC05InfoStore{tasks: map[string]*meta.TaskInfo{}}}
	_ = f.info.Put(context.Background(), info, nil)
	cdc.metaStoreFactory = f
	cdc.cdcTasks.data[info.TaskID] = info

	coll := &pb.CollectionInfo{ID: 5, Schema: &schemapb.CollectionSchema{Name: "c"}, State: pb.CollectionState_CollectionCreated,
		VirtualChannelNames: []string{"src-dml_0_5v0"}, PhysicalChannelNames: []string{"src-dml_0"}}
	cm := &verifC05ChannelManager{msgs: make(chan *coreapi.ReplicateMsg, 1), seeks: make(chan []*msgpb.MsgPosition, 1)}
	wr := &verifC05Writer{acked: make(chan struct{}, 1)}
	entity := &ReplicateEntity{channelManager: cm, metaOp: &verifC05MetaOp{coll: coll}, writerObj: wr, mqDispatcher: verifC05Dispatcher{},
		entityQuitFunc: func() {}, taskQuitFuncs: typeutil.NewConcurrentMap[string, func()]()}
	cdc.replicateEntityMap.data["kafka:9092"] = entity

	// Source stream src-dml_0: message M1 at source time 100.000 s (message id "m1"), message M2 at source time 100.500 s.
	// The downstream channel is shared with another source stream whose clock is 60 s ahead, so the reader re-timed M1's
	// pack to 160.000 s (C03: a pack is shifted when the channel's last tick is not below its begin).
	base := time.Unix(1700000000, 0)
	srcM2 := tsoutil.ComposeTSByTime(base.Add(100500*time.Millisecond), 0)
	rewrittenM1 := tsoutil.ComposeTSByTime(base.Add(160*time.Second), 0)
	pack := &msgstream.MsgPack{BeginTs: rewrittenM1, EndTs: rewrittenM1,
		StartPositions: []*msgpb.MsgPosition{{ChannelName: "dst-dml_0", MsgID: []byte("m0")}},
		EndPositions:   []*msgpb.MsgPosition{{ChannelName: "dst-dml_0", MsgID: []byte("m1")}},
		Msgs: []msgstream.TsMsg{&msgstream.TimeTickMsg{BaseMsg: msgstream.BaseMsg{BeginTimestamp: rewrittenM1, EndTimestamp: rewrittenM1},
			TimeTickMsg: &msgpb.TimeTickMsg{Base: &commonpb.MsgBase{MsgType: commonpb.MsgType_TimeTick, Timestamp: rewrittenM1}}}},
	}
	ctx, cancel := context.WithCancel(context.Background())
	cdc.startReplicateDMLMsg(ctx, entity, "dst-dml_0")
	cm.msgs <- &coreapi.ReplicateMsg{TaskID: "t1", CollectionID: 5, CollectionName: "c", PChannelName: "src-dml_0", MsgPack: pack}
	<-wr.acked // M1 acknowledged
	deadline := time.Now().Add(3 * time.Second)
	for {
		recs, _ := f.pos.Get(context.Background(), &meta.TaskCollectionPosition{CollectionID: 5}, nil)
		if len(recs) == 1 && recs[0].Positions["src-dml_0"] != nil {
			break
		}
		if time.Now().After(deadline) {
			t.Fatal("the checkpoint of the acknowledged pack was not persisted")
		}
		time.Sleep(10 * time.Millisecond)
	}
	cancel() // crash / pause: M2 was never handed to the writer

	// next incarnation
	info.State = meta.TaskStatePaused
	_ = f.info.Put(context.Background(), info, nil)
	if err := cdc.startInternal(info, false); err != nil {
		t.Fatal(err)
	}
	select {
	case seeks := <-cm.seeks:
		if len(seeks) != 1 || string(seeks[0].MsgID) != "m1" {
			t.Fatalf("unexpected seek positions %v", seeks)
		}
		if seeks[0].Timestamp >= srcM2 {
			t.Errorf("resume seeks the source stream after message id m1 with time filter %v, but the first unacknowledged source message M2 has source time %v: the stream's Seek drops every message at or below the filter, so M2 never reaches the downstream",
				tsoutil.PhysicalTime(seeks[0].Timestamp).Sub(base), tsoutil.PhysicalTime(srcM2).Sub(base))
		}
	case <-time.After(5 * time.Second):
		t.Fatal("the next incarnation did not start reading the collection")
	}
}
