package server

// Demonstration for the C10 finding (user-role owner flag not reverted / cleared / rebuilt); fakes shared with the C19 demo: adversarial but structurally valid create requests.
//  - a collection / database / mapping name containing '.' makes util.GetCollectionNameFromFull panic inside the
//    handler (net/http recovers the goroutine but the client gets no JSON answer);
//  - a task id containing '/' is accepted and becomes a nested key segment of the metadata store.
// Copy into /repo/server;  go test -vet=off -count=1 -run TestVerifC19 .

import (
	"context"
	"strings"
	"testing"

	coreapi "github.com/zilliztech/milvus-cdc/core/api"
	serverapi "github.com/zilliztech/milvus-cdc/server/api"

	"github.com/zilliztech/milvus-cdc/server/model"
	"github.com/zilliztech/milvus-cdc/server/model/meta"
	"github.com/zilliztech/milvus-cdc/server/model/request"
)

func verifC10CDC(maxTasks int) (*MetaCDC, *verifFactory) {
	cdc := &MetaCDC{config: &CDCServerConfig{MaxNameLength: 256, MaxTaskNum: maxTasks}}
	cdc.collectionNames.data = map[string][]string{}
	cdc.collectionNames.excludeData = map[string][]string{}
	cdc.collectionNames.extraInfos = map[string]model.ExtraInfo{}
	cdc.collectionNames.nameMapping = map[string]map[string]string{}
	cdc.cdcTasks.data = map[string]*meta.TaskInfo{}
	f := &verifFactory{pos: &verifPosStore{}, info: &verifInfoStore{}}
	cdc.metaStoreFactory = f
	return cdc, f
}

type verifPosStore struct {
	puts []*meta.TaskCollectionPosition
}

func (s *verifPosStore) Put(ctx context.Context, o *meta.TaskCollectionPosition, txn any) error {
	s.puts = append(s.puts, o)
	return nil
}
func (s *verifPosStore) Get(ctx context.Context, o *meta.TaskCollectionPosition, txn any) ([]*meta.TaskCollectionPosition, error) {
	return nil, nil
}
func (s *verifPosStore) Delete(ctx context.Context, o *meta.TaskCollectionPosition, txn any) error {
	return nil
}

type verifInfoStore struct{}

func (s *verifInfoStore) Put(ctx context.Context, o *meta.TaskInfo, txn any) error { return nil }
func (s *verifInfoStore) Get(ctx context.Context, o *meta.TaskInfo, txn any) ([]*meta.TaskInfo, error) {
	return nil, nil
}
func (s *verifInfoStore) Delete(ctx context.Context, o *meta.TaskInfo, txn any) error { return nil }

type verifFactory struct {
	pos  *verifPosStore
	info *verifInfoStore
}

func (f *verifFactory) GetTaskInfoMetaStore(ctx context.Context) serverapi.MetaStore[*meta.TaskInfo] {
	return f.info
}
func (f *verifFactory) GetTaskCollectionPositionMetaStore(ctx context.Context) serverapi.MetaStore[*meta.TaskCollectionPosition] {
	return f.pos
}
func (f *verifFactory) GetReplicateStore(ctx context.Context) coreapi.ReplicateStore { return nil }
func (f *verifFactory) Txn(ctx context.Context) (any, func(err error) error, error) {
	return nil, func(err error) error { return err }, nil
}


func TestVerifC10FailedCreateReleasesUserRoleOwnership(t *testing.T) {
	cdc, _ := verifC10CDC(0) // the task-number limit rejects every create AFTER the duplicate bookkeeping was reserved
	req := func() *request.CreateRequest {
		return &request.CreateRequest{
			KafkaConnectParam: model.KafkaConnectParam{Address: "127.0.0.1:9092", Topic: "t"},
			CollectionInfos:   []model.CollectionInfo{{Name: "a"}},
			ExtraInfo:         model.ExtraInfo{EnableUserRole: true},
		}
	}
	_, err := cdc.Create(req())
	if err == nil || !strings.Contains(err.Error(), "limit") {
		t.Fatalf("expected the task limit error, got %v", err)
	}
	cdc.config.MaxTaskNum = 10
	_, err = cdc.Create(req())
	if err != nil && strings.Contains(err.Error(), "duplicate") {
		t.Errorf("after a FAILED create the next user-role task is rejected as duplicate: %v", err)
	}
}
