package main

import (
	"os"
	"fmt"
	"go/token"
	"go/types"
	"strings"

	"golang.org/x/tools/go/ssa"
)

func init() {
	register("C08", &propDef{run: runC08,
		explain: "Decided for C08: (R1) the complete decision table of getObjState over all 52 cells {create known?, drop known?} x {13 weak orders of (op time, create time, drop time)} by finite-domain abstract evaluation of its SSA, compared cell by cell with the table written from the property statement; (R2) the complete decision table of the WaitObjReady cascade over {states of the three levels}^3 x {empty/non-empty names} x {milvus or not}; (R3) in every op/event function that names a collection a readiness check at the operation's source time precedes the downstream call and its skip outcome returns success without the call (single objects), or the list sent downstream is built only from members checked not-skipped (list operations); (R4) the three drop operations record the drop time under the source-name drop key of the right table on every success path; (R5) each Wait*Ready level pairs the create/drop keys of its own key function with its own table and passes (op time, create time, drop time, create known, drop known) in that order.",
		notDec:  []string{"replay safety over whole create/drop/re-create histories (only the per-operation decision and its placement are decided)", "the downstream probe's answer"},
	})
}

func runC08(w *World, r *Report) {
	defer catalogStatePairs(w, r, "C08-R9")
	defer ruleKeyComponentsVerbatim(w, r, "C08-R10")
	r1 := r.Rule("C08-R1", "decision table (finite-domain abstract evaluation)", "getObjState(m,c,d,cok,dok) equals the oracle: none known->Unknown; only drop->Dropped iff m<=d else Unknown; only create->Created iff c<=m else Dropped; both: c>=d -> (Created iff m>=c else Dropped); c<d -> (Dropped iff m<=d else Unknown)", 52)
	r1.Exhaustive = true
	r2 := r.Rule("C08-R2", "cascade decision table", "WaitObjReady: not milvus->(false,nil); levels database, collection, partition in that order, each asked only when named (partition only with a collection); Unknown->(false,err), Dropped->(true,nil), Created->next level; end->(false,nil)", 400)
	r2.Exhaustive = true
	r.Rule("C08-R3", "pre-check dominates the downstream call", "every non-probe dataHandler call of an operation naming a collection is dominated by a WaitObjReady* call made with the operation's own time and names whose skip outcome returns nil; list operations pass only members appended after a not-skipped check", 12)
	r.Rule("C08-R4", "drop tables follow replayed drops", "dropDatabase/dropCollection/dropPartition store the operation time under the drop key (result 1 of the matching util.Get*InfoKeys on source names) of the matching table before every success return", 3)
	r.Rule("C08-R5", "level wiring", "Wait{Database,Collection,Partition}Ready: keys from the level's own key function, loads from the level's own table, getObjState(msgTs, load(createKey), load(dropKey), ok, ok); a successful probe records create time = recorded drop time + 1", 18)

	r.Rule("C08-R6", "recorded times are only added", "the three info tables of ChannelWriter are accessed only through Load / LoadWithDefault / Store; drop keys are stored only by the drop operations and the constructor, create keys only after a successful probe: no recorded create or drop time is ever deleted or overwritten from elsewhere", 12)
	r.Rule("C08-R7", "the start-up snapshot is loaded into the table of its own level", "in NewChannelWriter the entries of droppedObjs[database|collection|partition] are stored into dbInfos / collectionInfos / partitionInfos respectively", 3)
	c08SnapshotTables(w, r)
	r.Rule("C08-R8", "a failed multi-member operation is forgiven only if every member is gone", "in the re-check loops that follow a failed downstream call (load/release partitions, flush) no success return is taken inside the loop: one dropped member does not excuse the failure for the live ones", 3)
	c08AllMembers(w, r)
	// the re-check after a failed call looks the object up under the same SOURCE names as the check before it
	r.importRules(runC09, "C08-", map[string]bool{"C09-R2": true})
	c08R6(w, r)

	states := w.enumConsts(pkgWriter, "InfoState")
	U, C, D := states["InfoStateUnknown"], states["InfoStateCreated"], states["InfoStateDropped"]
	if U == 0 || C == 0 || D == 0 {
		r.Undecided("C08-R1", "InfoState constants", 0, "InfoStateUnknown/Created/Dropped not found")
		return
	}
	sname := func(v any) string {
		if i, ok := v.(int64); ok {
			switch i {
			case U:
				return "Unknown"
			case C:
				return "Created"
			case D:
				return "Dropped"
			}
		}
		return fmt.Sprint(v)
	}

	// ---------- R1
	gos := w.Func(pkgWriter, "", "getObjState")
	if gos == nil || len(gos.Params) != 5 {
		r.Undecided("C08-R1", "getObjState", 0, "anchor not found or signature changed")
	} else {
		pn := func(i int) string { return gos.Params[i].Name() }
		for _, cok := range []bool{false, true} {
			for _, dok := range []bool{false, true} {
				for _, wo := range weakOrders(3) {
					m, c, d := wo[0], wo[1], wo[2]
					var want int64
					switch {
					case !cok && !dok:
						want = U
					case !cok && dok:
						if m <= d {
							want = D
						} else {
							want = U
						}
					case cok && !dok:
						if c <= m {
							want = C
						} else {
							want = D
						}
					default:
						if c >= d {
							if m >= c {
								want = C
							} else {
								want = D
							}
						} else {
							if m <= d {
								want = D
							} else {
								want = U
							}
						}
					}
					env := &AbsEnv{W: w, Params: map[string]any{pn(0): m, pn(1): c, pn(2): d, pn(3): cok, pn(4): dok}}
					res := absEvalFunc(gos, env)
					cell := fmt.Sprintf("getObjState | cok=%v dok=%v rank(m,c,d)=(%d,%d,%d)", cok, dok, m, c, d)
					if res.Err != "" || len(res.Results) != 1 {
						r.Undecided("C08-R1", cell, gos.Pos(), "abstract evaluation failed: "+res.Err)
						continue
					}
					got, _ := res.Results[0].(int64)
					r.Check(got == want, "C08-R1", cell, gos.Pos(), "= "+sname(want), fmt.Sprintf("returns %s, the statement requires %s (path through blocks %v)", sname(res.Results[0]), sname(want), res.Trace))
				}
			}
		}
	}

	// ---------- R2
	wor := w.Func(pkgWriter, "ChannelWriter", "WaitObjReady")
	if wor == nil || len(wor.Params) != 6 {
		r.Undecided("C08-R2", "WaitObjReady", 0, "anchor not found or signature changed")
	} else {
		pdb, pcoll, ppart := wor.Params[2].Name(), wor.Params[3].Name(), wor.Params[4].Name()
		levelOf := map[string]int{"WaitDatabaseReady": 0, "WaitCollectionReady": 1, "WaitPartitionReady": 2}
		sts := []int64{U, C, D}
		for _, milvus := range []bool{true, false} {
			for mask := 0; mask < 8; mask++ {
				for s0 := range sts {
					for s1 := range sts {
						for s2 := range sts {
							names := [3]string{"", "", ""}
							if mask&1 != 0 {
								names[0] = "db"
							}
							if mask&2 != 0 {
								names[1] = "coll"
							}
							if mask&4 != 0 {
								names[2] = "part"
							}
							lv := [3]int64{sts[s0], sts[s1], sts[s2]}
							// oracle
							wantSkip, wantErr := false, false
							var wantAsked []int
							if milvus {
								ask := []bool{names[0] != "", names[1] != "", names[1] != "" && names[2] != ""}
								for l := 0; l < 3; l++ {
									if !ask[l] {
										continue
									}
									wantAsked = append(wantAsked, l)
									if lv[l] == U {
										wantErr = true
										break
									}
									if lv[l] == D {
										wantSkip = true
										break
									}
								}
							}
							var asked []int
							ds := "kafka"
							if milvus {
								ds = "milvus"
							}
							env := &AbsEnv{W: w,
								Params: map[string]any{pdb: names[0], pcoll: names[1], ppart: names[2]},
								Load: func(path string) (any, bool) {
									if strings.HasSuffix(path, ".downstream") {
										return ds, true
									}
									return nil, false
								},
								Call: func(c *ssa.CallCommon, args []any) (any, bool) {
									s := callSym(c)
									if l, ok := levelOf[s.name]; ok && s.recv == "ChannelWriter" {
										asked = append(asked, l)
										return lv[l], true
									}
									if s.name == "Newf" || s.name == "New" || s.name == "Errorf" {
										return aErr, true
									}
									return nil, false
								},
							}
							res := absEvalFunc(wor, env)
							cell := fmt.Sprintf("WaitObjReady | milvus=%v names=%v states=(%s,%s,%s)", milvus, names, sname(lv[0]), sname(lv[1]), sname(lv[2]))
							if res.Err != "" || len(res.Results) != 2 {
								r.Undecided("C08-R2", cell, wor.Pos(), "abstract evaluation failed: "+res.Err)
								continue
							}
							gotSkip, _ := res.Results[0].(bool)
							_, gotErr := res.Results[1].(aErrT)
							ok := gotSkip == wantSkip && gotErr == wantErr && fmt.Sprint(asked) == fmt.Sprint(wantAsked)
							r.Check(ok, "C08-R2", cell, wor.Pos(), fmt.Sprintf("(skip=%v, err=%v) asking levels %v", wantSkip, wantErr, wantAsked),
								fmt.Sprintf("returns (skip=%v, err=%v) after asking levels %v; the statement requires (skip=%v, err=%v) asking %v", gotSkip, gotErr, asked, wantSkip, wantErr, wantAsked))
						}
					}
				}
			}
		}
	}

	// ---------- R3
	waitObj := sym{pkgWriter, "ChannelWriter", "WaitObjReady"}
	waitEvt := sym{pkgWriter, "ChannelWriter", "WaitObjReadyForAPIEvent"}
	dhIface := w.Named(pkgAPI, "DataHandler")
	probe := map[string]bool{"DescribeDatabase": true, "DescribeCollection": true, "DescribePartition": true, "ReplicateMessage": true}
	// operations that name no collection: database-level and RBAC (the statement's three object levels do not apply below the database for them)
	noGate := map[string]string{
		"CreateDatabase": "database-level op, replayed in order from the RPC channel", "DropDatabase": "database-level op", "AlterDatabase": "database-level op",
		"CreateUser": "RBAC op names no database object", "DeleteUser": "RBAC", "UpdateUser": "RBAC", "CreateRole": "RBAC", "DropRole": "RBAC", "OperateUserRole": "RBAC", "OperatePrivilege": "RBAC",
	}
	nGated := 0
	for _, fn := range w.RepoFuncs() {
		if s := fnSym(fn); s.pkg != pkgWriter || s.recv != "ChannelWriter" || fn.Parent() != nil {
			continue
		}
		eachInstr(fn, func(in ssa.Instruction) {
			ci, ok := in.(ssa.CallInstruction)
			if !ok || !ci.Common().IsInvoke() || dhIface == nil || !types.Identical(ci.Common().Value.Type(), dhIface) {
				return
			}
			m := ci.Common().Method.Name()
			if probe[m] {
				return
			}
			cons := fmt.Sprintf("%s | gate before dataHandler.%s", shortFn(fn), m)
			if why, ok := noGate[m]; ok {
				r.Info("C08-R3", cons, ci.Pos(), "no gate required: "+why)
				return
			}
			nGated++
			// find wait calls before D
			var dom []ssa.CallInstruction
			var inLoop []ssa.CallInstruction
			eachInstr(fn, func(x ssa.Instruction) {
				wc, ok := x.(ssa.CallInstruction)
				if !ok {
					return
				}
				s := callSym(wc.Common())
				if s != waitObj && s != waitEvt {
					return
				}
				if instrDominates(wc, ci) {
					dom = append(dom, wc)
				} else if instrReaches(wc, ci) && !instrReaches(ci, wc) {
					inLoop = append(inLoop, wc)
				}
			})
			okGate := false
			detail := "no readiness check precedes this downstream call: an operation on a dropped or re-created object is executed (or fails the task) instead of being skipped"
			for _, wc := range dom {
				// skip==true must lead to a return without reaching D; err != nil must return
				if gateReturns(wc, ci) && gateTimeOK(w, fn, wc) {
					okGate = true
				} else {
					detail = "a readiness check precedes the call but its skip/err outcome does not return before the call, or it is not made at the operation's own time"
				}
			}
			if !okGate && len(inLoop) > 0 {
				// list form: names passed downstream come from appends control-dependent on the not-skipped outcome
				for _, wc := range inLoop {
					if listGate(w, fn, wc, ci) && gateTimeOK(w, fn, wc) {
						okGate = true
					} else {
						detail = "the list sent downstream is not restricted to members whose readiness check said not-skipped"
					}
				}
			}
			r.Check(okGate, "C08-R3", cons, ci.Pos(), "gated by a readiness check at the operation's time", detail)
		})
	}
	if nGated < 12 {
		r.Fail("C08-R3", "gated call census", 0, fmt.Sprintf("only %d gated downstream calls found (12 confirmed by hand)", nGated))
	}

	// ---------- R4
	type dropSpec struct{ fn, handler, keyFn, table string }
	for _, ds := range []dropSpec{
		{"dropDatabase", "DropDatabase", "GetDBInfoKeys", "dbInfos"},
		{"dropCollection", "DropCollection", "GetCollectionInfoKeys", "collectionInfos"},
		{"dropPartition", "DropPartition", "GetPartitionInfoKeys", "partitionInfos"},
	} {
		fn := w.Func(pkgWriter, "ChannelWriter", ds.fn)
		cons := fmt.Sprintf("(*ChannelWriter).%s | record drop time", ds.fn)
		if fn == nil {
			r.Undecided("C08-R4", cons, 0, "anchor not found")
			continue
		}
		var dcall ssa.CallInstruction
		eachInstr(fn, func(in ssa.Instruction) {
			if ci, ok := in.(ssa.CallInstruction); ok && ci.Common().IsInvoke() && ci.Common().Method.Name() == ds.handler {
				dcall = ci
			}
		})
		var store *ssa.Call
		eachInstr(fn, func(in ssa.Instruction) {
			c, ok := in.(*ssa.Call)
			if !ok || callSym(c.Common()).name != "Store" {
				return
			}
			recv := callRecv(c.Common())
			if recv == nil || !strings.HasSuffix(w.accessPath(recv), "."+ds.table) {
				return
			}
			args := callArgs(c.Common())
			if len(args) != 2 || !extractOf(args[0], sym{pkgUtil, "", ds.keyFn}, 1) {
				return
			}
			// time: event MsgTimestamp or msg.EndTs()
			tp := w.accessPath(args[1])
			if !(strings.HasSuffix(tp, ".MsgTimestamp") || strings.Contains(tp, "call:EndTs")) {
				return
			}
			store = c
		})
		if dcall == nil || store == nil {
			r.Fail("C08-R4", cons, fn.Pos(), fmt.Sprintf("no %s.Store(dropKey from util.%s, operation time) found after the downstream drop: later replays of older operations on this name are not skipped", ds.table, ds.keyFn))
			continue
		}
		// every success return reachable from the downstream call passes the store
		ok := true
		eachInstr(fn, func(in ssa.Instruction) {
			ret, isRet := in.(*ssa.Return)
			if !isRet || !instrReaches(dcall, ret) {
				return
			}
			rv := returnedValue(ret, 0)
			if !isNilConst(rv) {
				return
			}
			if !instrDominates(store, ret) {
				ok = false
			}
		})
		// nothing can fail between the downstream drop and the recording of its time: from the success side of the
		// downstream call every path to any return passes the store
		if dc, isCall := dcall.(*ssa.Call); isCall {
			for _, b := range fn.Blocks {
				v, _, isNilB, isT := errNilTest(b)
				if !isT || b != dc.Block() {
					continue
				}
				fromCall := false
				for _, x := range backSlice(v, SliceOpts{MaxDepth: 4}) {
					if x == ssa.Value(dc) {
						fromCall = true
					}
				}
				if !fromCall {
					continue
				}
				if isNilB == store.Block() {
					continue
				}
				reach := blockReach(isNilB, map[*ssa.BasicBlock]bool{store.Block(): true})
				reach[isNilB] = true
				for rb := range reach {
					if rb == store.Block() {
						continue
					}
					if _, isRet := rb.Instrs[len(rb.Instrs)-1].(*ssa.Return); isRet {
						ok = false
					}
				}
			}
		}
		// key built from source names: args of the key function must not derive from mapping
		kc := store.Call.Args[len(store.Call.Args)-2].(*ssa.Extract).Tuple.(*ssa.Call)
		for _, a := range kc.Call.Args {
			if _, bad := mayDeriveFromCall(a, mapSymW); bad {
				ok = false
			}
		}
		r.Check(ok, "C08-R4", cons, store.Pos(), "drop time stored under the source-name drop key before every success return", "a return is reachable after the downstream drop succeeded without the drop time having been recorded (a later step can fail first), or the key is built from mapped names")
	}

	// ---------- R5
	type lvl struct{ fn, keyFn, table string }
	for _, l := range []lvl{{"WaitDatabaseReady", "GetDBInfoKeys", "dbInfos"}, {"WaitCollectionReady", "GetCollectionInfoKeys", "collectionInfos"}, {"WaitPartitionReady", "GetPartitionInfoKeys", "partitionInfos"}} {
		fn := w.Func(pkgWriter, "ChannelWriter", l.fn)
		if fn == nil {
			r.Undecided("C08-R5", l.fn, 0, "anchor not found")
			continue
		}
		gs := callsIn(fn, false, sym{pkgWriter, "", "getObjState"})
		cons := fmt.Sprintf("(*ChannelWriter).%s | getObjState wiring", l.fn)
		if len(gs) != 1 {
			r.Fail("C08-R5", cons, fn.Pos(), fmt.Sprintf("%d getObjState calls (want 1)", len(gs)))
			continue
		}
		a := gs[0].Common().Args
		keyS := sym{pkgUtil, "", l.keyFn}
		loadOf := func(v ssa.Value, res int) (keyIdx int, ok bool) {
			e, isE := v.(*ssa.Extract)
			if !isE || e.Index != res {
				return 0, false
			}
			c, isC := e.Tuple.(*ssa.Call)
			if !isC || callSym(c.Common()).name != "Load" {
				return 0, false
			}
			rc := callRecv(c.Common())
			if rc == nil || !strings.HasSuffix(w.accessPath(rc), "."+l.table) {
				return 0, false
			}
			k := callArgs(c.Common())[0]
			if extractOf(k, keyS, 0) {
				return 0, true
			}
			if extractOf(k, keyS, 1) {
				return 1, true
			}
			return 0, false
		}
		_, tsIsParam := a[0].(*ssa.Parameter)
		r.Check(tsIsParam, "C08-R5", cons+" | op time", gs[0].Pos(), "first argument is the caller's operation time", "first argument of getObjState is not the operation time parameter")
		ck, ok1 := loadOf(a[1], 0)
		dk, ok2 := loadOf(a[2], 0)
		cko, ok3 := loadOf(a[3], 1)
		dko, ok4 := loadOf(a[4], 1)
		r.Check(ok1 && ck == 0 && ok3 && cko == 0, "C08-R5", cons+" | create time", gs[0].Pos(), "ctime/cok = Load(create key) of "+l.table, "create time / known flag do not come from Load(createKey) of "+l.table+" with the key of util."+l.keyFn)
		r.Check(ok2 && dk == 1 && ok4 && dko == 1, "C08-R5", cons+" | drop time", gs[0].Pos(), "dtime/dok = Load(drop key) of "+l.table, "drop time / known flag do not come from Load(dropKey) of "+l.table+" with the key of util."+l.keyFn)
		// a known state is returned as is; unknown leads to a downstream probe
		kcalls := callsIn(fn, false, keyS)
		r.Check(len(kcalls) == 1, "C08-R5", cons+" | one key vocabulary", fn.Pos(), "keys built once by util."+l.keyFn, "keys are not built by exactly one util."+l.keyFn+" call")
		// after a successful probe the create key is stored with drop+1
		okStore := false
		okValue := true
		badValue := ""
		eachInstr(fn, func(in ssa.Instruction) {
			c, ok := in.(*ssa.Call)
			if !ok || callSym(c.Common()).name != "Store" {
				return
			}
			rc := callRecv(c.Common())
			if rc == nil || !strings.HasSuffix(w.accessPath(rc), "."+l.table) {
				return
			}
			args := callArgs(c.Common())
			if extractOf(args[0], keyS, 0) {
				okStore = true
				// the recorded create time is drop time + 1: it must depend on the drop record only, never on the probing operation's time
				okv, bad := mustDerive(args[1], func(v ssa.Value) leafVerdict {
					if lc, isC := v.(*ssa.Call); isC && callSym(lc.Common()).name == "LoadWithDefault" {
						rc2 := callRecv(lc.Common())
						if rc2 != nil && strings.HasSuffix(w.accessPath(rc2), "."+l.table) && extractOf(callArgs(lc.Common())[0], keyS, 1) {
							return leafGood
						}
						return leafBad
					}
					if _, isC := v.(*ssa.Const); isC {
						return leafGood
					}
					if bo, isB := v.(*ssa.BinOp); isB && bo.Op == token.ADD {
						return leafDescend
					}
					return leafDescend
				})
				if !okv {
					okValue = false
					badValue = w.accessPath(bad)
				}
			}
		})
		r.Check(okStore, "C08-R5", cons+" | probe result recorded", fn.Pos(), "create key stored after a successful probe", "a successful downstream probe is not recorded under the create key")
		r.Check(okValue, "C08-R5", cons+" | recorded create time", fn.Pos(), "= recorded drop time + constant", "the create time recorded after a probe depends on "+badValue+" (it must be derived from the recorded drop time only; taking the probing operation's time makes older operations on the same incarnation look stale)")
	}
}

// gateReturns: the wait call's results (skip, err) guard D: on err != nil and on skip the function returns before D.
func gateReturns(wc ssa.CallInstruction, d ssa.CallInstruction) bool {
	v := wc.Value()
	if v == nil {
		return false
	}
	var skip, errv ssa.Value
	for _, ref := range *v.Referrers() {
		if e, ok := ref.(*ssa.Extract); ok {
			if e.Index == 0 {
				skip = e
			} else {
				errv = e
			}
		}
	}
	if skip == nil || errv == nil {
		return false
	}
	okSkip, okErr := false, false
	fn := wc.Parent()
	for _, b := range fn.Blocks {
		cond, t, f, ok := ifSuccs(b)
		if !ok {
			continue
		}
		if cond == skip {
			// true branch must not reach d
			if !blockReach(t, nil)[d.Block()] && t != d.Block() {
				okSkip = true
			}
			_ = f
		}
		if bo, isB := cond.(*ssa.BinOp); isB && (bo.X == errv || bo.Y == errv) {
			tgt := t
			if bo.Op.String() == "==" {
				tgt = f
			}
			if !blockReach(tgt, nil)[d.Block()] && tgt != d.Block() {
				okErr = true
			}
		}
	}
	return okSkip && okErr
}

// gateTimeOK: the time argument of the check is the message's EndTs() (ops) — for
// WaitObjReadyForAPIEvent the event itself carries the time.
func gateTimeOK(w *World, fn *ssa.Function, wc ssa.CallInstruction) bool {
	s := callSym(wc.Common())
	if s.name == "WaitObjReadyForAPIEvent" {
		_, isParam := callArgs(wc.Common())[1].(*ssa.Parameter)
		return isParam
	}
	args := callArgs(wc.Common())
	ts := args[4]
	c, ok := ts.(*ssa.Call)
	if !ok || callSym(c.Common()).name != "EndTs" {
		return false
	}
	// on the function's own message
	for _, v := range backSlice(callRecv(c.Common()), SliceOpts{MaxDepth: 6}) {
		if _, isP := v.(*ssa.Parameter); isP {
			return true
		}
	}
	return false
}

// listGate: the wait call is in a loop; every append feeding a list argument of D is in a block
// reached only when skip was false and err was nil.
func listGate(w *World, fn *ssa.Function, wc ssa.CallInstruction, d ssa.CallInstruction) bool {
	v := wc.Value()
	var skip ssa.Value
	for _, ref := range *v.Referrers() {
		if e, ok := ref.(*ssa.Extract); ok && e.Index == 0 {
			skip = e
		}
	}
	if skip == nil {
		return false
	}
	var notSkipped *ssa.BasicBlock
	for _, b := range fn.Blocks {
		if cond, _, f, ok := ifSuccs(b); ok && cond == skip {
			notSkipped = f
		}
	}
	if notSkipped == nil {
		return false
	}
	// find list-typed fields of D's param that derive from append calls
	found := false
	good := true
	for _, x := range backSlice(callArgs(d.Common())[1], SliceOpts{ThroughArg: appendArgs, MaxDepth: 14}) {
		c, ok := x.(*ssa.Call)
		if !ok {
			continue
		}
		if b, isB := c.Call.Value.(*ssa.Builtin); !isB || b.Name() != "append" {
			continue
		}
		if c.Parent() != fn {
			continue
		}
		found = true
		if !(c.Block() == notSkipped || notSkipped.Dominates(c.Block())) {
			good = false
		}
	}
	return found && good
}

func c08R6(w *World, r *Report) {
	tables := map[string]string{"dbInfos": "GetDBInfoKeys", "collectionInfos": "GetCollectionInfoKeys", "partitionInfos": "GetPartitionInfoKeys"}
	dropFns := map[string]bool{"dropDatabase": true, "dropCollection": true, "dropPartition": true}
	waitFns := map[string]bool{"WaitDatabaseReady": true, "WaitCollectionReady": true, "WaitPartitionReady": true}
	for _, fn := range w.RepoFuncs() {
		if fn.Pkg.Pkg.Path() != pkgWriter {
			continue
		}
		host := fnSym(rootFunc(fn))
		n := map[string]int{}
		eachInstr(fn, func(in ssa.Instruction) {
			ci, ok := in.(ssa.CallInstruction)
			if !ok {
				return
			}
			rc := callRecv(ci.Common())
			if rc == nil {
				return
			}
			ap := w.accessPath(rc)
			tbl := ""
			for t := range tables {
				if strings.HasSuffix(ap, "."+t) {
					tbl = t
				}
			}
			if tbl == "" || !typeIs(rc.Type(), pkgUtil, "Map") {
				return
			}
			m := callSym(ci.Common()).name
			n[tbl+m]++
			cons := fmt.Sprintf("%s | %s.%s#%d", shortFn2(fn), tbl, m, n[tbl+m])
			switch m {
			case "Load", "LoadWithDefault":
				r.OK("C08-R6", cons, ci.Pos(), "read")
			case "Store":
				key := callArgs(ci.Common())[0]
				keyS := sym{pkgUtil, "", tables[tbl]}
				switch {
				case host.name == "NewChannelWriter":
					r.OK("C08-R6", cons, ci.Pos(), "initial snapshot of dropped objects")
				case extractOf(key, keyS, 1):
					r.Check(dropFns[host.name], "C08-R6", cons, ci.Pos(), "drop time recorded by the drop operation", "a drop time is stored outside the three drop operations")
				case extractOf(key, keyS, 0):
					r.Check(waitFns[host.name], "C08-R6", cons, ci.Pos(), "create time recorded after a probe", "a create time is stored outside the Wait*Ready probes")
				default:
					r.Fail("C08-R6", cons, ci.Pos(), "Store with a key that is not a result of util."+tables[tbl])
				}
			default:
				r.Fail("C08-R6", cons, ci.Pos(), fmt.Sprintf("%s.%s: recorded create/drop times must never be removed or rewritten (an operation of an older incarnation would no longer be recognised as stale)", tbl, m))
			}
		})
	}
}

// c08SnapshotTables: C08-R7.
func c08SnapshotTables(w *World, r *Report) {
	fn := w.Func(pkgWriter, "", "NewChannelWriter")
	if fn == nil {
		r.Undecided("C08-R7", "NewChannelWriter", 0, "anchor not found")
		return
	}
	want := map[string]string{"database": "dbInfos", "collection": "collectionInfos", "partition": "partitionInfos"}
	n := 0
	eachInstr(fn, func(in ssa.Instruction) {
		c, ok := in.(*ssa.Call)
		if !ok || callSym(c.Common()).name != "Store" {
			return
		}
		rv := callRecv(c.Common())
		if os.Getenv("VDEBUG") != "" {
			fmt.Println("DEBUG store", rv != nil, func() string { if rv != nil { return w.accessPath(rv) }; return "" }())
		}
		if rv == nil {
			return
		}
		table := ""
		for _, t := range want {
			if strings.HasSuffix(w.accessPath(rv), "."+t) {
				table = t
			}
		}
		if table == "" {
			return
		}
		// the key ranges over droppedObjs[<level constant>]
		level := ""
		for _, x := range backSlice(callArgs(c.Common())[0], SliceOpts{MaxDepth: 8}) {
			if os.Getenv("VDEBUG") != "" {
				fmt.Printf("DEBUG slice %T %s\n", x, x.String())
			}
			if lk, isL := x.(*ssa.Lookup); isL {
				for _, y := range backSlice(lk.Index, SliceOpts{MaxDepth: 3}) {
					if s, isS := constString(y); isS && want[s] != "" {
						level = s
					}
					if g, isG := y.(*ssa.Global); isG {
						switch g.Name() {
						case "DroppedDatabaseKey":
							level = "database"
						case "DroppedCollectionKey":
							level = "collection"
						case "DroppedPartitionKey":
							level = "partition"
						}
					}
				}
			}
		}
		if level == "" {
			return
		}
		n++
		r.Check(want[level] == table, "C08-R7", "NewChannelWriter | droppedObjs["+level+"] -> "+want[level], c.Pos(), "stored into "+table, "the recorded drop times of the "+level+" level are loaded into "+table+": after a restart operations older than such a drop are no longer recognised as belonging to a dropped incarnation (and fail the task or hit a newer incarnation)")
	})
	if n < 3 {
		r.Fail("C08-R7", "NewChannelWriter | snapshot load census", fn.Pos(), fmt.Sprintf("only %d of the 3 snapshot levels are loaded", n))
	}
}

// c08AllMembers: C08-R8.
func c08AllMembers(w *World, r *Report) {
	n := 0
	for _, name := range []string{"loadPartitions", "releasePartitions", "flush"} {
		fn := w.Func(pkgWriter, "ChannelWriter", name)
		cons := "(*ChannelWriter)." + name + " | re-check loop after a failed call"
		if fn == nil {
			r.Undecided("C08-R8", cons, 0, "anchor not found")
			continue
		}
		found := false
		bad := token.NoPos
		for _, b := range fn.Blocks {
			v, nn, _, ok := errNilTest(b)
			if !ok {
				continue
			}
			isHandler := false
			for _, x := range backSlice(v, SliceOpts{MaxDepth: 4}) {
				if c, isC := x.(*ssa.Call); isC && c.Call.IsInvoke() && strings.HasSuffix(w.accessPath(c.Call.Value), ".dataHandler") {
					isHandler = true
				}
			}
			if !isHandler {
				continue
			}
			// WaitObjReady calls inside a loop in the failure region
			for _, rb := range fn.Blocks {
				if !(rb == nn || nn.Dominates(rb)) {
					continue
				}
				for _, in := range rb.Instrs {
					c, isC := in.(*ssa.Call)
					if !isC || callSym(c.Common()).name != "WaitObjReady" {
						continue
					}
					h := loopHeaderOf(rb)
					if h == nil || !(nn.Dominates(h) || h == nn) {
						continue
					}
					found = true
					// success returns taken from inside the loop: dominated by a block of the loop body
					for _, lb := range fn.Blocks {
						ret, isR := lb.Instrs[len(lb.Instrs)-1].(*ssa.Return)
						if !isR || len(ret.Results) != 1 || !isNilConst(returnedValue(ret, 0)) {
							continue
						}
						for _, body := range fn.Blocks {
							if body != h && loopHeaderOf(body) == h && (body == lb || body.Dominates(lb)) {
								bad = ret.Pos()
							}
						}
					}
				}
			}
		}
		if !found {
			r.Undecided("C08-R8", cons, fn.Pos(), "no re-check loop found after the downstream call")
			continue
		}
		n++
		r.Check(bad == token.NoPos, "C08-R8", cons, fn.Pos(), "success only after the loop has seen every member", "the loop returns success as soon as one member is found dropped: a failed operation on several members is reported as done although the live ones were not operated on")
	}
}
