package main

// Flattening of immediately applied function literals.
//
// golang.org/x/tools' inliner reduces a call to straight-line code only when the callee is a single `return expr` or a
// void statement list; every other helper (statements followed by results, early returns) becomes
//
//	x, err := func() (T, error) { …; return a, b }()
//
// The rules reason about dominance and paths inside ONE function, so such a literal would hide the helper's control
// flow from them. When the literal takes no parameters and contains no defer, recover, goto or label, the call is
// equivalent to
//
//	var r0 T; var r1 error
//	L: switch { default: …; r0, r1 = a, b; break L }
//	x, err := r0, r1
//
// (each `return a, b` of the literal itself becomes `r0, r1 = a, b; break L`; returns inside nested literals are left
// alone). The rewrite is applied only to literals that were not in the file before inlining.

import (
	"bytes"
	"fmt"
	"go/ast"
	"go/format"
	"go/parser"
	"go/printer"
	"go/token"

	"golang.org/x/tools/go/ast/astutil"
)

var flattenCounter int

func nodeText(fset *token.FileSet, n ast.Node) string {
	var b bytes.Buffer
	printer.Fprint(&b, fset, n)
	return b.String()
}

// iifeTexts returns the printed text of every immediately applied, parameterless function literal of the file.
func iifeTexts(src []byte) map[string]bool {
	out := map[string]bool{}
	fset := token.NewFileSet()
	f, err := parser.ParseFile(fset, "x.go", src, parser.SkipObjectResolution)
	if err != nil {
		return out
	}
	ast.Inspect(f, func(n ast.Node) bool {
		if c, ok := n.(*ast.CallExpr); ok {
			if lit, ok := c.Fun.(*ast.FuncLit); ok && len(c.Args) == 0 {
				out[nodeText(fset, lit)] = true
			}
		}
		return true
	})
	return out
}

func iifeOf(e ast.Expr) (*ast.FuncLit, bool) {
	c, ok := e.(*ast.CallExpr)
	if !ok || len(c.Args) != 0 {
		return nil, false
	}
	lit, ok := c.Fun.(*ast.FuncLit)
	if !ok || (lit.Type.Params != nil && len(lit.Type.Params.List) > 0) || lit.Type.TypeParams != nil {
		return nil, false
	}
	return lit, true
}

// flattenable: no defer / goto / label / recover in the literal's own body (nested literals are opaque).
func flattenable(lit *ast.FuncLit) bool {
	ok := true
	var visit func(n ast.Node) bool
	visit = func(n ast.Node) bool {
		switch x := n.(type) {
		case *ast.FuncLit:
			return x == lit
		case *ast.DeferStmt, *ast.LabeledStmt:
			ok = false
		case *ast.BranchStmt:
			if x.Tok == token.GOTO || x.Label != nil {
				ok = false
			}
		case *ast.CallExpr:
			if id, isID := x.Fun.(*ast.Ident); isID && id.Name == "recover" {
				ok = false
			}
		}
		return true
	}
	ast.Inspect(lit, visit)
	return ok
}

type resVar struct {
	name  string // named result ("" if unnamed)
	typ   ast.Expr
	tmp   string
	named bool
}

// flattenIIFEs rewrites the file; before holds the literal texts that existed before inlining. Returns the new source
// and the number of literals flattened.
func flattenIIFEs(src []byte, before map[string]bool) ([]byte, int, error) {
	fset := token.NewFileSet()
	f, err := parser.ParseFile(fset, "x.go", src, parser.SkipObjectResolution)
	if err != nil {
		return src, 0, err
	}
	n := 0
	rewrite := func(lit *ast.FuncLit, finish func(tmps []ast.Expr) ast.Stmt) []ast.Stmt {
		flattenCounter++
		id := flattenCounter
		label := fmt.Sprintf("vflat%d", id)
		var res []resVar
		if lit.Type.Results != nil {
			for _, fld := range lit.Type.Results.List {
				if len(fld.Names) == 0 {
					res = append(res, resVar{typ: fld.Type})
					continue
				}
				for _, nm := range fld.Names {
					res = append(res, resVar{name: nm.Name, typ: fld.Type, named: nm.Name != "_"})
				}
			}
		}
		var out []ast.Stmt
		var tmps []ast.Expr
		for i := range res {
			res[i].tmp = fmt.Sprintf("vflat%dr%d", id, i)
			tmps = append(tmps, ast.NewIdent(res[i].tmp))
			out = append(out, &ast.DeclStmt{Decl: &ast.GenDecl{Tok: token.VAR, Specs: []ast.Spec{&ast.ValueSpec{Names: []*ast.Ident{ast.NewIdent(res[i].tmp)}, Type: res[i].typ}}}})
		}
		// replace the literal's own returns
		var body ast.Node = lit.Body
		body = astutil.Apply(body, func(c *astutil.Cursor) bool {
			switch x := c.Node().(type) {
			case *ast.FuncLit:
				return false
			case *ast.ReturnStmt:
				var stmts []ast.Stmt
				if len(res) > 0 {
					var rhs []ast.Expr
					if len(x.Results) == 0 {
						for _, rv := range res {
							rhs = append(rhs, ast.NewIdent(rv.name))
						}
					} else {
						rhs = x.Results
					}
					var lhs []ast.Expr
					for _, rv := range res {
						lhs = append(lhs, ast.NewIdent(rv.tmp))
					}
					stmts = append(stmts, &ast.AssignStmt{Lhs: lhs, Tok: token.ASSIGN, Rhs: rhs})
				}
				stmts = append(stmts, &ast.BranchStmt{Tok: token.BREAK, Label: ast.NewIdent(label)})
				c.Replace(&ast.BlockStmt{List: stmts})
				return false
			}
			return true
		}, nil)
		var inner []ast.Stmt
		for _, rv := range res {
			if rv.named {
				inner = append(inner, &ast.DeclStmt{Decl: &ast.GenDecl{Tok: token.VAR, Specs: []ast.Spec{&ast.ValueSpec{Names: []*ast.Ident{ast.NewIdent(rv.name)}, Type: rv.typ}}}})
				inner = append(inner, &ast.AssignStmt{Lhs: []ast.Expr{ast.NewIdent("_")}, Tok: token.ASSIGN, Rhs: []ast.Expr{ast.NewIdent(rv.name)}})
			}
		}
		inner = append(inner, body.(*ast.BlockStmt).List...)
		sw := &ast.SwitchStmt{Body: &ast.BlockStmt{List: []ast.Stmt{&ast.CaseClause{Body: inner}}}}
		out = append(out, &ast.LabeledStmt{Label: ast.NewIdent(label), Stmt: sw})
		if fin := finish(tmps); fin != nil {
			out = append(out, fin)
		}
		n++
		return out
	}
	eligible := func(lit *ast.FuncLit) bool {
		return lit != nil && flattenable(lit) && !before[nodeText(fset, lit)]
	}
	var doList func(list []ast.Stmt) []ast.Stmt
	doList = func(list []ast.Stmt) []ast.Stmt {
		var out []ast.Stmt
		for _, s := range list {
			switch x := s.(type) {
			case *ast.ExprStmt:
				if lit, ok := iifeOf(x.X); ok && eligible(lit) && (lit.Type.Results == nil || len(lit.Type.Results.List) == 0) {
					out = append(out, rewrite(lit, func([]ast.Expr) ast.Stmt { return nil })...)
					continue
				}
			case *ast.AssignStmt:
				if len(x.Rhs) == 1 {
					if lit, ok := iifeOf(x.Rhs[0]); ok && eligible(lit) {
						out = append(out, rewrite(lit, func(t []ast.Expr) ast.Stmt {
							return &ast.AssignStmt{Lhs: x.Lhs, Tok: x.Tok, Rhs: t}
						})...)
						continue
					}
				}
			case *ast.ReturnStmt:
				if len(x.Results) == 1 {
					if lit, ok := iifeOf(x.Results[0]); ok && eligible(lit) {
						out = append(out, rewrite(lit, func(t []ast.Expr) ast.Stmt {
							return &ast.ReturnStmt{Results: t}
						})...)
						continue
					}
				}
			}
			out = append(out, s)
		}
		return out
	}
	// repeat until nothing changes (a flattened body may contain further literals)
	for pass := 0; pass < 6; pass++ {
		before0 := n
		ast.Inspect(f, func(nd ast.Node) bool {
			switch x := nd.(type) {
			case *ast.BlockStmt:
				x.List = doList(x.List)
			case *ast.CaseClause:
				x.Body = doList(x.Body)
			case *ast.CommClause:
				x.Body = doList(x.Body)
			}
			return true
		})
		if n == before0 {
			break
		}
	}
	if n == 0 {
		return src, 0, nil
	}
	var b bytes.Buffer
	if err := printer.Fprint(&b, fset, f); err != nil {
		return src, 0, err
	}
	out, err := format.Source(b.Bytes())
	if err != nil {
		return src, 0, fmt.Errorf("flattened source does not parse: %w", err)
	}
	return out, n, nil
}
