package main

import (
	"fmt"
	"go/constant"
	"go/token"
	"go/types"

	"golang.org/x/tools/go/ssa"
)

// Finite-domain abstract evaluation of loop-free functions.
//
// A "cell" assigns an abstract value to every input the function's control flow
// depends on (parameters, selected field loads, results of selected calls). For
// order-type domains an integer parameter's abstract value is its rank in a weak
// order, so every comparison between parameters has a definite outcome in the
// cell. The evaluator propagates the cell through the SSA control-flow graph
// (each conditional edge admits the cell iff the condition holds in it) and
// records the abstract return values. Running it for every cell of a finite
// domain yields the function's complete decision table without executing it.

// AVal is an abstract value: bool, int64 (rank / enum), string, aErr, aNil, aOpaque, or a tuple.
type aErrT struct{}
type aNilT struct{}
type aOpaqueT struct{ why string }
type aTuple []any

var aErr = aErrT{}
var aNil = aNilT{}

func (aErrT) String() string    { return "non-nil error" }
func (aNilT) String() string    { return "nil" }
func (o aOpaqueT) String() string { return "opaque(" + o.why + ")" }

type AbsEnv struct {
	Params map[string]any                            // parameter name -> abstract value
	Call   func(c *ssa.CallCommon, args []any) (any, bool) // abstract result of a call; false = ignore (returns opaque)
	Load   func(path string) (any, bool)             // abstract value of a load by access path
	W      *World
	steps  int
}

type AbsResult struct {
	Results []any
	Trace   []int // block indices visited
	Err     string
}

func absEvalFunc(fn *ssa.Function, env *AbsEnv) AbsResult {
	return absEvalFuncObs(fn, env, nil)
}

// absEvalFuncObs additionally reports every store to a non-local address (by access path) to obs.
func absEvalFuncObs(fn *ssa.Function, env *AbsEnv, obs func(path string, v any)) AbsResult {
	vals := map[ssa.Value]any{}
	mem := map[ssa.Value]any{} // alloc -> value
	var res AbsResult
	for _, p := range fn.Params {
		if v, ok := env.Params[p.Name()]; ok {
			vals[p] = v
		} else {
			vals[p] = aOpaqueT{"param " + p.Name()}
		}
	}
	var eval func(v ssa.Value) any
	eval = func(v ssa.Value) any {
		if x, ok := vals[v]; ok {
			return x
		}
		switch c := v.(type) {
		case *ssa.Const:
			if c.Value == nil {
				return aNil
			}
			switch c.Value.Kind() {
			case constant.Bool:
				return constant.BoolVal(c.Value)
			case constant.String:
				return constant.StringVal(c.Value)
			case constant.Int:
				if i, ok := constant.Int64Val(c.Value); ok {
					return i
				}
				if u, ok := constant.Uint64Val(c.Value); ok {
					return int64(u >> 1)
				}
			}
			return aOpaqueT{"const"}
		case *ssa.Function, *ssa.Global, *ssa.Builtin:
			return aOpaqueT{"func/global"}
		}
		return aOpaqueT{fmt.Sprintf("unevaluated %T", v)}
	}
	cmp := func(op token.Token, a, b any) (bool, bool) {
		switch x := a.(type) {
		case int64:
			y, ok := b.(int64)
			if !ok {
				return false, false
			}
			switch op {
			case token.EQL:
				return x == y, true
			case token.NEQ:
				return x != y, true
			case token.LSS:
				return x < y, true
			case token.LEQ:
				return x <= y, true
			case token.GTR:
				return x > y, true
			case token.GEQ:
				return x >= y, true
			}
		case string:
			y, ok := b.(string)
			if !ok {
				return false, false
			}
			switch op {
			case token.EQL:
				return x == y, true
			case token.NEQ:
				return x != y, true
			}
		case bool:
			y, ok := b.(bool)
			if !ok {
				return false, false
			}
			switch op {
			case token.EQL:
				return x == y, true
			case token.NEQ:
				return x != y, true
			}
		case aNilT:
			switch b.(type) {
			case aNilT:
				return op == token.EQL, true
			case aErrT:
				return op == token.NEQ, true
			}
		case aErrT:
			switch b.(type) {
			case aNilT:
				return op == token.NEQ, true
			}
		}
		return false, false
	}
	b := fn.Blocks[0]
	var prev *ssa.BasicBlock
	for {
		env.steps++
		if env.steps > 5000 {
			res.Err = "evaluation did not terminate (loop?)"
			return res
		}
		res.Trace = append(res.Trace, b.Index)
		var next *ssa.BasicBlock
		for _, in := range b.Instrs {
			switch x := in.(type) {
			case *ssa.Phi:
				for i, p := range b.Preds {
					if p == prev {
						vals[x] = eval(x.Edges[i])
					}
				}
			case *ssa.BinOp:
				a, c := eval(x.X), eval(x.Y)
				switch x.Op {
				case token.EQL, token.NEQ, token.LSS, token.LEQ, token.GTR, token.GEQ:
					if r, ok := cmp(x.Op, a, c); ok {
						vals[x] = r
					} else {
						vals[x] = aOpaqueT{fmt.Sprintf("compare %v %s %v", a, x.Op, c)}
					}
				case token.ADD:
					ai, ok1 := a.(int64)
					ci, ok2 := c.(int64)
					if ok1 && ok2 {
						vals[x] = ai + ci
					} else {
						vals[x] = aOpaqueT{"add"}
					}
				case token.LAND, token.AND:
					ab, ok1 := a.(bool)
					cb, ok2 := c.(bool)
					if ok1 && ok2 {
						vals[x] = ab && cb
					} else {
						vals[x] = aOpaqueT{"and"}
					}
				default:
					vals[x] = aOpaqueT{"binop " + x.Op.String()}
				}
			case *ssa.UnOp:
				switch x.Op {
				case token.NOT:
					if bv, ok := eval(x.X).(bool); ok {
						vals[x] = !bv
					} else {
						vals[x] = aOpaqueT{"not"}
					}
				case token.MUL:
					if al, ok := x.X.(*ssa.Alloc); ok {
						if mv, ok := mem[al]; ok {
							vals[x] = mv
							break
						}
					}
					if env.Load != nil && env.W != nil {
						if lv, ok := env.Load(env.W.accessPath(x.X)); ok {
							vals[x] = lv
							break
						}
					}
					vals[x] = aOpaqueT{"load"}
				default:
					vals[x] = aOpaqueT{"unop"}
				}
			case *ssa.Store:
				if al, ok := x.Addr.(*ssa.Alloc); ok {
					mem[al] = eval(x.Val)
				} else if obs != nil && env.W != nil {
					obs(env.W.accessPath(x.Addr), eval(x.Val))
				}
			case *ssa.Alloc:
				vals[x] = aOpaqueT{"alloc"}
			case *ssa.Call:
				var args []any
				for _, a := range x.Call.Args {
					args = append(args, eval(a))
				}
				if env.Call != nil {
					if rv, ok := env.Call(x.Common(), args); ok {
						vals[x] = rv
						break
					}
				}
				vals[x] = aOpaqueT{"call " + callSym(x.Common()).name}
			case *ssa.Extract:
				if t, ok := eval(x.Tuple).(aTuple); ok && x.Index < len(t) {
					vals[x] = t[x.Index]
				} else {
					vals[x] = aOpaqueT{"extract"}
				}
			case *ssa.ChangeType:
				vals[x] = eval(x.X)
			case *ssa.Convert:
				vals[x] = eval(x.X)
			case *ssa.MakeInterface:
				vals[x] = eval(x.X)
			case *ssa.ChangeInterface:
				vals[x] = eval(x.X)
			case *ssa.If:
				c, ok := eval(x.Cond).(bool)
				if !ok {
					res.Err = fmt.Sprintf("branch condition at block %d is not decided by the cell: %v", b.Index, eval(x.Cond))
					return res
				}
				if c {
					next = b.Succs[0]
				} else {
					next = b.Succs[1]
				}
			case *ssa.Jump:
				next = b.Succs[0]
			case *ssa.Return:
				for _, rv := range x.Results {
					res.Results = append(res.Results, eval(rv))
				}
				return res
			case *ssa.Panic:
				res.Results = []any{"panic"}
				return res
			case *ssa.RunDefers, *ssa.Defer, *ssa.DebugRef:
			case ssa.Value:
				vals[x] = aOpaqueT{fmt.Sprintf("%T", in)}
			}
		}
		if next == nil {
			res.Err = fmt.Sprintf("block %d has no evaluated terminator", b.Index)
			return res
		}
		prev, b = b, next
	}
}

// weakOrders enumerates all weak orders of n items as rank vectors (ranks start at 1, dense).
func weakOrders(n int) [][]int64 {
	var out [][]int64
	var rec func(i int, cur []int64)
	seen := map[string]bool{}
	rec = func(i int, cur []int64) {
		if i == n {
			// normalise: dense ranks
			used := map[int64]bool{}
			for _, r := range cur {
				used[r] = true
			}
			var sorted []int64
			for r := int64(1); r <= int64(n); r++ {
				if used[r] {
					sorted = append(sorted, r)
				}
			}
			norm := make([]int64, n)
			for k, r := range cur {
				for idx, s := range sorted {
					if s == r {
						norm[k] = int64(idx + 1)
					}
				}
			}
			key := fmt.Sprint(norm)
			if !seen[key] {
				seen[key] = true
				out = append(out, norm)
			}
			return
		}
		for r := int64(1); r <= int64(n); r++ {
			rec(i+1, append(append([]int64{}, cur...), r))
		}
	}
	rec(0, nil)
	return out
}

// enumConsts returns name->value for constants of a named integer type in a package.
func (w *World) enumConsts(pkg, typ string) map[string]int64 {
	out := map[string]int64{}
	p := w.ByPath[pkg]
	if p == nil || p.Types == nil {
		return out
	}
	tn, _ := p.Types.Scope().Lookup(typ).(*types.TypeName)
	if tn == nil {
		return out
	}
	for _, n := range p.Types.Scope().Names() {
		if c, ok := p.Types.Scope().Lookup(n).(*types.Const); ok && types.Identical(c.Type(), tn.Type()) {
			if i, ok := constant.Int64Val(c.Val()); ok {
				out[n] = i
			}
		}
	}
	return out
}
