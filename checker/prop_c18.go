package main

import (
	"fmt"
	"go/types"
	"sort"
	"strings"

	"golang.org/x/tools/go/ssa"
)

func init() {
	register("C18", &propDef{run: runC18,
		explain: "Structural necessary conditions of 'credentials never appear in API responses or logs', decided by type-directed analysis of every log / format / marshal-to-log sink and every response constructor of the server and core packages. Secret paths are the string fields Password and Token of the server/model connect-parameter structs (MilvusConnectParam.Password, MilvusConnectParam.Token, KafkaSASL.Password). (R1) no value whose static type transitively contains a secret path is given to a zap object field (Any/Reflect/Object/Inline/Stringer), a fmt formatter, or json.Marshal whose bytes reach a log field, unless every secret path of that very object was overwritten with \"\" by stores dominating the sink; (R2) response types contain secret paths only through request.Task, whose literals are built only in GetTask after all secret paths of the source object were cleared; (R3) the request-logging sanitiser handles every request model type that contains a secret path and clears all of its secret paths before marshalling.",
		notDec:  []string{"secrets embedded in third-party error strings or connection URIs", "values of interface type whose dynamic type is not evident in the function (only MakeInterface sources are resolved)"},
	})
}

// secretPaths returns the field paths (by name) under t that lead to a secret string field.
func secretPaths(t types.Type) [][]string {
	var out [][]string
	seen := map[types.Type]bool{}
	var rec func(t types.Type, path []string, depth int)
	rec = func(t types.Type, path []string, depth int) {
		if depth > 8 {
			return
		}
		switch x := t.(type) {
		case *types.Pointer:
			rec(x.Elem(), path, depth)
			return
		case *types.Slice:
			rec(x.Elem(), append(append([]string{}, path...), "[]"), depth+1)
			return
		case *types.Array:
			rec(x.Elem(), append(append([]string{}, path...), "[]"), depth+1)
			return
		case *types.Map:
			rec(x.Elem(), append(append([]string{}, path...), "[]"), depth+1)
			return
		case *types.Alias:
			rec(types.Unalias(x), path, depth)
			return
		}
		n, isNamed := t.(*types.Named)
		st, ok := t.Underlying().(*types.Struct)
		if !ok {
			return
		}
		if isNamed {
			if seen[n] {
				return
			}
			seen[n] = true
			defer delete(seen, n)
		}
		for i := 0; i < st.NumFields(); i++ {
			f := st.Field(i)
			np := append(append([]string{}, path...), f.Name())
			if isSecretField(n, f) {
				out = append(out, np)
				continue
			}
			rec(f.Type(), np, depth+1)
		}
	}
	rec(t, nil, 0)
	return out
}

func isSecretField(owner *types.Named, f *types.Var) bool {
	if owner == nil || owner.Obj().Pkg() == nil {
		return false
	}
	if b, ok := f.Type().Underlying().(*types.Basic); !ok || b.Kind() != types.String {
		return false
	}
	p := owner.Obj().Pkg().Path()
	if !strings.HasPrefix(p, "github.com/zilliztech/milvus-cdc/") {
		return false
	}
	n := strings.ToLower(f.Name())
	return n == "password" || n == "token" || n == "secret" || strings.HasSuffix(n, "password") || strings.HasSuffix(n, "token")
}

// clearedBefore: every secret path of the object (access path obj) has a dominating store of "" before `at`.
func (w *World) clearedBefore(fam *Family, obj string, paths [][]string, at ssa.Instruction) (bool, string) {
	for _, p := range paths {
		for _, seg := range p {
			if seg == "[]" {
				return false, strings.Join(p, ".") + " (inside a collection: cannot be cleared element-wise)"
			}
		}
		full := obj + "." + strings.Join(p, ".")
		ok := false
		for _, st := range latestDominating(w.storesToPath(fam, full), at) {
			if s, isC := constString(st.Val); isC && s == "" {
				ok = true
			}
		}
		if !ok {
			return false, strings.Join(p, ".")
		}
	}
	return true, ""
}

func runC18(w *World, r *Report) {
	defer c18StoredRecord(w, r)
	r.Rule("C18-R1", "no secret-bearing value reaches a log sink", "zap.Any/Reflect/Object/Inline/Stringer, fmt formatting and json.Marshal-to-log of a value whose static type contains MilvusConnectParam.{Password,Token} or KafkaSASL.Password requires dominating stores of \"\" to every such path of that object", 1)
	r.Rule("C18-R2", "responses", "request.Task literals are built only in request.GetTask from an object whose secret paths were all cleared; no other *Response type contains a secret path", 3)
	r.Rule("C18-R3", "sanitiser completeness", "GetRequestInfo has a sanitising branch for every request model type containing a secret path and clears each of its secret paths before marshalling", 3)

	sinkPkgs := map[string]bool{}
	for _, p := range w.Pkgs {
		if strings.HasSuffix(p.PkgPath, "mocks") || strings.Contains(p.PkgPath, "/tool") {
			continue
		}
		sinkPkgs[p.PkgPath] = true
	}
	zapObj := map[string]bool{"Any": true, "Reflect": true, "Object": true, "Inline": true, "Stringer": true, "Array": true}
	fmtFns := map[string]bool{"Sprintf": true, "Sprint": true, "Sprintln": true, "Errorf": true, "Printf": true, "Println": true, "Print": true, "Fprintf": true, "Newf": true, "Wrapf": true, "Errorf2": true}

	nSinks := 0
	for _, fn := range w.RepoFuncs() {
		if !sinkPkgs[fn.Pkg.Pkg.Path()] {
			continue
		}
		fam := familyOf(fn)
		host := shortFn2(fn)
		perHost := map[string]int{}
		eachInstr(fn, func(in ssa.Instruction) {
			c, ok := in.(*ssa.Call)
			if !ok {
				return
			}
			s := callSym(c.Common())
			var cand []ssa.Value
			kind := ""
			switch {
			case s.pkg == "go.uber.org/zap" && s.recv == "" && zapObj[s.name]:
				kind = "zap." + s.name
				cand = c.Call.Args[1:]
			case (s.pkg == "fmt" || strings.HasSuffix(s.pkg, "cockroachdb/errors")) && fmtFns[s.name]:
				kind = "format " + s.name
				cand = c.Call.Args
			case isJSONMarshal(s):
				// only when the bytes reach a log field or a returned string used for logging
				if !bytesReachLog(c) {
					return
				}
				kind = "json.Marshal->log"
				cand = c.Call.Args
			default:
				return
			}
			// expand varargs
			var vals []ssa.Value
			for _, a := range cand {
				vals = append(vals, a)
				if sl, ok := a.(*ssa.Slice); ok {
					if al, ok := sl.X.(*ssa.Alloc); ok {
						for _, in2 := range fam.allInstr {
							if st, ok := in2.(*ssa.Store); ok {
								if ia, ok := st.Addr.(*ssa.IndexAddr); ok && ia.X == ssa.Value(al) {
									vals = append(vals, st.Val)
								}
							}
						}
					}
				}
			}
			for _, v := range vals {
				// concrete values behind an interface; the sanitisation must be complete where the value is boxed
				var concs []ssa.Value
				atOf := map[ssa.Value]ssa.Instruction{}
				if mi, ok := v.(*ssa.MakeInterface); ok {
					concs = append(concs, mi.X)
					atOf[mi.X] = mi
				} else if ph, ok := v.(*ssa.Phi); ok {
					for _, e := range ph.Edges {
						if mi, ok := e.(*ssa.MakeInterface); ok {
							concs = append(concs, mi.X)
							atOf[mi.X] = mi
						}
					}
				} else if _, isIface := v.Type().Underlying().(*types.Interface); !isIface {
					concs = append(concs, v)
				}
				for _, x := range concs {
					var at ssa.Instruction = c
					if a, ok := atOf[x]; ok {
						at = a
					}
					sp := secretPaths(x.Type())
					if len(sp) == 0 {
						continue
					}
					nSinks++
					perHost[kind]++
					cons := fmt.Sprintf("%s | %s of %s", host, kind, types.TypeString(x.Type(), func(p *types.Package) string { return p.Name() }))
					if perHost[kind] > 1 {
						cons = fmt.Sprintf("%s #%d", cons, perHost[kind])
					}
					// the object: pointer value itself, or the address a struct value was loaded from
					obj := w.accessPath(x)
					ok, miss := w.clearedBefore(fam, obj, sp, at)
					if ok {
						r.OK("C18-R1", cons, c.Pos(), fmt.Sprintf("all %d secret paths of %s cleared before the sink", len(sp), obj))
					} else {
						r.Fail("C18-R1", cons, c.Pos(), fmt.Sprintf("the value logged/formatted here contains %s and nothing cleared it on this object (%s): the credential is written to the log", miss, obj))
					}
				}
			}
		})
	}
	// direct reads of a secret field flowing into any zap field, fmt formatter or error constructor
	nDirect := 0
	for _, fn := range w.RepoFuncs() {
		if !sinkPkgs[fn.Pkg.Pkg.Path()] {
			continue
		}
		host := shortFn2(fn)
		k := 0
		eachInstr(fn, func(in ssa.Instruction) {
			c, ok := in.(*ssa.Call)
			if !ok {
				return
			}
			s := callSym(c.Common())
			isSink := s.pkg == "go.uber.org/zap" || s.pkg == "fmt" || strings.HasSuffix(s.pkg, "cockroachdb/errors") || (s.pkg == "errors" && s.name == "New")
			if !isSink {
				return
			}
			nDirect++
			for _, a := range c.Call.Args {
				for _, v := range backSlice(a, SliceOpts{MaxDepth: 6}) {
					var fv *types.Var
					var owner types.Type
					switch x := v.(type) {
					case *ssa.FieldAddr:
						fv, owner = fieldVar(x.X.Type(), x.Field), x.X.Type()
					case *ssa.Field:
						fv, owner = fieldVar(x.X.Type(), x.Field), x.X.Type()
					}
					if fv != nil && isSecretField(namedOf(owner), fv) {
						k++
						r.Fail("C18-R1", fmt.Sprintf("%s | %s of secret field %s #%d", host, s.String(), fv.Name(), k), c.Pos(), "a credential field is read and formatted/logged directly")
					}
					// the undecoded payload of a request: it is the client's JSON, credentials included, and no
					// sanitiser can have seen it
					if fv != nil && fv.Name() == "RequestData" && typeIs(owner, pkgRequest, "CDCRequest") {
						k++
						r.Fail("C18-R1", fmt.Sprintf("%s | %s of the raw request payload #%d", host, s.String(), k), c.Pos(), "CDCRequest.RequestData (the client's undecoded JSON, which for a create request contains the passwords and tokens) is formatted/logged")
					}
				}
			}
		})
	}
	r.Extra["zap_fmt_error_calls_inspected_for_direct_secret_reads"] = nDirect
	r.Extra["sinks_with_secret_bearing_types"] = nSinks
	// census of all sinks inspected, to prove non-vacuity
	total := 0
	for _, fn := range w.RepoFuncs() {
		if !sinkPkgs[fn.Pkg.Pkg.Path()] {
			continue
		}
		eachInstr(fn, func(in ssa.Instruction) {
			if c, ok := in.(*ssa.Call); ok {
				s := callSym(c.Common())
				if (s.pkg == "go.uber.org/zap" && zapObj[s.name]) || (s.pkg == "fmt" && fmtFns[s.name]) {
					total++
				}
			}
		})
	}
	r.Extra["log_and_format_sinks_inspected"] = total
	if total < 100 {
		r.Fail("C18-R1", "sink census", 0, fmt.Sprintf("only %d zap-object / fmt sinks found in the repository (130 counted when the rule was written): the sink matcher no longer sees the code", total))
	} else {
		r.OK("C18-R1", "sink census", 0, fmt.Sprintf("%d log/format sinks inspected, %d carry secret-bearing types", total, nSinks))
	}

	// ---------- R2 responses
	reqPkg := w.ByPath[pkgRequest]
	if reqPkg == nil {
		r.Undecided("C18-R2", "request package", 0, "not loaded")
	} else {
		var names []string
		for _, n := range reqPkg.Types.Scope().Names() {
			if strings.HasSuffix(n, "Response") {
				names = append(names, n)
			}
		}
		sort.Strings(names)
		task := w.Named(pkgRequest, "Task")
		for _, n := range names {
			tn := reqPkg.Types.Scope().Lookup(n).Type()
			sp := secretPaths(tn)
			bad := ""
			for _, p := range sp {
				// allowed only through a field of type request.Task
				if !pathThroughType(tn, p, task) {
					bad = strings.Join(p, ".")
				}
			}
			r.Check(bad == "", "C18-R2", "request."+n+" | secret paths", reqPkg.Types.Scope().Lookup(n).Pos(), fmt.Sprintf("%d secret paths, all inside request.Task", len(sp)), "response type exposes "+bad+" outside the sanitised request.Task")
		}
		// Task literals
		nLit := 0
		for _, fn := range w.RepoFuncs() {
			if !sinkPkgs[fn.Pkg.Pkg.Path()] {
				continue
			}
			fam := familyOf(fn)
			for _, al := range allocsOfType(fn, pkgRequest, "Task", false) {
				nLit++
				cons := shortFn2(fn) + " | request.Task literal"
				if s := fnSym(fn); !(s.pkg == pkgRequest && s.name == "GetTask") {
					r.Fail("C18-R2", cons, al.Pos(), "request.Task is built outside request.GetTask, the only place that clears the credentials")
					continue
				}
				ok := true
				det := ""
				for _, fs := range fieldStoresOn(fam, al) {
					if fs.Field == nil {
						continue
					}
					sp := secretPaths(fs.Field.Type())
					if len(sp) == 0 {
						continue
					}
					// value is loaded from obj.<Field>; every secret path below must be cleared on obj before the load
					src := w.accessPath(fs.Val)
					var at ssa.Instruction = fs.Store
					if ld, isLd := fs.Val.(ssa.Instruction); isLd {
						at = ld
					}
					if c, miss := w.clearedBefore(fam, src, sp, at); !c {
						ok = false
						det = fmt.Sprintf("Task.%s is copied from %s whose %s is not cleared first", fs.Field.Name(), src, miss)
					}
				}
				r.Check(ok, "C18-R2", cons, al.Pos(), "credentials cleared on the source object before it is copied into the response", det)
			}
		}
		if nLit == 0 {
			r.Fail("C18-R2", "request.Task literal census", 0, "no request.Task literal found")
		}
	}

	// ---------- R4 callers of the sanitiser
	r.Rule("C18-R4", "sanitiser is given a type it recognises", "at every call of GetRequestInfo the concrete type boxed into the argument is either free of credentials or one of the types asserted (and sanitised) inside GetRequestInfo", 2)
	c18SanitiserCallers(w, r)

	// ---------- R3 sanitiser
	gri := w.Func(pkgServer, "", "GetRequestInfo")
	if gri == nil {
		r.Undecided("C18-R3", "GetRequestInfo", 0, "anchor not found")
	} else {
		fam := familyOf(gri)
		// request model types: allocs returned by generateModel literals in the server package's init
		models := map[string]*types.Named{}
		for _, fn := range w.RepoFuncs() {
			if fn.Pkg.Pkg.Path() != pkgServer || fn.Parent() == nil {
				continue
			}
			if fn.Signature.Params().Len() != 0 || fn.Signature.Results().Len() != 1 {
				continue
			}
			eachInstr(fn, func(in ssa.Instruction) {
				if al, ok := in.(*ssa.Alloc); ok {
					if n := namedOf(al.Type()); n != nil && n.Obj().Pkg() != nil && n.Obj().Pkg().Path() == pkgRequest {
						models[n.Obj().Name()] = n
					}
				}
			})
		}
		// a generic constructor of handlers (newRequestHandler[Req, Resp]) names the models as type arguments
		for _, n := range requestTypeArgs(w) {
			models[n.Obj().Name()] = n
		}
		if len(models) < 8 {
			r.Fail("C18-R3", "request model census", gri.Pos(), fmt.Sprintf("only %d request model types found (8 confirmed)", len(models)))
		}
		// the json.Marshal calls in GetRequestInfo
		var finalMarshal *ssa.Call
		var marshals []ssa.CallInstruction
		eachInstr(gri, func(in ssa.Instruction) {
			if ci, ok := in.(ssa.CallInstruction); ok && isJSONMarshal(callSym(ci.Common())) {
				marshals = append(marshals, ci)
			}
		})
		for _, c := range marshals {
			last := true
			for _, d := range marshals {
				if d != c && instrReaches(c, d) {
					last = false
				}
			}
			if last {
				finalMarshal = c.(*ssa.Call)
			}
		}
		for _, name := range sortedKeys(models) {
			n := models[name]
			sp := secretPaths(n)
			cons := "GetRequestInfo | " + name
			if len(sp) == 0 {
				r.OK("C18-R3", cons, gri.Pos(), "no secret path in this request type")
				continue
			}
			// a branch asserting *T and an object of type *T marshalled at the end with all paths cleared
			asserted := false
			eachInstr(gri, func(in ssa.Instruction) {
				if ta, ok := in.(*ssa.TypeAssert); ok && namedOf(ta.AssertedType) == n {
					asserted = true
				}
			})
			if !asserted || finalMarshal == nil {
				r.Fail("C18-R3", cons, gri.Pos(), "this request type carries credentials but GetRequestInfo has no sanitising branch for it: the raw request is logged")
				continue
			}
			// the sanitised copy: an alloc of T in the function whose secret paths are all cleared before the final marshal
			ok := false
			miss := ""
			for _, al := range allocsOfType(gri, pkgRequest, name, false) {
				// complete where the copy is boxed into the value that is marshalled
				var at ssa.Instruction = finalMarshal
				for _, ref := range *al.Referrers() {
					if mi, ok := ref.(*ssa.MakeInterface); ok && instrReaches(mi, finalMarshal) {
						if _, isCallArg := callUses(mi); !isCallArg {
							at = mi
						}
					}
				}
				c, m := w.clearedBefore(fam, w.accessPath(al), sp, at)
				if c {
					ok = true
				} else {
					miss = m
				}
			}
			r.Check(ok, "C18-R3", cons, gri.Pos(), fmt.Sprintf("all %d secret paths cleared on the copy before it is marshalled", len(sp)), "the sanitised copy still carries "+miss+" when it is marshalled for the log")
		}
	}
}

// c18SanitiserCallers: C18-R4. GetRequestInfo recognises a request by a type assertion on *T; a caller that hands it a
// T VALUE (or any other secret-bearing type it does not assert) gets the unsanitised JSON back.
func c18SanitiserCallers(w *World, r *Report) {
	gri := w.Func(pkgServer, "", "GetRequestInfo")
	if gri == nil {
		r.Undecided("C18-R4", "GetRequestInfo", 0, "anchor not found")
		return
	}
	var asserted []types.Type
	eachInstr(gri, func(in ssa.Instruction) {
		if ta, ok := in.(*ssa.TypeAssert); ok {
			asserted = append(asserted, ta.AssertedType)
		}
	})
	n := 0
	for _, fn := range w.RepoFuncs() {
		k := 0
		eachInstr(fn, func(in ssa.Instruction) {
			ci, ok := in.(ssa.CallInstruction)
			if !ok || ci.Common().StaticCallee() != gri || len(ci.Common().Args) != 1 {
				return
			}
			n++
			k++
			cons := fmt.Sprintf("%s | GetRequestInfo#%d argument", shortFn2(fn), k)
			bad := ""
			for _, x := range backSlice(ci.Common().Args[0], SliceOpts{MaxDepth: 6}) {
				mi, isMI := x.(*ssa.MakeInterface)
				if !isMI {
					continue
				}
				t := mi.X.Type()
				nm := namedOf(t)
				if nm == nil || (len(secretPaths(nm)) == 0 && !carriesRawPayload(nm)) {
					continue
				}
				handled := false
				for _, a := range asserted {
					if types.Identical(a, t) {
						handled = true
					}
				}
				if !handled {
					bad = types.TypeString(t, func(p *types.Package) string { return p.Name() })
				}
			}
			r.Check(bad == "", "C18-R4", cons, ci.Pos(), "the argument's concrete type is one the sanitiser recognises (or carries no credentials)", "the value handed to the request sanitiser has type "+bad+", which carries credentials but is not one of the types GetRequestInfo asserts: it is marshalled unsanitised and the credentials are logged")
		})
	}
	if n < 2 {
		r.Fail("C18-R4", "GetRequestInfo call census", gri.Pos(), fmt.Sprintf("only %d call sites of GetRequestInfo found (2 confirmed)", n))
	}
}

// bytesReachLog: the []byte result of a Marshal call flows (within the function) into a zap field, or is
// converted to string and returned from a function named like a log helper.
func bytesReachLog(c *ssa.Call) bool {
	fn := c.Parent()
	res := extractIdx(c, 0)
	if res == nil {
		return false
	}
	reach := false
	eachInstr(fn, func(in ssa.Instruction) {
		switch x := in.(type) {
		case *ssa.Call:
			s := callSym(x.Common())
			if s.pkg != "go.uber.org/zap" {
				return
			}
			for _, a := range x.Call.Args {
				for _, v := range backSlice(a, SliceOpts{MaxDepth: 8}) {
					if v == res {
						reach = true
					}
				}
			}
		case *ssa.Return:
			if fnSym(fn).name == "GetRequestInfo" {
				for _, rv := range x.Results {
					for _, v := range backSlice(rv, SliceOpts{MaxDepth: 8}) {
						if v == res {
							reach = true
						}
					}
				}
			}
		}
	})
	return reach
}

// pathThroughType: does field path p under t pass through a field whose type is `through`?
func pathThroughType(t types.Type, p []string, through *types.Named) bool {
	cur := t
	for _, seg := range p {
		for {
			switch x := cur.(type) {
			case *types.Pointer:
				cur = x.Elem()
				continue
			case *types.Alias:
				cur = types.Unalias(x)
				continue
			}
			break
		}
		if seg == "[]" {
			switch x := cur.Underlying().(type) {
			case *types.Slice:
				cur = x.Elem()
			case *types.Array:
				cur = x.Elem()
			case *types.Map:
				cur = x.Elem()
			}
			if n := namedOf(cur); n != nil && through != nil && types.Identical(n, through) {
				return true
			}
			continue
		}
		st, ok := cur.Underlying().(*types.Struct)
		if !ok {
			return false
		}
		found := false
		for i := 0; i < st.NumFields(); i++ {
			if st.Field(i).Name() == seg {
				cur = st.Field(i).Type()
				found = true
			}
		}
		if !found {
			return false
		}
		if n := namedOf(cur); n != nil && through != nil && types.Identical(n, through) {
			return true
		}
	}
	return false
}

// isJSONMarshal: encoding/json, goccy/go-json, json-iterator ... Marshal / MarshalIndent.
func isJSONMarshal(s sym) bool {
	return (s.name == "Marshal" || s.name == "MarshalIndent" || s.name == "MarshalToString") && (strings.HasSuffix(s.pkg, "json") || strings.Contains(s.pkg, "json-iterator"))
}

// callUses reports whether the boxed value is (only) an argument of a call (e.g. json.Unmarshal(buf, copy)).
func callUses(mi *ssa.MakeInterface) (ssa.CallInstruction, bool) {
	if mi.Referrers() == nil {
		return nil, false
	}
	for _, ref := range *mi.Referrers() {
		if ci, ok := ref.(ssa.CallInstruction); ok {
			return ci, true
		}
	}
	return nil, false
}

// carriesRawPayload: the type holds an undecoded request body (a map[string]any field such as CDCRequest.RequestData):
// a create request's credentials are in it in clear.
func carriesRawPayload(n *types.Named) bool {
	t := n.Underlying()
	if p, ok := t.(*types.Pointer); ok {
		t = p.Elem().Underlying()
	}
	st, ok := t.(*types.Struct)
	if !ok {
		return false
	}
	for i := 0; i < st.NumFields(); i++ {
		if m, isMap := st.Field(i).Type().Underlying().(*types.Map); isMap {
			if it, isI := m.Elem().Underlying().(*types.Interface); isI && it.NumMethods() == 0 {
				return true
			}
		}
	}
	return false
}

// c18StoredRecord (C18-R5): the serialised task record (the JSON kept in the meta store, credentials included) is only
// decoded; it is never formatted into an error text or a log field. An error built from it travels to the log of the
// store, of store.GetTaskInfo, of ReloadTask, and to the API client through get / list.
func c18StoredRecord(w *World, r *Report) {
	r.Rule("C18-R5", "the stored task record is never put into a message", "in the Get methods of TaskInfoEtcdStore / TaskInfoMysqlStore the value handed to json.Unmarshal for a *meta.TaskInfo flows into no errors / fmt / zap / log call (directly or through util.ToString / string conversion)", 2)
	n := 0
	for _, typ := range []string{"TaskInfoEtcdStore", "TaskInfoMysqlStore"} {
		fn := w.Func(pkgStore, typ, "Get")
		if fn == nil {
			r.Undecided("C18-R5", "(*"+typ+").Get", 0, "anchor not found")
			continue
		}
		conv := func(c *ssa.CallCommon) []ssa.Value {
			switch callSym(c).name {
			case "ToString", "ToBytes", "String", "Sprintf", "Sprint", "Wrapf", "Wrap", "WithMessage", "WithMessagef", "Newf", "Errorf":
				return callArgs(c)
			}
			return nil
		}
		for _, g := range familyOf(fn).Funcs {
			roots := map[ssa.Value]bool{}
			eachInstr(g, func(in ssa.Instruction) {
				c, ok := in.(*ssa.Call)
				if !ok || callSym(c.Common()).name != "Unmarshal" || !strings.HasSuffix(callSym(c.Common()).pkg, "json") || len(c.Call.Args) < 2 {
					return
				}
				target := c.Call.Args[1]
				if mi, isMI := target.(*ssa.MakeInterface); isMI {
					target = mi.X
				}
				if !strings.Contains(target.Type().String(), "TaskInfo") {
					return
				}
				for _, x := range backSlice(c.Call.Args[0], SliceOpts{MaxDepth: 5, ThroughArg: conv}) {
					if _, isC := x.(*ssa.Const); !isC {
						roots[x] = true
					}
				}
			})
			if len(roots) == 0 {
				continue
			}
			n++
			var bad ssa.Instruction
			eachInstr(g, func(in ssa.Instruction) {
				c, ok := in.(*ssa.Call)
				if !ok {
					return
				}
				s := callSym(c.Common())
				if !(strings.HasSuffix(s.pkg, "errors") || s.pkg == "fmt" || strings.Contains(s.pkg, "zap") || strings.HasSuffix(s.pkg, "/log")) {
					return
				}
				for _, a := range callArgs(c.Common()) {
					for _, x := range backSlice(a, SliceOpts{MaxDepth: 6, ThroughArg: conv}) {
						if roots[x] {
							if _, isErr := x.(*ssa.Call); isErr {
								continue
							}
							bad = c
						}
					}
				}
			})
			pos := g.Pos()
			detail := ""
			if bad != nil {
				pos = bad.Pos()
				detail = "the serialised task record (it contains the Milvus password / token and the Kafka SASL password) is formatted into an error or log message: one record that no longer decodes puts the stored credentials into the log and into the error that get / list return to the client"
			}
			r.Check(bad == nil, "C18-R5", fmt.Sprintf("(*%s).Get | stored record only decoded", typ), pos, "the record reaches json.Unmarshal only", detail)
		}
	}
	if n == 0 {
		r.Undecided("C18-R5", "task info stores", 0, "no json.Unmarshal into a TaskInfo found in the store Get methods")
	}
}

// requestTypeArgs: request model types (package server/model/request) that appear as type arguments of generic
// functions instantiated in the server package.
func requestTypeArgs(w *World) []*types.Named {
	seen := map[string]*types.Named{}
	for _, fn := range w.RepoFuncs() {
		if fn.Pkg == nil || fn.Pkg.Pkg.Path() != pkgServer {
			continue
		}
		eachInstr(fn, func(in ssa.Instruction) {
			ci, ok := in.(ssa.CallInstruction)
			if !ok {
				return
			}
			cal := ci.Common().StaticCallee()
			if cal == nil {
				return
			}
			for _, ta := range cal.TypeArgs() {
				if n := namedOf(ta); n != nil && n.Obj().Pkg() != nil && n.Obj().Pkg().Path() == pkgRequest && strings.HasSuffix(n.Obj().Name(), "Request") {
					seen[n.Obj().Name()] = n
				}
			}
		})
	}
	var out []*types.Named
	for _, k := range sortedKeys(seen) {
		out = append(out, seen[k])
	}
	return out
}
