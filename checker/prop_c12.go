package main

import (
	"go/types"
	"fmt"
	"go/token"
	"regexp"
	"strings"

	"golang.org/x/tools/go/ssa"
)

func init() {
	register("C12", &propDef{run: runC12,
		explain: "Non-interference over operation sequences is NOT decided. Decided structural necessary conditions of 'metadata records are isolated per tenant, task, collection and channel': (R1) etcd: every prefix scan/delete uses a key produced by a function whose result ends in '/', every exact operation a key-function result, and WithPrefix is present exactly for the former (checked edge-wise where key and options are chosen together); all key functions join the root path with a kind constant; the replicate store's prefix reads are only requested with an empty or '/'-terminated key; (R2) SQL: every SELECT / DELETE / UPDATE text that reaches the database constrains the key column, by equality with a key-function value or by LIKE on a '/'-terminated prefix; (R3) task deletion removes the record and the checkpoints with the same transaction object and finishes the transaction on every path; (R4) the checkpoint read-modify-write touches exactly the entry of the given channel (and the target position's own key) and never an entry marked dropped; (R5) the task id is validated before it becomes a key segment.",
		notDec:  []string{"behaviour of etcd / MySQL themselves", "LIKE wildcard characters inside a root path", "sequences of operations (only each operation's key construction is decided)"},
	})
}

// endsWithSlash: every return of fn is a string concatenation whose last operand is the constant "/".
func endsWithSlash(fn *ssa.Function) bool {
	if fn == nil || fn.Blocks == nil {
		return false
	}
	ok, n := true, 0
	eachInstr(fn, func(in ssa.Instruction) {
		ret, isR := in.(*ssa.Return)
		if !isR {
			return
		}
		n++
		bo, isB := ret.Results[0].(*ssa.BinOp)
		if !isB || bo.Op != token.ADD {
			ok = false
			return
		}
		if s, isS := constString(bo.Y); !isS || s != "/" {
			ok = false
		}
	})
	return ok && n > 0
}

var sqlVerb = regexp.MustCompile(`(?i)^\s*(SELECT|DELETE|UPDATE|INSERT|CREATE)\b`)

func runC12(w *World, r *Report) {
	// the replicate-meta store is one of the metadata back ends: its prefix reads stay inside their own root path (C17-R8)
	defer r.importRules(runC17, "C12-", map[string]bool{"C17-R8": true})
	r.Rule("C12-R1", "etcd prefix discipline", "WithPrefix <=> the key comes from a '/'-terminated prefix function; exact operations use key functions; key functions are path.Join(rootPath, <kind constant>, ids…)", 12)
	r.Rule("C12-R2", "SQL key predicate", "every SELECT/DELETE/UPDATE statement text constrains the *_key column (= ? with a key-function value, or LIKE '<prefix>%' with a '/'-terminated prefix)", 6)
	r.Rule("C12-R3", "transactional delete", "store.DeleteTask: both deletes receive the transaction object; the transaction is finished on every path", 2)
	r.Rule("C12-R4", "single-entry read-modify-write; dropped entries frozen", "UpdateTaskCollectionPosition: each of the three map updates uses the given channel (or the target position's own key) and is control-dependent on `origin == nil || !origin.Dropped` for that key", 6)
	r.Rule("C12-R6", "a store call given a transaction runs inside it", "in every Put/Get/Delete of the four backend stores, no direct client call (*sql.DB statement, etcd client Put/Get/Delete) is reachable from the `txn != nil` branch, and that branch stages its statement on the transaction (*sql.Tx statement / append to the transaction's op list)", 12)
	c12TxnBranch(w, r)
	c12DropMarksAll(w, r, "C12-R7")
	r.Rule("C12-R5", "identifiers validated before they become key segments", "validCreateRequest rejects a task id containing '/' before any store call of Create", 1)

	// ---------- key functions
	keyFns := map[string]*ssa.Function{}
	for _, n := range []string{"getTaskInfoPrefix", "getTaskInfoKey", "getTaskCollectionPositionPrefix", "getTaskCollectionPositionPrefixWithTaskID", "getTaskCollectionPositionKey"} {
		if f := w.Func(pkgStore, "", n); f != nil {
			keyFns[n] = f
		}
	}
	if len(keyFns) < 5 {
		r.Undecided("C12-R1", "key functions", 0, fmt.Sprintf("only %d of 5 key functions found", len(keyFns)))
	}
	for _, n := range sortedKeys(keyFns) {
		f := keyFns[n]
		// joins rootPath (first param) and a kind constant
		okJoin := false
		eachInstr(f, func(in ssa.Instruction) {
			c, ok := in.(*ssa.Call)
			if !ok || callSym(c.Common()) != (sym{"path", "", "Join"}) {
				return
			}
			hasRoot, hasKind := false, false
			for _, v := range backSlice(c.Call.Args[0], SliceOpts{MaxDepth: 6}) {
				if v == ssa.Value(f.Params[0]) {
					hasRoot = true
				}
				if s, isS := constString(v); isS && (s == "task_info" || s == "task_position") {
					hasKind = true
				}
			}
			if hasRoot && hasKind {
				okJoin = true
			}
			// segment order: root, kind, then the identifiers in the order of the parameters (task before collection)
			if segs := variadicArgs(c.Call.Args[0]); len(segs) >= 2 {
				okOrder := segs[0] == ssa.Value(f.Params[0])
				if _, isS := constString(segs[1]); !isS {
					okOrder = false
				}
				for i := 2; i < len(segs); i++ {
					if i-1 >= len(f.Params) {
						okOrder = false
						break
					}
					from := false
					for _, v := range backSlice(segs[i], SliceOpts{MaxDepth: 4, ThroughArg: func(cc *ssa.CallCommon) []ssa.Value { return callArgs(cc) }}) {
						if v == ssa.Value(f.Params[i-1]) {
							from = true
						}
					}
					if !from {
						okOrder = false
					}
				}
				if len(segs) != len(f.Params)+1 {
					okOrder = false
				}
				if !okOrder {
					okJoin = false
				}
			}
		})
		wantSlash := strings.Contains(n, "Prefix")
		r.Check(okJoin && endsWithSlash(f) == wantSlash, "C12-R1", "store."+n+" | shape", f.Pos(), fmt.Sprintf("path.Join(rootPath, kind, …), '/'-terminated=%v", wantSlash), "the key function does not join the root path with its kind constant, or a prefix function is not '/'-terminated (a scan of task 'a' would also match task 'ab')")
	}
	classify := func(v ssa.Value) (prefix, exact, other bool) {
		for _, x := range backSlice(v, SliceOpts{MaxDepth: 6}) {
			c, ok := x.(*ssa.Call)
			if !ok {
				continue
			}
			s := callSym(c.Common())
			if f, isKF := keyFns[s.name]; isKF && s.pkg == pkgStore {
				if endsWithSlash(f) {
					prefix = true
				} else {
					exact = true
				}
			}
		}
		if !prefix && !exact {
			other = true
		}
		return
	}
	hasWithPrefix := func(fam *Family, opts ssa.Value) (yes, no bool) {
		// opts: a []OpOption value; look at what was stored into its backing arrays
		found := false
		for _, x := range backSlice(opts, SliceOpts{MaxDepth: 6}) {
			if c, ok := x.(*ssa.Call); ok && callSym(c.Common()).name == "WithPrefix" {
				found = true
			}
		}
		return found, !found
	}
	n1 := map[string]int{}
	for _, fn := range w.RepoFuncs() {
		p := fn.Pkg.Pkg.Path()
		if p != pkgStore {
			continue
		}
		fam := familyOf(fn)
		eachInstr(fn, func(in ssa.Instruction) {
			c, ok := in.(*ssa.Call)
			if !ok {
				return
			}
			s := callSym(c.Common())
			if !strings.Contains(s.pkg, "etcd/client/v3") {
				return
			}
			var key, opts ssa.Value
			switch s.name {
			case "Get", "Delete":
				if len(c.Call.Args) < 3 {
					return
				}
				a := c.Call.Args
				key, opts = a[len(a)-2], a[len(a)-1]
			case "OpGet", "OpDelete":
				key, opts = c.Call.Args[0], c.Call.Args[1]
			default:
				return
			}
			host := shortFn2(fn)
			n1[host+s.name]++
			cons := fmt.Sprintf("%s | etcd %s#%d", host, s.name, n1[host+s.name])
			kphi, kIsPhi := key.(*ssa.Phi)
			ophi, oIsPhi := opts.(*ssa.Phi)
			if kIsPhi && oIsPhi && kphi.Block() == ophi.Block() {
				good := true
				for i := range kphi.Edges {
					pf, ex, _ := classify(kphi.Edges[i])
					wp, _ := hasWithPrefix(fam, ophi.Edges[i])
					if (pf && !wp) || (ex && wp) || (!pf && !ex) {
						good = false
					}
				}
				r.Check(good, "C12-R1", cons, c.Pos(), "key kind and WithPrefix agree on every incoming edge", "on some path an exact key is used with WithPrefix (records of ids that merely share a prefix are touched) or a prefix without it")
				return
			}
			pf, ex, other := classify(key)
			wp, _ := hasWithPrefix(fam, opts)
			good := !other && ((pf && !ex && wp) || (ex && !pf && !wp))
			r.Check(good, "C12-R1", cons, c.Pos(), fmt.Sprintf("prefix key=%v exact key=%v WithPrefix=%v", pf, ex, wp), fmt.Sprintf("key kind and WithPrefix disagree (prefix key=%v exact key=%v other=%v WithPrefix=%v)", pf, ex, other, wp))
		})
	}
	// replicate store: prefix reads only with "" key
	for _, fn := range w.RepoFuncs() {
		if !w.isRepoPkg(fn.Pkg.Pkg.Path()) {
			continue
		}
		eachInstr(fn, func(in ssa.Instruction) {
			ci, ok := in.(ssa.CallInstruction)
			if !ok || !ci.Common().IsInvoke() || ci.Common().Method.Name() != "Get" || !typeIs(ci.Common().Value.Type(), pkgAPI, "ReplicateStore") {
				return
			}
			a := ci.Common().Args
			wp, isC := a[2].(*ssa.Const)
			cons := shortFn2(fn) + " | ReplicateStore.Get prefix request"
			if isC && wp.Value != nil && wp.Value.ExactString() == "true" {
				ks, isS := constString(a[1])
				okK := isS && (ks == "" || strings.HasSuffix(ks, "/"))
				if !isS {
					if bo, isB := a[1].(*ssa.BinOp); isB {
						if s2, ok2 := constString(bo.Y); ok2 && s2 == "/" {
							okK = true
						}
					}
				}
				r.Check(okK, "C12-R1", cons, ci.Pos(), "prefix read with an empty or '/'-terminated key", "a prefix read is requested with a key that is not '/'-terminated: messages of task 't1' and 't10' are mixed")
			} else {
				r.OK("C12-R1", cons, ci.Pos(), "exact read")
			}
		})
	}

	// ---------- R2 SQL texts
	n2 := 0
	for _, fn := range w.RepoFuncs() {
		if fn.Pkg.Pkg.Path() != pkgStore {
			continue
		}
		host := shortFn2(fn)
		seen := map[string]bool{}
		eachInstr(fn, func(in ssa.Instruction) {
			var ops []*ssa.Value
			ops = in.Operands(ops)
			for _, op := range ops {
				if op == nil || *op == nil {
					continue
				}
				txt, ok := constString(*op)
				if !ok || !sqlVerb.MatchString(txt) || seen[txt] {
					continue
				}
				seen[txt] = true
				verb := strings.ToUpper(sqlVerb.FindStringSubmatch(txt)[1])
				if verb == "INSERT" || verb == "CREATE" {
					continue
				}
				n2++
				short := strings.Join(strings.Fields(txt), " ")
				if len(short) > 70 {
					short = short[:70]
				}
				cons := fmt.Sprintf("%s | %s", host, short)
				up := strings.ToUpper(txt)
				hasKeyEq := regexp.MustCompile(`(?i)_key\s*=\s*\?`).MatchString(txt)
				hasKeyLike := regexp.MustCompile(`(?i)_key\s+LIKE\s+'%s%%'`).MatchString(txt)
				hasKeyLikeSlash := regexp.MustCompile(`(?i)_key\s+LIKE\s+'%s/%%'`).MatchString(txt)
				switch {
				case hasKeyEq:
					r.OK("C12-R2", cons, in.Pos(), "key column = ?")
				case hasKeyLikeSlash:
					r.OK("C12-R2", cons, in.Pos(), "LIKE '<key>/%': the separator is part of the pattern")
				case hasKeyLike:
					// the format argument must be a '/'-terminated prefix
					okPrefix := false
					withID := ""
					if c, isCall := in.(*ssa.Call); isCall && callSym(c.Common()).name == "Sprintf" {
						for _, v := range backSlice(c.Call.Args[1], SliceOpts{MaxDepth: 8}) {
							if cc, isC2 := v.(*ssa.Call); isC2 {
								if f, isKF := keyFns[callSym(cc.Common()).name]; isKF && endsWithSlash(f) {
									okPrefix = true
									// a LIKE pattern is made of the root path only: an id inside it is matched as a pattern
									// ('_' and '%' are wildcards), ids are compared with `= ?`
									if len(f.Params) > 1 {
										withID = callSym(cc.Common()).name
									}
								}
							}
						}
					}
					if withID != "" {
						r.Fail("C12-R2", cons+" | pattern holds an id", in.Pos(), "the LIKE pattern is built by "+withID+", which puts a task id into the pattern: '_' and '%' inside an id are wildcards, so the statement also reads / deletes the records of other tasks (job_1 matches jobA1); ids are to be matched with `= ?`")
					}
					r.Check(okPrefix, "C12-R2", cons, in.Pos(), "LIKE on a '/'-terminated prefix function", "the LIKE prefix is not '/'-terminated (root 'cdc' also reads the records of root 'cdc2')")
				default:
					_ = up
					r.Fail("C12-R2", cons, in.Pos(), "the statement does not constrain the key column: with several root paths on one database it reads or deletes another tenant's records of the same task id")
				}
			}
		})
	}
	if n2 < 6 {
		r.Fail("C12-R2", "SQL text census", 0, fmt.Sprintf("only %d SELECT/DELETE/UPDATE texts found (7 confirmed)", n2))
	}

	// ---------- R3
	if dt := w.Func(pkgStore, "", "DeleteTask"); dt != nil {
		var txn *ssa.Call
		eachInstr(dt, func(in ssa.Instruction) {
			if c, ok := in.(*ssa.Call); ok && c.Call.IsInvoke() && c.Call.Method.Name() == "Txn" {
				txn = c
			}
		})
		nDel, okTxn := 0, true
		if txn != nil {
			txv := extractIdx(txn, 0)
			eachInstr(dt, func(in ssa.Instruction) {
				if c, ok := in.(*ssa.Call); ok && c.Call.IsInvoke() && (c.Call.Method.Name() == "Delete" || c.Call.Method.Name() == "Put") && instrReaches(txn, c) {
					nDel++
					if c.Call.Args[2] != txv {
						okTxn = false
					}
				}
			})
		}
		r.Check(txn != nil && nDel == 2 && okTxn, "C12-R3", "store.DeleteTask | both deletes inside the transaction", dt.Pos(), "record and checkpoints deleted with the txn object", fmt.Sprintf("%d mutating calls after Txn, all transactional=%v: deletion is not all-or-nothing", nDel, okTxn))
		commits := 0
		eachInstrDeep(dt, func(_ *ssa.Function, in ssa.Instruction) {
			if c, ok := in.(*ssa.Call); ok && !c.Call.IsInvoke() && calleeObj(c.Common()) == nil {
				if _, isB := c.Call.Value.(*ssa.Builtin); !isB {
					commits++
				}
			}
		})
		r.Check(commits >= 2, "C12-R3", "store.DeleteTask | transaction finished on every path", dt.Pos(), "commitFunc on the success path and in the deferred error path", "the transaction is not finished on some path")
	} else {
		r.Undecided("C12-R3", "DeleteTask", 0, "anchor not found")
	}

	// ---------- R4
	c12R4(w, r, "C12-R4")

	// ---------- R5
	if vr := w.Func(pkgServer, "MetaCDC", "validCreateRequest"); vr != nil {
		okID := false
		eachInstr(vr, func(in ssa.Instruction) {
			c, ok := in.(*ssa.Call)
			if !ok || callSym(c.Common()) != (sym{"strings", "", "Contains"}) {
				return
			}
			if s, isS := constString(c.Call.Args[1]); isS && s == "/" && strings.HasSuffix(w.accessPath(c.Call.Args[0]), ".TaskID") {
				okID = true
			}
		})
		r.Check(okID, "C12-R5", "validCreateRequest | task id without path separator", vr.Pos(), "a task id containing '/' is rejected", "a task id containing '/' is accepted and becomes a nested key segment: records of task a/b live under the prefix of task a")
	} else {
		r.Undecided("C12-R5", "validCreateRequest", 0, "anchor not found")
	}
}

// c12R4 is shared with C05-R3: single-entry read-modify-write of a checkpoint; dropped entries frozen.
func c12R4(w *World, r *Report, rule string) {
	if up := w.Func(pkgStore, "", "UpdateTaskCollectionPosition"); up != nil {
		pch := up.Params[4]
		k := 0
		eachInstr(up, func(in ssa.Instruction) {
			mu, ok := in.(*ssa.MapUpdate)
			if !ok {
				return
			}
			ap := w.accessPath(mu.Map)
			var table string
			for _, t := range []string{".Positions", ".OpPositions", ".TargetPositions"} {
				if strings.HasSuffix(ap, t) {
					table = t[1:]
				}
			}
			if table == "" {
				return
			}
			// updates of an existing record only (base is a loaded record, not a fresh literal)
			if strings.HasPrefix(ap, "alloc@") {
				return
			}
			k++
			cons := fmt.Sprintf("store.UpdateTaskCollectionPosition | %s[…] update", table)
			keyOK := mu.Key == ssa.Value(pch)
			if table == "TargetPositions" {
				keyOK = strings.Contains(w.accessPath(mu.Key), ".DataPair.Key") && strings.HasPrefix(w.accessPath(mu.Key), "param:"+up.Params[7].Name())
			}
			r.Check(keyOK, rule, cons+" | key", mu.Pos(), "keyed by the given channel / the target position's own key", "the update writes an entry other than the given channel's: another channel's checkpoint is overwritten")
			// the update is not reachable once the stored entry of the same key was found marked Dropped: find the
			// lookup of the same table and key, the branch on its .Dropped flag (in either polarity), and require that
			// the side on which Dropped is true cannot reach the update
			frozen := false
			for _, b := range up.Blocks {
				cond, t, f, isIf := ifSuccs(b)
				if !isIf {
					continue
				}
				for {
					u, isU := cond.(*ssa.UnOp)
					if !isU || u.Op != token.NOT {
						break
					}
					cond, t, f = u.X, f, t
				}
				ld, isLd := cond.(*ssa.UnOp)
				if !isLd || ld.Op != token.MUL {
					continue
				}
				fa, isFA := ld.X.(*ssa.FieldAddr)
				if !isFA || fieldName(fa.X.Type(), fa.Field) != "Dropped" {
					continue
				}
				same := false
				for _, x := range backSlice(fa.X, SliceOpts{MaxDepth: 4, NoAggregates: true}) {
					if lk, isL := x.(*ssa.Lookup); isL && w.accessPath(lk.X) == ap && w.accessPath(lk.Index) == w.accessPath(mu.Key) {
						same = true
					}
				}
				if !same {
					continue
				}
				_ = f
				if t != mu.Block() && !blockReach(t, nil)[mu.Block()] {
					frozen = true
				}
			}
			r.Check(frozen, rule, cons+" | dropped entries frozen", mu.Pos(), "skipped when the stored entry is marked Dropped", "an entry marked dropped can be overwritten: the checkpoint of a collection whose drop was replayed moves again")
		})
		if k < 3 {
			r.Fail(rule, "store.UpdateTaskCollectionPosition | update census", up.Pos(), fmt.Sprintf("only %d of 3 table updates found", k))
		}
	} else {
		r.Undecided(rule, "UpdateTaskCollectionPosition", 0, "anchor not found")
	}
}

// c12DropMarksAll (C12-R7, shared with C05): freezing a dropped collection marks every entry of each of the three
// checkpoint tables, each reached through a range over that very table (the tables are keyed differently: source channel
// names, op channel names, TARGET channel names).
func c12DropMarksAll(w *World, r *Report, rule string) {
	r.Rule(rule, "a replayed drop freezes every entry of the three checkpoint tables", "store.UpdateDropStateTaskCollectionPosition: for each of Positions, OpPositions and TargetPositions a `Dropped = true` store is made on the value of a range over that table itself (not on a lookup with a key taken from another table)", 3)
	fn := w.Func(pkgStore, "", "UpdateDropStateTaskCollectionPosition")
	if fn == nil {
		r.Undecided(rule, "UpdateDropStateTaskCollectionPosition", 0, "anchor not found")
		return
	}
	marked := map[string]bool{"Positions": false, "OpPositions": false, "TargetPositions": false}
	viaLookup := map[string]token.Pos{}
	for _, g := range familyOf(fn).Funcs {
		eachInstr(g, func(in ssa.Instruction) {
			st, ok := in.(*ssa.Store)
			if !ok {
				return
			}
			fa, ok := st.Addr.(*ssa.FieldAddr)
			if !ok || fieldName(fa.X.Type(), fa.Field) != "Dropped" {
				return
			}
			if c, isC := st.Val.(*ssa.Const); !isC || c.Value == nil || c.Value.String() != "true" {
				return
			}
			for _, v := range backSlice(fa.X, SliceOpts{MaxDepth: 6, NoAggregates: true}) {
				switch x := v.(type) {
				case *ssa.Extract:
					if nx, isNext := x.Tuple.(*ssa.Next); isNext && x.Index == 2 {
						if rg, isR := nx.Iter.(*ssa.Range); isR {
							ap := w.accessPath(rg.X)
							for t := range marked {
								if strings.HasSuffix(ap, "."+t) {
									marked[t] = true
								}
							}
						}
					}
				case *ssa.Lookup:
					ap := strings.TrimSuffix(w.accessPath(x.X), "[]")
					for t := range marked {
						if strings.HasSuffix(ap, "."+t) {
							viaLookup[t] = x.Pos()
						}
					}
				}
			}
		})
	}
	for _, t := range sortedKeys(marked) {
		detail := "no `Dropped = true` store on the entries of this table"
		if p, ok := viaLookup[t]; ok {
			detail = "the entries are reached by a lookup with a key of another table (" + w.Prog.Fset.Position(p).String() + "): TargetPositions is keyed by the downstream channel, Positions by the source channel, so entries without a same-named sibling are never marked"
		}
		r.Check(marked[t], rule, "store.UpdateDropStateTaskCollectionPosition | every entry of "+t+" is marked", fn.Pos(), "marked on the range over the table itself", detail+": a late acknowledgement overwrites the checkpoint of a collection whose drop was replayed")
	}
}

// c12TxnBranch: C12-R6.
func c12TxnBranch(w *World, r *Report) {
	for _, typ := range []string{"TaskInfoEtcdStore", "TaskCollectionPositionEtcdStore", "TaskInfoMysqlStore", "TaskCollectionPositionMysqlStore"} {
		for _, meth := range []string{"Put", "Get", "Delete"} {
			fn := w.Func(pkgStore, typ, meth)
			cons := fmt.Sprintf("(*%s).%s | txn branch", typ, meth)
			if fn == nil {
				r.Undecided("C12-R6", cons, 0, "anchor not found")
				continue
			}
			var txnParam *ssa.Parameter
			for _, p := range fn.Params {
				if _, isI := p.Type().Underlying().(*types.Interface); isI && p.Type().Underlying().(*types.Interface).NumMethods() == 0 {
					txnParam = p
				}
			}
			if txnParam == nil {
				r.Undecided("C12-R6", cons, fn.Pos(), "no transaction parameter found")
				continue
			}
			var tBlock *ssa.BasicBlock
			for _, b := range fn.Blocks {
				cond, t, f, ok := ifSuccs(b)
				if !ok {
					continue
				}
				bo, isB := cond.(*ssa.BinOp)
				if !isB || !((bo.X == ssa.Value(txnParam) && isNilConst(bo.Y)) || (bo.Y == ssa.Value(txnParam) && isNilConst(bo.X))) {
					continue
				}
				if bo.Op == token.NEQ {
					tBlock = t
				} else if bo.Op == token.EQL {
					tBlock = f
				}
			}
			if tBlock == nil {
				r.Undecided("C12-R6", cons, fn.Pos(), "no `txn != nil` test found: the transactional path is not understood")
				continue
			}
			reach := blockReach(tBlock, nil)
			reach[tBlock] = true
			direct, staged := "", false
			var where token.Pos
			for b := range reach {
				for _, in := range b.Instrs {
					switch x := in.(type) {
					case *ssa.MapUpdate:
						if strings.HasSuffix(w.accessPath(x.Map), ".txnMap") {
							staged = true
						}
					case ssa.CallInstruction:
						c := x.Common()
						var rt types.Type
						if c.IsInvoke() {
							rt = c.Value.Type()
						} else if rv := callRecv(c); rv != nil {
							rt = rv.Type()
						}
						if rt == nil {
							continue
						}
						name := ""
						if o := calleeObj(c); o != nil {
							name = o.Name()
						}
						switch {
						case typeIs(rt, "database/sql", "Tx"):
							staged = true
						case typeIs(rt, "database/sql", "DB"):
							direct, where = "(*sql.DB)."+name, x.Pos()
						case typeIs(rt, "go.etcd.io/etcd/client/v3", "Client") || typeIs(rt, "go.etcd.io/etcd/client/v3", "KV"):
							if name == "Put" || name == "Get" || name == "Delete" || name == "Do" || name == "Txn" {
								direct, where = "etcd client "+name, x.Pos()
							}
						}
					}
				}
			}
			if direct != "" {
				r.Fail("C12-R6", cons, where, "with a transaction object the statement is sent through "+direct+", outside the transaction: when a later step or the commit fails this step is not rolled back and the deletion is no longer all-or-nothing")
			} else {
				r.Check(staged, "C12-R6", cons, fn.Pos(), "the statement is staged on the transaction; no direct client call is reachable", "the transactional branch neither stages the statement on the transaction nor is understood")
			}
		}
	}
}
