package main

import (
	"fmt"
	"go/token"
	"go/types"
	"sort"
	"strings"

	"golang.org/x/tools/go/ssa"
)

func init() {
	register("C11", &propDef{run: runC11,
		explain: "Agreement of the four views of a task's state along API histories is NOT decided. Decided structural necessary conditions of 'task lifecycle is a consistent state machine with complete cleanup': (R1) no blocking select in a loop keeps spinning on a close-only channel: the case receiving from a `chan struct{}` leaves the loop (checked for every blocking select in loops of core/reader, core/writer and server); (R2) reference counting is paired: refCnt.Inc only next to taskQuitFuncs.Insert, every refCnt.Dec only after a successful GetAndRemove of the same task, entityQuitFunc and the entity map delete only under refCnt == 0 inside the replicateEntityMap lock, and no error return follows the Inc in startInternal; (R3) in-memory TaskInfo.State is written only after the persisted update succeeded; (R4) only the legal (new state, allowed old states) pairs are requested from store.UpdateTaskState and its guard precedes the Put; (R5) the per-state gauges move only after the persisted transition succeeded; (R6) delete removes the record and all checkpoints in one transaction and clears bookkeeping, task table and quit function; QuitRead stops every replicated collection and unsubscribes both event kinds; (R7) ReloadTask registers every listed task and starts or pauses it according to DisableAutoStart.",
		notDec:  []string{"agreement of API, persisted, in-memory state and gauges along arbitrary call sequences with injected store faults (only per-call ordering is decided)", "goroutine leaks in general", "the lookup/Inc race between startInternal and a concurrent last pause"},
	})
}

func runC11(w *World, r *Report) {
	// deletion (also the one that cleans up a failed create) removes record and checkpoints together only for a task
	// it finds in memory
	defer r.importRules(runC19, "C11-", map[string]bool{"C19-R9": true})
	// stopping a collection's reader finds the handler through the mapping key (a paused task has no active readers)
	defer r.importRules(runC02, "C11-", map[string]bool{"C02-R8": true})
	// delete and reload find a task's share of the per-target resources under the key create used (C10-R10); a pause
	// always tries the persisted update and the release, whatever the in-memory state says (C06-R6)
	defer r.importRules(runC10, "C11-", map[string]bool{"C10-R10": true})
	defer r.importRules(runC06, "C11-", map[string]bool{"C06-R6": true})
	// "deletion removes the task record and all ITS checkpoints": the prefix the delete scans ends with '/', so that
	// deleting task "a" does not take the checkpoints of task "ab" with it (C12-R1)
	defer r.importRules(runC12, "C11-", map[string]bool{"C12-R1": true})
	defer c11ReadersAfterState(w, r)
	defer c13StopReleases(w, r, "C11-R11")
	r.Rule("C11-R1", "no busy wait on a close-only channel", "in every blocking select inside a loop, a case that receives from a struct{} channel must leave the loop", 8)
	r.Rule("C11-R2", "reference counting is paired", "Inc next to taskQuitFuncs.Insert; Dec dominated by GetAndRemove==ok; entityQuitFunc + delete(entity) dominated by refCnt.Load()==0 under the replicateEntityMap lock; no error return after Inc in startInternal", 6)
	r.Rule("C11-R3", "memory follows the store", "every store to TaskInfo.State of a task held in cdcTasks is dominated by the success outcome of the persisted state update", 2)
	r.Rule("C11-R4", "only legal transitions are requested", "UpdateTaskState call sites: Running<-{Initial,Paused}, Paused<-{Running} (API), Paused<-any (internal); inside UpdateTaskState the old-state guard dominates Put", 15)
	r.Rule("C11-R5", "gauges move with persisted transitions", "TaskNumVec.UpdateState after a successful Put; TaskNumVec.Delete after a successful commit; TaskNumVec.Add after the task info was persisted (create) or listed (reload)", 4)
	r.Rule("C11-R6", "cleanup completeness", "delete: store.DeleteTask (both deletes with the txn object, commit on every path), bookkeeping, cdcTasks entry, quit function; QuitRead: StopReadCollection for every replicated collection and UnsubscribeEvent for both event types", 7)
	r.Rule("C11-R8", "memory is cleaned only after the persisted deletion", "in (*MetaCDC).delete every in-memory removal (cdcTasks entry, bookkeeping tables, quit function, reference count) is dominated by the success outcome of store.DeleteTask", 4)
	r.Rule("C11-R9", "a collection handed to the channel manager is tracked for shutdown whatever the outcome", "in CollectionReader.StartRead each StartReadCollection call is followed, also on its failure branch, by replicateCollectionMap.Store of that collection (the manager registers the drop barrier before the channels start; QuitRead only closes what is in the map)", 2)
	r.Rule("C11-R7", "reload", "ReloadTask puts every listed task into cdcTasks and either pauses it (DisableAutoStart) or starts it", 3)

	// ---------- R1
	pk := map[string]bool{pkgReader: true, pkgWriter: true, pkgServer: true, pkgUtil: true, pkgAPI: true, pkgMeta: true, pkgStore: true, pkgPacker: true}
	nSel := 0
	for _, fn := range w.RepoFuncs() {
		if !pk[fn.Pkg.Pkg.Path()] {
			continue
		}
		k := 0
		eachInstr(fn, func(in ssa.Instruction) {
			sel, ok := in.(*ssa.Select)
			if !ok || !sel.Blocking {
				return
			}
			h := loopHeaderOf(sel.Block())
			if h == nil {
				return
			}
			for i, st := range sel.States {
				if st.Dir != types.RecvOnly {
					continue
				}
				ch, ok := st.Chan.Type().Underlying().(*types.Chan)
				if !ok {
					continue
				}
				if s, isS := ch.Elem().Underlying().(*types.Struct); !isS || s.NumFields() != 0 {
					continue
				}
				nSel++
				k++
				cons := fmt.Sprintf("%s | select#%d case <-%s", shortFn2(fn), k, lastSeg(w.accessPath(st.Chan)))
				cb := selectCaseBlock(sel, i)
				if cb == nil {
					r.Undecided("C11-R1", cons, sel.Pos(), "cannot locate the case body")
					continue
				}
				back := cb == h || blockReach(cb, nil)[h]
				r.Check(!back, "C11-R1", cons, sel.Pos(), "the case leaves the loop", "after this channel is closed the case fires on every iteration and the loop continues: the goroutine spins at 100% CPU forever")
			}
		})
	}
	r.Extra["blocking_selects_with_struct_chan_cases_in_loops"] = nSel

	// ---------- R2
	si := w.Func(pkgServer, "MetaCDC", "startInternal")
	if si == nil {
		r.Undecided("C11-R2", "startInternal", 0, "anchor not found")
	} else {
		var inc, ins ssa.Instruction
		eachInstr(si, func(in ssa.Instruction) {
			if c, ok := in.(*ssa.Call); ok {
				s := callSym(c.Common())
				if s.name == "Inc" && strings.HasSuffix(w.accessPath(callRecv(c.Common())), ".refCnt") {
					inc = in
				}
				if s.name == "Insert" && strings.HasSuffix(w.accessPath(callRecv(c.Common())), ".taskQuitFuncs") {
					ins = in
				}
			}
		})
		ok := inc != nil && ins != nil && (instrDominates(ins, inc) || instrDominates(inc, ins)) && samePathSegment(ins, inc)
		r.Check(ok, "C11-R2", "(*MetaCDC).startInternal | Inc paired with quit-function Insert", si.Pos(), "refCnt.Inc and taskQuitFuncs.Insert on the same straight-line segment", "the reference count is incremented without registering the task's quit function (or vice versa): the entity is never released, or released while a task still reads")
		if inc != nil {
			// no error return reachable after Inc
			var bad *ssa.Return
			eachInstr(si, func(in ssa.Instruction) {
				ret, isR := in.(*ssa.Return)
				if !isR || !instrReaches(inc, ret) {
					return
				}
				if v := returnedValue(ret, 0); v != nil && !isNilConst(v) {
					bad = ret
				}
			})
			if bad != nil {
				r.Fail("C11-R2", "(*MetaCDC).startInternal | no failure after Inc", bad.Pos(), "startInternal can still fail (persisted state update) after it registered the quit function and incremented the per-target reference count, without undoing either: every failed resume leaks one reference, so the target's replication entity is never torn down when its last task stops")
			} else {
				r.OK("C11-R2", "(*MetaCDC).startInternal | no failure after Inc", inc.Pos(), "no error return follows the increment")
			}
		}
	}
	for _, name := range []string{"pauseTaskWithReason", "delete"} {
		fn := w.Func(pkgServer, "MetaCDC", name)
		if fn == nil {
			r.Undecided("C11-R2", name, 0, "anchor not found")
			continue
		}
		var dec, quit, del ssa.Instruction
		var gar *ssa.Call
		var load *ssa.Call
		eachInstr(fn, func(in ssa.Instruction) {
			c, ok := in.(*ssa.Call)
			if !ok {
				return
			}
			s := callSym(c.Common())
			rp := ""
			if rc := callRecv(c.Common()); rc != nil {
				rp = w.accessPath(rc)
			}
			switch {
			case s.name == "Dec" && strings.HasSuffix(rp, ".refCnt"):
				dec = in
			case s.name == "Load" && strings.HasSuffix(rp, ".refCnt"):
				load = c
			case s.name == "GetAndRemove" && strings.HasSuffix(rp, ".taskQuitFuncs"):
				gar = c
			}
			if b, isB := c.Call.Value.(*ssa.Builtin); isB && b.Name() == "delete" && strings.HasSuffix(w.accessPath(c.Call.Args[0]), ".replicateEntityMap.data") {
				del = in
			}
			if !c.Call.IsInvoke() && calleeObj(c.Common()) == nil && strings.HasSuffix(w.accessPath(c.Call.Value), ".entityQuitFunc") {
				quit = in
			}
		})
		host := "(*MetaCDC)." + name
		okDec := false
		if dec != nil && gar != nil {
			if okv := extractIdx(gar, 1); okv != nil {
				for _, b := range fn.Blocks {
					cond, t, _, isIf := ifSuccs(b)
					if isIf && cond == okv && (t == dec.Block() || t.Dominates(dec.Block())) {
						okDec = true
					}
				}
			}
			// same task id
			if w.accessPath(callArgs(gar.Common())[0]) != "param:"+fn.Params[1].Name() {
				okDec = false
			}
		}
		r.Check(okDec, "C11-R2", host+" | Dec only after the task's quit function was removed", fn.Pos(), "refCnt.Dec dominated by GetAndRemove(taskID)==ok", "the reference count is decremented although this task held no reference (double pause/delete releases the entity under a running task)")
		okZero := false
		if load != nil && quit != nil && del != nil {
			for _, b := range fn.Blocks {
				cond, t, _, isIf := ifSuccs(b)
				if !isIf {
					continue
				}
				bo, isB := cond.(*ssa.BinOp)
				if !isB || bo.Op != token.EQL || bo.X != ssa.Value(load) {
					continue
				}
				if c, isC := bo.Y.(*ssa.Const); !isC || c.Value == nil || c.Value.ExactString() != "0" {
					continue
				}
				if (t == quit.Block() || t.Dominates(quit.Block())) && (t == del.Block() || t.Dominates(del.Block())) {
					okZero = true
				}
			}
			held := w.locksHeldAt(del)
			if !heldSuffix(held, ".replicateEntityMap", "W") {
				okZero = false
			}
		}
		r.Check(okZero, "C11-R2", host+" | entity released exactly at zero", fn.Pos(), "entityQuitFunc and the map delete are dominated by refCnt.Load()==0 under the entity-map write lock", "the per-target entity is released without the zero test or outside the entity-map lock")
	}

	// ---------- R3
	stateField := w.Field(pkgSrvMeta, "TaskInfo", "State")
	n3 := 0
	for _, fn := range w.RepoFuncs() {
		if fn.Pkg.Pkg.Path() != pkgServer {
			continue
		}
		eachInstr(fn, func(in ssa.Instruction) {
			st, ok := in.(*ssa.Store)
			if !ok {
				return
			}
			fa, ok := st.Addr.(*ssa.FieldAddr)
			if !ok || fieldVar(fa.X.Type(), fa.Field) != stateField {
				return
			}
			// composite literal of a new TaskInfo (create) is not an in-memory transition
			if _, isAlloc := fa.X.(*ssa.Alloc); isAlloc {
				return
			}
			n3++
			cons := fmt.Sprintf("%s | TaskInfo.State = %s", shortFn2(fn), sname2(w, st.Val))
			// a persisted update whose failure edge cannot reach this store
			ok2 := false
			det := "the in-memory state is written without a preceding persisted update in this function"
			eachInstr(fn, func(x ssa.Instruction) {
				c, isC := x.(*ssa.Call)
				if !isC || callSym(c.Common()) != (sym{pkgStore, "", "UpdateTaskState"}) || !instrReaches(c, st) {
					return
				}
				tested := false
				for _, b := range fn.Blocks {
					cond, t, f, isIf := ifSuccs(b)
					if !isIf {
						continue
					}
					bo, isB := cond.(*ssa.BinOp)
					if !isB || bo.X != ssa.Value(c) || !isNilConst(bo.Y) {
						continue
					}
					tested = true
					fail := t
					if bo.Op == token.EQL {
						fail = f
					}
					if fail != st.Block() && !blockReach(fail, nil)[st.Block()] {
						ok2 = true
					} else {
						det = "the in-memory state is set also when the persisted update failed: memory says " + sname2(w, st.Val) + " while the store (and the per-state gauges) keep the old state"
					}
				}
				if !tested {
					det = "the result of the persisted update is not tested before the in-memory state is written"
				}
			})
			r.Check(ok2, "C11-R3", cons, st.Pos(), "only after the persisted update succeeded", det)
		})
	}

	// ---------- R4
	states := w.enumConsts(pkgSrvMeta, "TaskState")
	sname := map[string]string{}
	for n, v := range states {
		if strings.HasPrefix(n, "Min") || strings.HasPrefix(n, "Max") {
			continue // aliases of the first / last state
		}
		sname[fmt.Sprint(v)] = strings.TrimPrefix(n, "TaskState")
	}
	legal := map[string]bool{"Running<-Initial,Paused": true, "Paused<-Running": true, "Paused<-": true}
	k4 := 0
	for _, fn := range w.RepoFuncs() {
		if fn.Pkg.Pkg.Path() != pkgServer {
			continue
		}
		fam := familyOf(fn)
		eachInstr(fn, func(in ssa.Instruction) {
			c, ok := in.(*ssa.Call)
			if !ok || callSym(c.Common()) != (sym{pkgStore, "", "UpdateTaskState"}) {
				return
			}
			k4++
			newS := "?"
			if cv, isC := c.Call.Args[2].(*ssa.Const); isC && cv.Value != nil {
				newS = sname[cv.Value.ExactString()]
			} else if _, isP := c.Call.Args[2].(*ssa.Parameter); isP {
				newS = "param"
			}
			var olds []string
			switch ov := c.Call.Args[3].(type) {
			case *ssa.Slice:
				if al, isAl := ov.X.(*ssa.Alloc); isAl {
					for _, x := range fam.allInstr {
						if st, isSt := x.(*ssa.Store); isSt {
							if ia, isIA := st.Addr.(*ssa.IndexAddr); isIA && ia.X == ssa.Value(al) {
								if cv, isC := st.Val.(*ssa.Const); isC && cv.Value != nil {
									olds = append(olds, sname[cv.Value.ExactString()])
								}
							}
						}
					}
				}
			case *ssa.Parameter:
				olds = []string{"param"}
			}
			sort.Strings(olds)
			pair := newS + "<-" + strings.Join(olds, ",")
			cons := fmt.Sprintf("%s | UpdateTaskState %s", shortFn2(fn), pair)
			okPair := legal[pair] || (newS == "Paused" && len(olds) == 1 && olds[0] == "param" && fnSym(fn).name == "pauseTaskWithReason")
			r.Check(okPair, "C11-R4", cons, c.Pos(), "legal transition request", "this (new state <- allowed old states) pair is not one of create->Running, Running->Paused, Paused->Running, any->Paused(internal)")
		})
	}
	// pauseTaskWithReason call sites: internal pauses accept any old state, the API pause only Running
	for _, fn := range w.RepoFuncs() {
		if fn.Pkg.Pkg.Path() != pkgServer {
			continue
		}
		fam := familyOf(fn)
		kp := 0
		eachInstr(fn, func(in ssa.Instruction) {
			c, ok := isCall(in, sym{pkgServer, "MetaCDC", "pauseTaskWithReason"})
			if !ok {
				return
			}
			kp++
			var olds []string
			if sl, isSl := callArgs(c)[2].(*ssa.Slice); isSl {
				if al, isAl := sl.X.(*ssa.Alloc); isAl {
					for _, x := range fam.allInstr {
						if st, isSt := x.(*ssa.Store); isSt {
							if ia, isIA := st.Addr.(*ssa.IndexAddr); isIA && ia.X == ssa.Value(al) {
								if cv, isC := st.Val.(*ssa.Const); isC && cv.Value != nil {
									olds = append(olds, sname[cv.Value.ExactString()])
								}
							}
						}
					}
				}
			}
			api := fnSym(rootFunc(fn)).name == "Pause"
			okp := (api && len(olds) == 1 && olds[0] == "Running") || (!api && len(olds) == 0)
			r.Check(okp, "C11-R4", fmt.Sprintf("%s | pauseTaskWithReason#%d allowed old states %v", shortFn2(fn), kp, olds), in.Pos(), "API pause: {Running}; internal pause: any", "an unexpected set of allowed old states is requested for Paused")
		})
	}
	if uts := w.Func(pkgStore, "", "UpdateTaskState"); uts != nil {
		var put ssa.CallInstruction
		var guard *ssa.Call
		eachInstr(uts, func(in ssa.Instruction) {
			if ci, ok := in.(ssa.CallInstruction); ok {
				if ci.Common().IsInvoke() && ci.Common().Method.Name() == "Put" {
					put = ci
				}
				if c, isC := in.(*ssa.Call); isC && callSym(c.Common()).name == "Contains" {
					guard = c
				}
			}
		})
		ok := false
		if put != nil && guard != nil {
			// the If controlled by the membership test: its rejecting branch returns an error and cannot reach Put
			for _, b := range uts.Blocks {
				cond, t, f, isIf := ifSuccs(b)
				if !isIf {
					continue
				}
				derived := false
				for _, x := range backSlice(cond, SliceOpts{MaxDepth: 4}) {
					if x == ssa.Value(guard) {
						derived = true
					}
				}
				if !derived {
					continue
				}
				for _, rej := range []*ssa.BasicBlock{t, f} {
					isRej := false
					for _, in := range rej.Instrs {
						if ret, isR := in.(*ssa.Return); isR && !isNilConst(returnedValue(ret, 0)) {
							isRej = true
						}
					}
					if isRej && !blockReach(rej, nil)[put.Block()] && instrReaches(guard, put) {
						ok = true
					}
				}
			}
			// the state compared is the persisted task's current state
			if !strings.HasSuffix(w.accessPath(guard.Call.Args[1]), ".State") {
				ok = false
			}
		}
		r.Check(ok, "C11-R4", "store.UpdateTaskState | guard precedes Put", uts.Pos(), "old-state membership test dominates Put; the rejecting branch returns an error", "the persisted state is written without (or before) the old-state guard")
	} else {
		r.Undecided("C11-R4", "store.UpdateTaskState", 0, "anchor not found")
	}

	// ---------- R5
	gauge := func(fn *ssa.Function, method string) []*ssa.Call {
		var out []*ssa.Call
		if fn == nil {
			return nil
		}
		eachInstr(fn, func(in ssa.Instruction) {
			if c, ok := in.(*ssa.Call); ok && callSym(c.Common()) == (sym{pkgMetrics, "TaskNumMetric", method}) {
				out = append(out, c)
			}
		})
		return out
	}
	afterSuccess := func(fn *ssa.Function, g *ssa.Call, callee string) bool {
		okv := false
		eachInstr(fn, func(in ssa.Instruction) {
			var cv ssa.Value
			switch x := in.(type) {
			case *ssa.Call:
				if x.Call.IsInvoke() && x.Call.Method.Name() == callee {
					cv = x
				} else if !x.Call.IsInvoke() && calleeObj(x.Common()) == nil && callee == "commitFunc" {
					if strings.Contains(w.accessPath(x.Call.Value), "Txn") || strings.Contains(w.accessPath(x.Call.Value), "commit") {
						cv = x
					}
				}
			}
			if cv == nil || !instrDominates(in, g) {
				return
			}
			for _, b := range fn.Blocks {
				cond, t, f, isIf := ifSuccs(b)
				if !isIf {
					continue
				}
				bo, isB := cond.(*ssa.BinOp)
				if !isB || !isNilConst(bo.Y) {
					continue
				}
				same := bo.X == cv
				if !same {
					for _, y := range backSlice(bo.X, SliceOpts{MaxDepth: 3}) {
						if y == cv {
							same = true
						}
					}
				}
				if !same {
					continue
				}
				succ := f
				if bo.Op == token.EQL {
					succ = t
				}
				if succ == g.Block() || succ.Dominates(g.Block()) {
					okv = true
				}
			}
		})
		return okv
	}
	uts := w.Func(pkgStore, "", "UpdateTaskState")
	for _, g := range gauge(uts, "UpdateState") {
		r.Check(afterSuccess(uts, g, "Put"), "C11-R5", "store.UpdateTaskState | TaskNumVec.UpdateState after successful Put", g.Pos(), "gauge moves only on the err==nil side of Put", "the per-state gauge moves although the persisted update failed")
	}
	dt := w.Func(pkgStore, "", "DeleteTask")
	for _, g := range gauge(dt, "Delete") {
		r.Check(afterSuccess(dt, g, "commitFunc"), "C11-R5", "store.DeleteTask | TaskNumVec.Delete after successful commit", g.Pos(), "gauge removed only after commit succeeded", "the gauge forgets the task although the transaction did not commit")
	}
	cr := w.Func(pkgServer, "MetaCDC", "Create")
	for _, g := range gauge(cr, "Add") {
		r.Check(afterSuccess(cr, g, "Put"), "C11-R5", "(*MetaCDC).Create | TaskNumVec.Add after the task info was persisted", g.Pos(), "after successful Put", "a task is counted although its record was not persisted")
	}
	rl := w.Func(pkgServer, "MetaCDC", "ReloadTask")
	r.Check(len(gauge(rl, "Add")) == 1, "C11-R5", "(*MetaCDC).ReloadTask | TaskNumVec.Add per listed task", posOf(rl), "one Add in the reload loop", "reloaded tasks are not counted in the per-state gauges")

	// ---------- R6
	if dt == nil {
		r.Undecided("C11-R6", "store.DeleteTask", 0, "anchor not found")
	} else {
		var txn *ssa.Call
		eachInstr(dt, func(in ssa.Instruction) {
			if c, ok := in.(*ssa.Call); ok && c.Call.IsInvoke() && c.Call.Method.Name() == "Txn" {
				txn = c
			}
		})
		nDel, okTxn := 0, true
		if txn != nil {
			txv := extractIdx(txn, 0)
			eachInstr(dt, func(in ssa.Instruction) {
				if c, ok := in.(*ssa.Call); ok && c.Call.IsInvoke() && (c.Call.Method.Name() == "Delete" || c.Call.Method.Name() == "Put") && instrReaches(txn, c) {
					nDel++
					if c.Call.Args[2] != txv {
						okTxn = false
					}
				}
			})
		}
		r.Check(txn != nil && nDel == 2 && okTxn, "C11-R6", "store.DeleteTask | both deletes inside the transaction", dt.Pos(), "task info and checkpoints deleted with the txn object", fmt.Sprintf("%d mutating store calls after Txn, all with the txn object=%v: the record and its checkpoints are not removed together", nDel, okTxn))
		// commit (or rollback via commitFunc(err)) on every path after Txn succeeded: the deferred closure or explicit call
		hasDefer := false
		eachInstr(dt, func(in ssa.Instruction) {
			if d, ok := in.(*ssa.Defer); ok {
				if mc, isMC := d.Call.Value.(*ssa.MakeClosure); isMC {
					eachInstr(mc.Fn.(*ssa.Function), func(x ssa.Instruction) {
						if c, isC := x.(*ssa.Call); isC && !c.Call.IsInvoke() && calleeObj(c.Common()) == nil {
							hasDefer = true
						}
					})
				}
			}
		})
		r.Check(hasDefer, "C11-R6", "store.DeleteTask | transaction always finished", dt.Pos(), "deferred commitFunc(err) covers the error paths", "an error path leaves the transaction open")
	}
	if del := w.Func(pkgServer, "MetaCDC", "delete"); del != nil {
		has := map[string]bool{}
		eachInstr(del, func(in ssa.Instruction) {
			c, ok := in.(*ssa.Call)
			if !ok {
				return
			}
			if callSym(c.Common()) == (sym{pkgStore, "", "DeleteTask"}) {
				has["DeleteTask"] = true
			}
			if b, isB := c.Call.Value.(*ssa.Builtin); isB && b.Name() == "delete" && strings.HasSuffix(w.accessPath(c.Call.Args[0]), ".cdcTasks.data") {
				has["cdcTasks"] = true
			}
			if callSym(c.Common()).name == "GetAndRemove" {
				has["quit"] = true
			}
		})
		eachInstr(del, func(in ssa.Instruction) {
			if mu, ok := in.(*ssa.MapUpdate); ok {
				ap := w.accessPath(mu.Map)
				if strings.HasSuffix(ap, ".collectionNames.data") {
					has["names"] = true
				}
				if strings.HasSuffix(ap, ".collectionNames.excludeData") {
					has["exclude"] = true
				}
			}
		})
		for _, k := range []string{"DeleteTask", "names", "exclude", "cdcTasks", "quit"} {
			r.Check(has[k], "C11-R6", "(*MetaCDC).delete | "+k, del.Pos(), "present", "delete does not clean up "+k)
		}
		// R8: nothing is removed from memory before the persisted deletion succeeded
		var dtCall *ssa.Call
		eachInstr(del, func(in ssa.Instruction) {
			if c, ok := in.(*ssa.Call); ok && callSym(c.Common()) == (sym{pkgStore, "", "DeleteTask"}) {
				dtCall = c
			}
		})
		var okBlock *ssa.BasicBlock
		if dtCall != nil {
			ev := extractIdx(dtCall, 1)
			for _, b := range del.Blocks {
				v, _, isNil, ok := errNilTest(b)
				if !ok || ev == nil {
					continue
				}
				for _, x := range backSlice(v, SliceOpts{MaxDepth: 5}) {
					if x == ev {
						okBlock = isNil
					}
				}
			}
		}
		if okBlock == nil {
			r.Undecided("C11-R8", "(*MetaCDC).delete | success branch of store.DeleteTask", del.Pos(), "the error test of store.DeleteTask was not found")
		} else {
			k := 0
			eachInstr(del, func(in ssa.Instruction) {
				what := ""
				switch x := in.(type) {
				case *ssa.MapUpdate:
					what = "update of " + w.accessPath(x.Map)
				case *ssa.Call:
					if b, isB := x.Call.Value.(*ssa.Builtin); isB && b.Name() == "delete" {
						what = "delete from " + w.accessPath(x.Call.Args[0])
					}
					if n := callSym(x.Common()).name; n == "GetAndRemove" || n == "Dec" {
						what = n
					}
				}
				if what == "" {
					return
				}
				k++
				blk := in.Block()
				r.Check(blk == okBlock || okBlock.Dominates(blk), "C11-R8", fmt.Sprintf("(*MetaCDC).delete | in-memory removal #%d (%s)", k, what), in.Pos(), "only after store.DeleteTask succeeded", "this in-memory removal is not confined to the success branch of store.DeleteTask: when the store fails the task is still persisted (get/list show it) but the server has forgotten it, so it can neither be paused nor deleted and its readers keep running")
			})
		}
	} else {
		r.Undecided("C11-R6", "(*MetaCDC).delete", 0, "anchor not found")
	}
	if qr := w.Func(pkgReader, "CollectionReader", "QuitRead"); qr != nil {
		stop, unsub := false, map[string]bool{}
		eachInstrDeep(qr, func(_ *ssa.Function, in ssa.Instruction) {
			if ci, ok := in.(ssa.CallInstruction); ok && ci.Common().IsInvoke() {
				if ci.Common().Method.Name() == "StopReadCollection" {
					stop = true
				}
				if ci.Common().Method.Name() == "UnsubscribeEvent" {
					if c, isC := ci.Common().Args[1].(*ssa.Const); isC && c.Value != nil {
						unsub[c.Value.ExactString()] = true
					}
				}
			}
		})
		r.Check(stop && len(unsub) == 2, "C11-R6", "(*CollectionReader).QuitRead | stop and unsubscribe", qr.Pos(), "StopReadCollection for every replicated collection; both event kinds unsubscribed", fmt.Sprintf("QuitRead stops collections=%v and unsubscribes %d of 2 event kinds: a paused task keeps receiving catalog events or keeps streams open", stop, len(unsub)))
	} else {
		r.Undecided("C11-R6", "QuitRead", 0, "anchor not found")
	}

	// ---------- R9
	if sr := w.Func(pkgReader, "CollectionReader", "StartRead"); sr != nil {
		k := 0
		for _, g := range familyOf(sr).Funcs {
			eachInstr(g, func(in ssa.Instruction) {
				c, ok := in.(*ssa.Call)
				if !ok || !c.Call.IsInvoke() || c.Call.Method.Name() != "StartReadCollection" {
					return
				}
				k++
				cons := fmt.Sprintf("%s | StartReadCollection#%d tracked on failure", shortFn2(g), k)
				var nn *ssa.BasicBlock
				for _, b := range g.Blocks {
					v, n1, _, ok := errNilTest(b)
					if !ok {
						continue
					}
					for _, x := range backSlice(v, SliceOpts{MaxDepth: 5}) {
						if x == ssa.Value(c) {
							nn = n1
						}
					}
				}
				if nn == nil {
					r.Undecided("C11-R9", cons, c.Pos(), "the error test of StartReadCollection was not found")
					return
				}
				hdr := loopHeaderOf(c.Block())
				stop := map[*ssa.BasicBlock]bool{}
				if hdr != nil {
					stop[hdr] = true
				}
				reach := blockReach(nn, stop)
				reach[nn] = true
				tracked := false
				for b := range reach {
					for _, in2 := range b.Instrs {
						if c2, isC := in2.(*ssa.Call); isC && callSym(c2.Common()).name == "Store" {
							if rv := callRecv(c2.Common()); rv != nil && strings.HasSuffix(w.accessPath(rv), ".replicateCollectionMap") {
								tracked = true
							}
						}
					}
				}
				r.Check(tracked, "C11-R9", cons, c.Pos(), "replicateCollectionMap.Store is reached on the failure branch too", "when StartReadCollection fails half way the collection is not recorded: QuitRead never calls StopReadCollection for it, its drop barrier goroutine and its replicateCollections entry stay, and a resumed task is refused the collection")
			})
		}
		if k < 2 {
			r.Fail("C11-R9", "StartRead | StartReadCollection census", sr.Pos(), fmt.Sprintf("only %d StartReadCollection calls found (2 confirmed)", k))
		}
	} else {
		r.Undecided("C11-R9", "StartRead", 0, "anchor not found")
	}

	// ---------- R7
	if rl != nil {
		loop := false
		var reg *ssa.MapUpdate
		var start, pause *ssa.Call
		eachInstr(rl, func(in ssa.Instruction) {
			switch x := in.(type) {
			case *ssa.MapUpdate:
				if strings.HasSuffix(w.accessPath(x.Map), ".cdcTasks.data") {
					reg = x
				}
			case *ssa.Call:
				s := callSym(x.Common())
				if s.name == "startInternal" {
					start = x
				}
				if s.name == "pauseTaskWithReason" && pause == nil {
					pause = x
				}
			}
		})
		if reg != nil && loopHeaderOf(reg.Block()) != nil {
			loop = true
		}
		r.Check(loop, "C11-R7", "(*MetaCDC).ReloadTask | every listed task registered", rl.Pos(), "cdcTasks[taskID] = task inside the listing loop, unconditionally", "a persisted task is not registered in memory at reload")
		if reg != nil {
			h := loopHeaderOf(reg.Block())
			unc := true
			for _, p := range h.Preds {
				if h.Dominates(p) && !(reg.Block() == p || reg.Block().Dominates(p)) {
					unc = false
				}
			}
			r.Check(unc, "C11-R7", "(*MetaCDC).ReloadTask | registration unconditional", reg.Pos(), "dominates every back edge of the loop", "some listed tasks skip the registration")
		}
		okBranch := false
		if start != nil && pause != nil {
			for _, b := range rl.Blocks {
				cond, t, f, isIf := ifSuccs(b)
				if !isIf || !strings.HasSuffix(w.accessPath(cond), ".DisableAutoStart") {
					continue
				}
				if (t == pause.Block() || t.Dominates(pause.Block())) && (f == start.Block() || f.Dominates(start.Block())) && !blockReach(t, map[*ssa.BasicBlock]bool{loopHeaderOf(b): true})[start.Block()] {
					okBranch = true
				}
			}
		}
		r.Check(okBranch, "C11-R7", "(*MetaCDC).ReloadTask | auto-start flag honoured", rl.Pos(), "DisableAutoStart -> pause (no start); otherwise startInternal", "the auto-start flag does not decide between pausing and starting a reloaded task")
	} else {
		r.Undecided("C11-R7", "ReloadTask", 0, "anchor not found")
	}
}

func posOf(fn *ssa.Function) token.Pos {
	if fn == nil {
		return token.NoPos
	}
	return fn.Pos()
}

func lastSeg(p string) string {
	if i := strings.LastIndex(p, "."); i >= 0 {
		return p[i+1:]
	}
	return p
}

// samePathSegment: a and b are in the same block or one dominates the other with no branching in between that could skip b.
func samePathSegment(a, b ssa.Instruction) bool {
	if a.Block() == b.Block() {
		return true
	}
	fn := a.Parent()
	pd := postDominators(fn)
	first, second := a, b
	if instrDominates(b, a) {
		first, second = b, a
	}
	return pd[first.Block()][second.Block()]
}

func sname2(w *World, v ssa.Value) string {
	if c, ok := v.(*ssa.Const); ok && c.Value != nil {
		for n, x := range w.enumConsts(pkgSrvMeta, "TaskState") {
			if strings.HasPrefix(n, "Min") || strings.HasPrefix(n, "Max") {
				continue
			}
			if fmt.Sprint(x) == c.Value.ExactString() {
				return strings.TrimPrefix(n, "TaskState")
			}
		}
	}
	return w.accessPath(v)
}

// c11ReadersAfterState (C11-R10): the readers of a task are started only when nothing can fail any more.
func c11ReadersAfterState(w *World, r *Report) {
	r.Rule("C11-R10", "readers start after the state is settled", "(*MetaCDC).startInternal: no error return is reachable after a StartRead call, and the store of TaskInfo.State (Running) precedes both: a task whose resume failed stays Paused with no reader running, and a reader never sees its own task as not running", 2)
	fn := w.Func(pkgServer, "MetaCDC", "startInternal")
	if fn == nil {
		r.Undecided("C11-R10", "(*MetaCDC).startInternal", 0, "anchor not found")
		return
	}
	var stateStores []*ssa.Store
	eachInstr(fn, func(in ssa.Instruction) {
		if st, ok := in.(*ssa.Store); ok {
			if fa, isFA := st.Addr.(*ssa.FieldAddr); isFA && fieldName(fa.X.Type(), fa.Field) == "State" && typeIs(fa.X.Type(), pkgServer+"/model/meta", "TaskInfo") {
				stateStores = append(stateStores, st)
			}
		}
	})
	n := 0
	eachInstr(fn, func(in ssa.Instruction) {
		c, ok := in.(*ssa.Call)
		if !ok || callSym(c.Common()).name != "StartRead" {
			return
		}
		n++
		cons := fmt.Sprintf("(*MetaCDC).startInternal | StartRead#%d", n)
		var bad token.Pos
		reach := blockReach(c.Block(), nil)
		reach[c.Block()] = true
		for b := range reach {
			ret, isR := b.Instrs[len(b.Instrs)-1].(*ssa.Return)
			if !isR || len(ret.Results) == 0 {
				continue
			}
			if b == c.Block() && instrIndex(ret) < instrIndex(c) {
				continue
			}
			if last := returnedValue(ret, len(ret.Results)-1); last != nil && !isNilConst(last) {
				bad = ret.Pos()
			}
		}
		r.Check(!bad.IsValid(), "C11-R10", cons+" | nothing fails afterwards", c.Pos(), "no error return after the reader is started", "an error return is reachable after this reader was started: when the state update fails the task stays Paused in the store and in memory while its readers run (Pause answers 'already paused', only Delete stops them)")
		after := false
		for _, st := range stateStores {
			if instrDominates(st, c) {
				after = true
			}
		}
		r.Check(after, "C11-R10", cons+" | after State = Running", c.Pos(), "the in-memory state is Running before the reader starts", "the reader is started before the task is marked Running: the first pack it delivers finds its own task not running and the reader quits for good, while the API reports Running")
	})
	if n == 0 {
		r.Fail("C11-R10", "(*MetaCDC).startInternal | StartRead", fn.Pos(), "no reader is started in startInternal")
	}
}
