package main

import (
	"fmt"
	"go/token"
	"go/types"
	"strings"

	"golang.org/x/tools/go/ssa"
)

func init() {
	register("C04", &propDef{run: runC04,
		explain: "Exactly-once delivery of a drop across restarts and races with trailing data are NOT decided. Decided structural necessary conditions of 'a drop is replayed once, only after every shard reached it': (R1) a shard can signal a barrier at most once: the only send on a barrier-signal channel is inside sync.Once.Do in OnceWriteChan.Write, and each shard / handler gets its own OnceWriteChan created in the per-shard code; (R2) drop requests are built only in the completion callbacks handed to NewBarrier (and in RecoveryMetaMsg under IsReady), and the barrier goroutine calls the completion callback only after its counting loop ended; (R3) the barrier's arity derives from the collection's declared shard list, not from a snapshot of handlers that happen to be registered; (R4) closing a barrier (stop / pause) can never reach the completion callback, and the stop path never writes a barrier signal; (R5) after the drop event was sent the object is marked dropped and its streams / partition entries are removed for every channel / handler; (R6) the drop event names the source object: database, collection (and partition) infos of the dropped object, its message id, and the barrier's message time.",
		notDec:  []string{"exactly-once across restart", "races between trailing data and the barrier", "the synthetic drop path's timing"},
	})
}

func runC04(w *World, r *Report) {
	defer catalogStatePairs(w, r, "C04-R11")
	defer c04MarkDiscipline(w, r, "C04-R9")
	defer c04PerShardMaps(w, r, "C04-R10")
	defer c04SignalOnlyEmitted(w, r, "C04-R12")
	r.Rule("C04-R1", "once-only signals", "sends on a channel of *model.BarrierSignal (or inside OnceWriteChan methods) occur only in a function literal passed to sync.Once.Do; NewOnceWriteChan is called inside the per-shard callback of StartReadCollection and inside AddPartitionInfo", 3)
	r.Rule("C04-R2", "drop requests come only from a completed barrier", "ReplicateAPIEvent literals with EventType DropCollection/DropPartition exist only in completion callbacks passed to NewBarrier and in RecoveryMetaMsg (under IsReady); in NewBarrier's goroutine the call of the completion callback is not reachable from inside the counting loop except through its exit", 5)
	r.Rule("C04-R3", "barrier arity is the shard count", "the count argument of NewBarrier derives from the length of a shard list declared in the collection's catalog info, not from a local snapshot of registered handlers", 2)
	r.Rule("C04-R4", "close never emits", "in NewBarrier's goroutine the CloseChan case cannot reach the completion callback; StopReadCollection / Close never send or Write a barrier signal", 2)
	r.Rule("C04-R5", "after firing", "collection callback: droppedCollections.Store and stopReadChannel for every physical channel on the sent branch; partition callback: droppedPartitions.Store and RemovePartitionInfo for every handler", 4)
	r.Rule("C04-R6", "the drop event names the dropped object", "DropCollection: CollectionInfo<-the catalog info, MsgID<-GetDropCollectionMsgID(info.ID), MsgTimestamp<-barrier time; DropPartition: CollectionInfo, PartitionInfo<-the catalog infos, Database<-the source database, MsgID<-GetDropPartitionMsgID(collection, partition)", 2)
	r.Rule("C04-R7", "drop bookkeeping is keyed by source ids", "the dropped-collection / dropped-partition sets, the handler's RemoveCollection / RemovePartitionInfo and the synthetic drop messages built for objects dropped while CDC was down receive SOURCE ids, never a message id field after it was overwritten with the downstream id (same analysis as C02-R7, restricted to the drop bookkeeping)", 8)
	if m := buildHPModel(w); m != nil {
		c02IDDomains(w, r, m, "C04-R7", true)
	} else {
		r.Undecided("C04-R7", "handlePack", 0, "anchor not found")
	}

	// ---------- R1
	nSend := 0
	for _, fn := range w.RepoFuncs() {
		p := fn.Pkg.Pkg.Path()
		if p != pkgModel && p != pkgReader {
			continue
		}
		inOnceWrite := fnSym(rootFunc(fn)).recv == "OnceWriteChan"
		eachInstr(fn, func(in ssa.Instruction) {
			var ch ssa.Value
			switch x := in.(type) {
			case *ssa.Send:
				ch = x.Chan
			case *ssa.Select:
				for _, st := range x.States {
					if st.Dir == types.SendOnly {
						ch = st.Chan
					}
				}
			}
			if ch == nil {
				return
			}
			isBarrier := false
			if ct, ok := ch.Type().Underlying().(*types.Chan); ok && typeIs(ct.Elem(), pkgModel, "BarrierSignal") {
				isBarrier = true
			}
			if !isBarrier && !inOnceWrite {
				return
			}
			nSend++
			cons := fmt.Sprintf("%s | send on a barrier-signal channel", shortFn2(fn))
			// fn must be a literal passed to (sync.Once).Do
			ok := false
			if par := fn.Parent(); par != nil {
				eachInstr(par, func(x ssa.Instruction) {
					c, isC := x.(*ssa.Call)
					if !isC || callSym(c.Common()) != (sym{"sync", "Once", "Do"}) {
						return
					}
					for _, v := range backSlice(c.Call.Args[len(c.Call.Args)-1], SliceOpts{MaxDepth: 3}) {
						if mc, isMC := v.(*ssa.MakeClosure); isMC && mc.Fn == ssa.Value(fn) {
							ok = true
						}
					}
				})
			}
			r.Check(ok, "C04-R1", cons, in.Pos(), "inside sync.Once.Do", "a barrier signal can be sent outside sync.Once.Do: two goroutines handling the same shard's drop (the synthetic drop and the stream) can both count, completing the barrier before every shard reached the drop")
		})
	}
	if nSend == 0 {
		r.Fail("C04-R1", "barrier-signal send census", 0, "no send on a barrier-signal channel found (OnceWriteChan.Write expected)")
	}
	for _, spec := range []struct{ fn, where string }{{"StartReadCollection", "per-shard callback"}, {"AddPartitionInfo", "per-handler call"}} {
		var f *ssa.Function
		if spec.fn == "StartReadCollection" {
			f = w.Func(pkgReader, "replicateChannelManager", spec.fn)
		} else {
			f = w.Func(pkgReader, "replicateChannelHandler", spec.fn)
		}
		cons := fmt.Sprintf("%s | NewOnceWriteChan created per shard", spec.fn)
		if f == nil {
			r.Undecided("C04-R1", cons, 0, "anchor not found")
			continue
		}
		ok := false
		eachInstrDeep(f, func(g *ssa.Function, in ssa.Instruction) {
			c, isC := in.(*ssa.Call)
			if !isC || callSym(c.Common()).name != "NewOnceWriteChan" {
				return
			}
			if spec.fn == "StartReadCollection" {
				// must be inside the literal handed to ForeachChannel
				if g.Parent() == f && len(g.Params) == 2 {
					ok = true
				}
			} else if g == f {
				ok = true
			}
		})
		r.Check(ok, "C04-R1", cons, f.Pos(), "created in the "+spec.where, "the once-only wrapper is shared between shards: only the first shard's drop would ever be counted")
	}

	// ---------- barrier goroutine
	nb := w.Func(pkgReader, "", "NewBarrier")
	var gor *ssa.Function
	var fcall *ssa.Call
	if nb != nil && len(nb.AnonFuncs) > 0 {
		gor = nb.AnonFuncs[0]
		eachInstr(gor, func(in ssa.Instruction) {
			c, ok := in.(*ssa.Call)
			if !ok {
				return
			}
			v := c.Call.Value
			if u, isU := v.(*ssa.UnOp); isU && u.Op == token.MUL {
				for _, st := range familyOf(gor).StoresTo(u.X) {
					if st.Val == ssa.Value(nb.Params[1]) {
						fcall = c
					}
				}
			} else if familyOf(gor).canon(v) == ssa.Value(nb.Params[1]) {
				fcall = c
			}
		})
	}
	if gor == nil || fcall == nil {
		r.Undecided("C04-R2", "NewBarrier goroutine", 0, "anchor not found")
	} else {
		// the counting loop: header compares current < Dest
		var header *ssa.BasicBlock
		for _, b := range gor.Blocks {
			cond, _, _, ok := ifSuccs(b)
			if !ok {
				continue
			}
			if bo, isB := cond.(*ssa.BinOp); isB && (bo.Op == token.LSS || bo.Op == token.GEQ) && strings.HasSuffix(w.accessPath(bo.Y), ".Dest") {
				header = b
			}
		}
		okAfter := header != nil && !(loopHeaderOf(fcall.Block()) == header) && header.Dominates(fcall.Block())
		// f reachable from the loop body only through the header's exit edge
		if okAfter {
			_, t, f, _ := ifSuccs(header)
			exit := f
			if loopHeaderOf(t) != header && t != header {
				exit = t
			}
			if !(exit == fcall.Block() || exit.Dominates(fcall.Block())) {
				okAfter = false
			}
		}
		r.Check(okAfter, "C04-R2", "NewBarrier$lit | completion only after the count is reached", fcall.Pos(), "the callback is dominated by the exit edge of `current < Dest`", "the completion callback can run before every shard signalled")
		// R4: CloseChan case cannot reach f
		okClose := false
		eachInstr(gor, func(in ssa.Instruction) {
			sel, ok := in.(*ssa.Select)
			if !ok {
				return
			}
			for i, st := range sel.States {
				if st.Dir == types.RecvOnly && strings.HasSuffix(w.accessPath(st.Chan), ".CloseChan") {
					cb := selectCaseBlock(sel, i)
					if cb != nil && cb != fcall.Block() && !blockReach(cb, nil)[fcall.Block()] {
						okClose = true
					}
				}
			}
		})
		r.Check(okClose, "C04-R4", "NewBarrier$lit | CloseChan case cannot reach the completion callback", gor.Pos(), "closing a barrier ends the goroutine without emitting", "after a stop/pause closed the barrier the completion callback can still run: a drop request is produced by stopping a task")
	}
	// stop path never signals
	{
		bad := false
		for _, spec := range []struct{ recv, name string }{{"replicateChannelManager", "StopReadCollection"}, {"replicateChannelHandler", "Close"}, {"replicateChannelHandler", "RemoveCollection"}, {"replicateChannelManager", "stopReadChannel"}} {
			f := w.Func(pkgReader, spec.recv, spec.name)
			if f == nil {
				continue
			}
			eachInstrDeep(f, func(_ *ssa.Function, in ssa.Instruction) {
				if c, ok := in.(*ssa.Call); ok && callSym(c.Common()).recv == "OnceWriteChan" && callSym(c.Common()).name == "Write" {
					bad = true
				}
				if s, ok := in.(*ssa.Send); ok {
					if ct, isC := s.Chan.Type().Underlying().(*types.Chan); isC && typeIs(ct.Elem(), pkgModel, "BarrierSignal") {
						bad = true
					}
				}
			})
		}
		r.Check(!bad, "C04-R4", "stop path | never writes a barrier signal", 0, "StopReadCollection / Close / RemoveCollection only close channels", "the stop path signals a barrier: stopping a task can complete a drop")
	}

	// ---------- R2 drop event literals; R5; R6
	evNames := map[string]string{}
	for n, v := range w.enumConsts(pkgAPI, "ReplicateAPIEventType") {
		evNames[fmt.Sprint(v)] = n
	}
	nDrop := 0
	for _, fn := range w.RepoFuncs() {
		p := fn.Pkg.Pkg.Path()
		if p != pkgReader && p != pkgWriter && p != pkgServer {
			continue
		}
		fam := familyOf(fn)
		for _, al := range allocsOfType(fn, pkgAPI, "ReplicateAPIEvent", false) {
			got := map[string]ssa.Value{}
			for _, fs := range fieldStoresOn(fam, al) {
				if fs.Field != nil {
					got[fs.Field.Name()] = fs.Val
				}
			}
			et := ""
			if c, ok := got["EventType"].(*ssa.Const); ok && c.Value != nil {
				et = evNames[c.Value.ExactString()]
			}
			if et != "ReplicateDropCollection" && et != "ReplicateDropPartition" {
				continue
			}
			nDrop++
			host := fnSym(rootFunc(fn))
			cons := fmt.Sprintf("%s | %s event literal", shortFn2(fn), et)
			// where is it built?
			okPlace := false
			why := "a drop request is built outside a barrier completion callback"
			if host.name == "RecoveryMetaMsg" {
				// under IsReady()
				for _, b := range fn.Blocks {
					cond, t, f, isIf := ifSuccs(b)
					if !isIf {
						continue
					}
					ready := t
					if u, isU := cond.(*ssa.UnOp); isU && u.Op == token.NOT {
						cond, ready = u.X, f
					}
					if c, isC := cond.(*ssa.Call); isC && callSym(c.Common()).name == "IsReady" {
						if ready == al.Block() || ready.Dominates(al.Block()) {
							okPlace = true
						}
					}
				}
				why = "the recovery path replays a drop that is not ready (not every shard reported)"
			} else if fn.Parent() != nil {
				// fn is passed as the completion argument of NewBarrier in its parent
				eachInstr(fn.Parent(), func(in ssa.Instruction) {
					c, isC := in.(*ssa.Call)
					if !isC || callSym(c.Common()).name != "NewBarrier" {
						return
					}
					for _, v := range backSlice(c.Call.Args[1], SliceOpts{MaxDepth: 3}) {
						if mc, isMC := v.(*ssa.MakeClosure); isMC && mc.Fn == ssa.Value(fn) {
							okPlace = true
						}
					}
				})
			}
			r.Check(okPlace, "C04-R2", cons, al.Pos(), "built in a barrier completion callback / ready recovery", why)
			if host.name == "RecoveryMetaMsg" {
				continue
			}
			// R6 identity
			par := fn.Parent()
			ok6 := true
			var det []string
			chk := func(cond bool, d string) {
				if !cond {
					ok6 = false
					det = append(det, d)
				}
			}
			ci := w.accessPath(got["CollectionInfo"])
			chk(strings.HasSuffix(ci, "info") || strings.HasSuffix(ci, "collectionInfo") || strings.Contains(ci, "ollectionInfo"), "CollectionInfo <- "+ci)
			mid, _ := baseObject(fam, got["MsgID"]).(*ssa.Call)
			if et == "ReplicateDropCollection" {
				chk(mid != nil && callSym(mid.Common()).name == "GetDropCollectionMsgID" && strings.HasSuffix(w.accessPath(mid.Call.Args[0]), ".ID"), "MsgID is not GetDropCollectionMsgID(info.ID)")
			} else {
				chk(mid != nil && callSym(mid.Common()).name == "GetDropPartitionMsgID" && strings.HasSuffix(w.accessPath(mid.Call.Args[1]), ".PartitionID"), "MsgID is not GetDropPartitionMsgID(collectionID, partitionInfo.PartitionID)")
				chk(strings.Contains(w.accessPath(got["PartitionInfo"]), "partitionInfo"), "PartitionInfo <- "+w.accessPath(got["PartitionInfo"]))
			}
			chk(strings.HasSuffix(strings.ToLower(w.accessPath(got["TaskID"])), "taskid") || strings.Contains(w.accessPath(got["TaskID"]), "GetTaskIDFromCtx"), "TaskID <- "+w.accessPath(got["TaskID"]))
			// database: ReplicateParam literal's Database
			if rp, isAl := baseObject(fam, got["ReplicateParam"]).(*ssa.Alloc); isAl {
				for _, fs := range fieldStoresOn(fam, rp) {
					if fs.Field != nil && fs.Field.Name() == "Database" {
						dp := strings.ToLower(w.accessPath(fs.Val))
						chk(strings.Contains(dp, "databasename") || strings.Contains(dp, "dbinfo.name"), "Database <- "+w.accessPath(fs.Val))
					}
				}
			} else if u, isU := got["ReplicateParam"].(*ssa.UnOp); isU {
				if rp2, isAl2 := u.X.(*ssa.Alloc); isAl2 {
					found := false
					for _, fs := range fieldStoresOn(fam, rp2) {
						if fs.Field != nil && fs.Field.Name() == "Database" {
							found = true
							dp := strings.ToLower(w.accessPath(fs.Val))
							chk(strings.Contains(dp, "databasename") || strings.Contains(dp, "dbinfo.name"), "Database <- "+w.accessPath(fs.Val))
						}
					}
					chk(found, "Database not set")
				}
			}
			r.Check(ok6, "C04-R6", cons+" | identity", al.Pos(), "names the dropped object", "the drop request does not name the dropped object: "+strings.Join(det, "; "))
			// R5 after firing: on the send branch
			_ = par
			var marks, removes bool
			// the branch taken when the event was actually sent
			var sentBlock *ssa.BasicBlock
			eachInstr(fn, func(in ssa.Instruction) {
				sel, isSel := in.(*ssa.Select)
				if !isSel {
					return
				}
				sendIdx := -1
				for i, st := range sel.States {
					if st.Dir == types.SendOnly {
						sendIdx = i
					}
				}
				if sendIdx < 0 {
					return
				}
				idx := extractOfTuple(sel, 0)
				for _, b := range fn.Blocks {
					cond, t, _, isIf := ifSuccs(b)
					if !isIf {
						continue
					}
					if bo, isB := cond.(*ssa.BinOp); isB && bo.Op == token.EQL && bo.X == idx {
						if c, isC := bo.Y.(*ssa.Const); isC && c.Value != nil && c.Int64() == int64(sendIdx) {
							sentBlock = t
						}
					}
				}
				// a two-way select compiles its last case into the else edge
				if sentBlock == nil && len(sel.States) == 2 {
					for _, b := range fn.Blocks {
						cond, _, f, isIf := ifSuccs(b)
						if isIf {
							if bo, isB := cond.(*ssa.BinOp); isB && bo.Op == token.EQL && bo.X == idx && sendIdx == 1 {
								sentBlock = f
							}
						}
					}
				}
			})
			// the drop event is sent by a select that also has the barrier's CloseChan case: a closed barrier (task
			// stopped) can never emit later
			{
				viaSelect, plain := false, false
				eachInstr(fn, func(in ssa.Instruction) {
					switch x := in.(type) {
					case *ssa.Send:
						if baseObject(fam, x.X) == ssa.Value(al) {
							plain = true
						}
					case *ssa.Select:
						hasSend, hasClose := false, false
						for _, st := range x.States {
							if st.Dir == types.SendOnly && st.Send != nil && baseObject(fam, st.Send) == ssa.Value(al) {
								hasSend = true
							}
							if st.Dir == types.RecvOnly && strings.HasSuffix(w.accessPath(st.Chan), ".CloseChan") {
								hasClose = true
							}
						}
						if hasSend && hasClose && x.Blocking {
							viaSelect = true
						}
					}
				})
				if strings.HasSuffix(shortFn2(fn), "$lit") || fn.Parent() != nil {
					if viaSelect || plain {
						r.Check(viaSelect && !plain, "C04-R4", cons+" | sent under the barrier's close case", al.Pos(), "select { case <-CloseChan; case apiEventChan <- event }", "the drop request is sent outside a select that also watches the barrier's CloseChan: when the task is stopped while the event channel is full, the send completes later and a drop request is produced by a stopped task")
					}
				}
			}
			markedElsewhere := token.NoPos
			eachInstr(fn, func(in ssa.Instruction) {
				c, isC := in.(*ssa.Call)
				if !isC {
					return
				}
				s := callSym(c.Common())
				rp := ""
				if rc := callRecv(c.Common()); rc != nil {
					rp = w.accessPath(rc)
				}
				if s.name == "Store" && (strings.HasSuffix(rp, ".droppedCollections") || strings.HasSuffix(rp, ".droppedPartitions")) {
					marks = true
					if sentBlock != nil && !(c.Block() == sentBlock || sentBlock.Dominates(c.Block())) {
						markedElsewhere = c.Pos()
					}
				}
				if (s.name == "stopReadChannel" || s.name == "RemovePartitionInfo") && loopHeaderOf(c.Block()) != nil {
					removes = true
				}
			})
			what := "droppedCollections.Store + stopReadChannel for every physical channel"
			if et == "ReplicateDropPartition" {
				what = "droppedPartitions.Store + RemovePartitionInfo for every handler"
			}
			r.Check(marks, "C04-R5", cons+" | marked dropped", al.Pos(), "dropped set updated", "after the drop request was sent the object is not marked dropped: later data for it is still emitted")
			if sentBlock != nil {
				r.Check(markedElsewhere == token.NoPos, "C04-R5", cons+" | marked dropped only when the request was sent", al.Pos(), "the dropped set is updated on the sent branch only", "the object is marked dropped also when the barrier was closed without sending the request (task stopped): the per-target manager outlives the task, so after a resume the collection is skipped and its drop is never replayed")
			}
			r.Check(removes, "C04-R5", cons+" | cleaned up for every channel/handler", al.Pos(), what, "the object's streams / partition entries are not removed for every channel")
		}
	}
	if nDrop < 4 {
		r.Fail("C04-R2", "drop event literal census", 0, fmt.Sprintf("only %d drop event literals found (4 confirmed)", nDrop))
	}

	// ---------- R8 a partition dropped upstream is skipped only when the downstream does not have it
	r.Rule("C04-R8", "a dropped partition is skipped only if the downstream does not have it", "in AddPartition the return taken because the source partition is Dropping/Dropped is inside the branch on which the downstream collection has no partition of that name; a partition that still exists downstream goes on to get its barrier and its synthetic drop message, so the drop is replayed after a restart", 1)
	if ap := w.Func(pkgReader, "replicateChannelManager", "AddPartition"); ap == nil {
		r.Undecided("C04-R8", "AddPartition", 0, "anchor not found")
	} else {
		// the comma-ok lookup in the downstream partition table and its not-found successor
		var notFound *ssa.BasicBlock
		eachInstr(ap, func(in ssa.Instruction) {
			lk, ok := in.(*ssa.Lookup)
			if !ok || !lk.CommaOk || !strings.HasSuffix(w.accessPath(lk.X), ".PartitionInfo") {
				return
			}
			okv := extractOfTuple(lk, 1)
			for _, b := range ap.Blocks {
				cond, t, f, isIf := ifSuccs(b)
				if !isIf {
					continue
				}
				if cond == okv {
					notFound = f
				}
				if u, isU := cond.(*ssa.UnOp); isU && u.Op == token.NOT && u.X == okv {
					notFound = t
				}
			}
		})
		n := 0
		for _, b := range ap.Blocks {
			cond, t, _, isIf := ifSuccs(b)
			if !isIf {
				continue
			}
			bo, isB := cond.(*ssa.BinOp)
			if !isB || bo.Op != token.EQL || !strings.HasSuffix(w.accessPath(bo.X), ".State") {
				continue
			}
			c, isC := bo.Y.(*ssa.Const)
			if !isC || c.Value == nil || (c.Int64() != 2 && c.Int64() != 3) {
				continue
			}
			// does the true side return nil?
			returns := false
			for x := range blockReachIncl(t) {
				if len(x.Instrs) > 0 {
					if ret, isR := x.Instrs[len(x.Instrs)-1].(*ssa.Return); isR && (x == t || t.Dominates(x)) && len(ret.Results) == 1 && isNilConst(returnedValue(ret, 0)) {
						returns = true
					}
				}
			}
			if !returns {
				continue
			}
			n++
			okScope := notFound != nil && (b == notFound || notFound.Dominates(b))
			r.Check(okScope, "C04-R8", fmt.Sprintf("(*replicateChannelManager).AddPartition | skip of a dropped source partition #%d", n), b.Instrs[len(b.Instrs)-1].Pos(), "only when the downstream has no such partition", "a source partition in state Dropping/Dropped is skipped although the downstream may still have it: a partition dropped upstream while CDC was not running gets no barrier and no synthetic drop message, and its drop is never replayed")
		}
		if n == 0 {
			r.Fail("C04-R8", "(*replicateChannelManager).AddPartition | skip of a dropped source partition", ap.Pos(), "no Dropping/Dropped state test with an early return found in AddPartition")
		}
	}

	// ---------- R3 arity
	for _, fn := range w.RepoFuncs() {
		if fn.Pkg.Pkg.Path() != pkgReader {
			continue
		}
		eachInstr(fn, func(in ssa.Instruction) {
			c, ok := in.(*ssa.Call)
			if !ok || callSym(c.Common()).name != "NewBarrier" {
				return
			}
			cons := fmt.Sprintf("%s | NewBarrier arity", shortFn2(fn))
			good, src := false, ""
			for _, v := range backSlice(c.Call.Args[0], SliceOpts{MaxDepth: 5}) {
				lc, isC := v.(*ssa.Call)
				if !isC {
					continue
				}
				if b, isB := lc.Call.Value.(*ssa.Builtin); isB && b.Name() == "len" {
					src = w.accessPath(lc.Call.Args[0])
					if strings.HasSuffix(src, ".StartPositions") || strings.HasSuffix(src, ".VirtualChannelNames") || strings.HasSuffix(src, ".PhysicalChannelNames") {
						good = true
					}
				}
			}
			r.Check(good, "C04-R3", cons, c.Pos(), "len("+src+")", "the barrier is sized by len("+src+"), a snapshot of the handlers that happen to be registered when the partition is added: with shards registering concurrently it can be smaller than the shard count, fire after one shard and leave the others without a partition barrier")
		})
	}
}

func blockReachIncl(b *ssa.BasicBlock) map[*ssa.BasicBlock]bool {
	m := blockReach(b, nil)
	m[b] = true
	return m
}

// catalogStatePairs (shared by C04, C08, C13, C15): the source catalog has two states for "going away" (Dropping = 2,
// Dropped = 3) and every decision of the reader treats them alike; inside GetAllDroppedObj the same holds for the two
// live states (Created = 0, Creating = 1). A comparison of a catalog State with one constant of a pair therefore has a
// sibling comparison of the same value with the other constant, with the same operator, next to it (`||` / `&&` chain).
func catalogStatePairs(w *World, r *Report, rule string) {
	r.Rule(rule, "catalog states are tested in pairs", "every comparison of a pb.CollectionInfo/PartitionInfo State with Dropped has the sibling comparison with Dropping (same value, same operator, adjacent in the condition) and vice versa, in all of core/reader; in GetAllDroppedObj also Created with Creating", 9)
	n := 0
	for _, fn := range w.RepoFuncs() {
		if fn.Pkg == nil || fn.Pkg.Pkg.Path() != pkgReader {
			continue
		}
		livePairs := rootFunc(fn).Name() == "GetAllDroppedObj"
		type cmp struct {
			bo  *ssa.BinOp
			val string
			c   int64
		}
		var cmps []cmp
		eachInstr(fn, func(in ssa.Instruction) {
			bo, ok := in.(*ssa.BinOp)
			if !ok || (bo.Op != token.EQL && bo.Op != token.NEQ) {
				return
			}
			x, y := bo.X, bo.Y
			if _, isC := x.(*ssa.Const); isC {
				x, y = y, x
			}
			c, isC := y.(*ssa.Const)
			if !isC || c.Value == nil {
				return
			}
			tn := bareTypeName(x.Type())
			if tn != "CollectionState" && tn != "PartitionState" {
				return
			}
			cmps = append(cmps, cmp{bo, tn + ":" + w.sigString(x, 0), c.Int64()})
		})
		for _, c := range cmps {
			var partner int64
			switch {
			case c.c == 2:
				partner = 3
			case c.c == 3:
				partner = 2
			case livePairs && c.c == 0:
				partner = 1
			case livePairs && c.c == 1:
				partner = 0
			default:
				continue
			}
			n++
			found := false
			for _, d := range cmps {
				if d.bo == c.bo || d.val != c.val || d.c != partner || d.bo.Op != c.bo.Op {
					continue
				}
				// adjacent: one test's block is a direct successor of the other's, or the same block
				a, b := c.bo.Block(), d.bo.Block()
				adj := a == b
				for _, s := range a.Succs {
					if s == b {
						adj = true
					}
				}
				for _, s := range b.Succs {
					if s == a {
						adj = true
					}
				}
				if adj {
					found = true
				}
			}
			names := map[int64]string{0: "Created", 1: "Creating", 2: "Dropping", 3: "Dropped"}
			r.Check(found, rule, fmt.Sprintf("%s | State %s %s has its sibling test #%d", shortFn2(fn), c.bo.Op, names[c.c], n), c.bo.Pos(), "tested together with "+names[partner], "the state is compared with "+names[c.c]+" but not, next to it, with "+names[partner]+": an object caught in the other state of the pair is treated like the opposite kind (a collection still Dropping at restart is started and created downstream again, so its drop is replayed twice; a namesake still Creating is not seen as the live incarnation, so the drop horizon covers the new incarnation's operations)")
		}
	}
}

// c04MarkDiscipline (C04-R9): the manager's dropped-collection / dropped-partition sets make every shard skip the
// object's messages. They may be filled only (a) on the branch on which the drop request was handed over, (b) for an
// object the catalog already reports as Dropping/Dropped when it is (not) started, (c) by the explicit
// AddDroppedCollection / AddDroppedPartition API.
func c04MarkDiscipline(w *World, r *Report, rule string) {
	r.Rule(rule, "who may mark an object dropped", "every Store into replicateChannelManager.droppedCollections / droppedPartitions is made by AddDroppedCollection/AddDroppedPartition, under a Dropping/Dropped test of the catalog state, or on the sent branch of the select that hands the drop request over (never when a single shard merely reached the drop message)", 4)
	n := 0
	for _, fn := range w.RepoFuncs() {
		if fn.Pkg == nil || fn.Pkg.Pkg.Path() != pkgReader {
			continue
		}
		eachInstr(fn, func(in ssa.Instruction) {
			c, ok := in.(*ssa.Call)
			if !ok || callSym(c.Common()).name != "Store" {
				return
			}
			rv := callRecv(c.Common())
			if rv == nil {
				return
			}
			ap := w.accessPath(rv)
			if !strings.HasSuffix(ap, ".droppedCollections") && !strings.HasSuffix(ap, ".droppedPartitions") {
				return
			}
			n++
			table := ap[strings.LastIndex(ap, ".")+1:]
			cons := fmt.Sprintf("%s | %s.Store #%d", shortFn2(fn), table, n)
			root := rootFunc(fn).Name()
			if fn.Parent() == nil && (root == "AddDroppedCollection" || root == "AddDroppedPartition") {
				r.OK(rule, cons, c.Pos(), "the explicit API")
				return
			}
			okWhy := ""
			for _, b := range fn.Blocks {
				cond, t, f, isIf := ifSuccs(b)
				if !isIf {
					continue
				}
				onT := t == c.Block() || (t.Dominates(c.Block()) && len(t.Preds) == 1)
				onF := f == c.Block() || (f.Dominates(c.Block()) && len(f.Preds) == 1)
				for _, v := range backSlice(cond, SliceOpts{MaxDepth: 4}) {
					switch x := v.(type) {
					case *ssa.BinOp:
						if x.Op == token.EQL && onT {
							if k, isC := x.Y.(*ssa.Const); isC && k.Value != nil && (k.Int64() == 2 || k.Int64() == 3) {
								if tn := bareTypeName(x.X.Type()); tn == "CollectionState" || tn == "PartitionState" {
									okWhy = "under a Dropping/Dropped test of the catalog state"
								}
							}
						}
					case *ssa.Extract:
						// index of a select with a send case
						if sel, isSel := x.Tuple.(*ssa.Select); isSel && x.Index == 0 && (onT || onF) {
							for _, st := range sel.States {
								if st.Dir == types.SendOnly {
									okWhy = "on a branch chosen by the select that sends the drop request"
								}
							}
						}
					}
				}
			}
			r.Check(okWhy != "", rule, cons, c.Pos(), okWhy, "the object is marked dropped where neither the catalog reports it as dropped nor the drop request was handed over (e.g. when the first shard reached the drop message): the other shards then skip their own drop message and the data before it, the barrier never completes and the drop is never replayed")
		})
	}
	if n == 0 {
		r.Undecided(rule, "droppedCollections / droppedPartitions", 0, "no Store into the dropped sets found")
	}
}

// c04PerShardMaps (C04-R10): each shard's TargetCollectionInfo has its own partition-barrier and dropped-partition
// tables (a partition drop is signalled once per shard; a shared table is filled by the first shard only).
func c04PerShardMaps(w *World, r *Report, rule string) {
	r.Rule(rule, "per-shard barrier tables are allocated per shard", "in StartReadCollection's per-channel callback the TargetCollectionInfo handed to startReadChannel has PartitionBarrierChan and DroppedPartition stored from a make(map…) evaluated inside the callback (not copied from a template built once for the collection)", 2)
	fn := w.Func(pkgReader, "replicateChannelManager", "StartReadCollection")
	if fn == nil {
		r.Undecided(rule, "StartReadCollection", 0, "anchor not found")
		return
	}
	n := 0
	for _, g := range familyOf(fn).Funcs {
		eachInstr(g, func(in ssa.Instruction) {
			c, ok := in.(*ssa.Call)
			if !ok || callSym(c.Common()).name != "startReadChannel" {
				return
			}
			args := callArgs(c.Common())
			if len(args) < 3 {
				return
			}
			obj := baseObject(familyOf(fn), args[2])
			al, isAl := obj.(*ssa.Alloc)
			if !isAl {
				r.Undecided(rule, shortFn2(g)+" | startReadChannel target info", c.Pos(), "the TargetCollectionInfo argument is not a locally built struct")
				return
			}
			for _, field := range []string{"PartitionBarrierChan", "DroppedPartition"} {
				n++
				good, why := false, "the field is never stored in the callback (the struct is a copy of a template: all shards share one table)"
				for _, fs := range fieldStoresOn(familyOf(fn), al) {
					if fs.Field == nil || fs.Field.Name() != field {
						continue
					}
					if mm, isMM := fs.Store.Val.(*ssa.MakeMap); isMM && mm.Parent() == g && al.Parent() == g {
						good = true
					} else {
						why = "the table stored is not a make(map…) evaluated in the per-channel callback"
					}
				}
				if al.Parent() != g {
					good, why = false, "the struct itself is built outside the per-channel callback"
				}
				r.Check(good, rule, fmt.Sprintf("%s | TargetCollectionInfo.%s per shard", shortFn2(g), field), c.Pos(), "make(map…) inside the callback", why+": only the first shard registers a partition barrier signal and the first shard's drop removes the shared entry, so the other shards raise an error and the drop-partition request is never issued")
			}
		})
	}
	if n == 0 {
		r.Undecided(rule, "StartReadCollection | startReadChannel", fn.Pos(), "call not found")
	}
}

// c04SignalOnlyEmitted (C04-R12, shared with C02): a shard signals a drop barrier only for a drop message it also emits.
// Inside the drop arms of handlePack, once the barrier channel was written no path of that arm may still skip the
// message (continue): the barrier completes on the signal, the drop request goes out and the object is marked dropped
// while this shard's own drop message — which has to be re-addressed and emitted — is thrown away.
func c04SignalOnlyEmitted(w *World, r *Report, rule string) {
	r.Rule(rule, "a shard signals the barrier only for a message it emits", "handlePack: from a Write on BarrierChan / a PartitionBarrierChan entry, no block of the same type-switch arm that is still reachable jumps back to the loop head (no skip after the signal)", 2)
	m := buildHPModel(w)
	if m.Err != "" || m.LoopHeader == nil {
		r.Undecided(rule, "handlePack model", 0, m.Err)
		return
	}
	n := 0
	eachInstr(m.Fn, func(in ssa.Instruction) {
		c, ok := in.(*ssa.Call)
		if !ok || callSym(c.Common()).name != "Write" || callSym(c.Common()).recv != "OnceWriteChan" {
			return
		}
		arm := m.armOf(c)
		if arm == "" {
			return
		}
		n++
		reach := blockReach(c.Block(), map[*ssa.BasicBlock]bool{m.LoopHeader: true})
		reach[c.Block()] = true
		var bad token.Pos
		for b := range reach {
			if len(b.Instrs) == 0 || !m.inArm(arm, b.Instrs[0]) {
				continue
			}
			for _, sc := range b.Succs {
				if sc == m.LoopHeader {
					if b == c.Block() {
						// the jump follows the write only if the write is not the block's last effect before it
					}
					bad = b.Instrs[len(b.Instrs)-1].Pos()
					if !bad.IsValid() {
						bad = c.Pos()
					}
				}
			}
		}
		r.Check(!bad.IsValid(), rule, fmt.Sprintf("handlePack | %s arm: barrier signal #%d is the arm's last decision", arm, n), c.Pos(), "no skip is reachable in the arm after the signal", "after the barrier was signalled the arm can still skip the message (continue): when the downstream id is not resolved yet the barrier completes on this signal, the drop is requested and the partition marked dropped, and this shard's drop message is skipped instead of being re-addressed and emitted")
	})
	if n == 0 {
		r.Undecided(rule, "handlePack | barrier signals", m.Fn.Pos(), "no OnceWriteChan.Write found in the type-switch arms")
	}
}
