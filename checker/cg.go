package main

import (
	"go/types"
	"sort"
	"strings"

	"golang.org/x/tools/go/callgraph"
	"golang.org/x/tools/go/callgraph/cha"
	"golang.org/x/tools/go/callgraph/vta"
	"golang.org/x/tools/go/ssa"
)

var cgCache *callgraph.Graph

// CallGraph returns the VTA call graph (seeded by CHA) of the loaded program.
func (w *World) CallGraph() *callgraph.Graph {
	if cgCache == nil {
		cgCache = vta.CallGraph(w.AllFuncs(), cha.CallGraph(w.Prog))
	}
	return cgCache
}

// PanicSite is a place that aborts the process (or at least the goroutine): builtin panic,
// log.Panic*/log.Fatal* of the repository's or milvus' log package, zap Panic/Fatal.
type PanicSite struct {
	Fn   *ssa.Function
	In   ssa.Instruction
	Kind string
}

func panicSitesIn(fn *ssa.Function) []PanicSite {
	var out []PanicSite
	eachInstr(fn, func(in ssa.Instruction) {
		switch x := in.(type) {
		case *ssa.Panic:
			if !x.Pos().IsValid() {
				return // synthesized by the SSA builder (e.g. after a blocking select): not source code
			}
			msg := ""
			if mi, ok := x.X.(*ssa.MakeInterface); ok {
				if s, ok := constString(mi.X); ok {
					msg = " " + quote(s)
				}
			}
			out = append(out, PanicSite{fn, in, "panic()" + msg})
		case ssa.CallInstruction:
			s := callSym(x.Common())
			if s.name == "" {
				return
			}
			isLogPkg := strings.HasSuffix(s.pkg, "/log") || s.pkg == "go.uber.org/zap" || s.pkg == "log"
			if isLogPkg && (strings.HasPrefix(s.name, "Panic") || strings.HasPrefix(s.name, "Fatal") || strings.HasPrefix(s.name, "DPanic")) {
				msg := ""
				for _, a := range callArgs(x.Common()) {
					if cs, ok := constString(a); ok {
						msg = " " + quote(cs)
						break
					}
				}
				out = append(out, PanicSite{fn, in, s.String() + msg})
			}
			if s.pkg == "os" && s.name == "Exit" {
				out = append(out, PanicSite{fn, in, "os.Exit"})
			}
		}
	})
	return out
}

// reachableFrom computes repository functions reachable from the entries in the call graph,
// remembering one predecessor per function for path reporting.
func (w *World) reachableFrom(entries []*ssa.Function) (map[*ssa.Function]*ssa.Function, []*ssa.Function) {
	return w.reachableFromMode(entries, true)
}

// reachableFromMode: allClosures=true treats every closure created in a reachable function as reachable (sound for
// "can this abort ever run once these goroutines exist"); false only follows closures handed directly to a callee
// without a body (e.g. retry.Do(ctx, func)), which is what a synchronous request path can execute.
func (w *World) reachableFromMode(entries []*ssa.Function, allClosures bool) (map[*ssa.Function]*ssa.Function, []*ssa.Function) {
	cg := w.CallGraph()
	pred := map[*ssa.Function]*ssa.Function{}
	var order []*ssa.Function
	var queue []*ssa.Function
	for _, e := range entries {
		if _, ok := pred[e]; !ok {
			pred[e] = nil
			queue = append(queue, e)
		}
	}
	for len(queue) > 0 {
		f := queue[0]
		queue = queue[1:]
		order = append(order, f)
		n := cg.Nodes[f]
		if n == nil {
			continue
		}
		var outs []*ssa.Function
		for _, e := range n.Out {
			c := e.Callee.Func
			if c == nil {
				continue
			}
			outs = append(outs, c)
		}
		// closures created here may be invoked by callees outside the program view (dependencies without bodies)
		eachInstr(f, func(in ssa.Instruction) {
			if allClosures {
				if mc, ok := in.(*ssa.MakeClosure); ok {
					if g, ok := mc.Fn.(*ssa.Function); ok {
						outs = append(outs, g)
					}
				}
				return
			}
			c, ok := in.(*ssa.Call)
			if !ok {
				return
			}
			callee := c.Call.StaticCallee()
			if callee != nil && callee.Blocks != nil {
				return // analysed callee: VTA resolves what it calls
			}
			if c.Call.IsInvoke() {
				return
			}
			for _, a := range c.Call.Args {
				for _, v := range backSlice(a, SliceOpts{MaxDepth: 3}) {
					if mc, ok := v.(*ssa.MakeClosure); ok {
						if g, ok := mc.Fn.(*ssa.Function); ok {
							outs = append(outs, g)
						}
					}
				}
			}
		})
		sort.Slice(outs, func(i, j int) bool { return funcKey(outs[i]) < funcKey(outs[j]) })
		for _, c := range outs {
			if _, seen := pred[c]; seen {
				continue
			}
			pred[c] = f
			queue = append(queue, c)
		}
	}
	return pred, order
}

func pathTo(pred map[*ssa.Function]*ssa.Function, f *ssa.Function) string {
	var parts []string
	for i := 0; f != nil && i < 12; i++ {
		parts = append([]string{shortFn2(f)}, parts...)
		f = pred[f]
	}
	return strings.Join(parts, " -> ")
}

func shortFn2(fn *ssa.Function) string {
	if fn.Parent() != nil {
		return shortFn2(fn.Parent()) + "$lit"
	}
	return shortFn(fn)
}

// goEntries lists functions started by `go` statements (and pool Submit closures) in the given packages.
func (w *World) goEntries(pkgs map[string]bool) []*ssa.Function {
	var out []*ssa.Function
	seen := map[*ssa.Function]bool{}
	for _, fn := range w.RepoFuncs() {
		if !pkgs[fn.Pkg.Pkg.Path()] {
			continue
		}
		eachInstr(fn, func(in ssa.Instruction) {
			var target ssa.Value
			switch x := in.(type) {
			case *ssa.Go:
				target = x.Call.Value
				if x.Call.IsInvoke() {
					return
				}
			case *ssa.Call:
				if callSym(x.Common()).name == "Submit" && len(x.Call.Args) > 0 {
					target = x.Call.Args[len(x.Call.Args)-1]
				}
			}
			if target == nil {
				return
			}
			var g *ssa.Function
			switch t := target.(type) {
			case *ssa.Function:
				g = t
			case *ssa.MakeClosure:
				g, _ = t.Fn.(*ssa.Function)
			}
			if g != nil && !seen[g] && g.Blocks != nil {
				seen[g] = true
				out = append(out, g)
			}
		})
	}
	sort.Slice(out, func(i, j int) bool { return funcKey(out[i]) < funcKey(out[j]) })
	return out
}

func quote(s string) string {
	if len(s) > 60 {
		s = s[:60]
	}
	return "\"" + s + "\""
}

var _ = types.Identical
