// Copyright 2024 The Go Authors. All rights reserved.
// Use of this source code is governed by a BSD-style
// license that can be found in the LICENSE file.

package typesinternal

import (
	"go/types"
)

// ReceiverNamed returns the named type (if any) associated with the
// type of recv, which may be of the form N or *N, or aliases thereof.
// It also reports whether a Pointer was present.
//
// The named result may be nil in ill-typed code.
func ReceiverNamed(recv *types.Var) (isPtr bool, named *types.Named) {
	t := recv.Type()
	if ptr, ok := types.Unalias(t).(*types.Pointer); ok {
		isPtr = true
		t = ptr.Elem()
	}
	named, _ = types.Unalias(t).(*types.Named)
	return
}

// Unpointer returns T given *T or an alias thereof.
// For all other types it is the identity function.
// It does not look at underlying types.
// The result may be an alias.
//
// Use this function to strip off the optional pointer on a receiver
// in a field or method selection, without losing the named type
// (which is needed to compute the method set).
//
// See also [typeparams.MustDeref], which removes one level of
// indirection from the type, regardless of named types (analogous to
// a LOAD instruction).
func Unpointer(t types.Type) types.Type {
	if ptr, ok := types.Unalias(t).(*types.Pointer); ok {
		return ptr.Elem()
	}
	return t
}
