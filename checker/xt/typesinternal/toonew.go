// Copyright 2024 The Go Authors. All rights reserved.
// Use of this source code is governed by a BSD-style
// license that can be found in the LICENSE file.

package typesinternal

import (
	"go/types"

	"verif/checker/xt/stdlib"
	"verif/checker/xt/versions"
)

// TooNewStdSymbols computes the set of package-level symbols
// exported by pkg that are not available at the specified version.
// The result maps each symbol to its minimum version.
//
// The pkg is allowed to contain type errors.
func TooNewStdSymbols(pkg *types.Package, version string) map[types.Object]string {
	disallowed := make(map[types.Object]string)

	// Pass 1: package-level symbols.
	symbols := stdlib.PackageSymbols[pkg.Path()]
	for _, sym := range symbols {
		symver := sym.Version.String()
		if versions.Before(version, symver) {
			switch sym.Kind {
			case stdlib.Func, stdlib.Var, stdlib.Const, stdlib.Type:
				disallowed[pkg.Scope().Lookup(sym.Name)] = symver
			}
		}
	}

	// Pass 2: fields and methods.
	//
	// We allow fields and methods if their associated type is
	// disallowed, as otherwise we would report false positives
	// for compatibility shims. Consider:
	//
	//   //go:build go1.22
	//   type T struct { F std.Real } // correct new API
	//
	//   //go:build !go1.22
	//   type T struct { F fake } // shim
	//   type fake struct { ... }
	//   func (fake) M () {}
	//
	// These alternative declarations of T use either the std.Real
	// type, introduced in go1.22, or a fake type, for the field
	// F. (The fakery could be arbitrarily deep, involving more
	// nested fields and methods than are shown here.) Clients
	// that use the compatibility shim T will compile with any
	// version of go, whether older or newer than go1.22, but only
	// the newer version will use the std.Real implementation.
	//
	// Now consider a reference to method M in new(T).F.M() in a
	// module that requires a minimum of go1.21. The analysis may
	// occur using a version of Go higher than 1.21, selecting the
	// first version of T, so the method M is Real.M. This would
	// spuriously cause the analyzer to report a reference to a
	// too-new symbol even though this expression compiles just
	// fine (with the fake implementation) using go1.21.
	for _, sym := range symbols {
		symVersion := sym.Version.String()
		if !versions.Before(version, symVersion) {
			continue // allowed
		}

		var obj types.Object
		switch sym.Kind {
		case stdlib.Field:
			typename, name := sym.SplitField()
			if t := pkg.Scope().Lookup(typename); t != nil && disallowed[t] == "" {
				obj, _, _ = types.LookupFieldOrMethod(t.Type(), false, pkg, name)
			}

		case stdlib.Method:
			ptr, recvname, name := sym.SplitMethod()
			if t := pkg.Scope().Lookup(recvname); t != nil && disallowed[t] == "" {
				obj, _, _ = types.LookupFieldOrMethod(t.Type(), ptr, pkg, name)
			}
		}
		if obj != nil {
			disallowed[obj] = symVersion
		}
	}

	return disallowed
}
