// Copyright 2024 The Go Authors. All rights reserved.
// Use of this source code is governed by a BSD-style
// license that can be found in the LICENSE file.

package typesinternal

import (
	"fmt"
	"go/ast"
	"go/token"
	"go/types"
	"strings"
)

// ZeroString returns the string representation of the zero value for any type t.
// The boolean result indicates whether the type is or contains an invalid type
// or a non-basic (constraint) interface type.
//
// Even for invalid input types, ZeroString may return a partially correct
// string representation. The caller should use the returned isValid boolean
// to determine the validity of the expression.
//
// When assigning to a wider type (such as 'any'), it's the caller's
// responsibility to handle any necessary type conversions.
//
// This string can be used on the right-hand side of an assignment where the
// left-hand side has that explicit type.
// References to named types are qualified by an appropriate (optional)
// qualifier function.
// Exception: This does not apply to tuples. Their string representation is
// informational only and cannot be used in an assignment.
//
// See [ZeroExpr] for a variant that returns an [ast.Expr].
func ZeroString(t types.Type, qual types.Qualifier) (_ string, isValid bool) {
	switch t := t.(type) {
	case *types.Basic:
		switch {
		case t.Info()&types.IsBoolean != 0:
			return "false", true
		case t.Info()&types.IsNumeric != 0:
			return "0", true
		case t.Info()&types.IsString != 0:
			return `""`, true
		case t.Kind() == types.UnsafePointer:
			fallthrough
		case t.Kind() == types.UntypedNil:
			return "nil", true
		case t.Kind() == types.Invalid:
			return "invalid", false
		default:
			panic(fmt.Sprintf("ZeroString for unexpected type %v", t))
		}

	case *types.Pointer, *types.Slice, *types.Chan, *types.Map, *types.Signature:
		return "nil", true

	case *types.Interface:
		if !t.IsMethodSet() {
			return "invalid", false
		}
		return "nil", true

	case *types.Named:
		switch under := t.Underlying().(type) {
		case *types.Struct, *types.Array:
			return types.TypeString(t, qual) + "{}", true
		default:
			return ZeroString(under, qual)
		}

	case *types.Alias:
		switch t.Underlying().(type) {
		case *types.Struct, *types.Array:
			return types.TypeString(t, qual) + "{}", true
		default:
			// A type parameter can have alias but alias type's underlying type
			// can never be a type parameter.
			// Use types.Unalias to preserve the info of type parameter instead
			// of call Underlying() going right through and get the underlying
			// type of the type parameter which is always an interface.
			return ZeroString(types.Unalias(t), qual)
		}

	case *types.Array, *types.Struct:
		return types.TypeString(t, qual) + "{}", true

	case *types.TypeParam:
		// Assumes func new is not shadowed.
		return "*new(" + types.TypeString(t, qual) + ")", true

	case *types.Tuple:
		// Tuples are not normal values.
		// We are currently format as "(t[0], ..., t[n])". Could be something else.
		isValid := true
		components := make([]string, t.Len())
		for i := 0; i < t.Len(); i++ {
			comp, ok := ZeroString(t.At(i).Type(), qual)

			components[i] = comp
			isValid = isValid && ok
		}
		return "(" + strings.Join(components, ", ") + ")", isValid

	case *types.Union:
		// Variables of these types cannot be created, so it makes
		// no sense to ask for their zero value.
		panic(fmt.Sprintf("invalid type for a variable: %v", t))

	default:
		panic(t) // unreachable.
	}
}

// ZeroExpr returns the ast.Expr representation of the zero value for any type t.
// The boolean result indicates whether the type is or contains an invalid type
// or a non-basic (constraint) interface type.
//
// Even for invalid input types, ZeroExpr may return a partially correct ast.Expr
// representation. The caller should use the returned isValid boolean to determine
// the validity of the expression.
//
// This function is designed for types suitable for variables and should not be
// used with Tuple or Union types.References to named types are qualified by an
// appropriate (optional) qualifier function.
//
// See [ZeroString] for a variant that returns a string.
func ZeroExpr(t types.Type, qual types.Qualifier) (_ ast.Expr, isValid bool) {
	switch t := t.(type) {
	case *types.Basic:
		switch {
		case t.Info()&types.IsBoolean != 0:
			return &ast.Ident{Name: "false"}, true
		case t.Info()&types.IsNumeric != 0:
			return &ast.BasicLit{Kind: token.INT, Value: "0"}, true
		case t.Info()&types.IsString != 0:
			return &ast.BasicLit{Kind: token.STRING, Value: `""`}, true
		case t.Kind() == types.UnsafePointer:
			fallthrough
		case t.Kind() == types.UntypedNil:
			return ast.NewIdent("nil"), true
		case t.Kind() == types.Invalid:
			return &ast.BasicLit{Kind: token.STRING, Value: `"invalid"`}, false
		default:
			panic(fmt.Sprintf("ZeroExpr for unexpected type %v", t))
		}

	case *types.Pointer, *types.Slice, *types.Chan, *types.Map, *types.Signature:
		return ast.NewIdent("nil"), true

	case *types.Interface:
		if !t.IsMethodSet() {
			return &ast.BasicLit{Kind: token.STRING, Value: `"invalid"`}, false
		}
		return ast.NewIdent("nil"), true

	case *types.Named:
		switch under := t.Underlying().(type) {
		case *types.Struct, *types.Array:
			return &ast.CompositeLit{
				Type: TypeExpr(t, qual),
			}, true
		default:
			return ZeroExpr(under, qual)
		}

	case *types.Alias:
		switch t.Underlying().(type) {
		case *types.Struct, *types.Array:
			return &ast.CompositeLit{
				Type: TypeExpr(t, qual),
			}, true
		default:
			return ZeroExpr(types.Unalias(t), qual)
		}

	case *types.Array, *types.Struct:
		return &ast.CompositeLit{
			Type: TypeExpr(t, qual),
		}, true

	case *types.TypeParam:
		return &ast.StarExpr{ // *new(T)
			X: &ast.CallExpr{
				// Assumes func new is not shadowed.
				Fun: ast.NewIdent("new"),
				Args: []ast.Expr{
					ast.NewIdent(t.Obj().Name()),
				},
			},
		}, true

	case *types.Tuple:
		// Unlike ZeroString, there is no ast.Expr can express tuple by
		// "(t[0], ..., t[n])".
		panic(fmt.Sprintf("invalid type for a variable: %v", t))

	case *types.Union:
		// Variables of these types cannot be created, so it makes
		// no sense to ask for their zero value.
		panic(fmt.Sprintf("invalid type for a variable: %v", t))

	default:
		panic(t) // unreachable.
	}
}

// IsZeroExpr uses simple syntactic heuristics to report whether expr
// is a obvious zero value, such as 0, "", nil, or false.
// It cannot do better without type information.
func IsZeroExpr(expr ast.Expr) bool {
	switch e := expr.(type) {
	case *ast.BasicLit:
		return e.Value == "0" || e.Value == `""`
	case *ast.Ident:
		return e.Name == "nil" || e.Name == "false"
	default:
		return false
	}
}

// TypeExpr returns syntax for the specified type. References to named types
// are qualified by an appropriate (optional) qualifier function.
// It may panic for types such as Tuple or Union.
func TypeExpr(t types.Type, qual types.Qualifier) ast.Expr {
	switch t := t.(type) {
	case *types.Basic:
		switch t.Kind() {
		case types.UnsafePointer:
			return &ast.SelectorExpr{X: ast.NewIdent(qual(types.NewPackage("unsafe", "unsafe"))), Sel: ast.NewIdent("Pointer")}
		default:
			return ast.NewIdent(t.Name())
		}

	case *types.Pointer:
		return &ast.UnaryExpr{
			Op: token.MUL,
			X:  TypeExpr(t.Elem(), qual),
		}

	case *types.Array:
		return &ast.ArrayType{
			Len: &ast.BasicLit{
				Kind:  token.INT,
				Value: fmt.Sprintf("%d", t.Len()),
			},
			Elt: TypeExpr(t.Elem(), qual),
		}

	case *types.Slice:
		return &ast.ArrayType{
			Elt: TypeExpr(t.Elem(), qual),
		}

	case *types.Map:
		return &ast.MapType{
			Key:   TypeExpr(t.Key(), qual),
			Value: TypeExpr(t.Elem(), qual),
		}

	case *types.Chan:
		dir := ast.ChanDir(t.Dir())
		if t.Dir() == types.SendRecv {
			dir = ast.SEND | ast.RECV
		}
		return &ast.ChanType{
			Dir:   dir,
			Value: TypeExpr(t.Elem(), qual),
		}

	case *types.Signature:
		var params []*ast.Field
		for i := 0; i < t.Params().Len(); i++ {
			params = append(params, &ast.Field{
				Type: TypeExpr(t.Params().At(i).Type(), qual),
				Names: []*ast.Ident{
					{
						Name: t.Params().At(i).Name(),
					},
				},
			})
		}
		if t.Variadic() {
			last := params[len(params)-1]
			last.Type = &ast.Ellipsis{Elt: last.Type.(*ast.ArrayType).Elt}
		}
		var returns []*ast.Field
		for i := 0; i < t.Results().Len(); i++ {
			returns = append(returns, &ast.Field{
				Type: TypeExpr(t.Results().At(i).Type(), qual),
			})
		}
		return &ast.FuncType{
			Params: &ast.FieldList{
				List: params,
			},
			Results: &ast.FieldList{
				List: returns,
			},
		}

	case *types.TypeParam:
		pkgName := qual(t.Obj().Pkg())
		if pkgName == "" || t.Obj().Pkg() == nil {
			return ast.NewIdent(t.Obj().Name())
		}
		return &ast.SelectorExpr{
			X:   ast.NewIdent(pkgName),
			Sel: ast.NewIdent(t.Obj().Name()),
		}

	// types.TypeParam also implements interface NamedOrAlias. To differentiate,
	// case TypeParam need to be present before case NamedOrAlias.
	// TODO(hxjiang): remove this comment once TypeArgs() is added to interface
	// NamedOrAlias.
	case NamedOrAlias:
		var expr ast.Expr = ast.NewIdent(t.Obj().Name())
		if pkgName := qual(t.Obj().Pkg()); pkgName != "." && pkgName != "" {
			expr = &ast.SelectorExpr{
				X:   ast.NewIdent(pkgName),
				Sel: expr.(*ast.Ident),
			}
		}

		// TODO(hxjiang): call t.TypeArgs after adding method TypeArgs() to
		// typesinternal.NamedOrAlias.
		if hasTypeArgs, ok := t.(interface{ TypeArgs() *types.TypeList }); ok {
			if typeArgs := hasTypeArgs.TypeArgs(); typeArgs != nil && typeArgs.Len() > 0 {
				var indices []ast.Expr
				for i := range typeArgs.Len() {
					indices = append(indices, TypeExpr(typeArgs.At(i), qual))
				}
				expr = &ast.IndexListExpr{
					X:       expr,
					Indices: indices,
				}
			}
		}

		return expr

	case *types.Struct:
		return ast.NewIdent(t.String())

	case *types.Interface:
		return ast.NewIdent(t.String())

	case *types.Union:
		if t.Len() == 0 {
			panic("Union type should have at least one term")
		}
		// Same as go/ast, the return expression will put last term in the
		// Y field at topmost level of BinaryExpr.
		// For union of type "float32 | float64 | int64", the structure looks
		// similar to:
		// {
		// 	X: {
		// 		X: float32,
		// 		Op: |
		// 		Y: float64,
		// 	}
		// 	Op: |,
		// 	Y: int64,
		// }
		var union ast.Expr
		for i := range t.Len() {
			term := t.Term(i)
			termExpr := TypeExpr(term.Type(), qual)
			if term.Tilde() {
				termExpr = &ast.UnaryExpr{
					Op: token.TILDE,
					X:  termExpr,
				}
			}
			if i == 0 {
				union = termExpr
			} else {
				union = &ast.BinaryExpr{
					X:  union,
					Op: token.OR,
					Y:  termExpr,
				}
			}
		}
		return union

	case *types.Tuple:
		panic("invalid input type types.Tuple")

	default:
		panic("unreachable")
	}
}
