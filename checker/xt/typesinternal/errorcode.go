// Copyright 2020 The Go Authors. All rights reserved.
// Use of this source code is governed by a BSD-style
// license that can be found in the LICENSE file.

package typesinternal

//go:generate stringer -type=ErrorCode

type ErrorCode int

// This file defines the error codes that can be produced during type-checking.
// Collectively, these codes provide an identifier that may be used to
// implement special handling for certain types of errors.
//
// Error codes should be fine-grained enough that the exact nature of the error
// can be easily determined, but coarse enough that they are not an
// implementation detail of the type checking algorithm. As a rule-of-thumb,
// errors should be considered equivalent if there is a theoretical refactoring
// of the type checker in which they are emitted in exactly one place. For
// example, the type checker emits different error messages for "too many
// arguments" and "too few arguments", but one can imagine an alternative type
// checker where this check instead just emits a single "wrong number of
// arguments", so these errors should have the same code.
//
// Error code names should be as brief as possible while retaining accuracy and
// distinctiveness. In most cases names should start with an adjective
// describing the nature of the error (e.g. "invalid", "unused", "misplaced"),
// and end with a noun identifying the relevant language object. For example,
// "DuplicateDecl" or "InvalidSliceExpr". For brevity, naming follows the
// convention that "bad" implies a problem with syntax, and "invalid" implies a
// problem with types.

const (
	// InvalidSyntaxTree occurs if an invalid syntax tree is provided
	// to the type checker. It should never happen.
	InvalidSyntaxTree ErrorCode = -1
)

const (
	_ ErrorCode = iota

	// Test is reserved for errors that only apply while in self-test mode.
	Test

	/* package names */

	// BlankPkgName occurs when a package name is the blank identifier "_".
	//
	// Per the spec:
	//  "The PackageName must not be the blank identifier."
	BlankPkgName

	// MismatchedPkgName occurs when a file's package name doesn't match the
	// package name already established by other files.
	MismatchedPkgName

	// InvalidPkgUse occurs when a package identifier is used outside of a
	// selector expression.
	//
	// Example:
	//  import "fmt"
	//
	//  var _ = fmt
	InvalidPkgUse

	/* imports */

	// BadImportPath occurs when an import path is not valid.
	BadImportPath

	// BrokenImport occurs when importing a package fails.
	//
	// Example:
	//  import "amissingpackage"
	BrokenImport

	// ImportCRenamed occurs when the special import "C" is renamed. "C" is a
	// pseudo-package, and must not be renamed.
	//
	// Example:
	//  import _ "C"
	ImportCRenamed

	// UnusedImport occurs when an import is unused.
	//
	// Example:
	//  import "fmt"
	//
	//  func main() {}
	UnusedImport

	/* initialization */

	// InvalidInitCycle occurs when an invalid cycle is detected within the
	// initialization graph.
	//
	// Example:
	//  var x int = f()
	//
	//  func f() int { return x }
	InvalidInitCycle

	/* decls */

	// DuplicateDecl occurs when an identifier is declared multiple times.
	//
	// Example:
	//  var x = 1
	//  var x = 2
	DuplicateDecl

	// InvalidDeclCycle occurs when a declaration cycle is not valid.
	//
	// Example:
	//  import "unsafe"
	//
	//  type T struct {
	//  	a [n]int
	//  }
	//
	//  var n = unsafe.Sizeof(T{})
	InvalidDeclCycle

	// InvalidTypeCycle occurs when a cycle in type definitions results in a
	// type that is not well-defined.
	//
	// Example:
	//  import "unsafe"
	//
	//  type T [unsafe.Sizeof(T{})]int
	InvalidTypeCycle

	/* decls > const */

	// InvalidConstInit occurs when a const declaration has a non-constant
	// initializer.
	//
	// Example:
	//  var x int
	//  const _ = x
	InvalidConstInit

	// InvalidConstVal occurs when a const value cannot be converted to its
	// target type.
	//
	// TODO(findleyr): this error code and example are not very clear. Consider
	// removing it.
	//
	// Example:
	//  const _ = 1 << "hello"
	InvalidConstVal

	// InvalidConstType occurs when the underlying type in a const declaration
	// is not a valid constant type.
	//
	// Example:
	//  const c *int = 4
	InvalidConstType

	/* decls > var (+ other variable assignment codes) */

	// UntypedNilUse occurs when the predeclared (untyped) value nil is used to
	// initialize a variable declared without an explicit type.
	//
	// Example:
	//  var x = nil
	UntypedNilUse

	// WrongAssignCount occurs when the number of values on the right-hand side
	// of an assignment or initialization expression does not match the number
	// of variables on the left-hand side.
	//
	// Example:
	//  var x = 1, 2
	WrongAssignCount

	// UnassignableOperand occurs when the left-hand side of an assignment is
	// not assignable.
	//
	// Example:
	//  func f() {
	//  	const c = 1
	//  	c = 2
	//  }
	UnassignableOperand

	// NoNewVar occurs when a short variable declaration (':=') does not declare
	// new variables.
	//
	// Example:
	//  func f() {
	//  	x := 1
	//  	x := 2
	//  }
	NoNewVar

	// MultiValAssignOp occurs when an assignment operation (+=, *=, etc) does
	// not have single-valued left-hand or right-hand side.
	//
	// Per the spec:
	//  "In assignment operations, both the left- and right-hand expression lists
	//  must contain exactly one single-valued expression"
	//
	// Example:
	//  func f() int {
	//  	x, y := 1, 2
	//  	x, y += 1
	//  	return x + y
	//  }
	MultiValAssignOp

	// InvalidIfaceAssign occurs when a value of type T is used as an
	// interface, but T does not implement a method of the expected interface.
	//
	// Example:
	//  type I interface {
	//  	f()
	//  }
	//
	//  type T int
	//
	//  var x I = T(1)
	InvalidIfaceAssign

	// InvalidChanAssign occurs when a chan assignment is invalid.
	//
	// Per the spec, a value x is assignable to a channel type T if:
	//  "x is a bidirectional channel value, T is a channel type, x's type V and
	//  T have identical element types, and at least one of V or T is not a
	//  defined type."
	//
	// Example:
	//  type T1 chan int
	//  type T2 chan int
	//
	//  var x T1
	//  // Invalid assignment because both types are named
	//  var _ T2 = x
	InvalidChanAssign

	// IncompatibleAssign occurs when the type of the right-hand side expression
	// in an assignment cannot be assigned to the type of the variable being
	// assigned.
	//
	// Example:
	//  var x []int
	//  var _ int = x
	IncompatibleAssign

	// UnaddressableFieldAssign occurs when trying to assign to a struct field
	// in a map value.
	//
	// Example:
	//  func f() {
	//  	m := make(map[string]struct{i int})
	//  	m["foo"].i = 42
	//  }
	UnaddressableFieldAssign

	/* decls > type (+ other type expression codes) */

	// NotAType occurs when the identifier used as the underlying type in a type
	// declaration or the right-hand side of a type alias does not denote a type.
	//
	// Example:
	//  var S = 2
	//
	//  type T S
	NotAType

	// InvalidArrayLen occurs when an array length is not a constant value.
	//
	// Example:
	//  var n = 3
	//  var _ = [n]int{}
	InvalidArrayLen

	// BlankIfaceMethod occurs when a method name is '_'.
	//
	// Per the spec:
	//  "The name of each explicitly specified method must be unique and not
	//  blank."
	//
	// Example:
	//  type T interface {
	//  	_(int)
	//  }
	BlankIfaceMethod

	// IncomparableMapKey occurs when a map key type does not support the == and
	// != operators.
	//
	// Per the spec:
	//  "The comparison operators == and != must be fully defined for operands of
	//  the key type; thus the key type must not be a function, map, or slice."
	//
	// Example:
	//  var x map[T]int
	//
	//  type T []int
	IncomparableMapKey

	// InvalidIfaceEmbed occurs when a non-interface type is embedded in an
	// interface.
	//
	// Example:
	//  type T struct {}
	//
	//  func (T) m()
	//
	//  type I interface {
	//  	T
	//  }
	InvalidIfaceEmbed

	// InvalidPtrEmbed occurs when an embedded field is of the pointer form *T,
	// and T itself is itself a pointer, an unsafe.Pointer, or an interface.
	//
	// Per the spec:
	//  "An embedded field must be specified as a type name T or as a pointer to
	//  a non-interface type name *T, and T itself may not be a pointer type."
	//
	// Example:
	//  type T *int
	//
	//  type S struct {
	//  	*T
	//  }
	InvalidPtrEmbed

	/* decls > func and method */

	// BadRecv occurs when a method declaration does not have exactly one
	// receiver parameter.
	//
	// Example:
	//  func () _() {}
	BadRecv

	// InvalidRecv occurs when a receiver type expression is not of the form T
	// or *T, or T is a pointer type.
	//
	// Example:
	//  type T struct {}
	//
	//  func (**T) m() {}
	InvalidRecv

	// DuplicateFieldAndMethod occurs when an identifier appears as both a field
	// and method name.
	//
	// Example:
	//  type T struct {
	//  	m int
	//  }
	//
	//  func (T) m() {}
	DuplicateFieldAndMethod

	// DuplicateMethod occurs when two methods on the same receiver type have
	// the same name.
	//
	// Example:
	//  type T struct {}
	//  func (T) m() {}
	//  func (T) m(i int) int { return i }
	DuplicateMethod

	/* decls > special */

	// InvalidBlank occurs when a blank identifier is used as a value or type.
	//
	// Per the spec:
	//  "The blank identifier may appear as an operand only on the left-hand side
	//  of an assignment."
	//
	// Example:
	//  var x = _
	InvalidBlank

	// InvalidIota occurs when the predeclared identifier iota is used outside
	// of a constant declaration.
	//
	// Example:
	//  var x = iota
	InvalidIota

	// MissingInitBody occurs when an init function is missing its body.
	//
	// Example:
	//  func init()
	MissingInitBody

	// InvalidInitSig occurs when an init function declares parameters or
	// results.
	//
	// Example:
	//  func init() int { return 1 }
	InvalidInitSig

	// InvalidInitDecl occurs when init is declared as anything other than a
	// function.
	//
	// Example:
	//  var init = 1
	InvalidInitDecl

	// InvalidMainDecl occurs when main is declared as anything other than a
	// function, in a main package.
	InvalidMainDecl

	/* exprs */

	// TooManyValues occurs when a function returns too many values for the
	// expression context in which it is used.
	//
	// Example:
	//  func ReturnTwo() (int, int) {
	//  	return 1, 2
	//  }
	//
	//  var x = ReturnTwo()
	TooManyValues

	// NotAnExpr occurs when a type expression is used where a value expression
	// is expected.
	//
	// Example:
	//  type T struct {}
	//
	//  func f() {
	//  	T
	//  }
	NotAnExpr

	/* exprs > const */

	// TruncatedFloat occurs when a float constant is truncated to an integer
	// value.
	//
	// Example:
	//  var _ int = 98.6
	TruncatedFloat

	// NumericOverflow occurs when a numeric constant overflows its target type.
	//
	// Example:
	//  var x int8 = 1000
	NumericOverflow

	/* exprs > operation */

	// UndefinedOp occurs when an operator is not defined for the type(s) used
	// in an operation.
	//
	// Example:
	//  var c = "a" - "b"
	UndefinedOp

	// MismatchedTypes occurs when operand types are incompatible in a binary
	// operation.
	//
	// Example:
	//  var a = "hello"
	//  var b = 1
	//  var c = a - b
	MismatchedTypes

	// DivByZero occurs when a division operation is provable at compile
	// time to be a division by zero.
	//
	// Example:
	//  const divisor = 0
	//  var x int = 1/divisor
	DivByZero

	// NonNumericIncDec occurs when an increment or decrement operator is
	// applied to a non-numeric value.
	//
	// Example:
	//  func f() {
	//  	var c = "c"
	//  	c++
	//  }
	NonNumericIncDec

	/* exprs > ptr */

	// UnaddressableOperand occurs when the & operator is applied to an
	// unaddressable expression.
	//
	// Example:
	//  var x = &1
	UnaddressableOperand

	// InvalidIndirection occurs when a non-pointer value is indirected via the
	// '*' operator.
	//
	// Example:
	//  var x int
	//  var y = *x
	InvalidIndirection

	/* exprs > [] */

	// NonIndexableOperand occurs when an index operation is applied to a value
	// that cannot be indexed.
	//
	// Example:
	//  var x = 1
	//  var y = x[1]
	NonIndexableOperand

	// InvalidIndex occurs when an index argument is not of integer type,
	// negative, or out-of-bounds.
	//
	// Example:
	//  var s = [...]int{1,2,3}
	//  var x = s[5]
	//
	// Example:
	//  var s = []int{1,2,3}
	//  var _ = s[-1]
	//
	// Example:
	//  var s = []int{1,2,3}
	//  var i string
	//  var _ = s[i]
	InvalidIndex

	// SwappedSliceIndices occurs when constant indices in a slice expression
	// are decreasing in value.
	//
	// Example:
	//  var _ = []int{1,2,3}[2:1]
	SwappedSliceIndices

	/* operators > slice */

	// NonSliceableOperand occurs when a slice operation is applied to a value
	// whose type is not sliceable, or is unaddressable.
	//
	// Example:
	//  var x = [...]int{1, 2, 3}[:1]
	//
	// Example:
	//  var x = 1
	//  var y = 1[:1]
	NonSliceableOperand

	// InvalidSliceExpr occurs when a three-index slice expression (a[x:y:z]) is
	// applied to a string.
	//
	// Example:
	//  var s = "hello"
	//  var x = s[1:2:3]
	InvalidSliceExpr

	/* exprs > shift */

	// InvalidShiftCount occurs when the right-hand side of a shift operation is
	// either non-integer, negative, or too large.
	//
	// Example:
	//  var (
	//  	x string
	//  	y int = 1 << x
	//  )
	InvalidShiftCount

	// InvalidShiftOperand occurs when the shifted operand is not an integer.
	//
	// Example:
	//  var s = "hello"
	//  var x = s << 2
	InvalidShiftOperand

	/* exprs > chan */

	// InvalidReceive occurs when there is a channel receive from a value that
	// is either not a channel, or is a send-only channel.
	//
	// Example:
	//  func f() {
	//  	var x = 1
	//  	<-x
	//  }
	InvalidReceive

	// InvalidSend occurs when there is a channel send to a value that is not a
	// channel, or is a receive-only channel.
	//
	// Example:
	//  func f() {
	//  	var x = 1
	//  	x <- "hello!"
	//  }
	InvalidSend

	/* exprs > literal */

	// DuplicateLitKey occurs when an index is duplicated in a slice, array, or
	// map literal.
	//
	// Example:
	//  var _ = []int{0:1, 0:2}
	//
	// Example:
	//  var _ = map[string]int{"a": 1, "a": 2}
	DuplicateLitKey

	// MissingLitKey occurs when a map literal is missing a key expression.
	//
	// Example:
	//  var _ = map[string]int{1}
	MissingLitKey

	// InvalidLitIndex occurs when the key in a key-value element of a slice or
	// array literal is not an integer constant.
	//
	// Example:
	//  var i = 0
	//  var x = []string{i: "world"}
	InvalidLitIndex

	// OversizeArrayLit occurs when an array literal exceeds its length.
	//
	// Example:
	//  var _ = [2]int{1,2,3}
	OversizeArrayLit

	// MixedStructLit occurs when a struct literal contains a mix of positional
	// and named elements.
	//
	// Example:
	//  var _ = struct{i, j int}{i: 1, 2}
	MixedStructLit

	// InvalidStructLit occurs when a positional struct literal has an incorrect
	// number of values.
	//
	// Example:
	//  var _ = struct{i, j int}{1,2,3}
	InvalidStructLit

	// MissingLitField occurs when a struct literal refers to a field that does
	// not exist on the struct type.
	//
	// Example:
	//  var _ = struct{i int}{j: 2}
	MissingLitField

	// DuplicateLitField occurs when a struct literal contains duplicated
	// fields.
	//
	// Example:
	//  var _ = struct{i int}{i: 1, i: 2}
	DuplicateLitField

	// UnexportedLitField occurs when a positional struct literal implicitly
	// assigns an unexported field of an imported type.
	UnexportedLitField

	// InvalidLitField occurs when a field name is not a valid identifier.
	//
	// Example:
	//  var _ = struct{i int}{1: 1}
	InvalidLitField

	// UntypedLit occurs when a composite literal omits a required type
	// identifier.
	//
	// Example:
	//  type outer struct{
	//  	inner struct { i int }
	//  }
	//
	//  var _ = outer{inner: {1}}
	UntypedLit

	// InvalidLit occurs when a composite literal expression does not match its
	// type.
	//
	// Example:
	//  type P *struct{
	//  	x int
	//  }
	//  var _ = P {}
	InvalidLit

	/* exprs > selector */

	// AmbiguousSelector occurs when a selector is ambiguous.
	//
	// Example:
	//  type E1 struct { i int }
	//  type E2 struct { i int }
	//  type T struct { E1; E2 }
	//
	//  var x T
	//  var _ = x.i
	AmbiguousSelector

	// UndeclaredImportedName occurs when a package-qualified identifier is
	// undeclared by the imported package.
	//
	// Example:
	//  import "go/types"
	//
	//  var _ = types.NotAnActualIdentifier
	UndeclaredImportedName

	// UnexportedName occurs when a selector refers to an unexported identifier
	// of an imported package.
	//
	// Example:
	//  import "reflect"
	//
	//  type _ reflect.flag
	UnexportedName

	// UndeclaredName occurs when an identifier is not declared in the current
	// scope.
	//
	// Example:
	//  var x T
	UndeclaredName

	// MissingFieldOrMethod occurs when a selector references a field or method
	// that does not exist.
	//
	// Example:
	//  type T struct {}
	//
	//  var x = T{}.f
	MissingFieldOrMethod

	/* exprs > ... */

	// BadDotDotDotSyntax occurs when a "..." occurs in a context where it is
	// not valid.
	//
	// Example:
	//  var _ = map[int][...]int{0: {}}
	BadDotDotDotSyntax

	// NonVariadicDotDotDot occurs when a "..." is used on the final argument to
	// a non-variadic function.
	//
	// Example:
	//  func printArgs(s []string) {
	//  	for _, a := range s {
	//  		println(a)
	//  	}
	//  }
	//
	//  func f() {
	//  	s := []string{"a", "b", "c"}
	//  	printArgs(s...)
	//  }
	NonVariadicDotDotDot

	// MisplacedDotDotDot occurs when a "..." is used somewhere other than the
	// final argument to a function call.
	//
	// Example:
	//  func printArgs(args ...int) {
	//  	for _, a := range args {
	//  		println(a)
	//  	}
	//  }
	//
	//  func f() {
	//  	a := []int{1,2,3}
	//  	printArgs(0, a...)
	//  }
	MisplacedDotDotDot

	// InvalidDotDotDotOperand occurs when a "..." operator is applied to a
	// single-valued operand.
	//
	// Example:
	//  func printArgs(args ...int) {
	//  	for _, a := range args {
	//  		println(a)
	//  	}
	//  }
	//
	//  func f() {
	//  	a := 1
	//  	printArgs(a...)
	//  }
	//
	// Example:
	//  func args() (int, int) {
	//  	return 1, 2
	//  }
	//
	//  func printArgs(args ...int) {
	//  	for _, a := range args {
	//  		println(a)
	//  	}
	//  }
	//
	//  func g() {
	//  	printArgs(args()...)
	//  }
	InvalidDotDotDotOperand

	// InvalidDotDotDot occurs when a "..." is used in a non-variadic built-in
	// function.
	//
	// Example:
	//  var s = []int{1, 2, 3}
	//  var l = len(s...)
	InvalidDotDotDot

	/* exprs > built-in */

	// UncalledBuiltin occurs when a built-in function is used as a
	// function-valued expression, instead of being called.
	//
	// Per the spec:
	//  "The built-in functions do not have standard Go types, so they can only
	//  appear in call expressions; they cannot be used as function values."
	//
	// Example:
	//  var _ = copy
	UncalledBuiltin

	// InvalidAppend occurs when append is called with a first argument that is
	// not a slice.
	//
	// Example:
	//  var _ = append(1, 2)
	InvalidAppend

	// InvalidCap occurs when an argument to the cap built-in function is not of
	// supported type.
	//
	// See https://golang.org/ref/spec#Length_and_capacity for information on
	// which underlying types are supported as arguments to cap and len.
	//
	// Example:
	//  var s = 2
	//  var x = cap(s)
	InvalidCap

	// InvalidClose occurs when close(...) is called with an argument that is
	// not of channel type, or that is a receive-only channel.
	//
	// Example:
	//  func f() {
	//  	var x int
	//  	close(x)
	//  }
	InvalidClose

	// InvalidCopy occurs when the arguments are not of slice type or do not
	// have compatible type.
	//
	// See https://golang.org/ref/spec#Appending_and_copying_slices for more
	// information on the type requirements for the copy built-in.
	//
	// Example:
	//  func f() {
	//  	var x []int
	//  	y := []int64{1,2,3}
	//  	copy(x, y)
	//  }
	InvalidCopy

	// InvalidComplex occurs when the complex built-in function is called with
	// arguments with incompatible types.
	//
	// Example:
	//  var _ = complex(float32(1), float64(2))
	InvalidComplex

	// InvalidDelete occurs when the delete built-in function is called with a
	// first argument that is not a map.
	//
	// Example:
	//  func f() {
	//  	m := "hello"
	//  	delete(m, "e")
	//  }
	InvalidDelete

	// InvalidImag occurs when the imag built-in function is called with an
	// argument that does not have complex type.
	//
	// Example:
	//  var _ = imag(int(1))
	InvalidImag

	// InvalidLen occurs when an argument to the len built-in function is not of
	// supported type.
	//
	// See https://golang.org/ref/spec#Length_and_capacity for information on
	// which underlying types are supported as arguments to cap and len.
	//
	// Example:
	//  var s = 2
	//  var x = len(s)
	InvalidLen

	// SwappedMakeArgs occurs when make is called with three arguments, and its
	// length argument is larger than its capacity argument.
	//
	// Example:
	//  var x = make([]int, 3, 2)
	SwappedMakeArgs

	// InvalidMake occurs when make is called with an unsupported type argument.
	//
	// See https://golang.org/ref/spec#Making_slices_maps_and_channels for
	// information on the types that may be created using make.
	//
	// Example:
	//  var x = make(int)
	InvalidMake

	// InvalidReal occurs when the real built-in function is called with an
	// argument that does not have complex type.
	//
	// Example:
	//  var _ = real(int(1))
	InvalidReal

	/* exprs > assertion */

	// InvalidAssert occurs when a type assertion is applied to a
	// value that is not of interface type.
	//
	// Example:
	//  var x = 1
	//  var _ = x.(float64)
	InvalidAssert

	// ImpossibleAssert occurs for a type assertion x.(T) when the value x of
	// interface cannot have dynamic type T, due to a missing or mismatching
	// method on T.
	//
	// Example:
	//  type T int
	//
	//  func (t *T) m() int { return int(*t) }
	//
	//  type I interface { m() int }
	//
	//  var x I
	//  var _ = x.(T)
	ImpossibleAssert

	/* exprs > conversion */

	// InvalidConversion occurs when the argument type cannot be converted to the
	// target.
	//
	// See https://golang.org/ref/spec#Conversions for the rules of
	// convertibility.
	//
	// Example:
	//  var x float64
	//  var _ = string(x)
	InvalidConversion

	// InvalidUntypedConversion occurs when an there is no valid implicit
	// conversion from an untyped value satisfying the type constraints of the
	// context in which it is used.
	//
	// Example:
	//  var _ = 1 + ""
	InvalidUntypedConversion

	/* offsetof */

	// BadOffsetofSyntax occurs when unsafe.Offsetof is called with an argument
	// that is not a selector expression.
	//
	// Example:
	//  import "unsafe"
	//
	//  var x int
	//  var _ = unsafe.Offsetof(x)
	BadOffsetofSyntax

	// InvalidOffsetof occurs when unsafe.Offsetof is called with a method
	// selector, rather than a field selector, or when the field is embedded via
	// a pointer.
	//
	// Per the spec:
	//
	//  "If f is an embedded field, it must be reachable without pointer
	//  indirections through fields of the struct. "
	//
	// Example:
	//  import "unsafe"
	//
	//  type T struct { f int }
	//  type S struct { *T }
	//  var s S
	//  var _ = unsafe.Offsetof(s.f)
	//
	// Example:
	//  import "unsafe"
	//
	//  type S struct{}
	//
	//  func (S) m() {}
	//
	//  var s S
	//  var _ = unsafe.Offsetof(s.m)
	InvalidOffsetof

	/* control flow > scope */

	// UnusedExpr occurs when a side-effect free expression is used as a
	// statement. Such a statement has no effect.
	//
	// Example:
	//  func f(i int) {
	//  	i*i
	//  }
	UnusedExpr

	// UnusedVar occurs when a variable is declared but unused.
	//
	// Example:
	//  func f() {
	//  	x := 1
	//  }
	UnusedVar

	// MissingReturn occurs when a function with results is missing a return
	// statement.
	//
	// Example:
	//  func f() int {}
	MissingReturn

	// WrongResultCount occurs when a return statement returns an incorrect
	// number of values.
	//
	// Example:
	//  func ReturnOne() int {
	//  	return 1, 2
	//  }
	WrongResultCount

	// OutOfScopeResult occurs when the name of a value implicitly returned by
	// an empty return statement is shadowed in a nested scope.
	//
	// Example:
	//  func factor(n int) (i int) {
	//  	for i := 2; i < n; i++ {
	//  		if n%i == 0 {
	//  			return
	//  		}
	//  	}
	//  	return 0
	//  }
	OutOfScopeResult

	/* control flow > if */

	// InvalidCond occurs when an if condition is not a boolean expression.
	//
	// Example:
	//  func checkReturn(i int) {
	//  	if i {
	//  		panic("non-zero return")
	//  	}
	//  }
	InvalidCond

	/* control flow > for */

	// InvalidPostDecl occurs when there is a declaration in a for-loop post
	// statement.
	//
	// Example:
	//  func f() {
	//  	for i := 0; i < 10; j := 0 {}
	//  }
	InvalidPostDecl

	// InvalidChanRange occurs when a send-only channel used in a range
	// expression.
	//
	// Example:
	//  func sum(c chan<- int) {
	//  	s := 0
	//  	for i := range c {
	//  		s += i
	//  	}
	//  }
	InvalidChanRange

	// InvalidIterVar occurs when two iteration variables are used while ranging
	// over a channel.
	//
	// Example:
	//  func f(c chan int) {
	//  	for k, v := range c {
	//  		println(k, v)
	//  	}
	//  }
	InvalidIterVar

	// InvalidRangeExpr occurs when the type of a range expression is not array,
	// slice, string, map, or channel.
	//
	// Example:
	//  func f(i int) {
	//  	for j := range i {
	//  		println(j)
	//  	}
	//  }
	InvalidRangeExpr

	/* control flow > switch */

	// MisplacedBreak occurs when a break statement is not within a for, switch,
	// or select statement of the innermost function definition.
	//
	// Example:
	//  func f() {
	//  	break
	//  }
	MisplacedBreak

	// MisplacedContinue occurs when a continue statement is not within a for
	// loop of the innermost function definition.
	//
	// Example:
	//  func sumeven(n int) int {
	//  	proceed := func() {
	//  		continue
	//  	}
	//  	sum := 0
	//  	for i := 1; i <= n; i++ {
	//  		if i % 2 != 0 {
	//  			proceed()
	//  		}
	//  		sum += i
	//  	}
	//  	return sum
	//  }
	MisplacedContinue

	// MisplacedFallthrough occurs when a fallthrough statement is not within an
	// expression switch.
	//
	// Example:
	//  func typename(i interface{}) string {
	//  	switch i.(type) {
	//  	case int64:
	//  		fallthrough
	//  	case int:
	//  		return "int"
	//  	}
	//  	return "unsupported"
	//  }
	MisplacedFallthrough

	// DuplicateCase occurs when a type or expression switch has duplicate
	// cases.
	//
	// Example:
	//  func printInt(i int) {
	//  	switch i {
	//  	case 1:
	//  		println("one")
	//  	case 1:
	//  		println("One")
	//  	}
	//  }
	DuplicateCase

	// DuplicateDefault occurs when a type or expression switch has multiple
	// default clauses.
	//
	// Example:
	//  func printInt(i int) {
	//  	switch i {
	//  	case 1:
	//  		println("one")
	//  	default:
	//  		println("One")
	//  	default:
	//  		println("1")
	//  	}
	//  }
	DuplicateDefault

	// BadTypeKeyword occurs when a .(type) expression is used anywhere other
	// than a type switch.
	//
	// Example:
	//  type I interface {
	//  	m()
	//  }
	//  var t I
	//  var _ = t.(type)
	BadTypeKeyword

	// InvalidTypeSwitch occurs when .(type) is used on an expression that is
	// not of interface type.
	//
	// Example:
	//  func f(i int) {
	//  	switch x := i.(type) {}
	//  }
	InvalidTypeSwitch

	// InvalidExprSwitch occurs when a switch expression is not comparable.
	//
	// Example:
	//  func _() {
	//  	var a struct{ _ func() }
	//  	switch a /* ERROR cannot switch on a */ {
	//  	}
	//  }
	InvalidExprSwitch

	/* control flow > select */

	// InvalidSelectCase occurs when a select case is not a channel send or
	// receive.
	//
	// Example:
	//  func checkChan(c <-chan int) bool {
	//  	select {
	//  	case c:
	//  		return true
	//  	default:
	//  		return false
	//  	}
	//  }
	InvalidSelectCase

	/* control flow > labels and jumps */

	// UndeclaredLabel occurs when an undeclared label is jumped to.
	//
	// Example:
	//  func f() {
	//  	goto L
	//  }
	UndeclaredLabel

	// DuplicateLabel occurs when a label is declared more than once.
	//
	// Example:
	//  func f() int {
	//  L:
	//  L:
	//  	return 1
	//  }
	DuplicateLabel

	// MisplacedLabel occurs when a break or continue label is not on a for,
	// switch, or select statement.
	//
	// Example:
	//  func f() {
	//  L:
	//  	a := []int{1,2,3}
	//  	for _, e := range a {
	//  		if e > 10 {
	//  			break L
	//  		}
	//  		println(a)
	//  	}
	//  }
	MisplacedLabel

	// UnusedLabel occurs when a label is declared but not used.
	//
	// Example:
	//  func f() {
	//  L:
	//  }
	UnusedLabel

	// JumpOverDecl occurs when a label jumps over a variable declaration.
	//
	// Example:
	//  func f() int {
	//  	goto L
	//  	x := 2
	//  L:
	//  	x++
	//  	return x
	//  }
	JumpOverDecl

	// JumpIntoBlock occurs when a forward jump goes to a label inside a nested
	// block.
	//
	// Example:
	//  func f(x int) {
	//  	goto L
	//  	if x > 0 {
	//  	L:
	//  		print("inside block")
	//  	}
	// }
	JumpIntoBlock

	/* control flow > calls */

	// InvalidMethodExpr occurs when a pointer method is called but the argument
	// is not addressable.
	//
	// Example:
	//  type T struct {}
	//
	//  func (*T) m() int { return 1 }
	//
	//  var _ = T.m(T{})
	InvalidMethodExpr

	// WrongArgCount occurs when too few or too many arguments are passed by a
	// function call.
	//
	// Example:
	//  func f(i int) {}
	//  var x = f()
	WrongArgCount

	// InvalidCall occurs when an expression is called that is not of function
	// type.
	//
	// Example:
	//  var x = "x"
	//  var y = x()
	InvalidCall

	/* control flow > suspended */

	// UnusedResults occurs when a restricted expression-only built-in function
	// is suspended via go or defer. Such a suspension discards the results of
	// these side-effect free built-in functions, and therefore is ineffectual.
	//
	// Example:
	//  func f(a []int) int {
	//  	defer len(a)
	//  	return i
	//  }
	UnusedResults

	// InvalidDefer occurs when a deferred expression is not a function call,
	// for example if the expression is a type conversion.
	//
	// Example:
	//  func f(i int) int {
	//  	defer int32(i)
	//  	return i
	//  }
	InvalidDefer

	// InvalidGo occurs when a go expression is not a function call, for example
	// if the expression is a type conversion.
	//
	// Example:
	//  func f(i int) int {
	//  	go int32(i)
	//  	return i
	//  }
	InvalidGo

	// All codes below were added in Go 1.17.

	/* decl */

	// BadDecl occurs when a declaration has invalid syntax.
	BadDecl

	// RepeatedDecl occurs when an identifier occurs more than once on the left
	// hand side of a short variable declaration.
	//
	// Example:
	//  func _() {
	//  	x, y, y := 1, 2, 3
	//  }
	RepeatedDecl

	/* unsafe */

	// InvalidUnsafeAdd occurs when unsafe.Add is called with a
	// length argument that is not of integer type.
	//
	// Example:
	//  import "unsafe"
	//
	//  var p unsafe.Pointer
	//  var _ = unsafe.Add(p, float64(1))
	InvalidUnsafeAdd

	// InvalidUnsafeSlice occurs when unsafe.Slice is called with a
	// pointer argument that is not of pointer type or a length argument
	// that is not of integer type, negative, or out of bounds.
	//
	// Example:
	//  import "unsafe"
	//
	//  var x int
	//  var _ = unsafe.Slice(x, 1)
	//
	// Example:
	//  import "unsafe"
	//
	//  var x int
	//  var _ = unsafe.Slice(&x, float64(1))
	//
	// Example:
	//  import "unsafe"
	//
	//  var x int
	//  var _ = unsafe.Slice(&x, -1)
	//
	// Example:
	//  import "unsafe"
	//
	//  var x int
	//  var _ = unsafe.Slice(&x, uint64(1) << 63)
	InvalidUnsafeSlice

	// All codes below were added in Go 1.18.

	/* features */

	// UnsupportedFeature occurs when a language feature is used that is not
	// supported at this Go version.
	UnsupportedFeature

	/* type params */

	// NotAGenericType occurs when a non-generic type is used where a generic
	// type is expected: in type or function instantiation.
	//
	// Example:
	//  type T int
	//
	//  var _ T[int]
	NotAGenericType

	// WrongTypeArgCount occurs when a type or function is instantiated with an
	// incorrect number of type arguments, including when a generic type or
	// function is used without instantiation.
	//
	// Errors involving failed type inference are assigned other error codes.
	//
	// Example:
	//  type T[p any] int
	//
	//  var _ T[int, string]
	//
	// Example:
	//  func f[T any]() {}
	//
	//  var x = f
	WrongTypeArgCount

	// CannotInferTypeArgs occurs when type or function type argument inference
	// fails to infer all type arguments.
	//
	// Example:
	//  func f[T any]() {}
	//
	//  func _() {
	//  	f()
	//  }
	//
	// Example:
	//   type N[P, Q any] struct{}
	//
	//   var _ N[int]
	CannotInferTypeArgs

	// InvalidTypeArg occurs when a type argument does not satisfy its
	// corresponding type parameter constraints.
	//
	// Example:
	//  type T[P ~int] struct{}
	//
	//  var _ T[string]
	InvalidTypeArg // arguments? InferenceFailed

	// InvalidInstanceCycle occurs when an invalid cycle is detected
	// within the instantiation graph.
	//
	// Example:
	//  func f[T any]() { f[*T]() }
	InvalidInstanceCycle

	// InvalidUnion occurs when an embedded union or approximation element is
	// not valid.
	//
	// Example:
	//  type _ interface {
	//   	~int | interface{ m() }
	//  }
	InvalidUnion

	// MisplacedConstraintIface occurs when a constraint-type interface is used
	// outside of constraint position.
	//
	// Example:
	//   type I interface { ~int }
	//
	//   var _ I
	MisplacedConstraintIface

	// InvalidMethodTypeParams occurs when methods have type parameters.
	//
	// It cannot be encountered with an AST parsed using go/parser.
	InvalidMethodTypeParams

	// MisplacedTypeParam occurs when a type parameter is used in a place where
	// it is not permitted.
	//
	// Example:
	//  type T[P any] P
	//
	// Example:
	//  type T[P any] struct{ *P }
	MisplacedTypeParam

	// InvalidUnsafeSliceData occurs when unsafe.SliceData is called with
	// an argument that is not of slice type. It also occurs if it is used
	// in a package compiled for a language version before go1.20.
	//
	// Example:
	//  import "unsafe"
	//
	//  var x int
	//  var _ = unsafe.SliceData(x)
	InvalidUnsafeSliceData

	// InvalidUnsafeString occurs when unsafe.String is called with
	// a length argument that is not of integer type, negative, or
	// out of bounds. It also occurs if it is used in a package
	// compiled for a language version before go1.20.
	//
	// Example:
	//  import "unsafe"
	//
	//  var b [10]byte
	//  var _ = unsafe.String(&b[0], -1)
	InvalidUnsafeString

	// InvalidUnsafeStringData occurs if it is used in a package
	// compiled for a language version before go1.20.
	_ // not used anymore

)
