// Copyright 2024 The Go Authors. All rights reserved.
// Use of this source code is governed by a BSD-style
// license that can be found in the LICENSE file.

package typesinternal

import (
	"fmt"
	"go/types"

	"golang.org/x/tools/go/types/typeutil"
)

// ForEachElement calls f for type T and each type reachable from its
// type through reflection. It does this by recursively stripping off
// type constructors; in addition, for each named type N, the type *N
// is added to the result as it may have additional methods.
//
// The caller must provide an initially empty set used to de-duplicate
// identical types, potentially across multiple calls to ForEachElement.
// (Its final value holds all the elements seen, matching the arguments
// passed to f.)
//
// TODO(adonovan): share/harmonize with go/callgraph/rta.
func ForEachElement(rtypes *typeutil.Map, msets *typeutil.MethodSetCache, T types.Type, f func(types.Type)) {
	var visit func(T types.Type, skip bool)
	visit = func(T types.Type, skip bool) {
		if !skip {
			if seen, _ := rtypes.Set(T, true).(bool); seen {
				return // de-dup
			}

			f(T) // notify caller of new element type
		}

		// Recursion over signatures of each method.
		tmset := msets.MethodSet(T)
		for i := 0; i < tmset.Len(); i++ {
			sig := tmset.At(i).Type().(*types.Signature)
			// It is tempting to call visit(sig, false)
			// but, as noted in golang.org/cl/65450043,
			// the Signature.Recv field is ignored by
			// types.Identical and typeutil.Map, which
			// is confusing at best.
			//
			// More importantly, the true signature rtype
			// reachable from a method using reflection
			// has no receiver but an extra ordinary parameter.
			// For the Read method of io.Reader we want:
			//   func(Reader, []byte) (int, error)
			// but here sig is:
			//   func([]byte) (int, error)
			// with .Recv = Reader (though it is hard to
			// notice because it doesn't affect Signature.String
			// or types.Identical).
			//
			// TODO(adonovan): construct and visit the correct
			// non-method signature with an extra parameter
			// (though since unnamed func types have no methods
			// there is essentially no actual demand for this).
			//
			// TODO(adonovan): document whether or not it is
			// safe to skip non-exported methods (as RTA does).
			visit(sig.Params(), true)  // skip the Tuple
			visit(sig.Results(), true) // skip the Tuple
		}

		switch T := T.(type) {
		case *types.Alias:
			visit(types.Unalias(T), skip) // emulates the pre-Alias behavior

		case *types.Basic:
			// nop

		case *types.Interface:
			// nop---handled by recursion over method set.

		case *types.Pointer:
			visit(T.Elem(), false)

		case *types.Slice:
			visit(T.Elem(), false)

		case *types.Chan:
			visit(T.Elem(), false)

		case *types.Map:
			visit(T.Key(), false)
			visit(T.Elem(), false)

		case *types.Signature:
			if T.Recv() != nil {
				panic(fmt.Sprintf("Signature %s has Recv %s", T, T.Recv()))
			}
			visit(T.Params(), true)  // skip the Tuple
			visit(T.Results(), true) // skip the Tuple

		case *types.Named:
			// A pointer-to-named type can be derived from a named
			// type via reflection.  It may have methods too.
			visit(types.NewPointer(T), false)

			// Consider 'type T struct{S}' where S has methods.
			// Reflection provides no way to get from T to struct{S},
			// only to S, so the method set of struct{S} is unwanted,
			// so set 'skip' flag during recursion.
			visit(T.Underlying(), true) // skip the unnamed type

		case *types.Array:
			visit(T.Elem(), false)

		case *types.Struct:
			for i, n := 0, T.NumFields(); i < n; i++ {
				// TODO(adonovan): document whether or not
				// it is safe to skip non-exported fields.
				visit(T.Field(i).Type(), false)
			}

		case *types.Tuple:
			for i, n := 0, T.Len(); i < n; i++ {
				visit(T.At(i).Type(), false)
			}

		case *types.TypeParam, *types.Union:
			// forEachReachable must not be called on parameterized types.
			panic(T)

		default:
			panic(T)
		}
	}
	visit(T, false)
}
