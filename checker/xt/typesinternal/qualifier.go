// Copyright 2024 The Go Authors. All rights reserved.
// Use of this source code is governed by a BSD-style
// license that can be found in the LICENSE file.

package typesinternal

import (
	"go/ast"
	"go/types"
	"strconv"
)

// FileQualifier returns a [types.Qualifier] function that qualifies
// imported symbols appropriately based on the import environment of a given
// file.
// If the same package is imported multiple times, the last appearance is
// recorded.
func FileQualifier(f *ast.File, pkg *types.Package) types.Qualifier {
	// Construct mapping of import paths to their defined names.
	// It is only necessary to look at renaming imports.
	imports := make(map[string]string)
	for _, imp := range f.Imports {
		if imp.Name != nil && imp.Name.Name != "_" {
			path, _ := strconv.Unquote(imp.Path.Value)
			imports[path] = imp.Name.Name
		}
	}

	// Define qualifier to replace full package paths with names of the imports.
	return func(p *types.Package) string {
		if p == nil || p == pkg {
			return ""
		}

		if name, ok := imports[p.Path()]; ok {
			if name == "." {
				return ""
			} else {
				return name
			}
		}

		// If there is no local renaming, fall back to the package name.
		return p.Name()
	}
}
