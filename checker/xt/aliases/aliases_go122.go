// Copyright 2024 The Go Authors. All rights reserved.
// Use of this source code is governed by a BSD-style
// license that can be found in the LICENSE file.

package aliases

import (
	"go/ast"
	"go/parser"
	"go/token"
	"go/types"
)

// Rhs returns the type on the right-hand side of the alias declaration.
func Rhs(alias *types.Alias) types.Type {
	if alias, ok := any(alias).(interface{ Rhs() types.Type }); ok {
		return alias.Rhs() // go1.23+
	}

	// go1.22's Alias didn't have the Rhs method,
	// so Unalias is the best we can do.
	return types.Unalias(alias)
}

// TypeParams returns the type parameter list of the alias.
func TypeParams(alias *types.Alias) *types.TypeParamList {
	if alias, ok := any(alias).(interface{ TypeParams() *types.TypeParamList }); ok {
		return alias.TypeParams() // go1.23+
	}
	return nil
}

// SetTypeParams sets the type parameters of the alias type.
func SetTypeParams(alias *types.Alias, tparams []*types.TypeParam) {
	if alias, ok := any(alias).(interface {
		SetTypeParams(tparams []*types.TypeParam)
	}); ok {
		alias.SetTypeParams(tparams) // go1.23+
	} else if len(tparams) > 0 {
		panic("cannot set type parameters of an Alias type in go1.22")
	}
}

// TypeArgs returns the type arguments used to instantiate the Alias type.
func TypeArgs(alias *types.Alias) *types.TypeList {
	if alias, ok := any(alias).(interface{ TypeArgs() *types.TypeList }); ok {
		return alias.TypeArgs() // go1.23+
	}
	return nil // empty (go1.22)
}

// Origin returns the generic Alias type of which alias is an instance.
// If alias is not an instance of a generic alias, Origin returns alias.
func Origin(alias *types.Alias) *types.Alias {
	if alias, ok := any(alias).(interface{ Origin() *types.Alias }); ok {
		return alias.Origin() // go1.23+
	}
	return alias // not an instance of a generic alias (go1.22)
}

// Enabled reports whether [NewAlias] should create [types.Alias] types.
//
// This function is expensive! Call it sparingly.
func Enabled() bool {
	// The only reliable way to compute the answer is to invoke go/types.
	// We don't parse the GODEBUG environment variable, because
	// (a) it's tricky to do so in a manner that is consistent
	//     with the godebug package; in particular, a simple
	//     substring check is not good enough. The value is a
	//     rightmost-wins list of options. But more importantly:
	// (b) it is impossible to detect changes to the effective
	//     setting caused by os.Setenv("GODEBUG"), as happens in
	//     many tests. Therefore any attempt to cache the result
	//     is just incorrect.
	fset := token.NewFileSet()
	f, _ := parser.ParseFile(fset, "a.go", "package p; type A = int", parser.SkipObjectResolution)
	pkg, _ := new(types.Config).Check("p", fset, []*ast.File{f}, nil)
	_, enabled := pkg.Scope().Lookup("A").Type().(*types.Alias)
	return enabled
}
