// Copyright 2024 The Go Authors. All rights reserved.
// Use of this source code is governed by a BSD-style
// license that can be found in the LICENSE file.

package aliases

import (
	"go/token"
	"go/types"
)

// Package aliases defines backward compatible shims
// for the types.Alias type representation added in 1.22.
// This defines placeholders for x/tools until 1.26.

// NewAlias creates a new TypeName in Package pkg that
// is an alias for the type rhs.
//
// The enabled parameter determines whether the resulting [TypeName]'s
// type is an [types.Alias]. Its value must be the result of a call to
// [Enabled], which computes the effective value of
// GODEBUG=gotypesalias=... by invoking the type checker. The Enabled
// function is expensive and should be called once per task (e.g.
// package import), not once per call to NewAlias.
//
// Precondition: enabled || len(tparams)==0.
// If materialized aliases are disabled, there must not be any type parameters.
func NewAlias(enabled bool, pos token.Pos, pkg *types.Package, name string, rhs types.Type, tparams []*types.TypeParam) *types.TypeName {
	if enabled {
		tname := types.NewTypeName(pos, pkg, name, nil)
		SetTypeParams(types.NewAlias(tname, rhs), tparams)
		return tname
	}
	if len(tparams) > 0 {
		panic("cannot create an alias with type parameters when gotypesalias is not enabled")
	}
	return types.NewTypeName(pos, pkg, name, rhs)
}
