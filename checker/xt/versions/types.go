// Copyright 2023 The Go Authors. All rights reserved.
// Use of this source code is governed by a BSD-style
// license that can be found in the LICENSE file.

package versions

import (
	"go/ast"
	"go/types"
)

// FileVersion returns a file's Go version.
// The reported version is an unknown Future version if a
// version cannot be determined.
func FileVersion(info *types.Info, file *ast.File) string {
	// In tools built with Go >= 1.22, the Go version of a file
	// follow a cascades of sources:
	// 1) types.Info.FileVersion, which follows the cascade:
	//   1.a) file version (ast.File.GoVersion),
	//   1.b) the package version (types.Config.GoVersion), or
	// 2) is some unknown Future version.
	//
	// File versions require a valid package version to be provided to types
	// in Config.GoVersion. Config.GoVersion is either from the package's module
	// or the toolchain (go run). This value should be provided by go/packages
	// or unitchecker.Config.GoVersion.
	if v := info.FileVersions[file]; IsValid(v) {
		return v
	}
	// Note: we could instead return runtime.Version() [if valid].
	// This would act as a max version on what a tool can support.
	return Future
}
