// Copyright 2023 The Go Authors. All rights reserved.
// Use of this source code is governed by a BSD-style
// license that can be found in the LICENSE file.

package versions

// This file contains predicates for working with file versions to
// decide when a tool should consider a language feature enabled.

// GoVersions that features in x/tools can be gated to.
const (
	Go1_18 = "go1.18"
	Go1_19 = "go1.19"
	Go1_20 = "go1.20"
	Go1_21 = "go1.21"
	Go1_22 = "go1.22"
)

// Future is an invalid unknown Go version sometime in the future.
// Do not use directly with Compare.
const Future = ""

// AtLeast reports whether the file version v comes after a Go release.
//
// Use this predicate to enable a behavior once a certain Go release
// has happened (and stays enabled in the future).
func AtLeast(v, release string) bool {
	if v == Future {
		return true // an unknown future version is always after y.
	}
	return Compare(Lang(v), Lang(release)) >= 0
}

// Before reports whether the file version v is strictly before a Go release.
//
// Use this predicate to disable a behavior once a certain Go release
// has happened (and stays enabled in the future).
func Before(v, release string) bool {
	if v == Future {
		return false // an unknown future version happens after y.
	}
	return Compare(Lang(v), Lang(release)) < 0
}
