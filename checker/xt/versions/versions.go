// Copyright 2023 The Go Authors. All rights reserved.
// Use of this source code is governed by a BSD-style
// license that can be found in the LICENSE file.

package versions

import (
	"strings"
)

// Note: If we use build tags to use go/versions when go >=1.22,
// we run into go.dev/issue/53737. Under some operations users would see an
// import of "go/versions" even if they would not compile the file.
// For example, during `go get -u ./...` (go.dev/issue/64490) we do not try to include
// For this reason, this library just a clone of go/versions for the moment.

// Lang returns the Go language version for version x.
// If x is not a valid version, Lang returns the empty string.
// For example:
//
//	Lang("go1.21rc2") = "go1.21"
//	Lang("go1.21.2") = "go1.21"
//	Lang("go1.21") = "go1.21"
//	Lang("go1") = "go1"
//	Lang("bad") = ""
//	Lang("1.21") = ""
func Lang(x string) string {
	v := lang(stripGo(x))
	if v == "" {
		return ""
	}
	return x[:2+len(v)] // "go"+v without allocation
}

// Compare returns -1, 0, or +1 depending on whether
// x < y, x == y, or x > y, interpreted as Go versions.
// The versions x and y must begin with a "go" prefix: "go1.21" not "1.21".
// Invalid versions, including the empty string, compare less than
// valid versions and equal to each other.
// The language version "go1.21" compares less than the
// release candidate and eventual releases "go1.21rc1" and "go1.21.0".
// Custom toolchain suffixes are ignored during comparison:
// "go1.21.0" and "go1.21.0-bigcorp" are equal.
func Compare(x, y string) int { return compare(stripGo(x), stripGo(y)) }

// IsValid reports whether the version x is valid.
func IsValid(x string) bool { return isValid(stripGo(x)) }

// stripGo converts from a "go1.21" version to a "1.21" version.
// If v does not start with "go", stripGo returns the empty string (a known invalid version).
func stripGo(v string) string {
	v, _, _ = strings.Cut(v, "-") // strip -bigcorp suffix.
	if len(v) < 2 || v[:2] != "go" {
		return ""
	}
	return v[2:]
}
