// Copyright 2023 The Go Authors. All rights reserved.
// Use of this source code is governed by a BSD-style
// license that can be found in the LICENSE file.

// This is a fork of internal/gover for use by x/tools until
// go1.21 and earlier are no longer supported by x/tools.

package versions

import "strings"

// A gover is a parsed Go gover: major[.Minor[.Patch]][kind[pre]]
// The numbers are the original decimal strings to avoid integer overflows
// and since there is very little actual math. (Probably overflow doesn't matter in practice,
// but at the time this code was written, there was an existing test that used
// go1.99999999999, which does not fit in an int on 32-bit platforms.
// The "big decimal" representation avoids the problem entirely.)
type gover struct {
	major string // decimal
	minor string // decimal or ""
	patch string // decimal or ""
	kind  string // "", "alpha", "beta", "rc"
	pre   string // decimal or ""
}

// compare returns -1, 0, or +1 depending on whether
// x < y, x == y, or x > y, interpreted as toolchain versions.
// The versions x and y must not begin with a "go" prefix: just "1.21" not "go1.21".
// Malformed versions compare less than well-formed versions and equal to each other.
// The language version "1.21" compares less than the release candidate and eventual releases "1.21rc1" and "1.21.0".
func compare(x, y string) int {
	vx := parse(x)
	vy := parse(y)

	if c := cmpInt(vx.major, vy.major); c != 0 {
		return c
	}
	if c := cmpInt(vx.minor, vy.minor); c != 0 {
		return c
	}
	if c := cmpInt(vx.patch, vy.patch); c != 0 {
		return c
	}
	if c := strings.Compare(vx.kind, vy.kind); c != 0 { // "" < alpha < beta < rc
		return c
	}
	if c := cmpInt(vx.pre, vy.pre); c != 0 {
		return c
	}
	return 0
}

// lang returns the Go language version. For example, lang("1.2.3") == "1.2".
func lang(x string) string {
	v := parse(x)
	if v.minor == "" || v.major == "1" && v.minor == "0" {
		return v.major
	}
	return v.major + "." + v.minor
}

// isValid reports whether the version x is valid.
func isValid(x string) bool {
	return parse(x) != gover{}
}

// parse parses the Go version string x into a version.
// It returns the zero version if x is malformed.
func parse(x string) gover {
	var v gover

	// Parse major version.
	var ok bool
	v.major, x, ok = cutInt(x)
	if !ok {
		return gover{}
	}
	if x == "" {
		// Interpret "1" as "1.0.0".
		v.minor = "0"
		v.patch = "0"
		return v
	}

	// Parse . before minor version.
	if x[0] != '.' {
		return gover{}
	}

	// Parse minor version.
	v.minor, x, ok = cutInt(x[1:])
	if !ok {
		return gover{}
	}
	if x == "" {
		// Patch missing is same as "0" for older versions.
		// Starting in Go 1.21, patch missing is different from explicit .0.
		if cmpInt(v.minor, "21") < 0 {
			v.patch = "0"
		}
		return v
	}

	// Parse patch if present.
	if x[0] == '.' {
		v.patch, x, ok = cutInt(x[1:])
		if !ok || x != "" {
			// Note that we are disallowing prereleases (alpha, beta, rc) for patch releases here (x != "").
			// Allowing them would be a bit confusing because we already have:
			//	1.21 < 1.21rc1
			// But a prerelease of a patch would have the opposite effect:
			//	1.21.3rc1 < 1.21.3
			// We've never needed them before, so let's not start now.
			return gover{}
		}
		return v
	}

	// Parse prerelease.
	i := 0
	for i < len(x) && (x[i] < '0' || '9' < x[i]) {
		if x[i] < 'a' || 'z' < x[i] {
			return gover{}
		}
		i++
	}
	if i == 0 {
		return gover{}
	}
	v.kind, x = x[:i], x[i:]
	if x == "" {
		return v
	}
	v.pre, x, ok = cutInt(x)
	if !ok || x != "" {
		return gover{}
	}

	return v
}

// cutInt scans the leading decimal number at the start of x to an integer
// and returns that value and the rest of the string.
func cutInt(x string) (n, rest string, ok bool) {
	i := 0
	for i < len(x) && '0' <= x[i] && x[i] <= '9' {
		i++
	}
	if i == 0 || x[0] == '0' && i != 1 { // no digits or unnecessary leading zero
		return "", "", false
	}
	return x[:i], x[i:], true
}

// cmpInt returns cmp.Compare(x, y) interpreting x and y as decimal numbers.
// (Copied from golang.org/x/mod/semver's compareInt.)
func cmpInt(x, y string) int {
	if x == y {
		return 0
	}
	if len(x) < len(y) {
		return -1
	}
	if len(x) > len(y) {
		return +1
	}
	if x < y {
		return -1
	} else {
		return +1
	}
}
