// Copyright 2024 The Go Authors. All rights reserved.
// Use of this source code is governed by a BSD-style
// license that can be found in the LICENSE file.

package typeparams

import (
	"go/types"

	"verif/checker/xt/aliases"
)

// Free is a memoization of the set of free type parameters within a
// type. It makes a sequence of calls to [Free.Has] for overlapping
// types more efficient. The zero value is ready for use.
//
// NOTE: Adapted from go/types/infer.go. If it is later exported, factor.
type Free struct {
	seen map[types.Type]bool
}

// Has reports whether the specified type has a free type parameter.
func (w *Free) Has(typ types.Type) (res bool) {
	// detect cycles
	if x, ok := w.seen[typ]; ok {
		return x
	}
	if w.seen == nil {
		w.seen = make(map[types.Type]bool)
	}
	w.seen[typ] = false
	defer func() {
		w.seen[typ] = res
	}()

	switch t := typ.(type) {
	case nil, *types.Basic: // TODO(gri) should nil be handled here?
		break

	case *types.Alias:
		if aliases.TypeParams(t).Len() > aliases.TypeArgs(t).Len() {
			return true // This is an uninstantiated Alias.
		}
		// The expansion of an alias can have free type parameters,
		// whether or not the alias itself has type parameters:
		//
		//   func _[K comparable]() {
		//     type Set      = map[K]bool // free(Set)      = {K}
		//     type MapTo[V] = map[K]V    // free(Map[foo]) = {V}
		//   }
		//
		// So, we must Unalias.
		return w.Has(types.Unalias(t))

	case *types.Array:
		return w.Has(t.Elem())

	case *types.Slice:
		return w.Has(t.Elem())

	case *types.Struct:
		for i, n := 0, t.NumFields(); i < n; i++ {
			if w.Has(t.Field(i).Type()) {
				return true
			}
		}

	case *types.Pointer:
		return w.Has(t.Elem())

	case *types.Tuple:
		n := t.Len()
		for i := 0; i < n; i++ {
			if w.Has(t.At(i).Type()) {
				return true
			}
		}

	case *types.Signature:
		// t.tparams may not be nil if we are looking at a signature
		// of a generic function type (or an interface method) that is
		// part of the type we're testing. We don't care about these type
		// parameters.
		// Similarly, the receiver of a method may declare (rather than
		// use) type parameters, we don't care about those either.
		// Thus, we only need to look at the input and result parameters.
		return w.Has(t.Params()) || w.Has(t.Results())

	case *types.Interface:
		for i, n := 0, t.NumMethods(); i < n; i++ {
			if w.Has(t.Method(i).Type()) {
				return true
			}
		}
		terms, err := InterfaceTermSet(t)
		if err != nil {
			return false // ill typed
		}
		for _, term := range terms {
			if w.Has(term.Type()) {
				return true
			}
		}

	case *types.Map:
		return w.Has(t.Key()) || w.Has(t.Elem())

	case *types.Chan:
		return w.Has(t.Elem())

	case *types.Named:
		args := t.TypeArgs()
		if params := t.TypeParams(); params.Len() > args.Len() {
			return true // this is an uninstantiated named type.
		}
		for i, n := 0, args.Len(); i < n; i++ {
			if w.Has(args.At(i)) {
				return true
			}
		}
		return w.Has(t.Underlying()) // recurse for types local to parameterized functions

	case *types.TypeParam:
		return true

	default:
		panic(t) // unreachable
	}

	return false
}
