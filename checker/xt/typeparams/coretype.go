// Copyright 2022 The Go Authors. All rights reserved.
// Use of this source code is governed by a BSD-style
// license that can be found in the LICENSE file.

package typeparams

import (
	"fmt"
	"go/types"
)

// CoreType returns the core type of T or nil if T does not have a core type.
//
// See https://go.dev/ref/spec#Core_types for the definition of a core type.
func CoreType(T types.Type) types.Type {
	U := T.Underlying()
	if _, ok := U.(*types.Interface); !ok {
		return U // for non-interface types,
	}

	terms, err := NormalTerms(U)
	if len(terms) == 0 || err != nil {
		// len(terms) -> empty type set of interface.
		// err != nil => U is invalid, exceeds complexity bounds, or has an empty type set.
		return nil // no core type.
	}

	U = terms[0].Type().Underlying()
	var identical int // i in [0,identical) => Identical(U, terms[i].Type().Underlying())
	for identical = 1; identical < len(terms); identical++ {
		if !types.Identical(U, terms[identical].Type().Underlying()) {
			break
		}
	}

	if identical == len(terms) {
		// https://go.dev/ref/spec#Core_types
		// "There is a single type U which is the underlying type of all types in the type set of T"
		return U
	}
	ch, ok := U.(*types.Chan)
	if !ok {
		return nil // no core type as identical < len(terms) and U is not a channel.
	}
	// https://go.dev/ref/spec#Core_types
	// "the type chan E if T contains only bidirectional channels, or the type chan<- E or
	// <-chan E depending on the direction of the directional channels present."
	for chans := identical; chans < len(terms); chans++ {
		curr, ok := terms[chans].Type().Underlying().(*types.Chan)
		if !ok {
			return nil
		}
		if !types.Identical(ch.Elem(), curr.Elem()) {
			return nil // channel elements are not identical.
		}
		if ch.Dir() == types.SendRecv {
			// ch is bidirectional. We can safely always use curr's direction.
			ch = curr
		} else if curr.Dir() != types.SendRecv && ch.Dir() != curr.Dir() {
			// ch and curr are not bidirectional and not the same direction.
			return nil
		}
	}
	return ch
}

// NormalTerms returns a slice of terms representing the normalized structural
// type restrictions of a type, if any.
//
// For all types other than *types.TypeParam, *types.Interface, and
// *types.Union, this is just a single term with Tilde() == false and
// Type() == typ. For *types.TypeParam, *types.Interface, and *types.Union, see
// below.
//
// Structural type restrictions of a type parameter are created via
// non-interface types embedded in its constraint interface (directly, or via a
// chain of interface embeddings). For example, in the declaration type
// T[P interface{~int; m()}] int the structural restriction of the type
// parameter P is ~int.
//
// With interface embedding and unions, the specification of structural type
// restrictions may be arbitrarily complex. For example, consider the
// following:
//
//	type A interface{ ~string|~[]byte }
//
//	type B interface{ int|string }
//
//	type C interface { ~string|~int }
//
//	type T[P interface{ A|B; C }] int
//
// In this example, the structural type restriction of P is ~string|int: A|B
// expands to ~string|~[]byte|int|string, which reduces to ~string|~[]byte|int,
// which when intersected with C (~string|~int) yields ~string|int.
//
// NormalTerms computes these expansions and reductions, producing a
// "normalized" form of the embeddings. A structural restriction is normalized
// if it is a single union containing no interface terms, and is minimal in the
// sense that removing any term changes the set of types satisfying the
// constraint. It is left as a proof for the reader that, modulo sorting, there
// is exactly one such normalized form.
//
// Because the minimal representation always takes this form, NormalTerms
// returns a slice of tilde terms corresponding to the terms of the union in
// the normalized structural restriction. An error is returned if the type is
// invalid, exceeds complexity bounds, or has an empty type set. In the latter
// case, NormalTerms returns ErrEmptyTypeSet.
//
// NormalTerms makes no guarantees about the order of terms, except that it
// is deterministic.
func NormalTerms(typ types.Type) ([]*types.Term, error) {
	switch typ := typ.Underlying().(type) {
	case *types.TypeParam:
		return StructuralTerms(typ)
	case *types.Union:
		return UnionTermSet(typ)
	case *types.Interface:
		return InterfaceTermSet(typ)
	default:
		return []*types.Term{types.NewTerm(false, typ)}, nil
	}
}

// Deref returns the type of the variable pointed to by t,
// if t's core type is a pointer; otherwise it returns t.
//
// Do not assume that Deref(T)==T implies T is not a pointer:
// consider "type T *T", for example.
//
// TODO(adonovan): ideally this would live in typesinternal, but that
// creates an import cycle. Move there when we melt this package down.
func Deref(t types.Type) types.Type {
	if ptr, ok := CoreType(t).(*types.Pointer); ok {
		return ptr.Elem()
	}
	return t
}

// MustDeref returns the type of the variable pointed to by t.
// It panics if t's core type is not a pointer.
//
// TODO(adonovan): ideally this would live in typesinternal, but that
// creates an import cycle. Move there when we melt this package down.
func MustDeref(t types.Type) types.Type {
	if ptr, ok := CoreType(t).(*types.Pointer); ok {
		return ptr.Elem()
	}
	panic(fmt.Sprintf("%v is not a pointer", t))
}
