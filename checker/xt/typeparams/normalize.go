// Copyright 2021 The Go Authors. All rights reserved.
// Use of this source code is governed by a BSD-style
// license that can be found in the LICENSE file.

package typeparams

import (
	"errors"
	"fmt"
	"go/types"
	"os"
	"strings"
)

//go:generate go run copytermlist.go

const debug = false

var ErrEmptyTypeSet = errors.New("empty type set")

// StructuralTerms returns a slice of terms representing the normalized
// structural type restrictions of a type parameter, if any.
//
// Structural type restrictions of a type parameter are created via
// non-interface types embedded in its constraint interface (directly, or via a
// chain of interface embeddings). For example, in the declaration
//
//	type T[P interface{~int; m()}] int
//
// the structural restriction of the type parameter P is ~int.
//
// With interface embedding and unions, the specification of structural type
// restrictions may be arbitrarily complex. For example, consider the
// following:
//
//	type A interface{ ~string|~[]byte }
//
//	type B interface{ int|string }
//
//	type C interface { ~string|~int }
//
//	type T[P interface{ A|B; C }] int
//
// In this example, the structural type restriction of P is ~string|int: A|B
// expands to ~string|~[]byte|int|string, which reduces to ~string|~[]byte|int,
// which when intersected with C (~string|~int) yields ~string|int.
//
// StructuralTerms computes these expansions and reductions, producing a
// "normalized" form of the embeddings. A structural restriction is normalized
// if it is a single union containing no interface terms, and is minimal in the
// sense that removing any term changes the set of types satisfying the
// constraint. It is left as a proof for the reader that, modulo sorting, there
// is exactly one such normalized form.
//
// Because the minimal representation always takes this form, StructuralTerms
// returns a slice of tilde terms corresponding to the terms of the union in
// the normalized structural restriction. An error is returned if the
// constraint interface is invalid, exceeds complexity bounds, or has an empty
// type set. In the latter case, StructuralTerms returns ErrEmptyTypeSet.
//
// StructuralTerms makes no guarantees about the order of terms, except that it
// is deterministic.
func StructuralTerms(tparam *types.TypeParam) ([]*types.Term, error) {
	constraint := tparam.Constraint()
	if constraint == nil {
		return nil, fmt.Errorf("%s has nil constraint", tparam)
	}
	iface, _ := constraint.Underlying().(*types.Interface)
	if iface == nil {
		return nil, fmt.Errorf("constraint is %T, not *types.Interface", constraint.Underlying())
	}
	return InterfaceTermSet(iface)
}

// InterfaceTermSet computes the normalized terms for a constraint interface,
// returning an error if the term set cannot be computed or is empty. In the
// latter case, the error will be ErrEmptyTypeSet.
//
// See the documentation of StructuralTerms for more information on
// normalization.
func InterfaceTermSet(iface *types.Interface) ([]*types.Term, error) {
	return computeTermSet(iface)
}

// UnionTermSet computes the normalized terms for a union, returning an error
// if the term set cannot be computed or is empty. In the latter case, the
// error will be ErrEmptyTypeSet.
//
// See the documentation of StructuralTerms for more information on
// normalization.
func UnionTermSet(union *types.Union) ([]*types.Term, error) {
	return computeTermSet(union)
}

func computeTermSet(typ types.Type) ([]*types.Term, error) {
	tset, err := computeTermSetInternal(typ, make(map[types.Type]*termSet), 0)
	if err != nil {
		return nil, err
	}
	if tset.terms.isEmpty() {
		return nil, ErrEmptyTypeSet
	}
	if tset.terms.isAll() {
		return nil, nil
	}
	var terms []*types.Term
	for _, term := range tset.terms {
		terms = append(terms, types.NewTerm(term.tilde, term.typ))
	}
	return terms, nil
}

// A termSet holds the normalized set of terms for a given type.
//
// The name termSet is intentionally distinct from 'type set': a type set is
// all types that implement a type (and includes method restrictions), whereas
// a term set just represents the structural restrictions on a type.
type termSet struct {
	complete bool
	terms    termlist
}

func indentf(depth int, format string, args ...interface{}) {
	fmt.Fprintf(os.Stderr, strings.Repeat(".", depth)+format+"\n", args...)
}

func computeTermSetInternal(t types.Type, seen map[types.Type]*termSet, depth int) (res *termSet, err error) {
	if t == nil {
		panic("nil type")
	}

	if debug {
		indentf(depth, "%s", t.String())
		defer func() {
			if err != nil {
				indentf(depth, "=> %s", err)
			} else {
				indentf(depth, "=> %s", res.terms.String())
			}
		}()
	}

	const maxTermCount = 100
	if tset, ok := seen[t]; ok {
		if !tset.complete {
			return nil, fmt.Errorf("cycle detected in the declaration of %s", t)
		}
		return tset, nil
	}

	// Mark the current type as seen to avoid infinite recursion.
	tset := new(termSet)
	defer func() {
		tset.complete = true
	}()
	seen[t] = tset

	switch u := t.Underlying().(type) {
	case *types.Interface:
		// The term set of an interface is the intersection of the term sets of its
		// embedded types.
		tset.terms = allTermlist
		for i := 0; i < u.NumEmbeddeds(); i++ {
			embedded := u.EmbeddedType(i)
			if _, ok := embedded.Underlying().(*types.TypeParam); ok {
				return nil, fmt.Errorf("invalid embedded type %T", embedded)
			}
			tset2, err := computeTermSetInternal(embedded, seen, depth+1)
			if err != nil {
				return nil, err
			}
			tset.terms = tset.terms.intersect(tset2.terms)
		}
	case *types.Union:
		// The term set of a union is the union of term sets of its terms.
		tset.terms = nil
		for i := 0; i < u.Len(); i++ {
			t := u.Term(i)
			var terms termlist
			switch t.Type().Underlying().(type) {
			case *types.Interface:
				tset2, err := computeTermSetInternal(t.Type(), seen, depth+1)
				if err != nil {
					return nil, err
				}
				terms = tset2.terms
			case *types.TypeParam, *types.Union:
				// A stand-alone type parameter or union is not permitted as union
				// term.
				return nil, fmt.Errorf("invalid union term %T", t)
			default:
				if t.Type() == types.Typ[types.Invalid] {
					continue
				}
				terms = termlist{{t.Tilde(), t.Type()}}
			}
			tset.terms = tset.terms.union(terms)
			if len(tset.terms) > maxTermCount {
				return nil, fmt.Errorf("exceeded max term count %d", maxTermCount)
			}
		}
	case *types.TypeParam:
		panic("unreachable")
	default:
		// For all other types, the term set is just a single non-tilde term
		// holding the type itself.
		if u != types.Typ[types.Invalid] {
			tset.terms = termlist{{false, t}}
		}
	}
	return tset, nil
}

// under is a facade for the go/types internal function of the same name. It is
// used by typeterm.go.
func under(t types.Type) types.Type {
	return t.Underlying()
}
