// Copyright 2021 The Go Authors. All rights reserved.
// Use of this source code is governed by a BSD-style
// license that can be found in the LICENSE file.

// Package typeparams contains common utilities for writing tools that
// interact with generic Go code, as introduced with Go 1.18. It
// supplements the standard library APIs. Notably, the StructuralTerms
// API computes a minimal representation of the structural
// restrictions on a type parameter.
//
// An external version of these APIs is available in the
// golang.org/x/exp/typeparams module.
package typeparams

import (
	"go/ast"
	"go/token"
	"go/types"
)

// UnpackIndexExpr extracts data from AST nodes that represent index
// expressions.
//
// For an ast.IndexExpr, the resulting indices slice will contain exactly one
// index expression. For an ast.IndexListExpr (go1.18+), it may have a variable
// number of index expressions.
//
// For nodes that don't represent index expressions, the first return value of
// UnpackIndexExpr will be nil.
func UnpackIndexExpr(n ast.Node) (x ast.Expr, lbrack token.Pos, indices []ast.Expr, rbrack token.Pos) {
	switch e := n.(type) {
	case *ast.IndexExpr:
		return e.X, e.Lbrack, []ast.Expr{e.Index}, e.Rbrack
	case *ast.IndexListExpr:
		return e.X, e.Lbrack, e.Indices, e.Rbrack
	}
	return nil, token.NoPos, nil, token.NoPos
}

// PackIndexExpr returns an *ast.IndexExpr or *ast.IndexListExpr, depending on
// the cardinality of indices. Calling PackIndexExpr with len(indices) == 0
// will panic.
func PackIndexExpr(x ast.Expr, lbrack token.Pos, indices []ast.Expr, rbrack token.Pos) ast.Expr {
	switch len(indices) {
	case 0:
		panic("empty indices")
	case 1:
		return &ast.IndexExpr{
			X:      x,
			Lbrack: lbrack,
			Index:  indices[0],
			Rbrack: rbrack,
		}
	default:
		return &ast.IndexListExpr{
			X:       x,
			Lbrack:  lbrack,
			Indices: indices,
			Rbrack:  rbrack,
		}
	}
}

// IsTypeParam reports whether t is a type parameter (or an alias of one).
func IsTypeParam(t types.Type) bool {
	_, ok := types.Unalias(t).(*types.TypeParam)
	return ok
}
