// Copyright 2023 The Go Authors. All rights reserved.
// Use of this source code is governed by a BSD-style
// license that can be found in the LICENSE file.

package inline

// This file defines the analysis of callee effects.

import (
	"go/ast"
	"go/token"
	"go/types"
)

const (
	rinf = -1 //  R∞: arbitrary read from memory
	winf = -2 //  W∞: arbitrary write to memory (or unknown control)
)

// calleefx returns a list of parameter indices indicating the order
// in which parameters are first referenced during evaluation of the
// callee, relative both to each other and to other effects of the
// callee (if any), such as arbitrary reads (rinf) and arbitrary
// effects (winf), including unknown control flow. Each parameter
// that is referenced appears once in the list.
//
// For example, the effects list of this function:
//
//	func f(x, y, z int) int {
//	    return y + x + g() + z
//	}
//
// is [1 0 -2 2], indicating reads of y and x, followed by the unknown
// effects of the g() call. and finally the read of parameter z. This
// information is used during inlining to ascertain when it is safe
// for parameter references to be replaced by their corresponding
// argument expressions. Such substitutions are permitted only when
// they do not cause "write" operations (those with effects) to
// commute with "read" operations (those that have no effect but are
// not pure). Impure operations may be reordered with other impure
// operations, and pure operations may be reordered arbitrarily.
//
// The analysis ignores the effects of runtime panics, on the
// assumption that well-behaved programs shouldn't encounter them.
func calleefx(info *types.Info, body *ast.BlockStmt, paramInfos map[*types.Var]*paramInfo) []int {
	// This traversal analyzes the callee's statements (in syntax
	// form, though one could do better with SSA) to compute the
	// sequence of events of the following kinds:
	//
	// 1  read of a parameter variable.
	// 2. reads from other memory.
	// 3. writes to memory

	var effects []int // indices of parameters, or rinf/winf (-ve)
	seen := make(map[int]bool)
	effect := func(i int) {
		if !seen[i] {
			seen[i] = true
			effects = append(effects, i)
		}
	}

	// unknown is called for statements of unknown effects (or control).
	unknown := func() {
		effect(winf)

		// Ensure that all remaining parameters are "seen"
		// after we go into the unknown (unless they are
		// unreferenced by the function body). This lets us
		// not bother implementing the complete traversal into
		// control structures.
		//
		// TODO(adonovan): add them in a deterministic order.
		// (This is not a bug but determinism is good.)
		for _, pinfo := range paramInfos {
			if !pinfo.IsResult && len(pinfo.Refs) > 0 {
				effect(pinfo.Index)
			}
		}
	}

	var visitExpr func(n ast.Expr)
	var visitStmt func(n ast.Stmt) bool
	visitExpr = func(n ast.Expr) {
		switch n := n.(type) {
		case *ast.Ident:
			if v, ok := info.Uses[n].(*types.Var); ok && !v.IsField() {
				// Use of global?
				if v.Parent() == v.Pkg().Scope() {
					effect(rinf) // read global var
				}

				// Use of parameter?
				if pinfo, ok := paramInfos[v]; ok && !pinfo.IsResult {
					effect(pinfo.Index) // read parameter var
				}

				// Use of local variables is ok.
			}

		case *ast.BasicLit:
			// no effect

		case *ast.FuncLit:
			// A func literal has no read or write effect
			// until called, and (most) function calls are
			// considered to have arbitrary effects.
			// So, no effect.

		case *ast.CompositeLit:
			for _, elt := range n.Elts {
				visitExpr(elt) // note: visits KeyValueExpr
			}

		case *ast.ParenExpr:
			visitExpr(n.X)

		case *ast.SelectorExpr:
			if seln, ok := info.Selections[n]; ok {
				visitExpr(n.X)

				// See types.SelectionKind for background.
				switch seln.Kind() {
				case types.MethodExpr:
					// A method expression T.f acts like a
					// reference to a func decl,
					// so it doesn't read x until called.

				case types.MethodVal, types.FieldVal:
					// A field or method value selection x.f
					// reads x if the selection indirects a pointer.

					if indirectSelection(seln) {
						effect(rinf)
					}
				}
			} else {
				// qualified identifier: treat like unqualified
				visitExpr(n.Sel)
			}

		case *ast.IndexExpr:
			if tv := info.Types[n.Index]; tv.IsType() {
				// no effect (G[T] instantiation)
			} else {
				visitExpr(n.X)
				visitExpr(n.Index)
				switch tv.Type.Underlying().(type) {
				case *types.Slice, *types.Pointer: // []T, *[n]T (not string, [n]T)
					effect(rinf) // indirect read of slice/array element
				}
			}

		case *ast.IndexListExpr:
			// no effect (M[K,V] instantiation)

		case *ast.SliceExpr:
			visitExpr(n.X)
			visitExpr(n.Low)
			visitExpr(n.High)
			visitExpr(n.Max)

		case *ast.TypeAssertExpr:
			visitExpr(n.X)

		case *ast.CallExpr:
			if info.Types[n.Fun].IsType() {
				// conversion T(x)
				visitExpr(n.Args[0])
			} else {
				// call f(args)
				visitExpr(n.Fun)
				for i, arg := range n.Args {
					if i == 0 && info.Types[arg].IsType() {
						continue // new(T), make(T, n)
					}
					visitExpr(arg)
				}

				// The pure built-ins have no effects beyond
				// those of their operands (not even memory reads).
				// All other calls have unknown effects.
				if !callsPureBuiltin(info, n) {
					unknown() // arbitrary effects
				}
			}

		case *ast.StarExpr:
			visitExpr(n.X)
			effect(rinf) // *ptr load or store depends on state of heap

		case *ast.UnaryExpr: // + - ! ^ & ~ <-
			visitExpr(n.X)
			if n.Op == token.ARROW {
				unknown() // effect: channel receive
			}

		case *ast.BinaryExpr:
			visitExpr(n.X)
			visitExpr(n.Y)

		case *ast.KeyValueExpr:
			visitExpr(n.Key) // may be a struct field
			visitExpr(n.Value)

		case *ast.BadExpr:
			// no effect

		case nil:
			// optional subtree

		default:
			// type syntax: unreachable given traversal
			panic(n)
		}
	}

	// visitStmt's result indicates the continuation:
	// false for return, true for the next statement.
	//
	// We could treat return as an unknown, but this way
	// yields definite effects for simple sequences like
	// {S1; S2; return}, so unreferenced parameters are
	// not spuriously added to the effects list, and thus
	// not spuriously disqualified from elimination.
	visitStmt = func(n ast.Stmt) bool {
		switch n := n.(type) {
		case *ast.DeclStmt:
			decl := n.Decl.(*ast.GenDecl)
			for _, spec := range decl.Specs {
				switch spec := spec.(type) {
				case *ast.ValueSpec:
					for _, v := range spec.Values {
						visitExpr(v)
					}

				case *ast.TypeSpec:
					// no effect
				}
			}

		case *ast.LabeledStmt:
			return visitStmt(n.Stmt)

		case *ast.ExprStmt:
			visitExpr(n.X)

		case *ast.SendStmt:
			visitExpr(n.Chan)
			visitExpr(n.Value)
			unknown() // effect: channel send

		case *ast.IncDecStmt:
			visitExpr(n.X)
			unknown() // effect: variable increment

		case *ast.AssignStmt:
			for _, lhs := range n.Lhs {
				visitExpr(lhs)
			}
			for _, rhs := range n.Rhs {
				visitExpr(rhs)
			}
			for _, lhs := range n.Lhs {
				id, _ := lhs.(*ast.Ident)
				if id != nil && id.Name == "_" {
					continue // blank assign has no effect
				}
				if n.Tok == token.DEFINE && id != nil && info.Defs[id] != nil {
					continue // new var declared by := has no effect
				}
				unknown() // assignment to existing var
				break
			}

		case *ast.GoStmt:
			visitExpr(n.Call.Fun)
			for _, arg := range n.Call.Args {
				visitExpr(arg)
			}
			unknown() // effect: create goroutine

		case *ast.DeferStmt:
			visitExpr(n.Call.Fun)
			for _, arg := range n.Call.Args {
				visitExpr(arg)
			}
			unknown() // effect: push defer

		case *ast.ReturnStmt:
			for _, res := range n.Results {
				visitExpr(res)
			}
			return false

		case *ast.BlockStmt:
			for _, stmt := range n.List {
				if !visitStmt(stmt) {
					return false
				}
			}

		case *ast.BranchStmt:
			unknown() // control flow

		case *ast.IfStmt:
			visitStmt(n.Init)
			visitExpr(n.Cond)
			unknown() // control flow

		case *ast.SwitchStmt:
			visitStmt(n.Init)
			visitExpr(n.Tag)
			unknown() // control flow

		case *ast.TypeSwitchStmt:
			visitStmt(n.Init)
			visitStmt(n.Assign)
			unknown() // control flow

		case *ast.SelectStmt:
			unknown() // control flow

		case *ast.ForStmt:
			visitStmt(n.Init)
			visitExpr(n.Cond)
			unknown() // control flow

		case *ast.RangeStmt:
			visitExpr(n.X)
			unknown() // control flow

		case *ast.EmptyStmt, *ast.BadStmt:
			// no effect

		case nil:
			// optional subtree

		default:
			panic(n)
		}
		return true
	}
	visitStmt(body)

	return effects
}
