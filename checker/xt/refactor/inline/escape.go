// Copyright 2023 The Go Authors. All rights reserved.
// Use of this source code is governed by a BSD-style
// license that can be found in the LICENSE file.

package inline

import (
	"fmt"
	"go/ast"
	"go/token"
	"go/types"
)

// escape implements a simple "address-taken" escape analysis. It
// calls f for each local variable that appears on the left side of an
// assignment (escapes=false) or has its address taken (escapes=true).
// The initialization of a variable by its declaration does not count
// as an assignment.
func escape(info *types.Info, root ast.Node, f func(v *types.Var, escapes bool)) {

	// lvalue is called for each address-taken expression or LHS of assignment.
	// Supported forms are: x, (x), x[i], x.f, *x, T{}.
	var lvalue func(e ast.Expr, escapes bool)
	lvalue = func(e ast.Expr, escapes bool) {
		switch e := e.(type) {
		case *ast.Ident:
			if v, ok := info.Uses[e].(*types.Var); ok {
				if !isPkgLevel(v) {
					f(v, escapes)
				}
			}
		case *ast.ParenExpr:
			lvalue(e.X, escapes)
		case *ast.IndexExpr:
			// TODO(adonovan): support generics without assuming e.X has a core type.
			// Consider:
			//
			// func Index[T interface{ [3]int | []int }](t T, i int) *int {
			//     return &t[i]
			// }
			//
			// We must traverse the normal terms and check
			// whether any of them is an array.
			//
			// We assume TypeOf returns non-nil.
			if _, ok := info.TypeOf(e.X).Underlying().(*types.Array); ok {
				lvalue(e.X, escapes) // &a[i] on array
			}
		case *ast.SelectorExpr:
			// We assume TypeOf returns non-nil.
			if _, ok := info.TypeOf(e.X).Underlying().(*types.Struct); ok {
				lvalue(e.X, escapes) // &s.f on struct
			}
		case *ast.StarExpr:
			// *ptr indirects an existing pointer
		case *ast.CompositeLit:
			// &T{...} creates a new variable
		default:
			panic(fmt.Sprintf("&x on %T", e)) // unreachable in well-typed code
		}
	}

	// Search function body for operations &x, x.f(), x++, and x = y
	// where x is a parameter. Each of these treats x as an address.
	ast.Inspect(root, func(n ast.Node) bool {
		switch n := n.(type) {
		case *ast.UnaryExpr:
			if n.Op == token.AND {
				lvalue(n.X, true) // &x
			}

		case *ast.CallExpr:
			// implicit &x in method call x.f(),
			// where x has type T and method is (*T).f
			if sel, ok := n.Fun.(*ast.SelectorExpr); ok {
				if seln, ok := info.Selections[sel]; ok &&
					seln.Kind() == types.MethodVal &&
					isPointer(seln.Obj().Type().Underlying().(*types.Signature).Recv().Type()) {
					tArg, indirect := effectiveReceiver(seln)
					if !indirect && !isPointer(tArg) {
						lvalue(sel.X, true) // &x.f
					}
				}
			}

		case *ast.AssignStmt:
			for _, lhs := range n.Lhs {
				if id, ok := lhs.(*ast.Ident); ok &&
					info.Defs[id] != nil &&
					n.Tok == token.DEFINE {
					// declaration: doesn't count
				} else {
					lvalue(lhs, false)
				}
			}

		case *ast.IncDecStmt:
			lvalue(n.X, false)
		}
		return true
	})
}
