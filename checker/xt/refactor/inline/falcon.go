// Copyright 2023 The Go Authors. All rights reserved.
// Use of this source code is governed by a BSD-style
// license that can be found in the LICENSE file.

package inline

// This file defines the callee side of the "fallible constant" analysis.

import (
	"fmt"
	"go/ast"
	"go/constant"
	"go/format"
	"go/token"
	"go/types"
	"strconv"
	"strings"

	"golang.org/x/tools/go/types/typeutil"
	"verif/checker/xt/typeparams"
)

// falconResult is the result of the analysis of the callee.
type falconResult struct {
	Types       []falconType // types for falcon constraint environment
	Constraints []string     // constraints (Go expressions) on values of fallible constants
}

// A falconType specifies the name and underlying type of a synthetic
// defined type for use in falcon constraints.
//
// Unique types from callee code are bijectively mapped onto falcon
// types so that constraints are independent of callee type
// information but preserve type equivalence classes.
//
// Fresh names are deliberately obscure to avoid shadowing even if a
// callee parameter has a nanme like "int" or "any".
type falconType struct {
	Name string
	Kind types.BasicKind // string/number/bool
}

// falcon identifies "fallible constant" expressions, which are
// expressions that may fail to compile if one or more of their
// operands is changed from non-constant to constant.
//
// Consider:
//
//	func sub(s string, i, j int) string { return s[i:j] }
//
// If parameters are replaced by constants, the compiler is
// required to perform these additional checks:
//
//   - if i is constant, 0 <= i.
//   - if s and i are constant, i <= len(s).
//   - ditto for j.
//   - if i and j are constant, i <= j.
//
// s[i:j] is thus a "fallible constant" expression dependent on {s, i,
// j}. Each falcon creates a set of conditional constraints across one
// or more parameter variables.
//
//   - When inlining a call such as sub("abc", -1, 2), the parameter i
//     cannot be eliminated by substitution as its argument value is
//     negative.
//
//   - When inlining sub("", 2, 1), all three parameters cannot be
//     simultaneously eliminated by substitution without violating i
//     <= len(s) and j <= len(s), but the parameters i and j could be
//     safely eliminated without s.
//
// Parameters that cannot be eliminated must remain non-constant,
// either in the form of a binding declaration:
//
//	{ var i int = -1; return "abc"[i:2] }
//
// or a parameter of a literalization:
//
//	func (i int) string { return "abc"[i:2] }(-1)
//
// These example expressions are obviously doomed to fail at run
// time, but in realistic cases such expressions are dominated by
// appropriate conditions that make them reachable only when safe:
//
//	if 0 <= i && i <= j && j <= len(s) { _ = s[i:j] }
//
// (In principle a more sophisticated inliner could entirely eliminate
// such unreachable blocks based on the condition being always-false
// for the given parameter substitution, but this is tricky to do safely
// because the type-checker considers only a single configuration.
// Consider: if runtime.GOOS == "linux" { ... }.)
//
// We believe this is an exhaustive list of "fallible constant" operations:
//
//   - switch z { case x: case y } 	// duplicate case values
//   - s[i], s[i:j], s[i:j:k]		// index out of bounds (0 <= i <= j <= k <= len(s))
//   - T{x: 0}				// index out of bounds, duplicate index
//   - x/y, x%y, x/=y, x%=y		// integer division by zero; minint/-1 overflow
//   - x+y, x-y, x*y			// arithmetic overflow
//   - x<<y				// shift out of range
//   - -x				// negation of minint
//   - T(x)				// value out of range
//
// The fundamental reason for this elaborate algorithm is that the
// "separate analysis" of callee and caller, as required when running
// in an environment such as unitchecker, means that there is no way
// for us to simply invoke the type checker on the combination of
// caller and callee code, as by the time we analyze the caller, we no
// longer have access to type information for the callee (and, in
// particular, any of its direct dependencies that are not direct
// dependencies of the caller). So, in effect, we are forced to map
// the problem in a neutral (callee-type-independent) constraint
// system that can be verified later.
func falcon(logf func(string, ...any), fset *token.FileSet, params map[*types.Var]*paramInfo, info *types.Info, decl *ast.FuncDecl) falconResult {

	st := &falconState{
		logf:   logf,
		fset:   fset,
		params: params,
		info:   info,
		decl:   decl,
	}

	// type mapping
	st.int = st.typename(types.Typ[types.Int])
	st.any = "interface{}" // don't use "any" as it may be shadowed
	for obj, info := range st.params {
		if isBasic(obj.Type(), types.IsConstType) {
			info.FalconType = st.typename(obj.Type())
		}
	}

	st.stmt(st.decl.Body)

	return st.result
}

type falconState struct {
	// inputs
	logf   func(string, ...any)
	fset   *token.FileSet
	params map[*types.Var]*paramInfo
	info   *types.Info
	decl   *ast.FuncDecl

	// working state
	int       string
	any       string
	typenames typeutil.Map

	result falconResult
}

// typename returns the name in the falcon constraint system
// of a given string/number/bool type t. Falcon types are
// specified directly in go/types data structures rather than
// by name, avoiding potential shadowing conflicts with
// confusing parameter names such as "int".
//
// Also, each distinct type (as determined by types.Identical)
// is mapped to a fresh type in the falcon system so that we
// can map the types in the callee code into a neutral form
// that does not depend on imports, allowing us to detect
// potential conflicts such as
//
//	map[any]{T1(1): 0, T2(1): 0}
//
// where T1=T2.
func (st *falconState) typename(t types.Type) string {
	name, ok := st.typenames.At(t).(string)
	if !ok {
		basic := t.Underlying().(*types.Basic)

		// That dot ۰ is an Arabic zero numeral U+06F0.
		// It is very unlikely to appear in a real program.
		// TODO(adonovan): use a non-heuristic solution.
		name = fmt.Sprintf("%s۰%d", basic, st.typenames.Len())
		st.typenames.Set(t, name)
		st.logf("falcon: emit type %s %s // %q", name, basic, t)
		st.result.Types = append(st.result.Types, falconType{
			Name: name,
			Kind: basic.Kind(),
		})
	}
	return name
}

// -- constraint emission --

// emit emits a Go expression that must have a legal type.
// In effect, we let the go/types constant folding algorithm
// do most of the heavy lifting (though it may be hard to
// believe from the complexity of this algorithm!).
func (st *falconState) emit(constraint ast.Expr) {
	var out strings.Builder
	if err := format.Node(&out, st.fset, constraint); err != nil {
		panic(err) // can't happen
	}
	syntax := out.String()
	st.logf("falcon: emit constraint %s", syntax)
	st.result.Constraints = append(st.result.Constraints, syntax)
}

// emitNonNegative emits an []T{}[index] constraint,
// which ensures index is non-negative if constant.
func (st *falconState) emitNonNegative(index ast.Expr) {
	st.emit(&ast.IndexExpr{
		X: &ast.CompositeLit{
			Type: &ast.ArrayType{
				Elt: makeIdent(st.int),
			},
		},
		Index: index,
	})
}

// emitMonotonic emits an []T{}[i:j] constraint,
// which ensures i <= j if both are constant.
func (st *falconState) emitMonotonic(i, j ast.Expr) {
	st.emit(&ast.SliceExpr{
		X: &ast.CompositeLit{
			Type: &ast.ArrayType{
				Elt: makeIdent(st.int),
			},
		},
		Low:  i,
		High: j,
	})
}

// emitUnique emits a T{elem1: 0, ... elemN: 0} constraint,
// which ensures that all constant elems are unique.
// T may be a map, slice, or array depending
// on the desired check semantics.
func (st *falconState) emitUnique(typ ast.Expr, elems []ast.Expr) {
	if len(elems) > 1 {
		var elts []ast.Expr
		for _, elem := range elems {
			elts = append(elts, &ast.KeyValueExpr{
				Key:   elem,
				Value: makeIntLit(0),
			})
		}
		st.emit(&ast.CompositeLit{
			Type: typ,
			Elts: elts,
		})
	}
}

// -- traversal --

// The traversal functions scan the callee body for expressions that
// are not constant but would become constant if the parameter vars
// were redeclared as constants, and emits for each one a constraint
// (a Go expression) with the property that it will not type-check
// (using types.CheckExpr) if the particular argument values are
// unsuitable.
//
// These constraints are checked by Inline with the actual
// constant argument values. Violations cause it to reject
// parameters as candidates for substitution.

func (st *falconState) stmt(s ast.Stmt) {
	ast.Inspect(s, func(n ast.Node) bool {
		switch n := n.(type) {
		case ast.Expr:
			_ = st.expr(n)
			return false // skip usual traversal

		case *ast.AssignStmt:
			switch n.Tok {
			case token.QUO_ASSIGN, token.REM_ASSIGN:
				// x /= y
				// Possible "integer division by zero"
				// Emit constraint: 1/y.
				_ = st.expr(n.Lhs[0])
				kY := st.expr(n.Rhs[0])
				if kY, ok := kY.(ast.Expr); ok {
					op := token.QUO
					if n.Tok == token.REM_ASSIGN {
						op = token.REM
					}
					st.emit(&ast.BinaryExpr{
						Op: op,
						X:  makeIntLit(1),
						Y:  kY,
					})
				}
				return false // skip usual traversal
			}

		case *ast.SwitchStmt:
			if n.Init != nil {
				st.stmt(n.Init)
			}
			tBool := types.Type(types.Typ[types.Bool])
			tagType := tBool // default: true
			if n.Tag != nil {
				st.expr(n.Tag)
				tagType = st.info.TypeOf(n.Tag)
			}

			// Possible "duplicate case value".
			// Emit constraint map[T]int{v1: 0, ..., vN:0}
			// to ensure all maybe-constant case values are unique
			// (unless switch tag is boolean, which is relaxed).
			var unique []ast.Expr
			for _, clause := range n.Body.List {
				clause := clause.(*ast.CaseClause)
				for _, caseval := range clause.List {
					if k := st.expr(caseval); k != nil {
						unique = append(unique, st.toExpr(k))
					}
				}
				for _, stmt := range clause.Body {
					st.stmt(stmt)
				}
			}
			if unique != nil && !types.Identical(tagType.Underlying(), tBool) {
				tname := st.any
				if !types.IsInterface(tagType) {
					tname = st.typename(tagType)
				}
				t := &ast.MapType{
					Key:   makeIdent(tname),
					Value: makeIdent(st.int),
				}
				st.emitUnique(t, unique)
			}
		}
		return true
	})
}

// fieldTypes visits the .Type of each field in the list.
func (st *falconState) fieldTypes(fields *ast.FieldList) {
	if fields != nil {
		for _, field := range fields.List {
			_ = st.expr(field.Type)
		}
	}
}

// expr visits the expression (or type) and returns a
// non-nil result if the expression is constant or would
// become constant if all suitable function parameters were
// redeclared as constants.
//
// If the expression is constant, st.expr returns its type
// and value (types.TypeAndValue). If the expression would
// become constant, st.expr returns an ast.Expr tree whose
// leaves are literals and parameter references, and whose
// interior nodes are operations that may become constant,
// such as -x, x+y, f(x), and T(x). We call these would-be
// constant expressions "fallible constants", since they may
// fail to type-check for some values of x, i, and j. (We
// refer to the non-nil cases collectively as "maybe
// constant", and the nil case as "definitely non-constant".)
//
// As a side effect, st.expr emits constraints for each
// fallible constant expression; this is its main purpose.
//
// Consequently, st.expr must visit the entire subtree so
// that all necessary constraints are emitted. It may not
// short-circuit the traversal when it encounters a constant
// subexpression as constants may contain arbitrary other
// syntax that may impose constraints. Consider (as always)
// this contrived but legal example of a type parameter (!)
// that contains statement syntax:
//
//	func f[T [unsafe.Sizeof(func() { stmts })]int]()
//
// There is no need to emit constraints for (e.g.) s[i] when s
// and i are already constants, because we know the expression
// is sound, but it is sometimes easier to emit these
// redundant constraints than to avoid them.
func (st *falconState) expr(e ast.Expr) (res any) { // = types.TypeAndValue | ast.Expr
	tv := st.info.Types[e]
	if tv.Value != nil {
		// A constant value overrides any other result.
		defer func() { res = tv }()
	}

	switch e := e.(type) {
	case *ast.Ident:
		if v, ok := st.info.Uses[e].(*types.Var); ok {
			if _, ok := st.params[v]; ok && isBasic(v.Type(), types.IsConstType) {
				return e // reference to constable parameter
			}
		}
		// (References to *types.Const are handled by the defer.)

	case *ast.BasicLit:
		// constant

	case *ast.ParenExpr:
		return st.expr(e.X)

	case *ast.FuncLit:
		_ = st.expr(e.Type)
		st.stmt(e.Body)
		// definitely non-constant

	case *ast.CompositeLit:
		// T{k: v, ...}, where T ∈ {array,*array,slice,map},
		// imposes a constraint that all constant k are
		// distinct and, for arrays [n]T, within range 0-n.
		//
		// Types matter, not just values. For example,
		// an interface-keyed map may contain keys
		// that are numerically equal so long as they
		// are of distinct types. For example:
		//
		//   type myint int
		//   map[any]bool{1: true, 1:        true} // error: duplicate key
		//   map[any]bool{1: true, int16(1): true} // ok
		//   map[any]bool{1: true, myint(1): true} // ok
		//
		// This can be asserted by emitting a
		// constraint of the form T{k1: 0, ..., kN: 0}.
		if e.Type != nil {
			_ = st.expr(e.Type)
		}
		t := types.Unalias(typeparams.Deref(tv.Type))
		var uniques []ast.Expr
		for _, elt := range e.Elts {
			if kv, ok := elt.(*ast.KeyValueExpr); ok {
				if !is[*types.Struct](t) {
					if k := st.expr(kv.Key); k != nil {
						uniques = append(uniques, st.toExpr(k))
					}
				}
				_ = st.expr(kv.Value)
			} else {
				_ = st.expr(elt)
			}
		}
		if uniques != nil {
			// Inv: not a struct.

			// The type T in constraint T{...} depends on the CompLit:
			// - for a basic-keyed map, use map[K]int;
			// - for an interface-keyed map, use map[any]int;
			// - for a slice, use []int;
			// - for an array or *array, use [n]int.
			// The last two entail progressively stronger index checks.
			var ct ast.Expr // type syntax for constraint
			switch t := typeparams.CoreType(t).(type) {
			case *types.Map:
				if types.IsInterface(t.Key()) {
					ct = &ast.MapType{
						Key:   makeIdent(st.any),
						Value: makeIdent(st.int),
					}
				} else {
					ct = &ast.MapType{
						Key:   makeIdent(st.typename(t.Key())),
						Value: makeIdent(st.int),
					}
				}
			case *types.Array: // or *array
				ct = &ast.ArrayType{
					Len: makeIntLit(t.Len()),
					Elt: makeIdent(st.int),
				}
			default:
				panic(fmt.Sprintf("%T: %v", t, t))
			}
			st.emitUnique(ct, uniques)
		}
		// definitely non-constant

	case *ast.SelectorExpr:
		_ = st.expr(e.X)
		_ = st.expr(e.Sel)
		// The defer is sufficient to handle
		// qualified identifiers (pkg.Const).
		// All other cases are definitely non-constant.

	case *ast.IndexExpr:
		if tv.IsType() {
			// type C[T]
			_ = st.expr(e.X)
			_ = st.expr(e.Index)
		} else {
			// term x[i]
			//
			// Constraints (if x is slice/string/array/*array, not map):
			// - i >= 0
			//     if i is a fallible constant
			// - i < len(x)
			//     if x is array/*array and
			//     i is a fallible constant;
			//  or if s is a string and both i,
			//     s are maybe-constants,
			//     but not both are constants.
			kX := st.expr(e.X)
			kI := st.expr(e.Index)
			if kI != nil && !is[*types.Map](st.info.TypeOf(e.X).Underlying()) {
				if kI, ok := kI.(ast.Expr); ok {
					st.emitNonNegative(kI)
				}
				// Emit constraint to check indices against known length.
				// TODO(adonovan): factor with SliceExpr logic.
				var x ast.Expr
				if kX != nil {
					// string
					x = st.toExpr(kX)
				} else if arr, ok := typeparams.CoreType(typeparams.Deref(st.info.TypeOf(e.X))).(*types.Array); ok {
					// array, *array
					x = &ast.CompositeLit{
						Type: &ast.ArrayType{
							Len: makeIntLit(arr.Len()),
							Elt: makeIdent(st.int),
						},
					}
				}
				if x != nil {
					st.emit(&ast.IndexExpr{
						X:     x,
						Index: st.toExpr(kI),
					})
				}
			}
		}
		// definitely non-constant

	case *ast.SliceExpr:
		// x[low:high:max]
		//
		// Emit non-negative constraints for each index,
		// plus low <= high <= max <= len(x)
		// for each pair that are maybe-constant
		// but not definitely constant.

		kX := st.expr(e.X)
		var kLow, kHigh, kMax any
		if e.Low != nil {
			kLow = st.expr(e.Low)
			if kLow != nil {
				if kLow, ok := kLow.(ast.Expr); ok {
					st.emitNonNegative(kLow)
				}
			}
		}
		if e.High != nil {
			kHigh = st.expr(e.High)
			if kHigh != nil {
				if kHigh, ok := kHigh.(ast.Expr); ok {
					st.emitNonNegative(kHigh)
				}
				if kLow != nil {
					st.emitMonotonic(st.toExpr(kLow), st.toExpr(kHigh))
				}
			}
		}
		if e.Max != nil {
			kMax = st.expr(e.Max)
			if kMax != nil {
				if kMax, ok := kMax.(ast.Expr); ok {
					st.emitNonNegative(kMax)
				}
				if kHigh != nil {
					st.emitMonotonic(st.toExpr(kHigh), st.toExpr(kMax))
				}
			}
		}

		// Emit constraint to check indices against known length.
		var x ast.Expr
		if kX != nil {
			// string
			x = st.toExpr(kX)
		} else if arr, ok := typeparams.CoreType(typeparams.Deref(st.info.TypeOf(e.X))).(*types.Array); ok {
			// array, *array
			x = &ast.CompositeLit{
				Type: &ast.ArrayType{
					Len: makeIntLit(arr.Len()),
					Elt: makeIdent(st.int),
				},
			}
		}
		if x != nil {
			// Avoid slice[::max] if kHigh is nonconstant (nil).
			high, max := st.toExpr(kHigh), st.toExpr(kMax)
			if high == nil {
				high = max // => slice[:max:max]
			}
			st.emit(&ast.SliceExpr{
				X:    x,
				Low:  st.toExpr(kLow),
				High: high,
				Max:  max,
			})
		}
		// definitely non-constant

	case *ast.TypeAssertExpr:
		_ = st.expr(e.X)
		if e.Type != nil {
			_ = st.expr(e.Type)
		}

	case *ast.CallExpr:
		_ = st.expr(e.Fun)
		if tv, ok := st.info.Types[e.Fun]; ok && tv.IsType() {
			// conversion T(x)
			//
			// Possible "value out of range".
			kX := st.expr(e.Args[0])
			if kX != nil && isBasic(tv.Type, types.IsConstType) {
				conv := convert(makeIdent(st.typename(tv.Type)), st.toExpr(kX))
				if is[ast.Expr](kX) {
					st.emit(conv)
				}
				return conv
			}
			return nil // definitely non-constant
		}

		// call f(x)

		all := true // all args are possibly-constant
		kArgs := make([]ast.Expr, len(e.Args))
		for i, arg := range e.Args {
			if kArg := st.expr(arg); kArg != nil {
				kArgs[i] = st.toExpr(kArg)
			} else {
				all = false
			}
		}

		// Calls to built-ins with fallibly constant arguments
		// may become constant. All other calls are either
		// constant or non-constant
		if id, ok := e.Fun.(*ast.Ident); ok && all && tv.Value == nil {
			if builtin, ok := st.info.Uses[id].(*types.Builtin); ok {
				switch builtin.Name() {
				case "len", "imag", "real", "complex", "min", "max":
					return &ast.CallExpr{
						Fun:      id,
						Args:     kArgs,
						Ellipsis: e.Ellipsis,
					}
				}
			}
		}

	case *ast.StarExpr: // *T, *ptr
		_ = st.expr(e.X)

	case *ast.UnaryExpr:
		// + - ! ^ & <- ~
		//
		// Possible "negation of minint".
		// Emit constraint: -x
		kX := st.expr(e.X)
		if kX != nil && !is[types.TypeAndValue](kX) {
			if e.Op == token.SUB {
				st.emit(&ast.UnaryExpr{
					Op: e.Op,
					X:  st.toExpr(kX),
				})
			}

			return &ast.UnaryExpr{
				Op: e.Op,
				X:  st.toExpr(kX),
			}
		}

	case *ast.BinaryExpr:
		kX := st.expr(e.X)
		kY := st.expr(e.Y)
		switch e.Op {
		case token.QUO, token.REM:
			// x/y, x%y
			//
			// Possible "integer division by zero" or
			// "minint / -1" overflow.
			// Emit constraint: x/y or 1/y
			if kY != nil {
				if kX == nil {
					kX = makeIntLit(1)
				}
				st.emit(&ast.BinaryExpr{
					Op: e.Op,
					X:  st.toExpr(kX),
					Y:  st.toExpr(kY),
				})
			}

		case token.ADD, token.SUB, token.MUL:
			// x+y, x-y, x*y
			//
			// Possible "arithmetic overflow".
			// Emit constraint: x+y
			if kX != nil && kY != nil {
				st.emit(&ast.BinaryExpr{
					Op: e.Op,
					X:  st.toExpr(kX),
					Y:  st.toExpr(kY),
				})
			}

		case token.SHL, token.SHR:
			// x << y, x >> y
			//
			// Possible "constant shift too large".
			// Either operand may be too large individually,
			// and they may be too large together.
			// Emit constraint:
			//    x << y (if both maybe-constant)
			//    x << 0 (if y is non-constant)
			//    1 << y (if x is non-constant)
			if kX != nil || kY != nil {
				x := st.toExpr(kX)
				if x == nil {
					x = makeIntLit(1)
				}
				y := st.toExpr(kY)
				if y == nil {
					y = makeIntLit(0)
				}
				st.emit(&ast.BinaryExpr{
					Op: e.Op,
					X:  x,
					Y:  y,
				})
			}

		case token.LSS, token.GTR, token.EQL, token.NEQ, token.LEQ, token.GEQ:
			// < > == != <= <=
			//
			// A "x cmp y" expression with constant operands x, y is
			// itself constant, but I can't see how a constant bool
			// could be fallible: the compiler doesn't reject duplicate
			// boolean cases in a switch, presumably because boolean
			// switches are less like n-way branches and more like
			// sequential if-else chains with possibly overlapping
			// conditions; and there is (sadly) no way to convert a
			// boolean constant to an int constant.
		}
		if kX != nil && kY != nil {
			return &ast.BinaryExpr{
				Op: e.Op,
				X:  st.toExpr(kX),
				Y:  st.toExpr(kY),
			}
		}

	// types
	//
	// We need to visit types (and even type parameters)
	// in order to reach all the places where things could go wrong:
	//
	// 	const (
	// 		s = ""
	// 		i = 0
	// 	)
	// 	type C[T [unsafe.Sizeof(func() { _ = s[i] })]int] bool

	case *ast.IndexListExpr:
		_ = st.expr(e.X)
		for _, expr := range e.Indices {
			_ = st.expr(expr)
		}

	case *ast.Ellipsis:
		if e.Elt != nil {
			_ = st.expr(e.Elt)
		}

	case *ast.ArrayType:
		if e.Len != nil {
			_ = st.expr(e.Len)
		}
		_ = st.expr(e.Elt)

	case *ast.StructType:
		st.fieldTypes(e.Fields)

	case *ast.FuncType:
		st.fieldTypes(e.TypeParams)
		st.fieldTypes(e.Params)
		st.fieldTypes(e.Results)

	case *ast.InterfaceType:
		st.fieldTypes(e.Methods)

	case *ast.MapType:
		_ = st.expr(e.Key)
		_ = st.expr(e.Value)

	case *ast.ChanType:
		_ = st.expr(e.Value)
	}
	return
}

// toExpr converts the result of visitExpr to a falcon expression.
// (We don't do this in visitExpr as we first need to discriminate
// constants from maybe-constants.)
func (st *falconState) toExpr(x any) ast.Expr {
	switch x := x.(type) {
	case nil:
		return nil

	case types.TypeAndValue:
		lit := makeLiteral(x.Value)
		if !isBasic(x.Type, types.IsUntyped) {
			// convert to "typed" type
			lit = &ast.CallExpr{
				Fun:  makeIdent(st.typename(x.Type)),
				Args: []ast.Expr{lit},
			}
		}
		return lit

	case ast.Expr:
		return x

	default:
		panic(x)
	}
}

func makeLiteral(v constant.Value) ast.Expr {
	switch v.Kind() {
	case constant.Bool:
		// Rather than refer to the true or false built-ins,
		// which could be shadowed by poorly chosen parameter
		// names, we use 0 == 0 for true and 0 != 0 for false.
		op := token.EQL
		if !constant.BoolVal(v) {
			op = token.NEQ
		}
		return &ast.BinaryExpr{
			Op: op,
			X:  makeIntLit(0),
			Y:  makeIntLit(0),
		}

	case constant.String:
		return &ast.BasicLit{
			Kind:  token.STRING,
			Value: v.ExactString(),
		}

	case constant.Int:
		return &ast.BasicLit{
			Kind:  token.INT,
			Value: v.ExactString(),
		}

	case constant.Float:
		return &ast.BasicLit{
			Kind:  token.FLOAT,
			Value: v.ExactString(),
		}

	case constant.Complex:
		// The components could be float or int.
		y := makeLiteral(constant.Imag(v))
		y.(*ast.BasicLit).Value += "i" // ugh
		if re := constant.Real(v); !consteq(re, kZeroInt) {
			// complex: x + yi
			y = &ast.BinaryExpr{
				Op: token.ADD,
				X:  makeLiteral(re),
				Y:  y,
			}
		}
		return y

	default:
		panic(v.Kind())
	}
}

func makeIntLit(x int64) *ast.BasicLit {
	return &ast.BasicLit{
		Kind:  token.INT,
		Value: strconv.FormatInt(x, 10),
	}
}

func isBasic(t types.Type, info types.BasicInfo) bool {
	basic, ok := t.Underlying().(*types.Basic)
	return ok && basic.Info()&info != 0
}
