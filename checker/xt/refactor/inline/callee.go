// Copyright 2023 The Go Authors. All rights reserved.
// Use of this source code is governed by a BSD-style
// license that can be found in the LICENSE file.

package inline

// This file defines the analysis of the callee function.

import (
	"bytes"
	"encoding/gob"
	"fmt"
	"go/ast"
	"go/parser"
	"go/token"
	"go/types"
	"strings"

	"golang.org/x/tools/go/types/typeutil"
	"verif/checker/xt/typeparams"
	"verif/checker/xt/typesinternal"
)

// A Callee holds information about an inlinable function. Gob-serializable.
type Callee struct {
	impl gobCallee
}

func (callee *Callee) String() string { return callee.impl.Name }

type gobCallee struct {
	Content []byte // file content, compacted to a single func decl

	// results of type analysis (does not reach go/types data structures)
	PkgPath          string                 // package path of declaring package
	Name             string                 // user-friendly name for error messages
	Unexported       []string               // names of free objects that are unexported
	FreeRefs         []freeRef              // locations of references to free objects
	FreeObjs         []object               // descriptions of free objects
	ValidForCallStmt bool                   // function body is "return expr" where expr is f() or <-ch
	NumResults       int                    // number of results (according to type, not ast.FieldList)
	Params           []*paramInfo           // information about parameters (incl. receiver)
	Results          []*paramInfo           // information about result variables
	Effects          []int                  // order in which parameters are evaluated (see calleefx)
	HasDefer         bool                   // uses defer
	HasBareReturn    bool                   // uses bare return in non-void function
	Returns          [][]returnOperandFlags // metadata about result expressions for each return
	Labels           []string               // names of all control labels
	Falcon           falconResult           // falcon constraint system
}

// returnOperandFlags records metadata about a single result expression in a return
// statement.
type returnOperandFlags int

const (
	nonTrivialResult returnOperandFlags = 1 << iota // return operand has non-trivial conversion to result type
	untypedNilResult                                // return operand is nil literal
)

// A freeRef records a reference to a free object. Gob-serializable.
// (This means free relative to the FuncDecl as a whole, i.e. excluding parameters.)
type freeRef struct {
	Offset int // byte offset of the reference relative to the FuncDecl
	Object int // index into Callee.freeObjs
}

// An object abstracts a free types.Object referenced by the callee. Gob-serializable.
type object struct {
	Name    string // Object.Name()
	Kind    string // one of {var,func,const,type,pkgname,nil,builtin}
	PkgPath string // path of object's package (or imported package if kind="pkgname")
	PkgName string // name of object's package (or imported package if kind="pkgname")
	// TODO(rfindley): should we also track LocalPkgName here? Do we want to
	// preserve the local package name?
	ValidPos bool      // Object.Pos().IsValid()
	Shadow   shadowMap // shadowing info for the object's refs
}

// AnalyzeCallee analyzes a function that is a candidate for inlining
// and returns a Callee that describes it. The Callee object, which is
// serializable, can be passed to one or more subsequent calls to
// Inline, each with a different Caller.
//
// This design allows separate analysis of callers and callees in the
// golang.org/x/tools/go/analysis framework: the inlining information
// about a callee can be recorded as a "fact".
//
// The content should be the actual input to the compiler, not the
// apparent source file according to any //line directives that
// may be present within it.
func AnalyzeCallee(logf func(string, ...any), fset *token.FileSet, pkg *types.Package, info *types.Info, decl *ast.FuncDecl, content []byte) (*Callee, error) {
	checkInfoFields(info)

	// The client is expected to have determined that the callee
	// is a function with a declaration (not a built-in or var).
	fn := info.Defs[decl.Name].(*types.Func)
	sig := fn.Type().(*types.Signature)

	logf("analyzeCallee %v @ %v", fn, fset.PositionFor(decl.Pos(), false))

	// Create user-friendly name ("pkg.Func" or "(pkg.T).Method")
	var name string
	if sig.Recv() == nil {
		name = fmt.Sprintf("%s.%s", fn.Pkg().Name(), fn.Name())
	} else {
		name = fmt.Sprintf("(%s).%s", types.TypeString(sig.Recv().Type(), (*types.Package).Name), fn.Name())
	}

	if decl.Body == nil {
		return nil, fmt.Errorf("cannot inline function %s as it has no body", name)
	}

	// TODO(adonovan): support inlining of instantiated generic
	// functions by replacing each occurrence of a type parameter
	// T by its instantiating type argument (e.g. int). We'll need
	// to wrap the instantiating type in parens when it's not an
	// ident or qualified ident to prevent "if x == struct{}"
	// parsing ambiguity, or "T(x)" where T = "*int" or "func()"
	// from misparsing.
	if funcHasTypeParams(decl) {
		return nil, fmt.Errorf("cannot inline generic function %s: type parameters are not yet supported", name)
	}

	// Record the location of all free references in the FuncDecl.
	// (Parameters are not free by this definition.)
	var (
		fieldObjs    = fieldObjs(sig)
		freeObjIndex = make(map[types.Object]int)
		freeObjs     []object
		freeRefs     []freeRef // free refs that may need renaming
		unexported   []string  // free refs to unexported objects, for later error checks
	)
	var f func(n ast.Node) bool
	visit := func(n ast.Node) { ast.Inspect(n, f) }
	var stack []ast.Node
	stack = append(stack, decl.Type) // for scope of function itself
	f = func(n ast.Node) bool {
		if n != nil {
			stack = append(stack, n) // push
		} else {
			stack = stack[:len(stack)-1] // pop
		}
		switch n := n.(type) {
		case *ast.SelectorExpr:
			// Check selections of free fields/methods.
			if sel, ok := info.Selections[n]; ok &&
				!within(sel.Obj().Pos(), decl) &&
				!n.Sel.IsExported() {
				sym := fmt.Sprintf("(%s).%s", info.TypeOf(n.X), n.Sel.Name)
				unexported = append(unexported, sym)
			}

			// Don't recur into SelectorExpr.Sel.
			visit(n.X)
			return false

		case *ast.CompositeLit:
			// Check for struct literals that refer to unexported fields,
			// whether keyed or unkeyed. (Logic assumes well-typedness.)
			litType := typeparams.Deref(info.TypeOf(n))
			if s, ok := typeparams.CoreType(litType).(*types.Struct); ok {
				if n.Type != nil {
					visit(n.Type)
				}
				for i, elt := range n.Elts {
					var field *types.Var
					var value ast.Expr
					if kv, ok := elt.(*ast.KeyValueExpr); ok {
						field = info.Uses[kv.Key.(*ast.Ident)].(*types.Var)
						value = kv.Value
					} else {
						field = s.Field(i)
						value = elt
					}
					if !within(field.Pos(), decl) && !field.Exported() {
						sym := fmt.Sprintf("(%s).%s", litType, field.Name())
						unexported = append(unexported, sym)
					}

					// Don't recur into KeyValueExpr.Key.
					visit(value)
				}
				return false
			}

		case *ast.Ident:
			if obj, ok := info.Uses[n]; ok {
				// Methods and fields are handled by SelectorExpr and CompositeLit.
				if isField(obj) || isMethod(obj) {
					panic(obj)
				}
				// Inv: id is a lexical reference.

				// A reference to an unexported package-level declaration
				// cannot be inlined into another package.
				if !n.IsExported() &&
					obj.Pkg() != nil && obj.Parent() == obj.Pkg().Scope() {
					unexported = append(unexported, n.Name)
				}

				// Record free reference (incl. self-reference).
				if obj == fn || !within(obj.Pos(), decl) {
					objidx, ok := freeObjIndex[obj]
					if !ok {
						objidx = len(freeObjIndex)
						var pkgPath, pkgName string
						if pn, ok := obj.(*types.PkgName); ok {
							pkgPath = pn.Imported().Path()
							pkgName = pn.Imported().Name()
						} else if obj.Pkg() != nil {
							pkgPath = obj.Pkg().Path()
							pkgName = obj.Pkg().Name()
						}
						freeObjs = append(freeObjs, object{
							Name:     obj.Name(),
							Kind:     objectKind(obj),
							PkgName:  pkgName,
							PkgPath:  pkgPath,
							ValidPos: obj.Pos().IsValid(),
						})
						freeObjIndex[obj] = objidx
					}

					freeObjs[objidx].Shadow = freeObjs[objidx].Shadow.add(info, fieldObjs, obj.Name(), stack)

					freeRefs = append(freeRefs, freeRef{
						Offset: int(n.Pos() - decl.Pos()),
						Object: objidx,
					})
				}
			}
		}
		return true
	}
	visit(decl)

	// Analyze callee body for "return expr" form,
	// where expr is f() or <-ch. These forms are
	// safe to inline as a standalone statement.
	validForCallStmt := false
	if len(decl.Body.List) != 1 {
		// not just a return statement
	} else if ret, ok := decl.Body.List[0].(*ast.ReturnStmt); ok && len(ret.Results) == 1 {
		validForCallStmt = func() bool {
			switch expr := ast.Unparen(ret.Results[0]).(type) {
			case *ast.CallExpr: // f(x)
				callee := typeutil.Callee(info, expr)
				if callee == nil {
					return false // conversion T(x)
				}

				// The only non-void built-in functions that may be
				// called as a statement are copy and recover
				// (though arguably a call to recover should never
				// be inlined as that changes its behavior).
				if builtin, ok := callee.(*types.Builtin); ok {
					return builtin.Name() == "copy" ||
						builtin.Name() == "recover"
				}

				return true // ordinary call f()

			case *ast.UnaryExpr: // <-x
				return expr.Op == token.ARROW // channel receive <-ch
			}

			// No other expressions are valid statements.
			return false
		}()
	}

	// Record information about control flow in the callee
	// (but not any nested functions).
	var (
		hasDefer      = false
		hasBareReturn = false
		returnInfo    [][]returnOperandFlags
		labels        []string
	)
	ast.Inspect(decl.Body, func(n ast.Node) bool {
		switch n := n.(type) {
		case *ast.FuncLit:
			return false // prune traversal
		case *ast.DeferStmt:
			hasDefer = true
		case *ast.LabeledStmt:
			labels = append(labels, n.Label.Name)
		case *ast.ReturnStmt:

			// Are implicit assignment conversions
			// to result variables all trivial?
			var resultInfo []returnOperandFlags
			if len(n.Results) > 0 {
				argInfo := func(i int) (ast.Expr, types.Type) {
					expr := n.Results[i]
					return expr, info.TypeOf(expr)
				}
				if len(n.Results) == 1 && sig.Results().Len() > 1 {
					// Spread return: return f() where f.Results > 1.
					tuple := info.TypeOf(n.Results[0]).(*types.Tuple)
					argInfo = func(i int) (ast.Expr, types.Type) {
						return nil, tuple.At(i).Type()
					}
				}
				for i := 0; i < sig.Results().Len(); i++ {
					expr, typ := argInfo(i)
					var flags returnOperandFlags
					if typ == types.Typ[types.UntypedNil] { // untyped nil is preserved by go/types
						flags |= untypedNilResult
					}
					if !trivialConversion(info.Types[expr].Value, typ, sig.Results().At(i).Type()) {
						flags |= nonTrivialResult
					}
					resultInfo = append(resultInfo, flags)
				}
			} else if sig.Results().Len() > 0 {
				hasBareReturn = true
			}
			returnInfo = append(returnInfo, resultInfo)
		}
		return true
	})

	// Reject attempts to inline cgo-generated functions.
	for _, obj := range freeObjs {
		// There are others (iconst fconst sconst fpvar macro)
		// but this is probably sufficient.
		if strings.HasPrefix(obj.Name, "_Cfunc_") ||
			strings.HasPrefix(obj.Name, "_Ctype_") ||
			strings.HasPrefix(obj.Name, "_Cvar_") {
			return nil, fmt.Errorf("cannot inline cgo-generated functions")
		}
	}

	// Compact content to just the FuncDecl.
	//
	// As a space optimization, we don't retain the complete
	// callee file content; all we need is "package _; func f() { ... }".
	// This reduces the size of analysis facts.
	//
	// Offsets in the callee information are "relocatable"
	// since they are all relative to the FuncDecl.

	content = append([]byte("package _\n"),
		content[offsetOf(fset, decl.Pos()):offsetOf(fset, decl.End())]...)
	// Sanity check: re-parse the compacted content.
	if _, _, err := parseCompact(content); err != nil {
		return nil, err
	}

	params, results, effects, falcon := analyzeParams(logf, fset, info, decl)
	return &Callee{gobCallee{
		Content:          content,
		PkgPath:          pkg.Path(),
		Name:             name,
		Unexported:       unexported,
		FreeObjs:         freeObjs,
		FreeRefs:         freeRefs,
		ValidForCallStmt: validForCallStmt,
		NumResults:       sig.Results().Len(),
		Params:           params,
		Results:          results,
		Effects:          effects,
		HasDefer:         hasDefer,
		HasBareReturn:    hasBareReturn,
		Returns:          returnInfo,
		Labels:           labels,
		Falcon:           falcon,
	}}, nil
}

// parseCompact parses a Go source file of the form "package _\n func f() { ... }"
// and returns the sole function declaration.
func parseCompact(content []byte) (*token.FileSet, *ast.FuncDecl, error) {
	fset := token.NewFileSet()
	const mode = parser.ParseComments | parser.SkipObjectResolution | parser.AllErrors
	f, err := parser.ParseFile(fset, "callee.go", content, mode)
	if err != nil {
		return nil, nil, fmt.Errorf("internal error: cannot compact file: %v", err)
	}
	return fset, f.Decls[0].(*ast.FuncDecl), nil
}

// A paramInfo records information about a callee receiver, parameter, or result variable.
type paramInfo struct {
	Name        string    // parameter name (may be blank, or even "")
	Index       int       // index within signature
	IsResult    bool      // false for receiver or parameter, true for result variable
	IsInterface bool      // parameter has a (non-type parameter) interface type
	Assigned    bool      // parameter appears on left side of an assignment statement
	Escapes     bool      // parameter has its address taken
	Refs        []refInfo // information about references to parameter within body
	Shadow      shadowMap // shadowing info for the above refs; see [shadowMap]
	FalconType  string    // name of this parameter's type (if basic) in the falcon system
}

type refInfo struct {
	Offset           int  // FuncDecl-relative byte offset of parameter ref within body
	Assignable       bool // ref appears in context of assignment to known type
	IfaceAssignment  bool // ref is being assigned to an interface
	AffectsInference bool // ref type may affect type inference
	// IsSelectionOperand indicates whether the parameter reference is the
	// operand of a selection (param.f). If so, and param's argument is itself
	// a receiver parameter (a common case), we don't need to desugar (&v or *ptr)
	// the selection: if param.Method is a valid selection, then so is param.fieldOrMethod.
	IsSelectionOperand bool
}

// analyzeParams computes information about parameters of function fn,
// including a simple "address taken" escape analysis.
//
// It returns two new arrays, one of the receiver and parameters, and
// the other of the result variables of function fn.
//
// The input must be well-typed.
func analyzeParams(logf func(string, ...any), fset *token.FileSet, info *types.Info, decl *ast.FuncDecl) (params, results []*paramInfo, effects []int, _ falconResult) {
	fnobj, ok := info.Defs[decl.Name]
	if !ok {
		panic(fmt.Sprintf("%s: no func object for %q",
			fset.PositionFor(decl.Name.Pos(), false), decl.Name)) // ill-typed?
	}
	sig := fnobj.Type().(*types.Signature)

	paramInfos := make(map[*types.Var]*paramInfo)
	{
		newParamInfo := func(param *types.Var, isResult bool) *paramInfo {
			info := &paramInfo{
				Name:        param.Name(),
				IsResult:    isResult,
				Index:       len(paramInfos),
				IsInterface: isNonTypeParamInterface(param.Type()),
			}
			paramInfos[param] = info
			return info
		}
		if sig.Recv() != nil {
			params = append(params, newParamInfo(sig.Recv(), false))
		}
		for i := 0; i < sig.Params().Len(); i++ {
			params = append(params, newParamInfo(sig.Params().At(i), false))
		}
		for i := 0; i < sig.Results().Len(); i++ {
			results = append(results, newParamInfo(sig.Results().At(i), true))
		}
	}

	// Search function body for operations &x, x.f(), and x = y
	// where x is a parameter, and record it.
	escape(info, decl, func(v *types.Var, escapes bool) {
		if info := paramInfos[v]; info != nil {
			if escapes {
				info.Escapes = true
			} else {
				info.Assigned = true
			}
		}
	})

	// Record locations of all references to parameters.
	// And record the set of intervening definitions for each parameter.
	//
	// TODO(adonovan): combine this traversal with the one that computes
	// FreeRefs. The tricky part is that calleefx needs this one first.
	fieldObjs := fieldObjs(sig)
	var stack []ast.Node
	stack = append(stack, decl.Type) // for scope of function itself
	ast.Inspect(decl.Body, func(n ast.Node) bool {
		if n != nil {
			stack = append(stack, n) // push
		} else {
			stack = stack[:len(stack)-1] // pop
		}

		if id, ok := n.(*ast.Ident); ok {
			if v, ok := info.Uses[id].(*types.Var); ok {
				if pinfo, ok := paramInfos[v]; ok {
					// Record ref information, and any intervening (shadowing) names.
					//
					// If the parameter v has an interface type, and the reference id
					// appears in a context where assignability rules apply, there may be
					// an implicit interface-to-interface widening. In that case it is
					// not necessary to insert an explicit conversion from the argument
					// to the parameter's type.
					//
					// Contrapositively, if param is not an interface type, then the
					// assignment may lose type information, for example in the case that
					// the substituted expression is an untyped constant or unnamed type.
					assignable, ifaceAssign, affectsInference := analyzeAssignment(info, stack)
					ref := refInfo{
						Offset:             int(n.Pos() - decl.Pos()),
						Assignable:         assignable,
						IfaceAssignment:    ifaceAssign,
						AffectsInference:   affectsInference,
						IsSelectionOperand: isSelectionOperand(stack),
					}
					pinfo.Refs = append(pinfo.Refs, ref)
					pinfo.Shadow = pinfo.Shadow.add(info, fieldObjs, pinfo.Name, stack)
				}
			}
		}
		return true
	})

	// Compute subset and order of parameters that are strictly evaluated.
	// (Depends on Refs computed above.)
	effects = calleefx(info, decl.Body, paramInfos)
	logf("effects list = %v", effects)

	falcon := falcon(logf, fset, paramInfos, info, decl)

	return params, results, effects, falcon
}

// -- callee helpers --

// analyzeAssignment looks at the the given stack, and analyzes certain
// attributes of the innermost expression.
//
// In all cases we 'fail closed' when we cannot detect (or for simplicity
// choose not to detect) the condition in question, meaning we err on the side
// of the more restrictive rule. This is noted for each result below.
//
//   - assignable reports whether the expression is used in a position where
//     assignability rules apply, such as in an actual assignment, as call
//     argument, or in a send to a channel. Defaults to 'false'. If assignable
//     is false, the other two results are irrelevant.
//   - ifaceAssign reports whether that assignment is to an interface type.
//     This is important as we want to preserve the concrete type in that
//     assignment. Defaults to 'true'. Notably, if the assigned type is a type
//     parameter, we assume that it could have interface type.
//   - affectsInference is (somewhat vaguely) defined as whether or not the
//     type of the operand may affect the type of the surrounding syntax,
//     through type inference. It is infeasible to completely reverse engineer
//     type inference, so we over approximate: if the expression is an argument
//     to a call to a generic function (but not method!) that uses type
//     parameters, assume that unification of that argument may affect the
//     inferred types.
func analyzeAssignment(info *types.Info, stack []ast.Node) (assignable, ifaceAssign, affectsInference bool) {
	remaining, parent, expr := exprContext(stack)
	if parent == nil {
		return false, false, false
	}

	// TODO(golang/go#70638): simplify when types.Info records implicit conversions.

	// Types do not need to match for assignment to a variable.
	if assign, ok := parent.(*ast.AssignStmt); ok {
		for i, v := range assign.Rhs {
			if v == expr {
				if i >= len(assign.Lhs) {
					return false, false, false // ill typed
				}
				// Check to see if the assignment is to an interface type.
				if i < len(assign.Lhs) {
					// TODO: We could handle spread calls here, but in current usage expr
					// is an ident.
					if id, _ := assign.Lhs[i].(*ast.Ident); id != nil && info.Defs[id] != nil {
						// Types must match for a defining identifier in a short variable
						// declaration.
						return false, false, false
					}
					// In all other cases, types should be known.
					typ := info.TypeOf(assign.Lhs[i])
					return true, typ == nil || types.IsInterface(typ), false
				}
				// Default:
				return assign.Tok == token.ASSIGN, true, false
			}
		}
	}

	// Types do not need to match for an initializer with known type.
	if spec, ok := parent.(*ast.ValueSpec); ok && spec.Type != nil {
		for _, v := range spec.Values {
			if v == expr {
				typ := info.TypeOf(spec.Type)
				return true, typ == nil || types.IsInterface(typ), false
			}
		}
	}

	// Types do not need to match for index expresions.
	if ix, ok := parent.(*ast.IndexExpr); ok {
		if ix.Index == expr {
			typ := info.TypeOf(ix.X)
			if typ == nil {
				return true, true, false
			}
			m, _ := typeparams.CoreType(typ).(*types.Map)
			return true, m == nil || types.IsInterface(m.Key()), false
		}
	}

	// Types do not need to match for composite literal keys, values, or
	// fields.
	if kv, ok := parent.(*ast.KeyValueExpr); ok {
		var under types.Type
		if len(remaining) > 0 {
			if complit, ok := remaining[len(remaining)-1].(*ast.CompositeLit); ok {
				if typ := info.TypeOf(complit); typ != nil {
					// Unpointer to allow for pointers to slices or arrays, which are
					// permitted as the types of nested composite literals without a type
					// name.
					under = typesinternal.Unpointer(typeparams.CoreType(typ))
				}
			}
		}
		if kv.Key == expr { // M{expr: ...}: assign to map key
			m, _ := under.(*types.Map)
			return true, m == nil || types.IsInterface(m.Key()), false
		}
		if kv.Value == expr {
			switch under := under.(type) {
			case interface{ Elem() types.Type }: // T{...: expr}: assign to map/array/slice element
				return true, types.IsInterface(under.Elem()), false
			case *types.Struct: // Struct{k: expr}
				if id, _ := kv.Key.(*ast.Ident); id != nil {
					for fi := 0; fi < under.NumFields(); fi++ {
						field := under.Field(fi)
						if info.Uses[id] == field {
							return true, types.IsInterface(field.Type()), false
						}
					}
				}
			default:
				return true, true, false
			}
		}
	}
	if lit, ok := parent.(*ast.CompositeLit); ok {
		for i, v := range lit.Elts {
			if v == expr {
				typ := info.TypeOf(lit)
				if typ == nil {
					return true, true, false
				}
				// As in the KeyValueExpr case above, unpointer to handle pointers to
				// array/slice literals.
				under := typesinternal.Unpointer(typeparams.CoreType(typ))
				switch under := under.(type) {
				case interface{ Elem() types.Type }: // T{expr}: assign to map/array/slice element
					return true, types.IsInterface(under.Elem()), false
				case *types.Struct: // Struct{expr}: assign to unkeyed struct field
					if i < under.NumFields() {
						return true, types.IsInterface(under.Field(i).Type()), false
					}
				}
				return true, true, false
			}
		}
	}

	// Types do not need to match for values sent to a channel.
	if send, ok := parent.(*ast.SendStmt); ok {
		if send.Value == expr {
			typ := info.TypeOf(send.Chan)
			if typ == nil {
				return true, true, false
			}
			ch, _ := typeparams.CoreType(typ).(*types.Chan)
			return true, ch == nil || types.IsInterface(ch.Elem()), false
		}
	}

	// Types do not need to match for an argument to a call, unless the
	// corresponding parameter has type parameters, as in that case the
	// argument type may affect inference.
	if call, ok := parent.(*ast.CallExpr); ok {
		if _, ok := isConversion(info, call); ok {
			return false, false, false // redundant conversions are handled at the call site
		}
		// Ordinary call. Could be a call of a func, builtin, or function value.
		for i, arg := range call.Args {
			if arg == expr {
				typ := info.TypeOf(call.Fun)
				if typ == nil {
					return true, true, false
				}
				sig, _ := typeparams.CoreType(typ).(*types.Signature)
				if sig != nil {
					// Find the relevant parameter type, accounting for variadics.
					paramType := paramTypeAtIndex(sig, call, i)
					ifaceAssign := paramType == nil || types.IsInterface(paramType)
					affectsInference := false
					if fn := typeutil.StaticCallee(info, call); fn != nil {
						if sig2 := fn.Type().(*types.Signature); sig2.Recv() == nil {
							originParamType := paramTypeAtIndex(sig2, call, i)
							affectsInference = originParamType == nil || new(typeparams.Free).Has(originParamType)
						}
					}
					return true, ifaceAssign, affectsInference
				}
			}
		}
	}

	return false, false, false
}

// paramTypeAtIndex returns the effective parameter type at the given argument
// index in call, if valid.
func paramTypeAtIndex(sig *types.Signature, call *ast.CallExpr, index int) types.Type {
	if plen := sig.Params().Len(); sig.Variadic() && index >= plen-1 && !call.Ellipsis.IsValid() {
		if s, ok := sig.Params().At(plen - 1).Type().(*types.Slice); ok {
			return s.Elem()
		}
	} else if index < plen {
		return sig.Params().At(index).Type()
	}
	return nil // ill typed
}

// exprContext returns the innermost parent->child expression nodes for the
// given outer-to-inner stack, after stripping parentheses, along with the
// remaining stack up to the parent node.
//
// If no such context exists, returns (nil, nil).
func exprContext(stack []ast.Node) (remaining []ast.Node, parent ast.Node, expr ast.Expr) {
	expr, _ = stack[len(stack)-1].(ast.Expr)
	if expr == nil {
		return nil, nil, nil
	}
	i := len(stack) - 2
	for ; i >= 0; i-- {
		if pexpr, ok := stack[i].(*ast.ParenExpr); ok {
			expr = pexpr
		} else {
			parent = stack[i]
			break
		}
	}
	if parent == nil {
		return nil, nil, nil
	}
	// inv: i is the index of parent in the stack.
	return stack[:i], parent, expr
}

// isSelectionOperand reports whether the innermost node of stack is operand
// (x) of a selection x.f.
func isSelectionOperand(stack []ast.Node) bool {
	_, parent, expr := exprContext(stack)
	if parent == nil {
		return false
	}
	sel, ok := parent.(*ast.SelectorExpr)
	return ok && sel.X == expr
}

// A shadowMap records information about shadowing at any of the parameter's
// references within the callee decl.
//
// For each name shadowed at a reference to the parameter within the callee
// body, shadow map records the 1-based index of the callee decl parameter
// causing the shadowing, or -1, if the shadowing is not due to a callee decl.
// A value of zero (or missing) indicates no shadowing. By convention,
// self-shadowing is excluded from the map.
//
// For example, in the following callee
//
//	func f(a, b int) int {
//		c := 2 + b
//		return a + c
//	}
//
// the shadow map of a is {b: 2, c: -1}, because b is shadowed by the 2nd
// parameter. The shadow map of b is {a: 1}, because c is not shadowed at the
// use of b.
type shadowMap map[string]int

// add returns the [shadowMap] augmented by the set of names
// locally shadowed at the location of the reference in the callee
// (identified by the stack). The name of the reference itself is
// excluded.
//
// These shadowed names may not be used in a replacement expression
// for the reference.
func (s shadowMap) add(info *types.Info, paramIndexes map[types.Object]int, exclude string, stack []ast.Node) shadowMap {
	for _, n := range stack {
		if scope := scopeFor(info, n); scope != nil {
			for _, name := range scope.Names() {
				if name != exclude {
					if s == nil {
						s = make(shadowMap)
					}
					obj := scope.Lookup(name)
					if idx, ok := paramIndexes[obj]; ok {
						s[name] = idx + 1
					} else {
						s[name] = -1
					}
				}
			}
		}
	}
	return s
}

// fieldObjs returns a map of each types.Object defined by the given signature
// to its index in the parameter list. Parameters with missing or blank name
// are skipped.
func fieldObjs(sig *types.Signature) map[types.Object]int {
	m := make(map[types.Object]int)
	for i := range sig.Params().Len() {
		if p := sig.Params().At(i); p.Name() != "" && p.Name() != "_" {
			m[p] = i
		}
	}
	return m
}

func isField(obj types.Object) bool {
	if v, ok := obj.(*types.Var); ok && v.IsField() {
		return true
	}
	return false
}

func isMethod(obj types.Object) bool {
	if f, ok := obj.(*types.Func); ok && f.Type().(*types.Signature).Recv() != nil {
		return true
	}
	return false
}

// -- serialization --

var (
	_ gob.GobEncoder = (*Callee)(nil)
	_ gob.GobDecoder = (*Callee)(nil)
)

func (callee *Callee) GobEncode() ([]byte, error) {
	var out bytes.Buffer
	if err := gob.NewEncoder(&out).Encode(callee.impl); err != nil {
		return nil, err
	}
	return out.Bytes(), nil
}

func (callee *Callee) GobDecode(data []byte) error {
	return gob.NewDecoder(bytes.NewReader(data)).Decode(&callee.impl)
}
