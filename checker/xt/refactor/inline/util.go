// Copyright 2023 The Go Authors. All rights reserved.
// Use of this source code is governed by a BSD-style
// license that can be found in the LICENSE file.

package inline

// This file defines various common helpers.

import (
	"go/ast"
	"go/constant"
	"go/token"
	"go/types"
	"reflect"
	"strings"

	"verif/checker/xt/typeparams"
)

func is[T any](x any) bool {
	_, ok := x.(T)
	return ok
}

// TODO(adonovan): use go1.21's slices.Index.
func index[T comparable](slice []T, x T) int {
	for i, elem := range slice {
		if elem == x {
			return i
		}
	}
	return -1
}

func btoi(b bool) int {
	if b {
		return 1
	} else {
		return 0
	}
}

func offsetOf(fset *token.FileSet, pos token.Pos) int {
	return fset.PositionFor(pos, false).Offset
}

// objectKind returns an object's kind (e.g. var, func, const, typename).
func objectKind(obj types.Object) string {
	return strings.TrimPrefix(strings.ToLower(reflect.TypeOf(obj).String()), "*types.")
}

// within reports whether pos is within the half-open interval [n.Pos, n.End).
func within(pos token.Pos, n ast.Node) bool {
	return n.Pos() <= pos && pos < n.End()
}

// trivialConversion reports whether it is safe to omit the implicit
// value-to-variable conversion that occurs in argument passing or
// result return. The only case currently allowed is converting from
// untyped constant to its default type (e.g. 0 to int).
//
// The reason for this check is that converting from A to B to C may
// yield a different result than converting A directly to C: consider
// 0 to int32 to any.
//
// trivialConversion under-approximates trivial conversions, as unfortunately
// go/types does not record the type of an expression *before* it is implicitly
// converted, and therefore it cannot distinguish typed constant
// expressions from untyped constant expressions. For example, in the
// expression `c + 2`, where c is a uint32 constant, trivialConversion does not
// detect that the default type of this expression is actually uint32, not untyped
// int.
//
// We could, of course, do better here by reverse engineering some of go/types'
// constant handling. That may or may not be worthwhile.
//
// Example: in func f() int32 { return 0 },
// the type recorded for 0 is int32, not untyped int;
// although it is Identical to the result var,
// the conversion is non-trivial.
func trivialConversion(fromValue constant.Value, from, to types.Type) bool {
	if fromValue != nil {
		var defaultType types.Type
		switch fromValue.Kind() {
		case constant.Bool:
			defaultType = types.Typ[types.Bool]
		case constant.String:
			defaultType = types.Typ[types.String]
		case constant.Int:
			defaultType = types.Typ[types.Int]
		case constant.Float:
			defaultType = types.Typ[types.Float64]
		case constant.Complex:
			defaultType = types.Typ[types.Complex128]
		default:
			return false
		}
		return types.Identical(defaultType, to)
	}
	return types.Identical(from, to)
}

func checkInfoFields(info *types.Info) {
	assert(info.Defs != nil, "types.Info.Defs is nil")
	assert(info.Implicits != nil, "types.Info.Implicits is nil")
	assert(info.Scopes != nil, "types.Info.Scopes is nil")
	assert(info.Selections != nil, "types.Info.Selections is nil")
	assert(info.Types != nil, "types.Info.Types is nil")
	assert(info.Uses != nil, "types.Info.Uses is nil")
}

func funcHasTypeParams(decl *ast.FuncDecl) bool {
	// generic function?
	if decl.Type.TypeParams != nil {
		return true
	}
	// method on generic type?
	if decl.Recv != nil {
		t := decl.Recv.List[0].Type
		if u, ok := t.(*ast.StarExpr); ok {
			t = u.X
		}
		return is[*ast.IndexExpr](t) || is[*ast.IndexListExpr](t)
	}
	return false
}

// intersects reports whether the maps' key sets intersect.
func intersects[K comparable, T1, T2 any](x map[K]T1, y map[K]T2) bool {
	if len(x) > len(y) {
		return intersects(y, x)
	}
	for k := range x {
		if _, ok := y[k]; ok {
			return true
		}
	}
	return false
}

// convert returns syntax for the conversion T(x).
func convert(T, x ast.Expr) *ast.CallExpr {
	// The formatter generally adds parens as needed,
	// but before go1.22 it had a bug (#63362) for
	// channel types that requires this workaround.
	if ch, ok := T.(*ast.ChanType); ok && ch.Dir == ast.RECV {
		T = &ast.ParenExpr{X: T}
	}
	return &ast.CallExpr{
		Fun:  T,
		Args: []ast.Expr{x},
	}
}

// isPointer reports whether t's core type is a pointer.
func isPointer(t types.Type) bool {
	return is[*types.Pointer](typeparams.CoreType(t))
}

// indirectSelection is like seln.Indirect() without bug #8353.
func indirectSelection(seln *types.Selection) bool {
	// Work around bug #8353 in Selection.Indirect when Kind=MethodVal.
	if seln.Kind() == types.MethodVal {
		tArg, indirect := effectiveReceiver(seln)
		if indirect {
			return true
		}

		tParam := seln.Obj().Type().Underlying().(*types.Signature).Recv().Type()
		return isPointer(tArg) && !isPointer(tParam) // implicit *
	}

	return seln.Indirect()
}

// effectiveReceiver returns the effective type of the method
// receiver after all implicit field selections (but not implicit * or
// & operations) have been applied.
//
// The boolean indicates whether any implicit field selection was indirect.
func effectiveReceiver(seln *types.Selection) (types.Type, bool) {
	assert(seln.Kind() == types.MethodVal, "not MethodVal")
	t := seln.Recv()
	indices := seln.Index()
	indirect := false
	for _, index := range indices[:len(indices)-1] {
		if isPointer(t) {
			indirect = true
			t = typeparams.MustDeref(t)
		}
		t = typeparams.CoreType(t).(*types.Struct).Field(index).Type()
	}
	return t, indirect
}
