// Copyright 2023 The Go Authors. All rights reserved.
// Use of this source code is governed by a BSD-style
// license that can be found in the LICENSE file.

/*
Package inline implements inlining of Go function calls.

The client provides information about the caller and callee,
including the source text, syntax tree, and type information, and
the inliner returns the modified source file for the caller, or an
error if the inlining operation is invalid (for example because the
function body refers to names that are inaccessible to the caller).

Although this interface demands more information from the client
than might seem necessary, it enables smoother integration with
existing batch and interactive tools that have their own ways of
managing the processes of reading, parsing, and type-checking
packages. In particular, this package does not assume that the
caller and callee belong to the same token.FileSet or
types.Importer realms.

There are many aspects to a function call. It is the only construct
that can simultaneously bind multiple variables of different
explicit types, with implicit assignment conversions. (Neither var
nor := declarations can do that.) It defines the scope of control
labels, of return statements, and of defer statements. Arguments
and results of function calls may be tuples even though tuples are
not first-class values in Go, and a tuple-valued call expression
may be "spread" across the argument list of a call or the operands
of a return statement. All these unique features mean that in the
general case, not everything that can be expressed by a function
call can be expressed without one.

So, in general, inlining consists of modifying a function or method
call expression f(a1, ..., an) so that the name of the function f
is replaced ("literalized") by a literal copy of the function
declaration, with free identifiers suitably modified to use the
locally appropriate identifiers or perhaps constant argument
values.

Inlining must not change the semantics of the call. Semantics
preservation is crucial for clients such as codebase maintenance
tools that automatically inline all calls to designated functions
on a large scale. Such tools must not introduce subtle behavior
changes. (Fully inlining a call is dynamically observable using
reflection over the call stack, but this exception to the rule is
explicitly allowed.)

In many cases it is possible to entirely replace ("reduce") the
call by a copy of the function's body in which parameters have been
replaced by arguments. The inliner supports a number of reduction
strategies, and we expect this set to grow. Nonetheless, sound
reduction is surprisingly tricky.

The inliner is in some ways like an optimizing compiler. A compiler
is considered correct if it doesn't change the meaning of the
program in translation from source language to target language. An
optimizing compiler exploits the particulars of the input to
generate better code, where "better" usually means more efficient.
When a case is found in which it emits suboptimal code, the
compiler is improved to recognize more cases, or more rules, and
more exceptions to rules; this process has no end. Inlining is
similar except that "better" code means tidier code. The baseline
translation (literalization) is correct, but there are endless
rules--and exceptions to rules--by which the output can be
improved.

The following section lists some of the challenges, and ways in
which they can be addressed.

  - All effects of the call argument expressions must be preserved,
    both in their number (they must not be eliminated or repeated),
    and in their order (both with respect to other arguments, and any
    effects in the callee function).

    This must be the case even if the corresponding parameters are
    never referenced, are referenced multiple times, referenced in
    a different order from the arguments, or referenced within a
    nested function that may be executed an arbitrary number of
    times.

    Currently, parameter replacement is not applied to arguments
    with effects, but with further analysis of the sequence of
    strict effects within the callee we could relax this constraint.

  - When not all parameters can be substituted by their arguments
    (e.g. due to possible effects), if the call appears in a
    statement context, the inliner may introduce a var declaration
    that declares the parameter variables (with the correct types)
    and assigns them to their corresponding argument values.
    The rest of the function body may then follow.
    For example, the call

    f(1, 2)

    to the function

    func f(x, y int32) { stmts }

    may be reduced to

    { var x, y int32 = 1, 2; stmts }.

    There are many reasons why this is not always possible. For
    example, true parameters are statically resolved in the same
    scope, and are dynamically assigned their arguments in
    parallel; but each spec in a var declaration is statically
    resolved in sequence and dynamically executed in sequence, so
    earlier parameters may shadow references in later ones.

  - Even an argument expression as simple as ptr.x may not be
    referentially transparent, because another argument may have the
    effect of changing the value of ptr.

    This constraint could be relaxed by some kind of alias or
    escape analysis that proves that ptr cannot be mutated during
    the call.

  - Although constants are referentially transparent, as a matter of
    style we do not wish to duplicate literals that are referenced
    multiple times in the body because this undoes proper factoring.
    Also, string literals may be arbitrarily large.

  - If the function body consists of statements other than just
    "return expr", in some contexts it may be syntactically
    impossible to reduce the call. Consider:

    if x := f(); cond { ... }

    Go has no equivalent to Lisp's progn or Rust's blocks,
    nor ML's let expressions (let param = arg in body);
    its closest equivalent is func(param){body}(arg).
    Reduction strategies must therefore consider the syntactic
    context of the call.

    In such situations we could work harder to extract a statement
    context for the call, by transforming it to:

    { x := f(); if cond { ... } }

  - Similarly, without the equivalent of Rust-style blocks and
    first-class tuples, there is no general way to reduce a call
    to a function such as

    func(params)(args)(results) { stmts; return expr }

    to an expression such as

    { var params = args; stmts; expr }

    or even a statement such as

    results = { var params = args; stmts; expr }

    Consequently the declaration and scope of the result variables,
    and the assignment and control-flow implications of the return
    statement, must be dealt with by cases.

  - A standalone call statement that calls a function whose body is
    "return expr" cannot be simply replaced by the body expression
    if it is not itself a call or channel receive expression; it is
    necessary to explicitly discard the result using "_ = expr".

    Similarly, if the body is a call expression, only calls to some
    built-in functions with no result (such as copy or panic) are
    permitted as statements, whereas others (such as append) return
    a result that must be used, even if just by discarding.

  - If a parameter or result variable is updated by an assignment
    within the function body, it cannot always be safely replaced
    by a variable in the caller. For example, given

    func f(a int) int { a++; return a }

    The call y = f(x) cannot be replaced by { x++; y = x } because
    this would change the value of the caller's variable x.
    Only if the caller is finished with x is this safe.

    A similar argument applies to parameter or result variables
    that escape: by eliminating a variable, inlining would change
    the identity of the variable that escapes.

  - If the function body uses 'defer' and the inlined call is not a
    tail-call, inlining may delay the deferred effects.

  - Because the scope of a control label is the entire function, a
    call cannot be reduced if the caller and callee have intersecting
    sets of control labels. (It is possible to α-rename any
    conflicting ones, but our colleagues building C++ refactoring
    tools report that, when tools must choose new identifiers, they
    generally do a poor job.)

  - Given

    func f() uint8 { return 0 }

    var x any = f()

    reducing the call to var x any = 0 is unsound because it
    discards the implicit conversion to uint8. We may need to make
    each argument-to-parameter conversion explicit if the types
    differ. Assignments to variadic parameters may need to
    explicitly construct a slice.

    An analogous problem applies to the implicit assignments in
    return statements:

    func g() any { return f() }

    Replacing the call f() with 0 would silently lose a
    conversion to uint8 and change the behavior of the program.

  - When inlining a call f(1, x, g()) where those parameters are
    unreferenced, we should be able to avoid evaluating 1 and x
    since they are pure and thus have no effect. But x may be the
    last reference to a local variable in the caller, so removing
    it would cause a compilation error. Parameter substitution must
    avoid making the caller's local variables unreferenced (or must
    be prepared to eliminate the declaration too---this is where an
    iterative framework for simplification would really help).

  - An expression such as s[i] may be valid if s and i are
    variables but invalid if either or both of them are constants.
    For example, a negative constant index s[-1] is always out of
    bounds, and even a non-negative constant index may be out of
    bounds depending on the particular string constant (e.g.
    "abc"[4]).

    So, if a parameter participates in any expression that is
    subject to additional compile-time checks when its operands are
    constant, it may be unsafe to substitute that parameter by a
    constant argument value (#62664).

More complex callee functions are inlinable with more elaborate and
invasive changes to the statements surrounding the call expression.

TODO(adonovan): future work:

  - Handle more of the above special cases by careful analysis,
    thoughtful factoring of the large design space, and thorough
    test coverage.

  - Compute precisely (not conservatively) when parameter
    substitution would remove the last reference to a caller local
    variable, and blank out the local instead of retreating from
    the substitution.

  - Afford the client more control such as a limit on the total
    increase in line count, or a refusal to inline using the
    general approach (replacing name by function literal). This
    could be achieved by returning metadata alongside the result
    and having the client conditionally discard the change.

  - Support inlining of generic functions, replacing type parameters
    by their instantiations.

  - Support inlining of calls to function literals ("closures").
    But note that the existing algorithm makes widespread assumptions
    that the callee is a package-level function or method.

  - Eliminate explicit conversions of "untyped" literals inserted
    conservatively when they are redundant. For example, the
    conversion int32(1) is redundant when this value is used only as a
    slice index; but it may be crucial if it is used in x := int32(1)
    as it changes the type of x, which may have further implications.
    The conversions may also be important to the falcon analysis.

  - Allow non-'go' build systems such as Bazel/Blaze a chance to
    decide whether an import is accessible using logic other than
    "/internal/" path segments. This could be achieved by returning
    the list of added import paths instead of a text diff.

  - Inlining a function from another module may change the
    effective version of the Go language spec that governs it. We
    should probably make the client responsible for rejecting
    attempts to inline from newer callees to older callers, since
    there's no way for this package to access module versions.

  - Use an alternative implementation of the import-organizing
    operation that doesn't require operating on a complete file
    (and reformatting). Then return the results in a higher-level
    form as a set of import additions and deletions plus a single
    diff that encloses the call expression. This interface could
    perhaps be implemented atop imports.Process by post-processing
    its result to obtain the abstract import changes and discarding
    its formatted output.
*/
package inline
