// Copyright 2023 The Go Authors. All rights reserved.
// Use of this source code is governed by a BSD-style
// license that can be found in the LICENSE file.

package astutil

import (
	"go/ast"
	"reflect"
)

// CloneNode returns a deep copy of a Node.
// It omits pointers to ast.{Scope,Object} variables.
func CloneNode[T ast.Node](n T) T {
	return cloneNode(n).(T)
}

func cloneNode(n ast.Node) ast.Node {
	var clone func(x reflect.Value) reflect.Value
	set := func(dst, src reflect.Value) {
		src = clone(src)
		if src.IsValid() {
			dst.Set(src)
		}
	}
	clone = func(x reflect.Value) reflect.Value {
		switch x.Kind() {
		case reflect.Ptr:
			if x.IsNil() {
				return x
			}
			// Skip fields of types potentially involved in cycles.
			switch x.Interface().(type) {
			case *ast.Object, *ast.Scope:
				return reflect.Zero(x.Type())
			}
			y := reflect.New(x.Type().Elem())
			set(y.Elem(), x.Elem())
			return y

		case reflect.Struct:
			y := reflect.New(x.Type()).Elem()
			for i := 0; i < x.Type().NumField(); i++ {
				set(y.Field(i), x.Field(i))
			}
			return y

		case reflect.Slice:
			if x.IsNil() {
				return x
			}
			y := reflect.MakeSlice(x.Type(), x.Len(), x.Cap())
			for i := 0; i < x.Len(); i++ {
				set(y.Index(i), x.Index(i))
			}
			return y

		case reflect.Interface:
			y := reflect.New(x.Type()).Elem()
			set(y, x.Elem())
			return y

		case reflect.Array, reflect.Chan, reflect.Func, reflect.Map, reflect.UnsafePointer:
			panic(x) // unreachable in AST

		default:
			return x // bool, string, number
		}
	}
	return clone(reflect.ValueOf(n)).Interface().(ast.Node)
}
