// Copyright 2022 The Go Authors. All rights reserved.
// Use of this source code is governed by a BSD-style
// license that can be found in the LICENSE file.

//go:generate go run generate.go

// Package stdlib provides a table of all exported symbols in the
// standard library, along with the version at which they first
// appeared.
package stdlib

import (
	"fmt"
	"strings"
)

type Symbol struct {
	Name    string
	Kind    Kind
	Version Version // Go version that first included the symbol
}

// A Kind indicates the kind of a symbol:
// function, variable, constant, type, and so on.
type Kind int8

const (
	Invalid Kind = iota // Example name:
	Type                // "Buffer"
	Func                // "Println"
	Var                 // "EOF"
	Const               // "Pi"
	Field               // "Point.X"
	Method              // "(*Buffer).Grow"
)

func (kind Kind) String() string {
	return [...]string{
		Invalid: "invalid",
		Type:    "type",
		Func:    "func",
		Var:     "var",
		Const:   "const",
		Field:   "field",
		Method:  "method",
	}[kind]
}

// A Version represents a version of Go of the form "go1.%d".
type Version int8

// String returns a version string of the form "go1.23", without allocating.
func (v Version) String() string { return versions[v] }

var versions [30]string // (increase constant as needed)

func init() {
	for i := range versions {
		versions[i] = fmt.Sprintf("go1.%d", i)
	}
}

// HasPackage reports whether the specified package path is part of
// the standard library's public API.
func HasPackage(path string) bool {
	_, ok := PackageSymbols[path]
	return ok
}

// SplitField splits the field symbol name into type and field
// components. It must be called only on Field symbols.
//
// Example: "File.Package" -> ("File", "Package")
func (sym *Symbol) SplitField() (typename, name string) {
	if sym.Kind != Field {
		panic("not a field")
	}
	typename, name, _ = strings.Cut(sym.Name, ".")
	return
}

// SplitMethod splits the method symbol name into pointer, receiver,
// and method components. It must be called only on Method symbols.
//
// Example: "(*Buffer).Grow" -> (true, "Buffer", "Grow")
func (sym *Symbol) SplitMethod() (ptr bool, recv, name string) {
	if sym.Kind != Method {
		panic("not a method")
	}
	recv, name, _ = strings.Cut(sym.Name, ".")
	recv = recv[len("(") : len(recv)-len(")")]
	ptr = recv[0] == '*'
	if ptr {
		recv = recv[len("*"):]
	}
	return
}
