package main

// Thorough tier: self-validation of the rules against the recorded corpus, on the CURRENT tree.
//
// After the rules have decided the property on /repo's working tree (that verdict alone sets the exit code), the
// thorough tier re-runs the same rules on variants of the tree held in memory (packages.Config.Overlay; /repo is not
// touched):
//
//   - every confirmed seeded change of this property under /verif/seeded/<id>/patch.diff (a change that breaks the
//     property, compiles and passes the test suite) must be REPORTED;
//   - every behaviour-preserving edit under /verif/seeded/benign/<id>/patch.diff that touches a file this property is
//     anchored in must be analysed SILENTLY.
//
// A patch that no longer applies to the current tree is skipped. The outcome (detected / missed, silent / alarmed) is
// written to the evidence as information: it says whether the rules still see the code they were written for, and it
// never changes the verdict on the tree, which may legitimately have moved away from the corpus.

import (
	"encoding/json"
	"fmt"
	"os"
	"os/exec"
	"path/filepath"
	"sort"
	"strings"
	"sync"
)

type selfValResult struct {
	Seeds        int      `json:"seeded_changes_run"`
	Detected     int      `json:"seeded_changes_reported"`
	Missed       []string `json:"seeded_changes_not_reported"`
	Benign       int      `json:"benign_edits_run"`
	Silent       int      `json:"benign_edits_silent"`
	Alarms       []string `json:"benign_edits_with_alarm"`
	Skipped      []string `json:"patches_not_applicable_to_this_tree"`
	Details      []string `json:"details"`
	WallS        float64  `json:"wall_s"`
	DocumentedNA []string `json:"seeded_changes_documented_as_out_of_reach,omitempty"`
}

// outOfReach: seeded changes of which DESIGN.md says that no sound, non-brittle static rule reports them.
var outOfReach = map[string]string{
	"C16-a": "numeric: round-to-nearest instead of ceiling in average()",
	"C19-b": "string language: a hand-written parser that accepts signed collection ids",
	"C19-o": "string language: the same parser rewrite (signed ids / shard indexes accepted)",
	"C16-o": "numeric: average() adds one also for exact multiples",
}

func patchFiles(patch string) []string {
	var out []string
	seen := map[string]bool{}
	for _, l := range strings.Split(patch, "\n") {
		if strings.HasPrefix(l, "diff --git a/") {
			f := strings.Fields(l)
			if len(f) >= 4 {
				p := strings.TrimPrefix(f[3], "b/")
				if !seen[p] {
					seen[p] = true
					out = append(out, p)
				}
			}
		}
	}
	return out
}

// overlayFor applies the patch to copies of the touched files and returns "abs=tmpfile;..." for VERIF_OVERLAY.
func overlayFor(root, patchPath, tmp string) (string, error) {
	data, err := os.ReadFile(patchPath)
	if err != nil {
		return "", err
	}
	files := patchFiles(string(data))
	if len(files) == 0 {
		return "", fmt.Errorf("no files in patch")
	}
	for _, f := range files {
		dst := filepath.Join(tmp, f)
		os.MkdirAll(filepath.Dir(dst), 0o755)
		if b, err := os.ReadFile(filepath.Join(root, f)); err == nil {
			os.WriteFile(dst, b, 0o644)
		}
	}
	cmd := exec.Command("git", "apply", "--whitespace=nowarn", patchPath)
	cmd.Dir = tmp
	cmd.Env = append(os.Environ(), "GIT_CEILING_DIRECTORIES="+filepath.Dir(tmp))
	if out, err := cmd.CombinedOutput(); err != nil {
		return "", fmt.Errorf("git apply: %v %s", err, strings.TrimSpace(string(out)))
	}
	var parts []string
	for _, f := range files {
		if !strings.HasSuffix(f, ".go") {
			continue
		}
		if _, err := os.Stat(filepath.Join(tmp, f)); err != nil {
			continue // deleted by the patch: not representable, ignore
		}
		parts = append(parts, filepath.Join(root, f)+"="+filepath.Join(tmp, f))
	}
	return strings.Join(parts, ";"), nil
}

func selfValidate(w *World, verif, prop string) *selfValResult {
	res := &selfValResult{}
	exe, err := os.Executable()
	if err != nil {
		res.Details = append(res.Details, "cannot locate the checker binary: "+err.Error())
		return res
	}
	// files this property is anchored in
	anchoredFiles := map[string]bool{}
	for _, fn := range anchoredFuncs(w, prop) {
		if fd, pkg := w.FuncDecl(fn); fd != nil {
			f := pkg.Fset.Position(fd.Pos()).Filename
			anchoredFiles[strings.TrimPrefix(f, w.RepoRoot+"/")] = true
		}
	}
	type job struct {
		name, patch string
		benign      bool
	}
	var jobs []job
	dirs, _ := filepath.Glob(filepath.Join(verif, "seeded", "*", "meta.json"))
	sort.Strings(dirs)
	for _, m := range dirs {
		var meta struct {
			Property string `json:"property"`
		}
		b, _ := os.ReadFile(m)
		json.Unmarshal(b, &meta)
		if meta.Property == prop {
			jobs = append(jobs, job{filepath.Base(filepath.Dir(m)), filepath.Join(filepath.Dir(m), "patch.diff"), false})
		}
	}
	bdirs, _ := filepath.Glob(filepath.Join(verif, "seeded", "benign", "*", "patch.diff"))
	sort.Strings(bdirs)
	for _, p := range bdirs {
		data, _ := os.ReadFile(p)
		rel := false
		for _, f := range patchFiles(string(data)) {
			if anchoredFiles[f] {
				rel = true
			}
		}
		if rel {
			jobs = append(jobs, job{"benign/" + filepath.Base(filepath.Dir(p)), p, true})
		}
	}
	var mu sync.Mutex
	var wg sync.WaitGroup
	sem := make(chan struct{}, 6)
	for _, j := range jobs {
		wg.Add(1)
		go func(j job) {
			defer wg.Done()
			sem <- struct{}{}
			defer func() { <-sem }()
			tmp, err := os.MkdirTemp("", "vselfval-")
			if err != nil {
				return
			}
			defer os.RemoveAll(tmp)
			ov, err := overlayFor(w.RepoRoot, j.patch, filepath.Join(tmp, "tree"))
			if err != nil {
				mu.Lock()
				res.Skipped = append(res.Skipped, j.name)
				mu.Unlock()
				return
			}
			vd := filepath.Join(tmp, "verif")
			os.MkdirAll(vd, 0o755)
			for _, f := range []string{"properties.jsonl", "known_findings.json"} {
				if b, err := os.ReadFile(filepath.Join(verif, f)); err == nil {
					os.WriteFile(filepath.Join(vd, f), b, 0o644)
				}
			}
			cmd := exec.Command(exe, "-verif", vd, "-prop", prop, "-tier", "quick")
			cmd.Env = append(os.Environ(), "VERIF_OVERLAY="+ov, "VERIF_TIER=quick")
			out, _ := cmd.CombinedOutput()
			var rules []string
			seen := map[string]bool{}
			loadFail := false
			for _, l := range strings.Split(string(out), "\n") {
				if strings.HasPrefix(l, "LOAD FAILURE") {
					loadFail = true
				}
				if strings.HasPrefix(l, "VIOLATION C") || strings.HasPrefix(l, "UNDECIDED") {
					f := strings.Fields(l)
					if len(f) > 1 && !seen[f[1]] {
						seen[f[1]] = true
						rules = append(rules, f[1])
					}
				}
			}
			sort.Strings(rules)
			mu.Lock()
			defer mu.Unlock()
			if loadFail {
				res.Skipped = append(res.Skipped, j.name+" (variant does not type-check on this tree)")
				return
			}
			if j.benign {
				res.Benign++
				if len(rules) == 0 {
					res.Silent++
				} else {
					res.Alarms = append(res.Alarms, j.name+": "+strings.Join(rules, ","))
				}
			} else {
				res.Seeds++
				if len(rules) > 0 {
					res.Detected++
					res.Details = append(res.Details, j.name+" reported by "+strings.Join(rules, ","))
				} else if why, na := outOfReach[j.name]; na {
					res.DocumentedNA = append(res.DocumentedNA, j.name+": "+why)
				} else {
					res.Missed = append(res.Missed, j.name)
				}
			}
		}(j)
	}
	wg.Wait()
	sort.Strings(res.Missed)
	sort.Strings(res.Alarms)
	sort.Strings(res.Skipped)
	sort.Strings(res.Details)
	sort.Strings(res.DocumentedNA)
	return res
}
