package main

import (
	"fmt"
	"go/token"
	"go/types"
	"sort"
	"strings"

	"golang.org/x/tools/go/ssa"
)

func init() {
	register("C03", &propDef{run: runC03,
		explain: "Monotonicity of emitted time is numeric and schedule dependent and is NOT decided as such. Decided structural necessary conditions: (R1) every pack handlePack returns for emission ends with a tick appended after all messages, the tick's value is the value published with UnsafeUpdateTSInfo, and the opening tick is prepended only under lastSendTs==0; (R2) publishing the tick and enqueueing the pack happen inside one critical section of the channel's key lock; (R3) the tick value and the re-shift base are read inside that section (Unsafe* reads), and the tick is only replaced by the pack's end time when the pack was actually re-timed; (R4) the clock fields of tsInfo are written only by CollectTS, InitTSInfo, UnsafeUpdatePackTS and UnsafeUpdateTSInfo, the first two under the key lock, and every Unsafe* call site lies inside a LockTargetChannel span of the same key; (R5) the four tables of supported message types agree (isSupportedMsgType, handlePack's type switch, resetMsgTimestamp, the writer's name-mapping arms) and every re-timing arm writes all time fields; (R6) the clock floor is collected from the stream's own seek position before the stream is opened; (R7) the channel clock sees a pack's begin time before the pack is re-timed and its new end time afterwards; (R8) complete decision table of UnsafeUpdatePackTS: the re-shift callback runs exactly when the last sent tick is not below the pack's begin time, and its result moves the clock only when it reports a re-shift; (R9) in resetMsgPackTimestamp messages with equal source time get equal new time.",
		notDec:  []string{"numeric monotonicity over arrival interleavings", "behaviour across pause/resume beyond the clock-floor ordering", "the delta arithmetic itself"},
	})
}

// tsLockGen extends the lock facts with the per-channel key lock exposed by tsManager.
func (w *World) tsLockGen(in ssa.Instruction) (add []string, kill []string) {
	a, k := w.lockFactsGen(in)
	if c, ok := in.(*ssa.Call); ok {
		s := callSym(c.Common())
		if s.recv == "tsManager" && (s.name == "LockTargetChannel" || s.name == "UnLockTargetChannel") {
			key := "W:tsChannel[" + w.accessPath(callArgs(c.Common())[0]) + "]"
			if s.name == "LockTargetChannel" {
				a = append(a, key)
			} else {
				k = append(k, key)
			}
		}
	}
	return a, k
}

func runC03(w *World, r *Report) {
	r.Rule("C03-R1", "closing tick, published", "every emitting return of handlePack is dominated by the append of a TimeTickMsg carrying the tick value, by UnsafeUpdateTSInfo(key, that value, …), and no message is appended after the tick; the opening tick is prepended only under lastSendTs == 0", 4)
	r.Rule("C03-R2", "publish and enqueue in one critical section", "the enqueue of a pack on the channel's downstream queue (SendTargetMsg) happens inside the LockTargetChannel span in which its tick was published", 1)
	r.Rule("C03-R3", "fresh clock read", "the tick value comes from UnsafeGetMaxTS (read inside the span) and is replaced by newPack.EndTs only on the path where resetMsgPackTimestamp returned true", 3)
	r.Rule("C03-R4", "clock-field discipline", "tsInfo.cts/lts/sts are written only in CollectTS, InitTSInfo, UnsafeUpdatePackTS, UnsafeUpdateTSInfo; CollectTS and InitTSInfo hold the key lock; every Unsafe* call site is inside a LockTargetChannel span with the same key", 12)
	r.Rule("C03-R5", "re-timing covers every supported type and every time field", "isSupportedMsgType == arms of handlePack == arms of resetMsgTimestamp (default panics) == name-mapping arms of HandleReplicateMessage; each resetMsgTimestamp arm writes BeginTimestamp, EndTimestamp (Timestamps for Insert/Delete) and the position timestamp; resetMsgPackTimestamp writes BeginTs, EndTs and all start/end position timestamps", 13)
	r.Rule("C03-R6", "clock floor before the stream is opened", "AddCollection: collectionSourceSeekPosition(sourceInfo.SeekPosition, sourceInfo.StartTs) dominates GetStreamChan; startReadChannel: InitTSInfo receives the handler's seek timestamp", 3)
	r.Rule("C03-R7", "the channel clock sees a pack before and after re-timing", "CollectTS(key, beginTS) dominates the first resetMsgPackTimestamp; its true outcome is followed by CollectTS(key, newPack.EndTs) before the lock is taken", 2)
	r8 := r.Rule("C03-R8", "decision table of UnsafeUpdatePackTS", "cells {entry present?} x {lts <,=,> beginTS} x {callback reports re-shift?}: callback called iff present && lts >= beginTS with the channel clock as argument; cts = callback result iff it reported a re-shift", 12)
	r8.Exhaustive = true
	r.Rule("C03-R9", "equal source time stays equal", "resetMsgPackTimestamp: on the branch where a message has the previous message's begin time its delta is the previous delta", 1)

	m := buildHPModel(w)
	if m.Err != "" {
		r.Undecided("C03-R1", "handlePack model", 0, m.Err)
		return
	}
	fn, fam := m.Fn, m.Fam
	calls := func(name string) []*ssa.Call {
		var out []*ssa.Call
		eachInstr(fn, func(in ssa.Instruction) {
			if c, ok := in.(*ssa.Call); ok && callSym(c.Common()).name == name {
				out = append(out, c)
			}
		})
		return out
	}

	// ---------- R1
	var genTS *ssa.Alloc // the captured tick variable
	upd := calls("UnsafeUpdateTSInfo")
	if len(upd) == 1 {
		if u, ok := callArgs(upd[0].Common())[1].(*ssa.UnOp); ok {
			genTS, _ = fam.canon(u.X).(*ssa.Alloc)
		}
	}
	if m.TickAppend == nil || len(upd) != 1 {
		r.Fail("C03-R1", "handlePack | closing tick", fn.Pos(), fmt.Sprintf("closing tick append found=%v, UnsafeUpdateTSInfo calls=%d", m.TickAppend != nil, len(upd)))
	} else {
		empty := w.Obj(pkgAPI, "EmptyMsgPack")
		nRet, okAll := 0, true
		eachInstr(fn, func(in ssa.Instruction) {
			ret, isR := in.(*ssa.Return)
			if !isR || ret.Block().Comment == "recover" {
				return
			}
			v := returnedValue(ret, 0)
			if isNilConst(v) {
				return
			}
			if u, isU := v.(*ssa.UnOp); isU {
				if g, isG := u.X.(*ssa.Global); isG && empty != nil && g.Object() == empty {
					return
				}
			}
			nRet++
			if !instrDominates(m.TickAppend, ret) || !instrDominates(upd[0], ret) {
				okAll = false
			}
		})
		r.Check(okAll && nRet >= 1, "C03-R1", "handlePack | emitting returns are dominated by tick append and publish", m.TickAppend.Pos(), fmt.Sprintf("%d emitting return(s)", nRet), "a pack can be returned for emission without a closing tick or without publishing its tick")
		// tick value = generateTS
		okVal := false
		tc := m.TickAppend.Val.(*ssa.Call)
		for _, v := range backSlice(tc.Call.Args[1], SliceOpts{MaxDepth: 6}) {
			al, isAl := v.(*ssa.Alloc)
			if !isAl {
				continue
			}
			if pt, isP := al.Type().(*types.Pointer); !isP || !typeIs(pt.Elem(), pkgMsgstream, "TimeTickMsg") {
				continue
			}
			pvB := w.resolveFieldPath(fam, w.accessPath(al), []string{"BaseMsg", "BeginTimestamp"}, m.TickAppend, 0)
			pvE := w.resolveFieldPath(fam, w.accessPath(al), []string{"BaseMsg", "EndTimestamp"}, m.TickAppend, 0)
			same := func(pv PathValue) bool {
				if len(pv.Vals) == 0 {
					return false
				}
				for _, x := range pv.Vals {
					u, isU := x.(*ssa.UnOp)
					if !isU || genTS == nil || fam.canon(u.X) != ssa.Value(genTS) {
						return false
					}
				}
				return true
			}
			if same(pvB) && same(pvE) {
				okVal = true
			}
		}
		r.Check(okVal, "C03-R1", "handlePack | tick carries the published value", m.TickAppend.Pos(), "Begin/EndTimestamp of the tick = the value given to UnsafeUpdateTSInfo", "the closing tick's timestamp is not the value that is published as last sent time")
		// nothing appended after the tick except the opening-tick prepend
		okAfter := true
		var prepend *ssa.Store
		eachInstr(fn, func(in ssa.Instruction) {
			st, isSt := in.(*ssa.Store)
			if !isSt || st == m.TickAppend || !strings.HasSuffix(w.accessPath(st.Addr), ".Msgs") || !instrReaches(m.TickAppend, st) || loopHeaderOf(st.Block()) != nil {
				return
			}
			c, isC := st.Val.(*ssa.Call)
			if !isC {
				okAfter = false
				return
			}
			// prepend: append([]TsMsg{beginTick}, newPack.Msgs...)
			if strings.HasSuffix(w.accessPath(c.Call.Args[1]), ".Msgs") {
				prepend = st
			} else {
				okAfter = false
			}
		})
		r.Check(okAfter, "C03-R1", "handlePack | nothing follows the closing tick", m.TickAppend.Pos(), "only the opening-tick prepend comes after it", "a message is appended after the closing tick: it leaves with a timestamp above its own pack's tick")
		okPre := prepend != nil
		if prepend != nil {
			okPre = false
			for _, b := range fn.Blocks {
				cond, t, _, isIf := ifSuccs(b)
				if !isIf || !(t == prepend.Block() || t.Dominates(prepend.Block())) {
					continue
				}
				for _, v := range backSlice(cond, SliceOpts{MaxDepth: 5}) {
					if c, isC := v.(*ssa.Call); isC && callSym(c.Common()).name == "UnsafeGetLastSendTS" {
						okPre = true
					}
				}
			}
		}
		r.Check(okPre, "C03-R1", "handlePack | opening tick only on the first pack", fn.Pos(), "prepend guarded by UnsafeGetLastSendTS()==0", "the opening tick is not restricted to the first pack of the channel")
	}

	// ---------- R2
	ih := w.Func(pkgReader, "replicateChannelHandler", "innerHandleReplicateMsg")
	if ih == nil {
		r.Undecided("C03-R2", "innerHandleReplicateMsg", 0, "anchor not found")
	} else {
		var send *ssa.Call
		eachInstr(ih, func(in ssa.Instruction) {
			if c, ok := in.(*ssa.Call); ok && callSym(c.Common()).name == "SendTargetMsg" {
				send = c
			}
		})
		cons := "(*replicateChannelHandler).innerHandleReplicateMsg | enqueue inside the publishing span"
		if send == nil {
			r.Fail("C03-R2", cons, ih.Pos(), "SendTargetMsg call not found")
		} else {
			held := factsBefore(ih, w.tsLockGen, send)
			in := false
			for f := range held {
				if strings.HasPrefix(f, "W:tsChannel[") {
					in = true
				}
			}
			r.Check(in, "C03-R2", cons, send.Pos(), "key lock held at the enqueue", "handlePack publishes the pack's tick under the channel's key lock and releases it on return; the pack is enqueued afterwards without the lock, so two stream goroutines of one channel can enqueue in the opposite order of their ticks (the tick seen downstream goes backwards)")
		}
	}

	// ---------- R3
	if genTS == nil {
		r.Fail("C03-R3", "handlePack | tick variable", fn.Pos(), "cannot identify the tick variable")
	} else {
		var lock *ssa.Call
		for _, c := range calls("LockTargetChannel") {
			lock = c
		}
		for _, st := range fam.stores[genTS] {
			vp := w.accessPath(st.Val)
			cons := fmt.Sprintf("%s | tick value <- %s", shortFn2(st.Parent()), vp)
			switch {
			case strings.HasPrefix(vp, "call:UnsafeGetMaxTS@"):
				okIn := lock != nil && st.Parent() == fn && instrDominates(lock, st)
				r.Check(okIn, "C03-R3", cons, st.Pos(), "read inside the key-lock span", "the tick value is read before the channel's key lock is taken: a concurrent stream's newer tick is not seen")
			case strings.HasSuffix(vp, ".EndTs"):
				// must be control dependent on reset == true
				okReset := false
				g := st.Parent()
				for _, b := range g.Blocks {
					cond, t, _, isIf := ifSuccs(b)
					if !isIf || !(t == st.Block() || t.Dominates(st.Block())) {
						continue
					}
					if c, isC := cond.(*ssa.Call); isC && callSym(c.Common()).name == "resetMsgPackTimestamp" {
						okReset = true
					}
					for _, v := range backSlice(cond, SliceOpts{MaxDepth: 3}) {
						if c, isC := v.(*ssa.Call); isC && callSym(c.Common()).name == "resetMsgPackTimestamp" {
							okReset = true
						}
					}
				}
				r.Check(okReset, "C03-R3", cons, st.Pos(), "only when the pack was re-timed", "the tick is set to the pack's end time even when the pack was not re-timed (a pack without messages keeps its raw source time): the closing tick can go below the previous one")
			default:
				r.Fail("C03-R3", cons, st.Pos(), "the tick value is taken from an unexpected source")
			}
		}
		// the unlocked GetMaxTS must not feed the tick
		for _, c := range calls("GetMaxTS") {
			bad := false
			for _, st := range fam.stores[genTS] {
				for _, v := range backSlice(st.Val, SliceOpts{MaxDepth: 5}) {
					if v == ssa.Value(c) {
						bad = true
					}
				}
			}
			r.Check(!bad, "C03-R3", "handlePack | unlocked GetMaxTS does not feed the tick", c.Pos(), "used only for the first shift", "the tick is computed from the clock value read before the lock")
		}
	}

	// ---------- R4
	tsInfo := w.Named(pkgReader, "tsInfo")
	clock := map[string]bool{"cts": true, "lts": true, "sts": true}
	writers := map[string]bool{"CollectTS": true, "InitTSInfo": true, "UnsafeUpdatePackTS": true, "UnsafeUpdateTSInfo": true}
	if tsInfo == nil {
		r.Undecided("C03-R4", "tsInfo", 0, "type not found")
	} else {
		for _, g := range w.RepoFuncs() {
			if g.Pkg.Pkg.Path() != pkgReader {
				continue
			}
			k := map[string]int{}
			eachInstr(g, func(in ssa.Instruction) {
				st, ok := in.(*ssa.Store)
				if !ok {
					return
				}
				fa, ok := st.Addr.(*ssa.FieldAddr)
				if !ok || !typeIs(fa.X.Type(), pkgReader, "tsInfo") {
					return
				}
				f := fieldName(fa.X.Type(), fa.Field)
				if !clock[f] {
					return
				}
				// literal construction is not a clock update
				if _, isAl := fa.X.(*ssa.Alloc); isAl {
					return
				}
				k[f]++
				host := fnSym(rootFunc(g))
				cons := fmt.Sprintf("%s | write tsInfo.%s#%d", shortFn2(g), f, k[f])
				okW := host.recv == "tsManager" && writers[host.name]
				if okW && (host.name == "CollectTS" || host.name == "InitTSInfo") {
					held := w.locksHeldAt(st)
					okW = heldSuffix(held, ".channelTSLocks", "W")
				}
				r.Check(okW, "C03-R4", cons, st.Pos(), "inside a clock writer", "a clock field of the channel is written outside the four clock writers (or without the key lock)")
			})
		}
		// Unsafe* call sites inside LockTargetChannel span with the same key
		nU := map[string]int{}
		for _, g := range w.RepoFuncs() {
			if g.Pkg.Pkg.Path() != pkgReader {
				continue
			}
			eachInstr(g, func(in ssa.Instruction) {
				c, ok := in.(*ssa.Call)
				if !ok {
					return
				}
				s := callSym(c.Common())
				if s.recv != "tsManager" || !strings.HasPrefix(s.name, "Unsafe") {
					return
				}
				nU[s.name]++
				cons := fmt.Sprintf("%s | %s#%d inside the key-lock span", shortFn2(g), s.name, nU[s.name])
				key := "W:tsChannel[" + w.accessPath(callArgs(c.Common())[0]) + "]"
				held := factsBefore(g, w.tsLockGen, c)
				r.Check(held[key], "C03-R4", cons, c.Pos(), "LockTargetChannel(same key) held", "an Unsafe* clock access is made without the channel's key lock (or with another channel's)")
			})
		}
	}

	// ---------- R5 tables
	{
		sup := supportedMsgTypes(w)
		arms := sortedKeys(m.Arms)
		var resetArms []string
		rt := w.Func(pkgReader, "", "resetMsgTimestamp")
		resetWrites := map[string]map[string]bool{}
		if rt != nil {
			eachInstr(rt, func(in ssa.Instruction) {
				if ta, ok := in.(*ssa.TypeAssert); ok && ta.CommaOk {
					if n := namedOf(ta.AssertedType); n != nil && n.Obj().Pkg() != nil && n.Obj().Pkg().Path() == pkgMsgstream {
						resetArms = append(resetArms, strings.TrimSuffix(n.Obj().Name(), "Msg"))
					}
				}
			})
			for _, fs := range msgFieldStores(w, rt) {
				if resetWrites[fs.MsgType] == nil {
					resetWrites[fs.MsgType] = map[string]bool{}
				}
				resetWrites[fs.MsgType][fs.Field] = true
			}
		}
		sort.Strings(resetArms)
		var mapArms []string
		if hrm := w.Func(pkgWriter, "ChannelWriter", "HandleReplicateMessage"); hrm != nil {
			seen := map[string]bool{}
			eachInstr(hrm, func(in ssa.Instruction) {
				if ta, ok := in.(*ssa.TypeAssert); ok {
					if n := namedOf(ta.AssertedType); n != nil && n.Obj().Pkg() != nil && n.Obj().Pkg().Path() == pkgMsgstream {
						nm := strings.TrimSuffix(n.Obj().Name(), "Msg")
						if nm != "Replicate" && !seen[nm] {
							seen[nm] = true
							mapArms = append(mapArms, nm)
						}
					}
				}
			})
		}
		sort.Strings(mapArms)
		all := map[string]bool{}
		for _, l := range [][]string{sup, arms, resetArms, mapArms} {
			for _, x := range l {
				all[x] = true
			}
		}
		has := func(l []string, x string) bool {
			for _, y := range l {
				if y == x {
					return true
				}
			}
			return false
		}
		for _, t := range sortedKeys(all) {
			a, b, c, d := has(sup, t), has(arms, t), has(resetArms, t), has(mapArms, t)
			r.Check(a && b && c && d, "C03-R5", "supported-type tables | "+t, fn.Pos(), "in all four tables", fmt.Sprintf("%s: isSupportedMsgType=%v, handlePack arm=%v, resetMsgTimestamp arm=%v, writer mapping arm=%v — an admitted type without a re-timing arm panics (or keeps source time); an arm for a type that is not admitted is dead", t, a, b, c, d))
			if c {
				need := []string{"BeginTimestamp", "EndTimestamp"}
				if t == "Insert" || t == "Delete" {
					need = append(need, "Timestamps")
				}
				var miss []string
				for _, f := range need {
					if !resetWrites[t][f] {
						miss = append(miss, f)
					}
				}
				r.Check(len(miss) == 0, "C03-R5", "resetMsgTimestamp | "+t+" arm time fields", posOf(rt), strings.Join(need, ", "), "the "+t+" arm does not rewrite "+strings.Join(miss, ", ")+": message, row and pack timestamps disagree")
			}
		}
		if rt != nil {
			// default panics; position timestamp rewritten
			hasPanic := len(panicSitesIn(rt)) > 0
			r.Check(hasPanic, "C03-R5", "resetMsgTimestamp | default arm", rt.Pos(), "unsupported type aborts loudly", "an unsupported type falls through silently with its source time")
			okPos := false
			eachInstr(rt, func(in ssa.Instruction) {
				if c, ok := in.(*ssa.Call); ok && c.Call.IsInvoke() && c.Call.Method.Name() == "SetPosition" {
					if al, isAl := baseObject(familyOf(rt), c.Call.Args[0]).(*ssa.Alloc); isAl {
						for _, fs := range fieldStoresOn(familyOf(rt), al) {
							if fs.Field != nil && fs.Field.Name() == "Timestamp" && fs.Val == ssa.Value(rt.Params[1]) {
								okPos = true
							}
						}
					}
				}
			})
			r.Check(okPos, "C03-R5", "resetMsgTimestamp | position timestamp", rt.Pos(), "position.Timestamp = new time", "the message position keeps the source timestamp")
		}
		if rp := w.Func(pkgReader, "", "resetMsgPackTimestamp"); rp != nil {
			got := map[string]bool{}
			eachInstr(rp, func(in ssa.Instruction) {
				if st, ok := in.(*ssa.Store); ok {
					ap := w.accessPath(st.Addr)
					for _, suf := range []string{".BeginTs", ".EndTs", ".StartPositions[].Timestamp", ".EndPositions[].Timestamp"} {
						if strings.HasSuffix(ap, suf) && strings.HasPrefix(ap, "param:"+rp.Params[0].Name()) {
							got[suf] = true
						}
					}
				}
			})
			r.Check(len(got) == 4, "C03-R5", "resetMsgPackTimestamp | pack time fields", rp.Pos(), "BeginTs, EndTs, start and end position timestamps", fmt.Sprintf("only %v are rewritten: pack and message timestamps disagree", sortedKeys(got)))
		}
	}

	// ---------- R6
	if ac := w.Func(pkgReader, "replicateChannelHandler", "AddCollection"); ac != nil {
		var floor, open *ssa.Call
		eachInstr(ac, func(in ssa.Instruction) {
			if c, ok := in.(*ssa.Call); ok {
				if callSym(c.Common()).name == "collectionSourceSeekPosition" {
					floor = c
				}
				if c.Call.IsInvoke() && c.Call.Method.Name() == "GetStreamChan" {
					open = c
				}
			}
		})
		ok := floor != nil && open != nil && instrDominates(floor, open)
		r.Check(ok, "C03-R6", "(*replicateChannelHandler).AddCollection | clock floor before the stream is opened", posOf(ac), "collectionSourceSeekPosition dominates GetStreamChan", "the stream is opened before its seek time was collected into the channel clock")
		if floor != nil {
			a := callArgs(floor.Common())
			src := "param:" + ac.Params[2].Name()
			okArgs := w.accessPath(a[0]) == src+".SeekPosition" && w.accessPath(a[1]) == src+".StartTs"
			r.Check(okArgs, "C03-R6", "(*replicateChannelHandler).AddCollection | floor taken from this stream's own seek position", floor.Pos(), "(sourceInfo.SeekPosition, sourceInfo.StartTs)", "the clock floor is collected from "+w.accessPath(a[0])+" instead of the added stream's own seek position: after a resume the stream's messages can be timed below ticks already emitted")
		}
	}
	if sr := w.Func(pkgReader, "replicateChannelHandler", "startReadChannel"); sr != nil {
		ok := false
		eachInstr(sr, func(in ssa.Instruction) {
			if c, isC := in.(*ssa.Call); isC && callSym(c.Common()).name == "InitTSInfo" {
				for _, v := range backSlice(callArgs(c.Common())[3], SliceOpts{MaxDepth: 6, ThroughArg: getterRecv}) {
					if strings.HasSuffix(w.accessPath(v), ".sourceSeekPosition") {
						ok = true
					}
				}
			}
		})
		r.Check(ok, "C03-R6", "(*replicateChannelHandler).startReadChannel | InitTSInfo receives the seek timestamp", sr.Pos(), "clock initialised from r.sourceSeekPosition", "the channel clock is not initialised from the seek position")
	}

	// ---------- R1b: the re-shift under the channel lock is on every emitting path
	{
		ups := calls("UnsafeUpdatePackTS")
		pubs := calls("UnsafeUpdateTSInfo")
		ok := len(ups) > 0 && len(pubs) > 0
		for _, p := range pubs {
			dom := false
			for _, u := range ups {
				if instrDominates(u, p) {
					dom = true
				}
			}
			if !dom {
				ok = false
			}
		}
		r.Check(ok, "C03-R1", "handlePack | re-shift under the lock precedes every tick publication", fn.Pos(), "UnsafeUpdatePackTS dominates UnsafeUpdateTSInfo", "a path publishes the closing tick without having gone through UnsafeUpdatePackTS under the channel lock: a tick of another stream that overtook this pack between its shift and the lock is not noticed, and the pack's messages end up at or below that tick")
	}

	// the pack is sorted by source time before it is re-timed (resetMsgPackTimestamp hands out new times by index)
	r.importRules(runC01, "C03-", map[string]bool{"C01-R7": true, "C01-R1": true})
	// position timestamps agree with the pack's only when the positions the handler re-times are its own copies
	// (C02-R2); time does not go back across a resume only when every channel resumes from its own checkpoint (C05-R4)
	r.importRules(runC02, "C03-", map[string]bool{"C02-R2": true})
	r.importRules(runC05, "C03-", map[string]bool{"C05-R4": true})
	c03HybridTSAdvance(w, r, "C03-R11")

	// ---------- R10: joining an existing channel entry never moves its clock back
	r.Rule("C03-R10", "a second handler cannot set the channel clock back", "InitTSInfo: on an entry that already exists, cts is assigned the seek timestamp only under `cts == 0 || cts < c` (the store is dominated by a comparison of the entry's cts with the new value)", 1)
	if it := w.Func(pkgReader, "tsManager", "InitTSInfo"); it != nil {
		n := 0
		eachInstr(it, func(in ssa.Instruction) {
			st, ok := in.(*ssa.Store)
			if !ok {
				return
			}
			fa, ok := st.Addr.(*ssa.FieldAddr)
			if !ok || fieldName(fa.X.Type(), fa.Field) != "cts" {
				return
			}
			// existing entry: the base comes from channelTS2.Get, not from a literal
			if _, isAl := baseObject(familyOf(it), fa.X).(*ssa.Alloc); isAl {
				return
			}
			n++
			guarded := false
			for _, b := range it.Blocks {
				cond, t, f, isIf := ifSuccs(b)
				if !isIf {
					continue
				}
				bo, isB := cond.(*ssa.BinOp)
				if !isB {
					continue
				}
				xp, yp := w.accessPath(bo.X), w.accessPath(bo.Y)
				lt := (bo.Op == token.LSS && strings.HasSuffix(xp, ".cts") && bo.Y == st.Val) || (bo.Op == token.GTR && strings.HasSuffix(yp, ".cts") && bo.X == st.Val)
				ge := (bo.Op == token.GEQ && strings.HasSuffix(xp, ".cts") && bo.Y == st.Val) || (bo.Op == token.LEQ && strings.HasSuffix(yp, ".cts") && bo.X == st.Val)
				if lt && (t == st.Block() || t.Dominates(st.Block()) || blockReach(t, map[*ssa.BasicBlock]bool{f: true})[st.Block()]) && !blockReach(f, nil)[st.Block()] {
					guarded = true
				}
				if ge && !blockReach(t, nil)[st.Block()] {
					guarded = true
				}
			}
			r.Check(guarded, "C03-R10", fmt.Sprintf("(*tsManager).InitTSInfo | cts of an existing entry #%d", n), st.Pos(), "only raised", "the clock of a channel that already has an entry is overwritten with the joining handler's seek time without comparing: a handler with an older checkpoint sets the shared clock back, and the next ticks and data on that channel go backwards")
		})
		if n == 0 {
			r.Undecided("C03-R10", "(*tsManager).InitTSInfo | cts of an existing entry", it.Pos(), "no assignment of cts on an existing entry found")
		}
	} else {
		r.Undecided("C03-R10", "InitTSInfo", 0, "anchor not found")
	}

	// ---------- R7
	{
		collects := calls("CollectTS")
		resets := calls("resetMsgPackTimestamp")
		var firstReset *ssa.Call
		for _, c := range resets {
			if firstReset == nil || instrDominates(c, firstReset) {
				firstReset = c
			}
		}
		okBegin := false
		for _, c := range collects {
			ap := w.accessPath(callArgs(c.Common())[1])
			if firstReset != nil && instrDominates(c, firstReset) && (strings.Contains(ap, "beginTS") || strings.HasSuffix(ap, ".BeginTs") || strings.HasPrefix(ap, "phi:")) {
				okBegin = true
			}
		}
		r.Check(okBegin, "C03-R7", "handlePack | CollectTS(beginTS) before the first re-timing", fn.Pos(), "dominates resetMsgPackTimestamp", "the pack is re-timed against a channel clock that has not seen the pack's own begin time")
		okEnd := false
		if firstReset != nil {
			resetPack := baseObject(familyOf(fn), firstReset.Call.Args[0])
			for _, c := range collects {
				if !strings.HasSuffix(w.accessPath(callArgs(c.Common())[1]), ".EndTs") {
					continue
				}
				// the end time collected is that of the pack that was just re-timed, not of the source pack
				samePack := false
				for _, x := range backSlice(callArgs(c.Common())[1], SliceOpts{MaxDepth: 5}) {
					if fa, isFA := x.(*ssa.FieldAddr); isFA && baseObject(familyOf(fn), fa.X) == resetPack {
						samePack = true
					}
				}
				if !samePack {
					continue
				}
				for _, b := range fn.Blocks {
					cond, t, _, isIf := ifSuccs(b)
					if isIf && cond == ssa.Value(firstReset) && (t == c.Block() || t.Dominates(c.Block())) {
						for _, l := range calls("LockTargetChannel") {
							if instrReaches(c, l) {
								okEnd = true
							}
						}
					}
				}
			}
		}
		r.Check(okEnd, "C03-R7", "handlePack | CollectTS(newPack.EndTs) after a re-timing", fn.Pos(), "on the true outcome of the first reset, before the lock", "after a pack was shifted its new end time is not collected: the next pack can be shifted into the same range")
	}

	// ---------- R8 decision table of UnsafeUpdatePackTS
	if up := w.Func(pkgReader, "tsManager", "UnsafeUpdatePackTS"); up != nil && len(up.Params) == 4 {
		for _, present := range []bool{true, false} {
			for _, ord := range []struct {
				name     string
				lts, beg int64
			}{{"lts<begin", 1, 2}, {"lts==begin", 2, 2}, {"lts>begin", 3, 2}} {
				for _, shifted := range []bool{true, false} {
					called := false
					var cbArg any
					stored := map[string]any{}
					env := &AbsEnv{W: w, Params: map[string]any{up.Params[2].Name(): ord.beg},
						Load: func(path string) (any, bool) {
							switch {
							case strings.HasSuffix(path, ".lts"):
								return ord.lts, true
							case strings.HasSuffix(path, ".cts"):
								return int64(7), true
							}
							return nil, false
						},
						Call: func(c *ssa.CallCommon, args []any) (any, bool) {
							if callSym(c).name == "Get" {
								return aTuple{aOpaqueT{"tsinfo"}, present}, true
							}
							if c.Value == ssa.Value(up.Params[3]) {
								called = true
								if len(args) > 0 {
									cbArg = args[0]
								}
								return aTuple{int64(42), shifted}, true
							}
							return nil, false
						}}
					// observe stores to cts
					res := absEvalFuncObs(up, env, func(path string, v any) {
						stored[path] = v
					})
					cell := fmt.Sprintf("(*tsManager).UnsafeUpdatePackTS | present=%v %s callback-shifted=%v", present, ord.name, shifted)
					if res.Err != "" {
						r.Undecided("C03-R8", cell, up.Pos(), "abstract evaluation failed: "+res.Err)
						continue
					}
					wantCall := present && ord.lts >= ord.beg
					wantStore := wantCall && shifted
					var gotStore any
					for p, v := range stored {
						if strings.HasSuffix(p, ".cts") {
							gotStore = v
						}
					}
					ok := called == wantCall && (gotStore != nil) == wantStore
					if wantCall && called {
						if a, isI := cbArg.(int64); !isI || a != 7 {
							ok = false
						}
					}
					if wantStore && gotStore != nil {
						if a, isI := gotStore.(int64); !isI || a != 42 {
							ok = false
						}
					}
					r.Check(ok, "C03-R8", cell, up.Pos(), fmt.Sprintf("callback=%v, clock moved=%v", wantCall, wantStore), fmt.Sprintf("callback called=%v (want %v), clock moved=%v (want %v): a pack whose first time is not above the last sent tick must be re-shifted, and only then", called, wantCall, gotStore != nil, wantStore))
				}
			}
		}
	} else {
		r.Undecided("C03-R8", "UnsafeUpdatePackTS", 0, "anchor not found or signature changed")
	}

	// ---------- R9
	if rp := w.Func(pkgReader, "", "resetMsgPackTimestamp"); rp != nil {
		ok := false
		eachInstr(rp, func(in ssa.Instruction) {
			st, isSt := in.(*ssa.Store)
			if !isSt {
				return
			}
			ia, isIA := st.Addr.(*ssa.IndexAddr)
			if !isIA {
				return
			}
			// value is a load of the same slice at index-1
			u, isU := st.Val.(*ssa.UnOp)
			if !isU || u.Op != token.MUL {
				return
			}
			ib, isIB := u.X.(*ssa.IndexAddr)
			if !isIB || baseObject(familyOf(rp), ib.X) != baseObject(familyOf(rp), ia.X) {
				return
			}
			bo, isB := ib.Index.(*ssa.BinOp)
			if !isB || bo.Op != token.SUB || bo.X != ia.Index {
				return
			}
			if c, isC := bo.Y.(*ssa.Const); !isC || c.Value == nil || c.Value.ExactString() != "1" {
				return
			}
			// under the equal-time branch
			for _, b := range rp.Blocks {
				cond, t, _, isIf := ifSuccs(b)
				if !isIf || !(t == st.Block() || t.Dominates(st.Block())) {
					continue
				}
				for _, v := range backSlice(cond, SliceOpts{MaxDepth: 5}) {
					if cmp, isC := v.(*ssa.BinOp); isC && cmp.Op == token.EQL {
						for _, o := range []ssa.Value{cmp.X, cmp.Y} {
							if c2, isC2 := o.(*ssa.Call); isC2 && c2.Call.IsInvoke() && c2.Call.Method.Name() == "BeginTs" {
								ok = true
							}
						}
					}
				}
			}
		})
		r.Check(ok, "C03-R9", "resetMsgPackTimestamp | equal begin time -> equal delta", rp.Pos(), "deltas[i] = deltas[i-1] on the equal-time branch", "messages that had the same source timestamp are emitted with different timestamps (an upsert's delete and insert no longer share a time)")
	} else {
		r.Undecided("C03-R9", "resetMsgPackTimestamp", 0, "anchor not found")
	}
}

// c03HybridTSAdvance (C03-R11, shared with C05): a hybrid timestamp is (physical ms << 18 | logical). The resume floor is
// built from the persisted physical milliseconds; "the next instant" after a recorded time t is ComposeTS(t+1, 0).
// Adding a small constant to a composed timestamp advances the logical part only and stays inside the recorded
// millisecond, below ticks already delivered at (t, L >= 2).
func c03HybridTSAdvance(w *World, r *Report, rule string) {
	r.Rule(rule, "a composed timestamp is not advanced by a logical step", "in the anchored functions (and what they call) no constant smaller than one physical unit (2^18) is added to the result of tsoutil.ComposeTS / ComposeTSByTime: the floor after a recorded millisecond is the next millisecond", 0)
	n, bad := 0, 0
	for _, root := range anchoredFuncs(w, r.Prop) {
		for _, fn := range familyOf(root).Funcs {
			eachInstr(fn, func(in ssa.Instruction) {
				bo, ok := in.(*ssa.BinOp)
				if !ok || bo.Op != token.ADD {
					return
				}
				for _, pair := range [][2]ssa.Value{{bo.X, bo.Y}, {bo.Y, bo.X}} {
					c, isC := pair[1].(*ssa.Const)
					if !isC || c.Value == nil {
						continue
					}
					isCompose := false
					for _, v := range backSlice(pair[0], SliceOpts{MaxDepth: 3, NoAggregates: true}) {
						if call, isCall := v.(*ssa.Call); isCall {
							if nm := callSym(call.Common()).name; nm == "ComposeTS" || nm == "ComposeTSByTime" {
								isCompose = true
							}
						}
					}
					if !isCompose {
						continue
					}
					n++
					if k := c.Uint64(); k > 0 && k < 1<<18 {
						bad++
						r.Fail(rule, fmt.Sprintf("%s | ComposeTS(...) + %d #%d", shortFn2(fn), k, bad), bo.Pos(), "the composed timestamp is advanced by a logical step only: the value stays inside the recorded millisecond, so a stream resumed from it is floored below ticks that were already delivered with a larger logical part — time goes backwards across the resume")
					}
				}
			})
		}
	}
	if bad == 0 {
		r.OK(rule, "census", 0, fmt.Sprintf("%d additions to a composed timestamp inspected", n))
	}
}
