package main

import (
	"fmt"
	"strings"
	"go/token"
	"go/types"

	"golang.org/x/tools/go/ssa"
)

func init() {
	register("C17", &propDef{run: runC17,
		explain: "Structural necessary conditions of 'drop-message readiness accumulates, persists, is removable' decided on core/meta: (R1) every store.Put in UpdateTaskDrop{Collection,Partition}Msg persists a value whose in-memory map entry was assigned from the same variable with no modification in between; (R2) RemoveTaskMsg deletes from every table the Update methods write; (R3) Reload handles every MetaMsgType constant and fills every table; (R4) the merge branch combines old and new ready channels with a union and the readiness result is IsReady of the persisted value; (R5) store and memory use the same (task,msg) key. Behaviour over report sequences is not executed.",
		notDec:  []string{"equality of memory and store along arbitrary histories (only the per-call write-through shape is decided)", "crash between memory update and store write", "semantics of lo.Union / IsReady themselves"},
	})
}

// varRoot strips loads and returns the Alloc/Parameter a struct value is read from.
func varRoot(v ssa.Value) ssa.Value {
	for i := 0; i < 6; i++ {
		switch x := v.(type) {
		case *ssa.UnOp:
			if x.Op == token.MUL {
				v = x.X
				continue
			}
		case *ssa.FieldAddr:
			v = x.X
			continue
		case *ssa.Field:
			v = x.X
			continue
		case *ssa.ChangeType:
			v = x.X
			continue
		case *ssa.MakeInterface:
			v = x.X
			continue
		}
		break
	}
	return v
}

// fieldsOnSlice lists the struct fields (types.Var) whose address or value occurs in a backward slice.
func fieldsInSlice(vals []ssa.Value) map[*types.Var]bool {
	out := map[*types.Var]bool{}
	for _, v := range vals {
		switch x := v.(type) {
		case *ssa.FieldAddr:
			if f := fieldVar(x.X.Type(), x.Field); f != nil {
				out[f] = true
			}
		case *ssa.Field:
			if f := fieldVar(x.X.Type(), x.Field); f != nil {
				out[f] = true
			}
		}
	}
	return out
}

func runC17(w *World, r *Report) {
	r.Rule("C17-R1", "write-through agreement", "every store.Put(key, X.ConvertToMetaMsg()) in UpdateTaskDrop*Msg has a map assignment tables[task][msg] = X from the same variable X, with no write to X between the two reads", 6)
	r.Rule("C17-R2", "removal covers every table", "every map field of ReplicateMeteImpl written by an Update* method is deleted from in RemoveTaskMsg under the same (task,msg) key, and the store key is removed", 4)
	r.Rule("C17-R3", "reload exhaustiveness", "Reload has a case for every MetaMsgType constant and assigns into every table", 4)
	r.Rule("C17-R9", "tables are keyed [task][message] everywhere", "every lookup or update of dropCollectionMsgs / dropPartitionMsgs uses a task id for the outer table and a message id for the inner one (Update*, Get*, Remove, Reload alike)", 10)
	c17KeyRoles(w, r)
	r.Rule("C17-R10", "entries are deleted by RemoveTaskMsg only, from both tables independently", "no function of ReplicateMeteImpl other than RemoveTaskMsg deletes from dropCollectionMsgs / dropPartitionMsgs (a failed store write does not throw away what earlier reports accumulated); in RemoveTaskMsg the delete from each table is reached whatever the lookup in the other table says", 3)
	c17Deletes(w, r)
	r.Rule("C17-R4", "merge is a union; readiness is of the persisted value", "in the merge branch X.Base.ReadyChannels = lo.Union(old, new); the bool returned on success is X.Base.IsReady() of the X that was persisted", 8)
	r.Rule("C17-R5", "one key for memory and store", "the MsgID/TaskID used for the in-memory entry equal those given to GetMetaKey for the Put", 6)

	impl := w.Named(pkgMeta, "ReplicateMeteImpl")
	if impl == nil {
		r.Undecided("C17-R1", "ReplicateMeteImpl", 0, "anchor type core/meta.ReplicateMeteImpl not found")
		return
	}
	st := impl.Underlying().(*types.Struct)
	// tables: map-typed fields
	tables := map[*types.Var]bool{}
	for i := 0; i < st.NumFields(); i++ {
		if _, ok := st.Field(i).Type().Underlying().(*types.Map); ok {
			tables[st.Field(i)] = true
		}
	}
	putSym := sym{pkgAPI, "ReplicateStore", "Put"}
	keySym := sym{pkgMeta, "", "GetMetaKey"}
	written := map[*types.Var]bool{}

	for _, name := range []string{"UpdateTaskDropCollectionMsg", "UpdateTaskDropPartitionMsg"} {
		fn := w.Func(pkgMeta, "ReplicateMeteImpl", name)
		if fn == nil {
			r.Undecided("C17-R1", name, 0, "anchor function not found")
			continue
		}
		fam := familyOf(fn)
		// all map updates whose map is attached to a table field
		type memWrite struct {
			mu    *ssa.MapUpdate
			root  ssa.Value
			table *types.Var
		}
		var mems []memWrite
		tableOf := func(m ssa.Value) *types.Var {
			for f := range fieldsInSlice(backSlice(m, SliceOpts{})) {
				if tables[f] {
					return f
				}
			}
			// a fresh map stored into a table
			for _, in := range fam.allInstr {
				if mu, ok := in.(*ssa.MapUpdate); ok && mu.Value == m {
					for f := range fieldsInSlice(backSlice(mu.Map, SliceOpts{})) {
						if tables[f] {
							return f
						}
					}
				}
			}
			return nil
		}
		eachInstr(fn, func(in ssa.Instruction) {
			mu, ok := in.(*ssa.MapUpdate)
			if !ok {
				return
			}
			if _, isStruct := mu.Value.Type().Underlying().(*types.Struct); !isStruct {
				return
			}
			if t := tableOf(mu.Map); t != nil {
				mems = append(mems, memWrite{mu, varRoot(mu.Value), t})
				written[t] = true
			}
		})
		puts := callsIn(fn, false, putSym)
		for i, p := range puts {
			construct := fmt.Sprintf("(*ReplicateMeteImpl).%s | Put#%d", name, i+1)
			args := callArgs(p.Common())
			if len(args) != 3 {
				r.Undecided("C17-R1", construct, p.Pos(), "unexpected Put arity")
				continue
			}
			// X: receiver of ConvertToMetaMsg feeding the value
			var conv *ssa.Call
			for _, v := range backSlice(args[2], SliceOpts{}) {
				if c, ok := v.(*ssa.Call); ok && callSym(c.Common()).name == "ConvertToMetaMsg" {
					conv = c
				}
			}
			if conv == nil {
				r.Fail("C17-R1", construct, p.Pos(), "the value persisted does not come from ConvertToMetaMsg of a task message")
				continue
			}
			convLoad := conv.Common().Args[0]
			X := varRoot(convLoad)
			// memory write from the same X
			var mw *memWrite
			for k := range mems {
				if mems[k].root == X && (instrDominates(mems[k].mu, p) || instrDominates(p, mems[k].mu)) {
					mw = &mems[k]
				}
			}
			if mw == nil {
				r.Fail("C17-R1", construct, p.Pos(), fmt.Sprintf("the value persisted is read from %s but no in-memory table entry is assigned from that variable on this path: memory and store diverge (lost update)", w.accessPath(X)))
			} else {
				// no write to X between the two reads
				bad := false
				var memLoad ssa.Instruction = mw.mu
				var cl ssa.Instruction = conv
				if al, ok := X.(*ssa.Alloc); ok {
					for _, in := range fam.allInstr {
						s, ok := in.(*ssa.Store)
						if !ok || varRoot(s.Addr) != ssa.Value(al) {
							continue
						}
						if (instrReaches(memLoad, s) && instrReaches(s, cl)) || (instrReaches(cl, s) && instrReaches(s, memLoad)) {
							bad = true
						}
					}
				}
				r.Check(!bad, "C17-R1", construct, p.Pos(), fmt.Sprintf("memory entry and persisted value both read from %s", w.accessPath(X)), "the variable is modified between the in-memory assignment and the conversion that is persisted")
			}
			// R5 key agreement
			var keyCall *ssa.Call
			for _, v := range backSlice(args[1], SliceOpts{}) {
				if c, ok := v.(*ssa.Call); ok && callSym(c.Common()) == keySym {
					keyCall = c
				}
			}
			c5 := fmt.Sprintf("(*ReplicateMeteImpl).%s | key of Put#%d", name, i+1)
			if keyCall == nil {
				r.Fail("C17-R5", c5, p.Pos(), "store key is not built by GetMetaKey")
			} else if mw != nil {
				kTask, kMsg := w.accessPath(keyCall.Call.Args[0]), w.accessPath(keyCall.Call.Args[1])
				memKey := w.accessPath(mw.mu.Key)
				ok := memKey == kMsg && kTask != kMsg
				r.Check(ok, "C17-R5", c5, p.Pos(), fmt.Sprintf("memory key %s = store msg key; task key %s", memKey, kTask), fmt.Sprintf("memory entry keyed by %s but store key built from (%s, %s)", memKey, kTask, kMsg))
			} else {
				r.Info("C17-R5", c5, p.Pos(), "no memory write to compare")
			}
			// R4: the success return after this Put reports IsReady of X
			c4 := fmt.Sprintf("(*ReplicateMeteImpl).%s | result after Put#%d", name, i+1)
			found, good := false, false
			eachInstr(fn, func(in ssa.Instruction) {
				c, ok := in.(*ssa.Call)
				if !ok || callSym(c.Common()).name != "IsReady" {
					return
				}
				if !instrDominates(p, c) {
					return
				}
				found = true
				if varRoot(c.Call.Args[0]) == X {
					good = true
				}
			})
			if !found {
				r.Fail("C17-R4", c4, p.Pos(), "no IsReady() result is computed after the Put on the success path")
			} else {
				r.Check(good, "C17-R4", c4, p.Pos(), "readiness is IsReady of the persisted variable", "readiness is computed from a different value than the one persisted")
			}
			// R4: merge branch
			if _, isParamSpill := paramSpill(fn, X); !isParamSpill {
				c4m := fmt.Sprintf("(*ReplicateMeteImpl).%s | merge before Put#%d", name, i+1)
				okU := false
				for _, in := range fam.allInstr {
					s, ok := in.(*ssa.Store)
					if !ok || varRoot(s.Addr) != X {
						continue
					}
					fa, ok := s.Addr.(*ssa.FieldAddr)
					if !ok || fieldName(fa.X.Type(), fa.Field) != "ReadyChannels" {
						continue
					}
					if !instrDominates(s, conv) {
						continue
					}
					uc, ok := s.Val.(*ssa.Call)
					if !ok || callSym(uc.Common()).name != "Union" || len(uc.Call.Args) != 2 {
						continue
					}
					r0, r1 := varRoot(uc.Call.Args[0]), varRoot(uc.Call.Args[1])
					_, p0 := paramSpill(fn, r0)
					_, p1 := paramSpill(fn, r1)
					if (r0 == X && p1) || (r1 == X && p0) {
						okU = true
					}
				}
				r.Check(okU, "C17-R4", c4m, p.Pos(), "ReadyChannels = lo.Union(existing, reported) dominates the conversion", "merge branch does not store lo.Union(existing.ReadyChannels, msg.ReadyChannels) into the value it persists")
			}
		}
		if len(puts) == 0 {
			r.Undecided("C17-R1", name, fn.Pos(), "no store.Put call found")
		}
	}

	// R6 / R7: store write inside the lock span; no success without write-through
	r.Rule("C17-R6", "store write inside the critical section", "every store.Put / store.Remove of ReplicateMeteImpl's update and remove paths executes with metaLock held for writing (Put) so that memory and store are updated as one step", 6)
	r.Rule("C17-R7", "no success without write-through", "every success return of UpdateTaskDrop*Msg is dominated by a store.Put whose error was tested", 6)
	r.Rule("C17-R8", "store operations are exact", "EtcdReplicateStore: Put/Remove address exactly rootPath/key (no WithPrefix); Get uses WithPrefix only on the withPrefix branch", 3)
	for _, name := range []string{"UpdateTaskDropCollectionMsg", "UpdateTaskDropPartitionMsg"} {
		fn := w.Func(pkgMeta, "ReplicateMeteImpl", name)
		if fn == nil {
			continue
		}
		puts := callsIn(fn, false, putSym)
		for i, p := range puts {
			held := w.locksHeldAt(p)
			r.Check(heldSuffix(held, ".metaLock", "W"), "C17-R6", fmt.Sprintf("(*ReplicateMeteImpl).%s | Put#%d under metaLock", name, i+1), p.Pos(), "write lock held", "the store write happens outside the metaLock span: two concurrent reports can persist their snapshots in the opposite order of their in-memory merges, leaving the store behind memory")
		}
		k := 0
		eachInstr(fn, func(in ssa.Instruction) {
			ret, ok := in.(*ssa.Return)
			if !ok || ret.Block().Comment == "recover" {
				return
			}
			if !isNilConst(returnedValue(ret, 1)) {
				return
			}
			k++
			okPut := false
			for _, p := range puts {
				if instrDominates(p, ret) {
					okPut = true
				}
			}
			r.Check(okPut, "C17-R7", fmt.Sprintf("(*ReplicateMeteImpl).%s | success return #%d", name, k), ret.Pos(), "dominated by a store.Put", "a report is acknowledged without having been written through to the store (a report whose earlier write failed is never repaired)")
		})
		if len(puts) == 0 {
			r.Fail("C17-R6", "(*ReplicateMeteImpl)."+name+" | Put census", fn.Pos(), "no store.Put call in this function: memory and store are no longer updated together")
		}
	}
	for _, m := range []string{"Put", "Remove", "Get"} {
		fn := w.Func(pkgMeta, "EtcdReplicateStore", m)
		cons := "(*EtcdReplicateStore)." + m + " | exact addressing"
		if fn == nil {
			r.Undecided("C17-R8", cons, 0, "anchor not found")
			continue
		}
		okx, det := true, ""
		n := 0
		eachInstr(fn, func(in ssa.Instruction) {
			c, ok := in.(*ssa.Call)
			if !ok || !strings.Contains(callSym(c.Common()).pkg, "etcd/client/v3") {
				return
			}
			nm := callSym(c.Common()).name
			if nm != "Put" && nm != "Delete" && nm != "Get" {
				return
			}
			n++
			wp := false
			for _, v := range backSlice(c.Call.Args[len(c.Call.Args)-1], SliceOpts{MaxDepth: 5}) {
				if cc, isC := v.(*ssa.Call); isC && callSym(cc.Common()).name == "WithPrefix" {
					wp = true
				}
			}
			if m != "Get" && wp {
				okx, det = false, "the store "+strings.ToLower(m)+" uses WithPrefix: removing message 'drop-collection-7' also removes 'drop-collection-71'"
			}
			if m == "Get" && wp {
				// must be on the withPrefix == true branch
				guarded := false
				for _, b := range fn.Blocks {
					cond, t, _, isIf := ifSuccs(b)
					if isIf && cond == ssa.Value(fn.Params[3]) && (t == c.Block() || t.Dominates(c.Block())) {
						guarded = true
					}
				}
				if !guarded {
					okx, det = false, "a prefix read is made although the caller asked for an exact key"
				}
			}
			// key = rootPath + "/" + key
			kp := c.Call.Args[len(c.Call.Args)-2]
			if nm == "Put" {
				kp = c.Call.Args[len(c.Call.Args)-3]
			}
			hasRoot, hasKey := false, false
			for _, v := range backSlice(kp, SliceOpts{MaxDepth: 6}) {
				if strings.HasSuffix(w.accessPath(v), ".rootPath") {
					hasRoot = true
				}
				if v == ssa.Value(fn.Params[2]) {
					hasKey = true
				}
			}
			if !hasRoot || !hasKey {
				okx, det = false, "the etcd key is not rootPath + \"/\" + key"
			}
		})
		r.Check(okx && n > 0, "C17-R8", cons, fn.Pos(), "exact key under the root path", det)
	}

	// R2
	rm := w.Func(pkgMeta, "ReplicateMeteImpl", "RemoveTaskMsg")
	if rm == nil {
		r.Undecided("C17-R2", "RemoveTaskMsg", 0, "anchor function not found")
	} else {
		rmCalls := callsIn(rm, false, sym{pkgAPI, "ReplicateStore", "Remove"})
		okKey := false
		for _, c := range rmCalls {
			for _, v := range backSlice(callArgs(c.Common())[1], SliceOpts{}) {
				if kc, ok := v.(*ssa.Call); ok && callSym(kc.Common()) == keySym {
					if _, a := kc.Call.Args[0].(*ssa.Parameter); a {
						if _, b := kc.Call.Args[1].(*ssa.Parameter); b && kc.Call.Args[0] != kc.Call.Args[1] {
							okKey = true
						}
					}
				}
			}
		}
		r.Check(okKey, "C17-R2", "(*ReplicateMeteImpl).RemoveTaskMsg | store.Remove", rm.Pos(), "store.Remove(GetMetaKey(taskID, msgID))", "RemoveTaskMsg does not remove GetMetaKey(taskID, msgID) from the store")
		deleted := map[*types.Var]bool{}
		eachInstr(rm, func(in ssa.Instruction) {
			c, ok := in.(*ssa.Call)
			if !ok {
				return
			}
			b, ok := c.Call.Value.(*ssa.Builtin)
			if !ok || b.Name() != "delete" {
				return
			}
			if _, isParam := c.Call.Args[1].(*ssa.Parameter); !isParam {
				return
			}
			for f := range fieldsInSlice(backSlice(c.Call.Args[0], SliceOpts{})) {
				if tables[f] {
					deleted[f] = true
				}
			}
		})
		for _, f := range sortedVars(written) {
			r.Check(deleted[f], "C17-R2", "(*ReplicateMeteImpl).RemoveTaskMsg | delete from "+f.Name(), rm.Pos(), "entry deleted", fmt.Sprintf("table %s is written by the Update methods but RemoveTaskMsg never deletes from it: the message stays in memory", f.Name()))
		}
		// only the named message: no delete of a whole task entry, no delete inside a loop
		onlyOne := true
		eachInstr(rm, func(in ssa.Instruction) {
			c, ok := in.(*ssa.Call)
			if !ok {
				return
			}
			b, ok := c.Call.Value.(*ssa.Builtin)
			if !ok || b.Name() != "delete" {
				return
			}
			if c.Call.Args[1] != ssa.Value(rm.Params[3]) || loopHeaderOf(c.Block()) != nil {
				onlyOne = false
			}
		})
		r.Check(onlyOne, "C17-R2", "(*ReplicateMeteImpl).RemoveTaskMsg | removes exactly the named message", rm.Pos(), "every delete is keyed by the msgID parameter, outside loops", "RemoveTaskMsg deletes entries other than the named message (whole task or a loop): memory and store no longer agree on what was removed")
	}

	// R3
	rl := w.Func(pkgMeta, "ReplicateMeteImpl", "Reload")
	if rl == nil {
		r.Undecided("C17-R3", "Reload", 0, "anchor function not found")
	} else {
		// constants of type MetaMsgType
		mt := w.Named(pkgAPI, "MetaMsgType")
		consts := map[string]bool{}
		if mt != nil {
			sc := w.ByPath[pkgAPI].Types.Scope()
			for _, n := range sc.Names() {
				if c, ok := sc.Lookup(n).(*types.Const); ok && types.Identical(c.Type(), mt) {
					consts[c.Val().ExactString()] = false
				}
			}
		}
		eachInstr(rl, func(in ssa.Instruction) {
			b, ok := in.(*ssa.BinOp)
			if !ok || b.Op != token.EQL {
				return
			}
			for _, o := range []ssa.Value{b.X, b.Y} {
				if c, ok := o.(*ssa.Const); ok && mt != nil && types.Identical(c.Type(), mt) {
					consts[c.Value.ExactString()] = true
				}
			}
		})
		for _, k := range sortedKeys(consts) {
			r.Check(consts[k], "C17-R3", "(*ReplicateMeteImpl).Reload | case MetaMsgType="+k, rl.Pos(), "handled", "Reload has no case for this message type: reloading loses those messages")
		}
		filled := map[*types.Var]bool{}
		eachInstr(rl, func(in ssa.Instruction) {
			mu, ok := in.(*ssa.MapUpdate)
			if !ok {
				return
			}
			if _, isStruct := mu.Value.Type().Underlying().(*types.Struct); !isStruct {
				return
			}
			for f := range fieldsInSlice(backSlice(mu.Map, SliceOpts{})) {
				if tables[f] {
					filled[f] = true
				}
			}
		})
		for _, f := range sortedVars(written) {
			r.Check(filled[f], "C17-R3", "(*ReplicateMeteImpl).Reload | fills "+f.Name(), rl.Pos(), "table rebuilt", "Reload never assigns into this table")
		}
		// R11: an unreadable store is reported, not taken for an empty one
		r.Rule("C17-R11", "a failed store read makes Reload fail", "in Reload (and NewReplicateMetaImpl) no path from the branch on which the error of store.Get is non-nil reaches a return with a nil error without reading the store again (path-sensitive in the nil tests of that error)", 1)
		nGet := 0
		for _, b := range rl.Blocks {
			v, nn, _, ok := errNilTest(b)
			if !ok {
				continue
			}
			org := errOrigin(familyOf(rl), v)
			if org == nil || callSym(org.Common()).name != "Get" {
				continue
			}
			nGet++
			ret := failureReachesSuccess(rl, v, nn, org.Block())
			pos := b.Instrs[len(b.Instrs)-1].Pos()
			detail := ""
			if ret != nil {
				detail = "after store.Get failed Reload can still return nil (at " + w.Prog.Fset.Position(ret.Pos()).String() + "): memory stays empty while the store holds reports, and the next report overwrites the stored union with a single shard"
			}
			r.Check(ret == nil, "C17-R11", fmt.Sprintf("(*ReplicateMeteImpl).Reload | error of store.Get #%d", nGet), pos, "every path from the failure leaves with an error or reads again", detail)
		}
		if nGet == 0 {
			r.Fail("C17-R11", "(*ReplicateMeteImpl).Reload | error of store.Get", rl.Pos(), "the error of store.Get is not tested in Reload")
		}
	}
}

// paramSpill reports whether v is a parameter or the local a parameter is spilled to.
func paramSpill(fn *ssa.Function, v ssa.Value) (*ssa.Parameter, bool) {
	if p, ok := v.(*ssa.Parameter); ok {
		return p, true
	}
	if al, ok := v.(*ssa.Alloc); ok {
		fam := familyOf(fn)
		sts := fam.stores[al]
		if len(sts) == 1 {
			if p, ok := sts[0].Val.(*ssa.Parameter); ok {
				return p, true
			}
		}
	}
	return nil, false
}

func sortedVars(m map[*types.Var]bool) []*types.Var {
	var out []*types.Var
	for v := range m {
		out = append(out, v)
	}
	for i := range out {
		for j := i + 1; j < len(out); j++ {
			if out[j].Name() < out[i].Name() {
				out[i], out[j] = out[j], out[i]
			}
		}
	}
	return out
}

// c17KeyRoles: C17-R9.
func c17KeyRoles(w *World, r *Report) {
	n := 0
	for _, fn := range w.RepoFuncs() {
		if fn.Pkg.Pkg.Path() != pkgMeta || fnSym(rootFunc(fn)).recv != "ReplicateMeteImpl" {
			continue
		}
		host := shortFn2(fn)
		k := 0
		eachInstr(fn, func(in ssa.Instruction) {
			var m, key ssa.Value
			switch x := in.(type) {
			case *ssa.MapUpdate:
				m, key = x.Map, x.Key
			case *ssa.Lookup:
				if _, isMap := x.X.Type().Underlying().(*types.Map); isMap {
					m, key = x.X, x.Index
				}
			case *ssa.Call:
				if b, ok := x.Call.Value.(*ssa.Builtin); ok && b.Name() == "delete" {
					m, key = x.Call.Args[0], x.Call.Args[1]
				}
			}
			if m == nil {
				return
			}
			mp := w.accessPath(m)
			outer := strings.HasSuffix(mp, ".dropCollectionMsgs") || strings.HasSuffix(mp, ".dropPartitionMsgs")
			inner := false
			if !outer {
				for _, y := range backSlice(m, SliceOpts{MaxDepth: 5, NoAggregates: true}) {
					if lk, isL := y.(*ssa.Lookup); isL {
						lp := w.accessPath(lk.X)
						if strings.HasSuffix(lp, ".dropCollectionMsgs") || strings.HasSuffix(lp, ".dropPartitionMsgs") {
							inner = true
						}
					}
				}
			}
			if !outer && !inner {
				return
			}
			kp := strings.ToLower(w.accessPath(key))
			// range keys over the tables themselves carry the role of the table level
			if strings.HasSuffix(kp, "[key]") {
				return
			}
			n++
			k++
			want := "msgid"
			level := "inner (message)"
			if outer {
				want, level = "taskid", "outer (task)"
			}
			r.Check(strings.Contains(kp, want), "C17-R9", fmt.Sprintf("%s | %s table key #%d", host, level, k), in.Pos(), "keyed by "+w.accessPath(key), "the "+level+" level of the drop-message table is keyed by "+w.accessPath(key)+": messages are filed under the wrong key, so later reports, lookups, removals or a reload no longer find them")
		})
	}
	if n < 10 {
		r.Fail("C17-R9", "table key census", 0, fmt.Sprintf("only %d keyed accesses of the drop-message tables found (10 confirmed)", n))
	}
}

// c17Deletes: C17-R10.
func c17Deletes(w *World, r *Report) {
	tableOf := func(v ssa.Value) string {
		for _, y := range backSlice(v, SliceOpts{MaxDepth: 5, NoAggregates: true}) {
			p := w.accessPath(y)
			if strings.HasSuffix(p, ".dropCollectionMsgs") {
				return "dropCollectionMsgs"
			}
			if strings.HasSuffix(p, ".dropPartitionMsgs") {
				return "dropPartitionMsgs"
			}
		}
		return ""
	}
	dels := map[string]*ssa.Call{}
	var rm *ssa.Function
	for _, fn := range w.RepoFuncs() {
		if fn.Pkg.Pkg.Path() != pkgMeta || fnSym(rootFunc(fn)).recv != "ReplicateMeteImpl" {
			continue
		}
		eachInstr(fn, func(in ssa.Instruction) {
			c, ok := in.(*ssa.Call)
			if !ok {
				return
			}
			b, isB := c.Call.Value.(*ssa.Builtin)
			if !isB || b.Name() != "delete" {
				return
			}
			t := tableOf(c.Call.Args[0])
			if t == "" {
				return
			}
			if fnSym(rootFunc(fn)).name != "RemoveTaskMsg" {
				r.Fail("C17-R10", shortFn2(fn)+" | delete from "+t, c.Pos(), "an in-memory entry is deleted outside RemoveTaskMsg: after a failed store write the shards reported so far are forgotten, and the retried report starts the set again from one shard")
				return
			}
			dels[t] = c
			rm = fn
		})
	}
	if rm == nil || len(dels) < 2 {
		r.Fail("C17-R10", "(*ReplicateMeteImpl).RemoveTaskMsg | deletes from both tables", 0, fmt.Sprintf("%d of 2 tables are deleted from", len(dels)))
		return
	}
	r.OK("C17-R10", "who may delete", rm.Pos(), "only RemoveTaskMsg")
	// independence: the delete from one table does not hang on the lookup result of the other
	for t, d := range dels {
		dep := ""
		for _, b := range rm.Blocks {
			cond, tb, fb, isIf := ifSuccs(b)
			if !isIf {
				continue
			}
			ex, isEx := cond.(*ssa.Extract)
			if !isEx {
				continue
			}
			lk, isL := ex.Tuple.(*ssa.Lookup)
			if !isL {
				continue
			}
			other := tableOf(lk.X)
			if other == "" || other == t {
				continue
			}
			rt, rf := blockReachIncl(tb), blockReachIncl(fb)
			if rt[d.Block()] != rf[d.Block()] {
				dep = other
			}
		}
		r.Check(dep == "", "C17-R10", "(*ReplicateMeteImpl).RemoveTaskMsg | delete from "+t+" is unconditional", d.Pos(), "reached whatever the other table holds", "the delete from "+t+" is only reached on one outcome of the lookup in "+dep+": a removed message stays in memory (still marked ready) although the store no longer has it")
	}
}
