package main

import (
	"fmt"
	"go/token"
	"go/types"
	"sort"
	"strings"

	"golang.org/x/tools/go/ssa"
)

func init() {
	register("C01", &propDef{run: runC01,
		explain: "Completeness and duplicate-freedom of the replicated stream under registration races, restarts and msgdispatcher behaviour are NOT decided. Decided structural necessary conditions of order, attribution and payload exactness: (R1) from the receive on a stream channel to the enqueue on the downstream queue every hop is a synchronous call or a channel with a single consuming loop, with no `go`/pool hop in between, and each stream channel has one receive site; (R2) the output pack is labelled with the input's collection id, name, source channel and task, and the stream loop labels its input with its own stream's values; (R3) the only message fields written in core/reader on messages that were read (not built) are collection id, partition id(s), shard name, begin/end timestamps, row timestamps and position; (R4) one iteration of the message loop appends at most one message, and what is appended is the message read (or its drop-type copy); (R5) insert, delete, drop-partition and drop-collection are admitted by isSupportedMsgType and each has a type-switch arm from which the append is reachable; (R6) every edge that continues the loop without appending is controlled only by the message kind, the forward flag, the collection-id consistency test or the drop-state vocabulary; (R7) the pack is sorted unconditionally before the loop and the comparator's complete decision table (6 cells) is: earlier timestamp first, on ties deletes first.",
		notDec:  []string{"completeness / absence of duplicates across registration races and restarts", "behaviour of msgdispatcher", "stability of sort.Slice for equal elements (the statement allows permutation)"},
	})
}

// c01ForwardLabel: a forwarded pack is labelled with the SOURCE physical channel of its messages' positions.
func c01ForwardLabel(w *World, r *Report) {
	hp := w.Func(pkgReader, "replicateChannelHandler", "handlePack")
	if hp == nil {
		r.Undecided("C01-R2", "handlePack | forwarded pack label", 0, "anchor not found")
		return
	}
	n := 0
	eachInstr(hp, func(in ssa.Instruction) {
		c, ok := in.(*ssa.Call)
		if !ok || callSym(c.Common()) != (sym{pkgAPI, "", "GetReplicateMsg"}) {
			return
		}
		a0 := c.Call.Args[0]
		if s, isC := constString(a0); isC && s == "" {
			return
		}
		n++
		fromSrc, fromTgt := false, ""
		for _, x := range backSlice(a0, SliceOpts{MaxDepth: 10, ThroughArg: func(cc *ssa.CallCommon) []ssa.Value {
			out := append([]ssa.Value{}, cc.Args...)
			if cc.IsInvoke() {
				out = append(out, cc.Value)
			}
			return out
		}}) {
			if cc, isCall := x.(*ssa.Call); isCall {
				if cc.Call.IsInvoke() && cc.Call.Method.Name() == "Position" {
					fromSrc = true
				}
			}
			if strings.HasSuffix(w.accessPath(x), ".sourcePChannel") && fromTgt == "" {
				// the handler's own channel is not the channel the messages were read from when handlers are keyed
				// by target channel (fewer source than target channels)
				fromTgt = "the handler's sourcePChannel"
			}
			switch y := x.(type) {
			case *ssa.FieldAddr:
				if typeIs(y.X.Type(), pkgModel, "TargetCollectionInfo") {
					fromTgt = "TargetCollectionInfo." + fieldName(y.X.Type(), y.Field)
				}
			case *ssa.Field:
				if typeIs(y.X.Type(), pkgModel, "TargetCollectionInfo") {
					fromTgt = "TargetCollectionInfo." + fieldName(y.X.Type(), y.Field)
				}
			}
			if strings.HasSuffix(w.accessPath(x), ".targetPChannel") {
				fromTgt = "targetPChannel"
			}
		}
		r.Check(fromSrc && fromTgt == "", "C01-R2", fmt.Sprintf("(*replicateChannelHandler).handlePack | forwarded pack label #%d", n), c.Pos(), "<- physical channel of the message's source position", "the forwarded pack is labelled with "+fromTgt+" (a downstream channel) instead of the source channel of its stream: the writer attributes its checkpoint to the wrong source channel")
	})
	if n == 0 {
		r.Fail("C01-R2", "(*replicateChannelHandler).handlePack | forwarded pack label", hp.Pos(), "no labelled api.GetReplicateMsg call found on the forward path")
	}
}

func runC01(w *World, r *Report) {
	r.Rule("C01-R1", "synchronous single-consumer path", "stream receive -> innerHandleReplicateMsg -> handlePack -> SendTargetMsg are plain calls (no go / pool submit inside them, nor in forwardMsg, which hands a forwarded pack to the receiving handler); forwardPackChan and generatePackChan are received only inside startReadChannel's goroutine (and GreedyConsumeChan called from it); each GetStreamChan result has one receive site", 6)
	defer c01ForwardLabel(w, r)
	// the -1 "partition dropped" sentinel that lets handlePack skip a message never comes with an error; a collection is
	// registered for replication atomically, so a second announcement cannot start a second stream (shared with C06/C13)
	defer r.importRules(runC06, "C01-", map[string]bool{"C06-R4": true})
	// "minus only messages addressed to a collection or partition that is already dropped on both sides": the dropped
	// sets are filled only when the drop request was handed over or the catalog says so (C04-R5, C04-R9); a stopped
	// handler's channel entry is removed so that the next one announces the channel again (C03-R4 clock-field discipline)
	defer r.importRules(runC04, "C01-", map[string]bool{"C04-R5": true, "C04-R9": true})
	defer r.importRules(runC03, "C01-", map[string]bool{"C03-R4": true})
	defer r.importRules(runC13, "C01-", map[string]bool{"C13-R3": true})
	// tick-only packs carry the stream's checkpoint position: the positions of an output pack are the pack's own copies
	defer r.importRules(runC02, "C01-", map[string]bool{"C02-R2": true, "C02-R11": true})
	r.Rule("C01-R2", "attribution", "innerHandleReplicateMsg copies CollectionID, CollectionName, PChannelName, TaskID from its input message to the pack it enqueues; the stream loop builds its input with its own sourceInfo.PChannel, targetInfo.CollectionName, collectionID and taskID", 8)
	r.Rule("C01-R3", "payload write-whitelist", "stores into fields of messages that were read from a pack (any function of core/reader) touch only CollectionID, PartitionID, PartitionIDs, ShardName, BeginTimestamp, EndTimestamp, Timestamps, MsgPosition", 20)
	r.Rule("C01-R4", "append at most once, only what was read", "no path through one iteration of the message loop passes two appends; the appended value is the range element or copyDropTypeMsg of it", 3)
	r.Rule("C01-R5", "the four message kinds are supported end to end", "isSupportedMsgType admits Insert, Delete, DropPartition, DropCollection and each has an arm from which the local append is reachable", 4)
	r.Rule("C01-R6", "every skip is justified by message kind or drop state", "each loop-continuing edge that bypasses the append is controlled only by conditions over: message type, forward flag, collection-id consistency, getCollectionTargetInfo()==nil, .Dropped, isDropped*/isDroppingPartition, partition id == -1, empty partition name, mixed forward/local pack", 15)
	r7 := r.Rule("C01-R7", "sorted before processing; comparator decision table", "sort.Slice(pack.Msgs, less) dominates the message loop; less(i,j) = ts(i)<ts(j) || (ts(i)==ts(j) && type(i)==Delete) over all 6 cells {<,=,>} x {delete, other}", 7)
	r7.Exhaustive = true

	m := buildHPModel(w)
	if m.Err != "" {
		r.Undecided("C01-R4", "handlePack model", 0, m.Err)
		return
	}
	fn := m.Fn

	// ---------- R1
	noAsync := func(f *ssa.Function) (bool, token.Pos) {
		ok, pos := true, token.NoPos
		eachInstr(f, func(in ssa.Instruction) {
			switch x := in.(type) {
			case *ssa.Go:
				ok, pos = false, x.Pos()
			case *ssa.Call:
				if callSym(x.Common()).name == "Submit" {
					ok, pos = false, x.Pos()
				}
			}
		})
		return ok, pos
	}
	for _, spec := range []struct{ recv, name string }{{"replicateChannelHandler", "innerHandleReplicateMsg"}, {"replicateChannelHandler", "handlePack"}, {"tsManager", "SendTargetMsg"}, {"replicateChannelManager", "forwardMsg"}} {
		f := w.Func(pkgReader, spec.recv, spec.name)
		cons := fmt.Sprintf("(*%s).%s | no asynchronous hop", spec.recv, spec.name)
		if f == nil {
			r.Undecided("C01-R1", cons, 0, "anchor not found")
			continue
		}
		ok, pos := noAsync(f)
		if pos == token.NoPos {
			pos = f.Pos()
		}
		r.Check(ok, "C01-R1", cons, pos, "no go statement / pool submit in the body", "a goroutine or pool task is started on the path between reading a pack and enqueueing it: packs of one stream can overtake each other")
	}
	ac := w.Func(pkgReader, "replicateChannelHandler", "AddCollection")
	if ac == nil {
		r.Undecided("C01-R1", "AddCollection", 0, "anchor not found")
	} else {
		fam := familyOf(ac)
		var gs *ssa.Call
		eachInstr(ac, func(in ssa.Instruction) {
			if c, ok := in.(*ssa.Call); ok && c.Call.IsInvoke() && c.Call.Method.Name() == "GetStreamChan" {
				gs = c
			}
		})
		nRecv := 0
		var loopFn *ssa.Function
		var call ssa.Instruction
		if gs != nil {
			sc := extractIdx(gs, 0)
			for _, g := range fam.Funcs {
				eachInstr(g, func(in ssa.Instruction) {
					switch x := in.(type) {
					case *ssa.Select:
						for _, st := range x.States {
							if st.Dir == types.RecvOnly && baseObject(fam, st.Chan) == sc {
								nRecv++
								loopFn = g
							}
						}
					case *ssa.UnOp:
						if x.Op == token.ARROW && baseObject(fam, x.X) == sc {
							nRecv++
							loopFn = g
						}
					}
				})
			}
		}
		r.Check(nRecv == 1, "C01-R1", "(*replicateChannelHandler).AddCollection | one consumer per stream channel", ac.Pos(), "exactly one receive site on the GetStreamChan result", fmt.Sprintf("%d receive sites on the stream channel: packs are split between consumers (loss of order) or never read", nRecv))
		okSync := false
		if loopFn != nil {
			eachInstr(loopFn, func(in ssa.Instruction) {
				if c, ok := in.(*ssa.Call); ok && callSym(c.Common()).name == "innerHandleReplicateMsg" {
					okSync, call = true, in
				}
				if g, ok := in.(*ssa.Go); ok && callSym(g.Common()).name == "innerHandleReplicateMsg" {
					okSync = false
				}
			})
		}
		pos := ac.Pos()
		if call != nil {
			pos = call.Pos()
		}
		r.Check(okSync, "C01-R1", "(*replicateChannelHandler).AddCollection | stream loop handles each pack synchronously", pos, "innerHandleReplicateMsg is called (not spawned) from the receiving loop", "the receiving loop does not call innerHandleReplicateMsg synchronously")
		// R2 second half: labels of the loop's input
		if call != nil {
			var grm *ssa.Call
			for _, v := range backSlice(call.(*ssa.Call).Call.Args[2], SliceOpts{MaxDepth: 3}) {
				if c, ok := v.(*ssa.Call); ok && callSym(c.Common()).name == "GetReplicateMsg" {
					grm = c
				}
			}
			want := []struct{ idx int; what, suffix string }{{0, "source channel", ".PChannel"}, {1, "collection name", ".CollectionName"}, {2, "collection id", ".CollectionID"}, {4, "task id", "taskID"}}
			for _, wv := range want {
				cons := "(*replicateChannelHandler).AddCollection$lit | GetReplicateMsg " + wv.what
				if grm == nil {
					r.Fail("C01-R2", cons, call.Pos(), "the stream loop does not build its input with api.GetReplicateMsg")
					continue
				}
				ap := w.accessPath(grm.Call.Args[wv.idx])
				ok := strings.HasSuffix(ap, wv.suffix) && (strings.Contains(ap, "sourceInfo") || strings.Contains(ap, "targetInfo") || strings.Contains(ap, "taskID"))
				r.Check(ok, "C01-R2", cons, grm.Pos(), "<- "+ap, "the stream's packs are labelled with "+ap+" instead of this stream's own "+wv.what)
			}
		}
	}
	// single consuming loop for the two intermediate channels
	for _, ch := range []string{"forwardPackChan", "generatePackChan"} {
		var sites []string
		for _, g := range w.RepoFuncs() {
			if g.Pkg.Pkg.Path() != pkgReader {
				continue
			}
			eachInstr(g, func(in ssa.Instruction) {
				isRecv := false
				switch x := in.(type) {
				case *ssa.Select:
					for _, st := range x.States {
						if st.Dir == types.RecvOnly && strings.HasSuffix(w.accessPath(st.Chan), "."+ch) {
							isRecv = true
						}
					}
				case *ssa.UnOp:
					if x.Op == token.ARROW && strings.HasSuffix(w.accessPath(x.X), "."+ch) {
						isRecv = true
					}
				case *ssa.Call:
					// passed to GreedyConsumeChan
					if callSym(x.Common()).name == "GreedyConsumeChan" && strings.HasSuffix(w.accessPath(x.Call.Args[0]), "."+ch) {
						isRecv = true
					}
				}
				if isRecv {
					sites = append(sites, shortFn2(g))
				}
			})
		}
		sort.Strings(sites)
		sites = uniq(sites)
		ok := len(sites) == 1 && sites[0] == "(*replicateChannelHandler).startReadChannel$lit"
		r.Check(ok, "C01-R1", "replicateChannelHandler."+ch+" | single consuming loop", 0, "received only in startReadChannel's goroutine", fmt.Sprintf("received in %v: packs forwarded to this handler can be consumed concurrently / out of order", sites))
	}

	// ---------- R2 first half
	ih := w.Func(pkgReader, "replicateChannelHandler", "innerHandleReplicateMsg")
	if ih == nil {
		r.Undecided("C01-R2", "innerHandleReplicateMsg", 0, "anchor not found")
	} else {
		var hp, send *ssa.Call
		eachInstr(ih, func(in ssa.Instruction) {
			if c, ok := in.(*ssa.Call); ok {
				switch callSym(c.Common()).name {
				case "handlePack":
					hp = c
				case "SendTargetMsg":
					send = c
				}
			}
		})
		msgP := ih.Params[2]
		for _, f := range []string{"CollectionID", "CollectionName", "PChannelName", "TaskID"} {
			cons := "(*replicateChannelHandler).innerHandleReplicateMsg | " + f
			ok := false
			if hp != nil && send != nil && send.Call.Args[len(send.Call.Args)-1] == ssa.Value(hp) {
				eachInstr(ih, func(in ssa.Instruction) {
					st, isSt := in.(*ssa.Store)
					if !isSt {
						return
					}
					fa, isFA := st.Addr.(*ssa.FieldAddr)
					if !isFA || fa.X != ssa.Value(hp) || fieldName(fa.X.Type(), fa.Field) != f {
						return
					}
					if w.accessPath(st.Val) == "param:"+msgP.Name()+"."+f && instrDominates(st, send) {
						ok = true
					}
				})
			}
			r.Check(ok, "C01-R2", cons, ih.Pos(), "copied from the input message before the enqueue", "the pack handed downstream is not labelled with the input's "+f+": the writer attributes checkpoints to the wrong stream / task")
		}
	}

	// ---------- R3
	allowed := map[string]bool{"CollectionID": true, "PartitionID": true, "PartitionIDs": true, "ShardName": true, "BeginTimestamp": true, "EndTimestamp": true, "Timestamps": true, "MsgPosition": true}
	n3 := 0
	for _, g := range w.RepoFuncs() {
		if g.Pkg.Pkg.Path() != pkgReader {
			continue
		}
		fam := familyOf(g)
		k := map[string]int{}
		for _, fs := range msgFieldStores(w, g) {
			// skip messages built here (literals)
			base := fs.St.Addr
			for i := 0; i < 6; i++ {
				switch x := base.(type) {
				case *ssa.FieldAddr:
					base = x.X
					continue
				case *ssa.UnOp:
					if x.Op == token.MUL {
						if f2, ok := x.X.(*ssa.FieldAddr); ok {
							base = f2
							continue
						}
					}
				}
				break
			}
			if al, isAl := baseObject(fam, base).(*ssa.Alloc); isAl {
				if pt, isP := al.Type().(*types.Pointer); isP && namedOf(pt.Elem()) != nil && strings.HasSuffix(namedOf(pt.Elem()).Obj().Name(), "Msg") {
					continue
				}
			}
			n3++
			k[fs.MsgType+fs.Field]++
			cons := fmt.Sprintf("%s | write %sMsg.%s", shortFn2(g), fs.MsgType, fs.Field)
			if k[fs.MsgType+fs.Field] > 1 {
				cons = fmt.Sprintf("%s #%d", cons, k[fs.MsgType+fs.Field])
			}
			r.Check(allowed[fs.Field], "C01-R3", cons, fs.St.Pos(), "address / time field", "a payload or name field of a replicated message is rewritten: the downstream no longer receives the source's "+fs.Field)
		}
		// element writes into slices that belong to a message: only Timestamps
		eachInstr(g, func(in ssa.Instruction) {
			st, ok := in.(*ssa.Store)
			if !ok {
				return
			}
			ia, ok := st.Addr.(*ssa.IndexAddr)
			if !ok {
				return
			}
			ap := w.accessPath(ia.X)
			for _, f := range []string{"RowIDs", "FieldsData", "PrimaryKeys", "HashValues", "Timestamps", "Int64PrimaryKeys"} {
				if strings.HasSuffix(ap, "."+f) && (strings.Contains(ap, "Request") || strings.Contains(ap, "Msg")) {
					if _, isAl := baseObject(fam, ia.X).(*ssa.Alloc); isAl {
						continue
					}
					n3++
					r.Check(f == "Timestamps", "C01-R3", fmt.Sprintf("%s | element write %s[i]", shortFn2(g), f), st.Pos(), "row timestamps", "elements of "+f+" of a replicated message are rewritten")
				}
			}
		})
	}

	// ---------- R4
	{
		isAppend := func(in ssa.Instruction) bool {
			for _, a := range m.Appends {
				if in == ssa.Instruction(a) {
					return true
				}
			}
			return false
		}
		first := m.LoopHeader.Instrs[0]
		c, _ := countBetween(first, map[*ssa.BasicBlock]bool{m.LoopHeader: true}, isAppend)
		r.Check(c.hi <= 1, "C01-R4", "(*replicateChannelHandler).handlePack | at most one append per iteration", m.LoopHeader.Instrs[0].Pos(), fmt.Sprintf("between %d and %d appends per iteration", c.lo, c.hi), "a path through one iteration appends twice: a message is emitted twice")
		for _, a := range m.Appends {
			which := "local"
			if a == m.FwdAppend {
				which = "forward"
			}
			call := a.Val.(*ssa.Call)
			ok, bad := mustDerive(call.Call.Args[1], func(v ssa.Value) leafVerdict {
				if v == m.Elem {
					return leafGood
				}
				if c, isC := v.(*ssa.Call); isC && callSym(c.Common()).name == "copyDropTypeMsg" {
					// of the element itself
					for _, x := range backSlice(c.Call.Args[0], SliceOpts{MaxDepth: 4}) {
						if x == m.Elem {
							return leafGood
						}
					}
					return leafBad
				}
				if _, isTA := v.(*ssa.TypeAssert); isTA {
					return leafDescend
				}
				return leafDescend
			})
			det := ""
			if !ok {
				det = "the value appended comes from " + w.accessPath(bad) + ", not from the message read in this iteration"
			}
			r.Check(ok, "C01-R4", "(*replicateChannelHandler).handlePack | "+which+" append emits the message read", a.Pos(), "range element or its drop-type copy", det)
		}
	}

	// ---------- R5
	sup := map[string]bool{}
	for _, s := range supportedMsgTypes(w) {
		sup[s] = true
	}
	for _, k := range []string{"Insert", "Delete", "DropPartition", "DropCollection"} {
		arm := m.Arms[k]
		reach := arm != nil && m.LocalAppend != nil && (arm == m.LocalAppend.Block() || blockReach(arm, map[*ssa.BasicBlock]bool{m.LoopHeader: true})[m.LocalAppend.Block()])
		r.Check(sup[k] && reach, "C01-R5", "handlePack | "+k+" supported end to end", fn.Pos(), "admitted by isSupportedMsgType, has an arm, append reachable", fmt.Sprintf("%s messages are not replicated (admitted=%v, arm with reachable append=%v)", k, sup[k], reach))
	}

	// ---------- R6 skip edges
	c01SkipEdges(w, r, m)

	// ---------- R8: a pack is never answered before its messages were looked at
	r.Rule("C01-R8", "no pack is dismissed unread", "every return of handlePack that hands back the empty pack (or nil without an error event) lies behind the message loop: the loop header dominates it. A pack is not dropped as a whole on a test made before its messages were examined (a 'repeated pack' / 'nothing new' fast path)", 2)
	{
		empty := w.Obj(pkgAPI, "EmptyMsgPack")
		nEmpty := 0
		eachInstr(fn, func(in ssa.Instruction) {
			ret, isR := in.(*ssa.Return)
			if !isR || ret.Block().Comment == "recover" || len(ret.Results) == 0 {
				return
			}
			v := returnedValue(ret, 0)
			isEmpty := false
			if u, isU := v.(*ssa.UnOp); isU {
				if g, isG := u.X.(*ssa.Global); isG && empty != nil && g.Object() == empty {
					isEmpty = true
				}
			}
			if !isEmpty {
				return
			}
			nEmpty++
			after := m.LoopHeader != nil && m.LoopHeader.Dominates(ret.Block()) && loopHeaderOf(ret.Block()) != m.LoopHeader
			r.Check(after, "C01-R8", fmt.Sprintf("(*replicateChannelHandler).handlePack | empty-pack return #%d is behind the message loop", nEmpty), ret.Pos(), "the loop over pack.Msgs dominates the return", "the whole pack is answered with the empty pack before (or inside) the loop over its messages: whatever the new test takes for 'already handled' — equal end timestamps of two collections sharing a channel, a lagging stream — is silently lost")
		})
		if nEmpty == 0 {
			r.Info("C01-R8", "(*replicateChannelHandler).handlePack | empty-pack returns", fn.Pos(), "handlePack no longer returns api.EmptyMsgPack")
		}
	}
	// ---------- R7
	var sortCall *ssa.Call
	eachInstr(fn, func(in ssa.Instruction) {
		if c, ok := in.(*ssa.Call); ok && callSym(c.Common()) == (sym{"sort", "", "Slice"}) {
			if strings.HasSuffix(w.accessPath(c.Call.Args[0]), ".Msgs") {
				sortCall = c
			}
		}
	})
	okSort := sortCall != nil && (sortCall.Block() == m.LoopHeader || sortCall.Block().Dominates(m.LoopHeader))
	pos := fn.Pos()
	if sortCall != nil {
		pos = sortCall.Pos()
	}
	r.Check(okSort, "C01-R7", "(*replicateChannelHandler).handlePack | sort dominates the message loop", pos, "sort.Slice(pack.Msgs, …) on every path to the loop", "the pack is not sorted on every path before it is processed: deletes may follow inserts of the same timestamp, or messages leave in non-timestamp order")
	if sortCall != nil {
		var less *ssa.Function
		for _, v := range backSlice(sortCall.Call.Args[1], SliceOpts{MaxDepth: 3}) {
			if mc, ok := v.(*ssa.MakeClosure); ok {
				less = mc.Fn.(*ssa.Function)
			}
		}
		if less == nil || len(less.Params) != 2 {
			r.Undecided("C01-R7", "handlePack$less", sortCall.Pos(), "comparator is not a two-argument literal")
		} else {
			delConst := int64(-1)
			for v, n := range msgTypeNames(w) {
				if n == "Delete" {
					fmt.Sscan(v, &delConst)
				}
			}
			pi, pj := less.Params[0], less.Params[1]
			which := func(recv ssa.Value) string {
				for _, x := range backSlice(recv, SliceOpts{MaxDepth: 6}) {
					if ia, ok := x.(*ssa.IndexAddr); ok {
						if ia.Index == ssa.Value(pi) {
							return "i"
						}
						if ia.Index == ssa.Value(pj) {
							return "j"
						}
					}
				}
				return ""
			}
			for _, ord := range []struct {
				name   string
				ti, tj int64
			}{{"ts(i)<ts(j)", 1, 2}, {"ts(i)==ts(j)", 1, 1}, {"ts(i)>ts(j)", 2, 1}} {
				for _, iDel := range []bool{true, false} {
					for _, jDel := range []bool{true, false} {
						want := ord.ti < ord.tj || (ord.ti == ord.tj && iDel)
						typ := map[string]int64{"i": 999, "j": 999}
						if iDel {
							typ["i"] = delConst
						}
						if jDel {
							typ["j"] = delConst
						}
						ts := map[string]int64{"i": ord.ti, "j": ord.tj}
						env := &AbsEnv{W: w, Params: map[string]any{},
							Call: func(c *ssa.CallCommon, args []any) (any, bool) {
								if !c.IsInvoke() {
									return nil, false
								}
								wh := which(c.Value)
								if wh == "" {
									return nil, false
								}
								switch c.Method.Name() {
								case "BeginTs":
									return ts[wh], true
								case "Type":
									return typ[wh], true
								}
								return nil, false
							}}
						res := absEvalFunc(less, env)
						cell := fmt.Sprintf("handlePack$less | %s, i delete=%v, j delete=%v", ord.name, iDel, jDel)
						if res.Err != "" || len(res.Results) != 1 {
							r.Undecided("C01-R7", cell, less.Pos(), "abstract evaluation failed: "+res.Err)
							continue
						}
						got, _ := res.Results[0].(bool)
						r.Check(got == want, "C01-R7", cell, less.Pos(), fmt.Sprintf("less = %v", want), fmt.Sprintf("less returns %v, the statement (time order, deletes first on ties) requires %v", got, want))
					}
				}
			}
		}
	}
}

// c01SkipEdges enumerates the loop-continuing edges that bypass the local append and checks what controls them.
func c01SkipEdges(w *World, r *Report, m *hpModel) {
	fn := m.Fn
	h := m.LoopHeader
	if m.LocalAppend == nil {
		r.Fail("C01-R6", "handlePack | local append", fn.Pos(), "local append not found")
		return
	}
	appendBlk := m.LocalAppend.Block()
	var vocab func(cond ssa.Value) (bool, string)
	vocab = func(cond ssa.Value) (bool, string) {
		// judge the SHAPE of the condition itself, not everything it derives from
		for i := 0; i < 3; i++ {
			if u, ok := cond.(*ssa.UnOp); ok && u.Op == token.NOT {
				cond = u.X
				continue
			}
			break
		}
		isTypeCall := func(v ssa.Value) bool {
			c, ok := v.(*ssa.Call)
			return ok && c.Call.IsInvoke() && c.Call.Method.Name() == "Type"
		}
		switch x := cond.(type) {
		case *ssa.Parameter:
			if x == m.Forward {
				return true, "forward flag"
			}
		case *ssa.Extract:
			if ta, ok := x.Tuple.(*ssa.TypeAssert); ok && ta.CommaOk && x.Index == 1 {
				return true, "message kind (type assertion)"
			}
		case *ssa.Call:
			s := callSym(x.Common())
			if s.name == "isSupportedMsgType" {
				return true, "supported message type"
			}
			if s.name == "isDroppingPartition" {
				return true, "partition dropping"
			}
			ap := w.accessPath(x.Call.Value)
			if strings.HasSuffix(ap, ".isDroppedCollection") || strings.HasSuffix(ap, ".isDroppedPartition") {
				return true, "dropped set"
			}
		case *ssa.UnOp:
			if x.Op == token.MUL && strings.HasSuffix(w.accessPath(x), ".Dropped") {
				return true, "collection dropped flag"
			}
		case *ssa.BinOp:
			if isTypeCall(x.X) || isTypeCall(x.Y) {
				return true, "message type"
			}
			xp, yp := w.accessPath(x.X), w.accessPath(x.Y)
			if isNilConst(x.Y) || isNilConst(x.X) {
				v := x.X
				if isNilConst(x.X) {
					v = x.Y
				}
				if e, ok := v.(*ssa.Extract); ok {
					if c, isC := e.Tuple.(*ssa.Call); isC && callSym(c.Common()).name == "getCollectionTargetInfo" && e.Index == 0 {
						return true, "target info nil (dropped on both sides)"
					}
				}
				vp := w.accessPath(v)
				if strings.HasPrefix(vp, "call:getCollectionTargetInfo@") && strings.HasSuffix(vp, "#0") {
					return true, "target info nil (dropped on both sides)"
				}
				if strings.HasSuffix(vp, ".isDroppedPartition") || strings.HasSuffix(vp, ".isDroppedCollection") {
					return true, "dropped-set hook present"
				}
				return false, vp + " == nil"
			}
			if c, isC := x.Y.(*ssa.Const); isC && c.Value != nil {
				if c.Value.ExactString() == "-1" && strings.HasSuffix(xp, ".PartitionID") {
					return true, "partition id == -1 (dropped sentinel)"
				}
				if sv, isS := constString(x.Y); isS && sv == "" {
					if strings.HasSuffix(xp, ".PartitionName") {
						return true, "empty partition name"
					}
					if ph, isPh := x.X.(*ssa.Phi); isPh && ph.Comment == "forwardChannel" {
						return true, "mixed forward/local pack"
					}
				}
			}
			// sourceCollectionID != msgCollectionID
			if x.Op == token.NEQ && strings.Contains(xp+yp, "sourceCollectionID") && (strings.HasSuffix(xp, ".CollectionID") || strings.HasSuffix(yp, ".CollectionID")) {
				return true, "collection-id consistency"
			}
			if strings.Contains(xp+yp, "GetCollectionID") {
				return true, "collection-id consistency"
			}
			if ph, isPh := x.X.(*ssa.Phi); isPh && ph.Comment == "sourceCollectionID" {
				return true, "collection-id consistency"
			}
			return false, xp + " " + x.Op.String() + " " + yp
		case *ssa.Phi:
			// a named boolean (`isDropped := a || b`): a materialised short-circuit. Its leaves are the tests that
			// select the constant edges and the values of the other edges; every leaf must be in the vocabulary
			if b, isB := x.Type().Underlying().(*types.Basic); isB && b.Kind() == types.Bool && len(x.Edges) == len(x.Block().Preds) {
				var whys []string
				for i, e := range x.Edges {
					leaf := e
					if _, isC := e.(*ssa.Const); isC {
						c, _, _, isIf := ifSuccs(x.Block().Preds[i])
						if !isIf {
							continue
						}
						leaf = c
					}
					if leaf == ssa.Value(x) {
						continue
					}
					ok, why := vocab(leaf)
					if !ok {
						return false, "part of " + x.Comment + ": " + why
					}
					whys = append(whys, why)
				}
				if len(whys) > 0 {
					return true, strings.Join(uniqStrings(whys), " / ")
				}
			}
			return false, "phi:" + x.Comment
		}
		return false, w.accessPath(cond)
	}
	nEdges := 0
	for _, p := range h.Preds {
		if !h.Dominates(p) {
			continue // loop entry
		}
		// does the path into p bypass the append?
		if p == appendBlk || appendBlk.Dominates(p) {
			continue
		}
		nEdges++
		// conditions on the dominator chain between p and the nearest dominator that can still reach the append
		var conds []ssa.Value
		var condBlocks []*ssa.BasicBlock
		cur := p
		// the edge itself may be conditional (p ends in an If with one successor being the header)
		if cnd, _, _, ok := ifSuccs(p); ok {
			conds = append(conds, cnd)
			condBlocks = append(condBlocks, p)
		}
		for cur != nil && cur != h {
			d := cur.Idom()
			if d == nil || d == h {
				break
			}
			if cnd, t, f, ok := ifSuccs(d); ok {
				// d decides: one side leads (only) towards p's region
				toward := t
				if f == cur || f.Dominates(cur) {
					toward = f
				}
				_ = toward
				conds = append(conds, cnd)
				condBlocks = append(condBlocks, d)
			}
			// stop once d can reach the append without passing through p
			if d == appendBlk || blockReach(d, map[*ssa.BasicBlock]bool{p: true, h: true})[appendBlk] {
				break
			}
			cur = d
		}
		cons := fmt.Sprintf("(*replicateChannelHandler).handlePack | skip edge from block at %s", w.pos(lastPos(p)))
		if len(conds) == 0 {
			r.Fail("C01-R6", cons, lastPos(p), "a loop-continuing edge bypasses the append unconditionally")
			continue
		}
		okAll := true
		var why []string
		bad := ""
		for _, c := range conds {
			ok, d := vocab(c)
			if ok {
				why = append(why, d)
			} else {
				okAll = false
				bad = d
			}
		}
		// at least the deciding (nearest) condition must be in the vocabulary; outer conditions may be structural (e.g. err == nil)
		okNearest, _ := vocab(conds[0])
		if !okAll && okNearest {
			// tolerate outer structural conditions only when they are error tests
			okAll = true
			for _, c := range conds[1:] {
				if ok, _ := vocab(c); !ok {
					if bo, isB := c.(*ssa.BinOp); !isB || !(isNilConst(bo.Y) || isNilConst(bo.X)) {
						okAll = false
					}
				}
			}
		}
		r.Check(okAll, "C01-R6", cons, lastPos(p), "controlled by: "+strings.Join(uniqStrings(why), ", "), "a message can be left out of the output because of a condition outside the allowed vocabulary ("+bad+"): messages the statement keeps are dropped silently")
	}
	if nEdges < 15 {
		r.Fail("C01-R6", "handlePack | skip edge census", fn.Pos(), fmt.Sprintf("only %d skip edges found (17 counted by hand)", nEdges))
	}
}

func lastPos(b *ssa.BasicBlock) token.Pos {
	for i := len(b.Instrs) - 1; i >= 0; i-- {
		if p := b.Instrs[i].Pos(); p.IsValid() {
			return p
		}
	}
	// fall back to a predecessor
	for _, p := range b.Preds {
		for i := len(p.Instrs) - 1; i >= 0; i-- {
			if q := p.Instrs[i].Pos(); q.IsValid() {
				return q
			}
		}
	}
	return token.NoPos
}

func uniqStrings(s []string) []string {
	seen := map[string]bool{}
	var out []string
	for _, x := range s {
		if !seen[x] {
			seen[x] = true
			out = append(out, x)
		}
	}
	return out
}
