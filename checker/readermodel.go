package main

import (
	"go/token"
	"go/types"
	"strings"

	"golang.org/x/tools/go/ssa"
)

// hpModel is a structural model of (*replicateChannelHandler).handlePack recomputed from SSA on every run.
type hpModel struct {
	Fn          *ssa.Function
	Fam         *Family
	Pack        *ssa.Parameter // the source pack
	Forward     *ssa.Parameter
	TaskID      *ssa.Parameter
	NewPack     ssa.Value         // the alloc of the output pack
	LoopHeader  *ssa.BasicBlock   // header of the message loop (range over pack.Msgs that contains the appends)
	Elem        ssa.Value         // the range element (message read from the source pack)
	Arms        map[string]*ssa.BasicBlock // message type name -> first block of the type-switch arm
	ArmAssert   map[string]*ssa.TypeAssert
	Appends     []*ssa.Store // stores newPack.Msgs = append(newPack.Msgs, x) inside the loop
	LocalAppend *ssa.Store   // the one at the end of the iteration (not under `forward`)
	FwdAppend   *ssa.Store   // the one under `if forward`
	TickAppend  *ssa.Store   // append of the closing tick after the loop
	Err         string
}

func buildHPModel(w *World) *hpModel {
	m := &hpModel{Arms: map[string]*ssa.BasicBlock{}, ArmAssert: map[string]*ssa.TypeAssert{}}
	fn := w.Func(pkgReader, "replicateChannelHandler", "handlePack")
	if fn == nil || len(fn.Params) < 4 {
		m.Err = "handlePack not found or signature changed"
		return m
	}
	m.Fn, m.Fam = fn, familyOf(fn)
	m.Forward, m.Pack, m.TaskID = fn.Params[1], fn.Params[2], fn.Params[3]
	// the output pack: alloc of msgstream.MsgPack
	for _, al := range allocsOfType(fn, pkgMsgstream, "MsgPack", false) {
		m.NewPack = al
	}
	if m.NewPack == nil {
		m.Err = "output pack literal not found"
		return m
	}
	npPath := w.accessPath(m.NewPack)
	// appends into newPack.Msgs
	eachInstr(fn, func(in ssa.Instruction) {
		st, ok := in.(*ssa.Store)
		if !ok || w.accessPath(st.Addr) != npPath+".Msgs" {
			return
		}
		c, ok := st.Val.(*ssa.Call)
		if !ok {
			return
		}
		if b, isB := c.Call.Value.(*ssa.Builtin); !isB || b.Name() != "append" {
			return
		}
		if h := loopHeaderOf(st.Block()); h != nil {
			// is it the message loop (ranges over pack.Msgs)?
			ranges := false
			eachInstr(fn, func(x ssa.Instruction) {
				if ia, isIA := x.(*ssa.IndexAddr); isIA && (h == ia.Block() || h.Dominates(ia.Block())) && loopHeaderOf(ia.Block()) == h {
					if w.accessPath(ia.X) == "param:"+m.Pack.Name()+".Msgs" {
						ranges = true
					}
				}
			})
			if ranges {
				m.Appends = append(m.Appends, st)
				m.LoopHeader = h
			}
		} else if w.accessPath(c.Call.Args[0]) == npPath+".Msgs" {
			// tick append after the loop: appended value is a TimeTickMsg literal
			for _, v := range backSlice(c.Call.Args[1], SliceOpts{MaxDepth: 6}) {
				if al, isAl := v.(*ssa.Alloc); isAl {
					if pt, isP := al.Type().(*types.Pointer); isP && typeIs(pt.Elem(), pkgMsgstream, "TimeTickMsg") {
						m.TickAppend = st
					}
				}
			}
		}
	})
	if m.LoopHeader == nil {
		m.Err = "message loop (range over pack.Msgs with an append into the output pack) not found"
		return m
	}
	// range element: load of &pack.Msgs[i] in the loop body
	eachInstr(fn, func(in ssa.Instruction) {
		if u, ok := in.(*ssa.UnOp); ok && u.Op == token.MUL && loopHeaderOf(u.Block()) == m.LoopHeader {
			if ia, isIA := u.X.(*ssa.IndexAddr); isIA && w.accessPath(ia.X) == "param:"+m.Pack.Name()+".Msgs" && m.Elem == nil {
				m.Elem = u
			}
		}
	})
	// forward vs local append: the forward one is dominated by the true edge of `if forward`
	for _, st := range m.Appends {
		underFwd := false
		for _, b := range fn.Blocks {
			cond, t, _, ok := ifSuccs(b)
			if ok && cond == ssa.Value(m.Forward) && loopHeaderOf(b) == m.LoopHeader && (t == st.Block() || t.Dominates(st.Block())) {
				underFwd = true
			}
		}
		if underFwd {
			m.FwdAppend = st
		} else {
			m.LocalAppend = st
		}
	}
	// arms
	eachInstr(fn, func(in ssa.Instruction) {
		ta, ok := in.(*ssa.TypeAssert)
		if !ok || !ta.CommaOk || loopHeaderOf(ta.Block()) != m.LoopHeader {
			return
		}
		n := namedOf(ta.AssertedType)
		if n == nil || n.Obj().Pkg() == nil || n.Obj().Pkg().Path() != pkgMsgstream {
			return
		}
		// the ok extract controls an If whose true successor is the arm
		for _, ref := range *ta.Referrers() {
			e, isE := ref.(*ssa.Extract)
			if !isE || e.Index != 1 {
				continue
			}
			for _, b := range fn.Blocks {
				cond, t, _, isIf := ifSuccs(b)
				if isIf && cond == ssa.Value(e) {
					name := strings.TrimSuffix(n.Obj().Name(), "Msg")
					m.Arms[name] = t
					m.ArmAssert[name] = ta
				}
			}
		}
	})
	return m
}

// inArm reports whether instruction in lies in the arm of the given message type.
func (m *hpModel) inArm(name string, in ssa.Instruction) bool {
	b := m.Arms[name]
	return b != nil && (b == in.Block() || b.Dominates(in.Block()))
}

// armOf returns the arm an instruction belongs to ("" if none).
func (m *hpModel) armOf(in ssa.Instruction) string {
	for n := range m.Arms {
		if m.inArm(n, in) {
			return n
		}
	}
	return ""
}

// msgFieldStores lists stores into fields of message objects (the type-asserted message, its embedded request or
// its BaseMsg) in function fn: returns (arm-independent) entries with the message type and the field path.
type msgFieldStore struct {
	St      *ssa.Store
	MsgType string // e.g. "Insert"
	Field   string // e.g. "CollectionID", "BaseMsg.BeginTimestamp"
}

func msgFieldStores(w *World, fn *ssa.Function) []msgFieldStore {
	var out []msgFieldStore
	eachInstr(fn, func(in ssa.Instruction) {
		st, ok := in.(*ssa.Store)
		if !ok {
			return
		}
		fa, ok := st.Addr.(*ssa.FieldAddr)
		if !ok {
			return
		}
		// walk up the FieldAddr/load chain to a value whose type is *msgstream.XMsg
		var path []string
		var cur ssa.Value = fa
		for i := 0; i < 6; i++ {
			switch x := cur.(type) {
			case *ssa.FieldAddr:
				path = append([]string{fieldName(x.X.Type(), x.Field)}, path...)
				cur = x.X
				continue
			case *ssa.UnOp:
				if x.Op == token.MUL {
					if f2, isFA := x.X.(*ssa.FieldAddr); isFA {
						cur = f2
						continue
					}
				}
			}
			break
		}
		n := namedOf(cur.Type())
		if n == nil || n.Obj().Pkg() == nil || n.Obj().Pkg().Path() != pkgMsgstream || !strings.HasSuffix(n.Obj().Name(), "Msg") {
			return
		}
		// drop the embedded request / BaseMsg prefix for readability but keep BaseMsg fields distinguishable
		field := path[len(path)-1]
		out = append(out, msgFieldStore{st, strings.TrimSuffix(n.Obj().Name(), "Msg"), field})
	})
	return out
}
