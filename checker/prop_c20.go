package main

import (
	"fmt"
	"go/token"
	"go/types"
	"sort"
	"strings"

	"golang.org/x/tools/go/ssa"
)

func init() {
	register("C20", &propDef{run: runC20,
		explain: "Structural necessary conditions of 'replicated DDL/RBAC requests keep their identity fields and replication stamp' decided on core/writer/channel_writer.go and the event producers in core/reader: (R1) the replication stamp reaches the request of each of the 18 op functions and 4 event functions, and HandleOpMessagePack builds it from the pack's last end position; (R2) the dispatch tables agree by type: key MsgType_K -> function asserting *msgstream.TMsg whose embedded request is milvuspb.KRequest -> exactly one non-probe DataHandler method whose parameter embeds the same request type (events: Replicate<X> -> DataHandler.<X>); (R3) the empty / more-than-one-message guards and the unknown-type lookup return errors before any dispatch; (R4) requests built field by field take every non-name field from the same-named accessor of the source message and carry all identity fields of their type, pass-through requests are the message's own request; (R5) filtered partition / collection lists contain only the loop's current member, appended on the not-skipped branch; (R6) event timestamps: create collection <- catalog CreateTime, drops <- the barrier's message time, create partition <- PartitionCreatedTimestamp, recovery <- recorded DropTS; (R7) CreateCollectionParam field correspondence.",
		notDec:  []string{"contents of pass-through requests (the source message's own request object is forwarded)", "password encodings", "what the downstream does with the request"},
	})
}

// identity fields named by the property statement
var c20Identity = map[string]bool{"IndexName": true, "FieldName": true, "PartitionNames": true, "PartitionName": true, "Username": true, "RoleName": true, "ReplicaNumber": true}
var c20NameFields = map[string]bool{"DbName": true, "CollectionName": true, "CollectionNames": true, "Base": true}

func embeddedRequest(t types.Type) *types.Named {
	for {
		if p, ok := t.Underlying().(*types.Pointer); ok {
			t = p.Elem()
			continue
		}
		break
	}
	st, ok := t.Underlying().(*types.Struct)
	if !ok {
		return nil
	}
	for i := 0; i < st.NumFields(); i++ {
		f := st.Field(i)
		if !f.Embedded() {
			continue
		}
		if n := namedOf(f.Type()); n != nil && n.Obj().Pkg() != nil && n.Obj().Pkg().Path() == pkgMilvuspb && strings.HasSuffix(n.Obj().Name(), "Request") {
			return n
		}
	}
	return nil
}

func runC20(w *World, r *Report) {
	// "partitions already dropped being removed from lists" rests on the writer's drop bookkeeping: the drop time is
	// recorded under the source names (C08-R4 / C09-R2) and the recovered tables are loaded into their own kind (C08-R7)
	defer r.importRules(runC08, "C20-", map[string]bool{"C08-R4": true, "C08-R7": true})
	defer r.importRules(runC09, "C20-", map[string]bool{"C09-R2": true})
	defer c20OneRequestOrSkip(w, r)
	r.Rule("C20-R1", "replication stamp reaches the request", "op functions: request.Base is the msgBase parameter (literal) or UpdateMsgBase(msg.Base, msgBase) dominates the call for pass-through requests; event functions: MsgBaseParam.Base.ReplicateInfo is apiEvent.ReplicateInfo; HandleOpMessagePack stamps IsReplicate=true and MsgTimestamp = EndPositions[last].Timestamp", 24)
	r.Rule("C20-R2", "dispatch agreement by type", "MsgType_K -> f asserts *msgstream.TMsg embedding milvuspb.KRequest -> exactly one non-probe DataHandler method whose param embeds milvuspb.KRequest; Replicate<X> event -> DataHandler.<X>", 22)
	r.Rule("C20-R3", "malformed packs rejected before dispatch", "empty pack, pack with != 1 message and unknown message type each return a non-nil error on a branch from which the dispatch call is unreachable", 3)
	r.Rule("C20-R4", "identity fields", "literal-built requests: every non-name field stored is read from the same-named accessor of the source message and every identity field of the request type is stored; pass-through requests are the source message's own request", 18)
	r.Rule("C20-R5", "filtered lists", "PartitionNames / CollectionNames sent downstream are built only by appending the loop's current member on the not-skipped branch", 3)
	r.Rule("C20-R6", "event timestamps and replicate flag", "ReplicateAPIEvent literals: IsReplicate=true; MsgTimestamp from CreateTime (create collection), the barrier callback's message time (drops), PartitionCreatedTimestamp (create partition), DropTS (recovery)", 6)
	r.Rule("C20-R7", "CreateCollectionParam correspondence", "Schema from ReadProto(CollectionInfo.Schema); ShardsNum, ConsistencyLevel, Properties from the same-named CollectionInfo fields", 4)

	dhIface := w.Named(pkgAPI, "DataHandler")
	probe := map[string]bool{"DescribeDatabase": true, "DescribeCollection": true, "DescribePartition": true}
	msgTypes := msgTypeNames(w)

	// dataHandler calls of a function (non-probe)
	handlerCalls := func(fn *ssa.Function) []ssa.CallInstruction {
		var out []ssa.CallInstruction
		eachInstr(fn, func(in ssa.Instruction) {
			ci, ok := in.(ssa.CallInstruction)
			if !ok || !ci.Common().IsInvoke() || dhIface == nil || !types.Identical(ci.Common().Value.Type(), dhIface) {
				return
			}
			if probe[ci.Common().Method.Name()] {
				return
			}
			out = append(out, ci)
		})
		return out
	}

	// ---------- dispatch tables
	type entry struct {
		key string
		fn  *ssa.Function
		pos token.Pos
	}
	readTable := func(initName string, keyName func(c *ssa.Const) string) []entry {
		var out []entry
		fn := w.Func(pkgWriter, "ChannelWriter", initName)
		if fn == nil {
			return nil
		}
		eachInstr(fn, func(in ssa.Instruction) {
			mu, ok := in.(*ssa.MapUpdate)
			if !ok {
				return
			}
			kc, ok := mu.Key.(*ssa.Const)
			if !ok {
				return
			}
			var target *ssa.Function
			for _, v := range backSlice(mu.Value, SliceOpts{MaxDepth: 4}) {
				if mc, ok := v.(*ssa.MakeClosure); ok {
					if bf, ok := mc.Fn.(*ssa.Function); ok {
						// bound method wrapper -> the method
						if o := fnObj(bf); o != nil {
							target = w.Prog.FuncValue(o)
						} else if strings.HasSuffix(bf.Name(), "$bound") {
							name := strings.TrimSuffix(bf.Name(), "$bound")
							target = w.Func(pkgWriter, "ChannelWriter", name)
						}
					}
				}
				if f, ok := v.(*ssa.Function); ok {
					target = f
				}
			}
			out = append(out, entry{keyName(kc), target, mu.Pos()})
		})
		return out
	}
	ops := readTable("initOPMessageFuncs", func(c *ssa.Const) string { return msgTypes[c.Value.ExactString()] })
	evNames := map[string]string{}
	for n, v := range w.enumConsts(pkgAPI, "ReplicateAPIEventType") {
		evNames[fmt.Sprint(v)] = n
	}
	evs := readTable("initAPIEventFuncs", func(c *ssa.Const) string { return evNames[c.Value.ExactString()] })
	if len(ops) < 18 || len(evs) < 4 {
		r.Fail("C20-R2", "dispatch tables", 0, fmt.Sprintf("found %d op entries and %d event entries (18 and 4 confirmed by hand)", len(ops), len(evs)))
	}

	opFuncs := map[*ssa.Function]string{}
	for _, e := range ops {
		cons := "opMessageFuncs[MsgType_" + e.key + "]"
		if e.fn == nil || e.key == "" {
			r.Undecided("C20-R2", cons, e.pos, "table entry could not be resolved to a method")
			continue
		}
		opFuncs[e.fn] = e.key
		// asserted message type
		var asserted *types.Named
		eachInstr(e.fn, func(in ssa.Instruction) {
			if ta, ok := in.(*ssa.TypeAssert); ok && ta.X == ssa.Value(e.fn.Params[3]) {
				if n := namedOf(ta.AssertedType); n != nil {
					asserted = n
				}
			}
		})
		if asserted == nil {
			r.Fail("C20-R2", cons, e.fn.Pos(), shortFn(e.fn)+" does not assert its message to a concrete msgstream type")
			continue
		}
		req := embeddedRequest(asserted)
		hcs := handlerCalls(e.fn)
		if len(hcs) != 1 {
			r.Fail("C20-R2", cons, e.fn.Pos(), fmt.Sprintf("%s makes %d non-probe downstream calls (want exactly one request per operation)", shortFn(e.fn), len(hcs)))
			continue
		}
		preq := embeddedRequest(hcs[0].Common().Args[1].Type())
		ok := req != nil && preq != nil && types.Identical(req, preq) && req.Obj().Name() == e.key+"Request"
		det := ""
		if !ok {
			det = fmt.Sprintf("MsgType_%s is handled by %s which asserts %s (request %s) and calls DataHandler.%s (request %s): the three do not name one request kind", e.key, shortFn(e.fn), asserted.Obj().Name(), tname(req), hcs[0].Common().Method.Name(), tname(preq))
		}
		r.Check(ok, "C20-R2", cons, e.pos, fmt.Sprintf("%s: %s -> DataHandler.%s(%s)", shortFn(e.fn), asserted.Obj().Name(), hcs[0].Common().Method.Name(), tname(preq)), det)
	}
	evFuncs := map[*ssa.Function]string{}
	for _, e := range evs {
		cons := "apiEventFuncs[" + e.key + "]"
		if e.fn == nil || e.key == "" {
			r.Undecided("C20-R2", cons, e.pos, "table entry could not be resolved to a method")
			continue
		}
		evFuncs[e.fn] = e.key
		hcs := handlerCalls(e.fn)
		if len(hcs) != 1 {
			r.Fail("C20-R2", cons, e.fn.Pos(), fmt.Sprintf("%s makes %d non-probe downstream calls (want 1)", shortFn(e.fn), len(hcs)))
			continue
		}
		m := hcs[0].Common().Method.Name()
		r.Check("Replicate"+m == e.key, "C20-R2", cons, e.pos, "-> DataHandler."+m, fmt.Sprintf("event %s is handled by %s which calls DataHandler.%s", e.key, shortFn(e.fn), m))
	}

	// ---------- R1 / R4 per op function
	var fns []*ssa.Function
	for f := range opFuncs {
		fns = append(fns, f)
	}
	sort.Slice(fns, func(i, j int) bool { return fns[i].Name() < fns[j].Name() })
	for _, fn := range fns {
		fam := familyOf(fn)
		hcs := handlerCalls(fn)
		if len(hcs) != 1 {
			continue
		}
		d := hcs[0]
		msgBase := fn.Params[2]
		msgParam := fn.Params[3]
		param := d.Common().Args[1]
		preq := embeddedRequest(param.Type())
		if preq == nil {
			r.Undecided("C20-R1", shortFn(fn)+" | stamp", d.Pos(), "parameter type embeds no milvuspb request")
			continue
		}
		reqField := preq.Obj().Name()
		objPath := w.accessPath(param)
		pv := w.resolveFieldPath(fam, objPath, []string{reqField}, d, 0)
		cons1 := shortFn(fn) + " | stamp"
		cons4 := shortFn(fn) + " | request fields"
		if len(pv.Vals) != 1 {
			r.Undecided("C20-R1", cons1, d.Pos(), "cannot identify the request object passed downstream")
			continue
		}
		reqVal := pv.Vals[0]
		if al, isAlloc := reqVal.(*ssa.Alloc); isAlloc {
			// literal-built request
			stamped := false
			stored := map[string]ssa.Value{}
			for _, fs := range fieldStoresOn(fam, al) {
				if fs.Field == nil {
					continue
				}
				stored[fs.Field.Name()] = fs.Val
				if fs.Field.Name() == "Base" && fs.Val == ssa.Value(msgBase) {
					stamped = true
				}
			}
			r.Check(stamped, "C20-R1", cons1, d.Pos(), "request literal has Base: msgBase", "the request built here does not carry the msgBase parameter: the downstream cannot tell it is a replication request and the source timestamp is lost")
			// R4 literal fields
			bad := []string{}
			for name, v := range stored {
				if c20NameFields[name] {
					continue
				}
				ap := w.accessPath(v)
				okField := false
				// same-named accessor on the source message
				for _, x := range backSlice(v, SliceOpts{ThroughArg: appendArgs, MaxDepth: 10}) {
					xp := w.accessPath(x)
					if strings.HasPrefix(xp, "param:"+msgParam.Name()+".") && (strings.HasSuffix(xp, "."+name) || strings.HasSuffix(xp, "."+name+"[]")) {
						okField = true
					}
				}
				if !okField {
					bad = append(bad, fmt.Sprintf("%s <- %s", name, ap))
				}
			}
			sort.Strings(bad)
			// identity fields of the type all stored
			st := preq.Underlying().(*types.Struct)
			for i := 0; i < st.NumFields(); i++ {
				n := st.Field(i).Name()
				if c20Identity[n] {
					if _, ok := stored[n]; !ok {
						bad = append(bad, n+" not set")
					}
				}
			}
			r.Check(len(bad) == 0, "C20-R4", cons4, d.Pos(), fmt.Sprintf("literal %s: %d fields, each from the message's same-named accessor", reqField, len(stored)), "identity fields do not correspond: "+strings.Join(bad, "; "))
		} else {
			// pass-through: the message's own request
			rp := w.accessPath(reqVal)
			own := strings.HasPrefix(rp, "param:"+msgParam.Name()+".") && strings.HasSuffix(rp, "."+reqField)
			r.Check(own, "C20-R4", cons4, d.Pos(), "forwards the source message's own "+reqField, "the request forwarded is "+rp+", not the source message's own request")
			// UpdateMsgBase(msg.Base, msgBase) dominates d
			stamped := false
			for _, c := range callsIn(fn, false, sym{pkgWriter, "", "UpdateMsgBase"}) {
				a := c.Common().Args
				if a[1] == ssa.Value(msgBase) && w.accessPath(a[0]) == rp+".Base" && instrDominates(c, d) {
					stamped = true
				}
			}
			r.Check(stamped, "C20-R1", cons1, d.Pos(), "UpdateMsgBase(request.Base, msgBase) dominates the call", "no UpdateMsgBase(<this request>.Base, msgBase) before the downstream call: the forwarded request keeps the source's Base without the replication stamp")
		}
	}
	// UpdateMsgBase body
	if um := w.Func(pkgWriter, "", "UpdateMsgBase"); um != nil {
		ok := false
		pdu := postDominators(um)
		eachInstr(um, func(in ssa.Instruction) {
			if st, isSt := in.(*ssa.Store); isSt {
				if w.accessPath(st.Addr) == "param:"+um.Params[0].Name()+".ReplicateInfo" && w.accessPath(st.Val) == "param:"+um.Params[1].Name()+".ReplicateInfo" {
					// on every path
					if st.Block() == um.Blocks[0] || pdu[um.Blocks[0]][st.Block()] {
						ok = true
					}
				}
			}
		})
		r.Check(ok, "C20-R1", "UpdateMsgBase | copies ReplicateInfo", um.Pos(), "dst.ReplicateInfo = src.ReplicateInfo on every path", "UpdateMsgBase does not unconditionally replace the request's ReplicateInfo with the stamp: a request that already carries one keeps its old source timestamp")
	} else {
		r.Undecided("C20-R1", "UpdateMsgBase", 0, "anchor not found")
	}

	// ---------- R8 handler options derived from the parameter are unconditional
	r.Rule("C20-R8", "handler forwards parameter-derived options unconditionally", "in MilvusDataHandler methods every client.With*(…param field…) option is built on every path to the client call (loops over a parameter list excepted)", 15)
	if named := w.Named(pkgWriter, "MilvusDataHandler"); named != nil {
		for i := 0; i < named.NumMethods(); i++ {
			m := named.Method(i)
			fn := w.Prog.FuncValue(m)
			if fn == nil || fn.Blocks == nil || !m.Exported() || fn.Signature.Params().Len() != 2 {
				continue
			}
			pn := fn.Params[2].Name()
			k := 0
			eachInstrDeep(fn, func(g *ssa.Function, in ssa.Instruction) {
				c, ok := in.(*ssa.Call)
				if !ok {
					return
				}
				s := callSym(c.Common())
				if !strings.HasPrefix(s.name, "With") || !strings.Contains(s.pkg, "milvus-sdk-go") {
					return
				}
				fromParam := false
				for _, a := range c.Call.Args {
					for _, x := range backSlice(a, SliceOpts{MaxDepth: 8, ThroughArg: getterRecv}) {
						if strings.HasPrefix(w.accessPath(x), "param:"+pn) || x == ssa.Value(fn.Params[2]) {
							fromParam = true
						}
						if fv, isFV := x.(*ssa.FreeVar); isFV && fv.Name() == pn {
							fromParam = true
						}
					}
				}
				if !fromParam {
					return
				}
				k++
				cons := fmt.Sprintf("(*MilvusDataHandler).%s | option %s#%d", m.Name(), s.name, k)
				pd := postDominators(g)
				uncond := c.Block() == g.Blocks[0] || pd[g.Blocks[0]][c.Block()]
				// built directly in the argument list of the client call it belongs to
				if !uncond && usedByCallInSameBlock(c) {
					uncond = true
				}
				if !uncond {
					// inside a loop whose header is unconditional
					if h := loopHeaderOf(c.Block()); h != nil && (h == g.Blocks[0] || pd[g.Blocks[0]][h]) {
						// and unconditional within the loop body: dominates the back edge sources
						all := true
						for _, p := range h.Preds {
							if (h == p || h.Dominates(p)) && !(c.Block() == p || c.Block().Dominates(p)) {
								all = false
							}
						}
						uncond = all
					}
				}
				r.Check(uncond, "C20-R8", cons, c.Pos(), "built on every path", "the option carrying a field of the request is only added under a condition: for some field values the downstream request silently uses the SDK default instead of the source's value")
			})
		}
	}

	// event functions: stamp + R7
	var efns []*ssa.Function
	for f := range evFuncs {
		efns = append(efns, f)
	}
	sort.Slice(efns, func(i, j int) bool { return efns[i].Name() < efns[j].Name() })
	for _, fn := range efns {
		fam := familyOf(fn)
		hcs := handlerCalls(fn)
		if len(hcs) != 1 {
			continue
		}
		d := hcs[0]
		ev := fn.Params[2]
		objPath := w.accessPath(d.Common().Args[1])
		pv := w.resolveFieldPath(fam, objPath, []string{"MsgBaseParam", "Base", "ReplicateInfo"}, d, 0)
		ok := len(pv.Vals) > 0
		for _, v := range pv.Vals {
			if w.accessPath(v) != "param:"+ev.Name()+".ReplicateInfo" {
				ok = false
			}
		}
		r.Check(ok, "C20-R1", shortFn(fn)+" | stamp", d.Pos(), "Base.ReplicateInfo = apiEvent.ReplicateInfo", "the request's Base.ReplicateInfo is not the event's ReplicateInfo")
		if evFuncs[fn] == "ReplicateCreateCollection" {
			for _, f := range []string{"ShardsNum", "ConsistencyLevel", "Properties"} {
				pv := w.resolveFieldPath(fam, objPath, []string{f}, d, 0)
				okf := len(pv.Vals) > 0
				for _, v := range pv.Vals {
					good := false
					for _, x := range backSlice(v, SliceOpts{ThroughArg: appendArgs, MaxDepth: 10}) {
						if w.accessPath(x) == "param:"+ev.Name()+".CollectionInfo."+f {
							good = true
						}
					}
					if !good {
						okf = false
					}
				}
				r.Check(okf, "C20-R7", "(*ChannelWriter).createCollection | "+f, d.Pos(), "from CollectionInfo."+f, "CreateCollectionParam."+f+" does not come from the event's CollectionInfo."+f)
			}
			pv := w.resolveFieldPath(fam, objPath, []string{"Schema"}, d, 0)
			oks := len(pv.Vals) > 0
			for _, v := range pv.Vals {
				good := false
				for _, x := range backSlice(v, SliceOpts{MaxDepth: 10}) {
					if c, isC := x.(*ssa.Call); isC && callSym(c.Common()).name == "ReadProto" {
						if w.accessPath(callArgs(c.Common())[0]) == "param:"+ev.Name()+".CollectionInfo.Schema" {
							good = true
						}
					}
				}
				if !good {
					oks = false
				}
			}
			r.Check(oks, "C20-R7", "(*ChannelWriter).createCollection | Schema", d.Pos(), "ReadProto(CollectionInfo.Schema)", "Schema is not read from the event's CollectionInfo.Schema")
		}
		// partition name identity
		if strings.HasSuffix(evFuncs[fn], "Partition") {
			pv := w.resolveFieldPath(fam, objPath, []string{"PartitionName"}, d, 0)
			okp := len(pv.Vals) > 0
			for _, v := range pv.Vals {
				if w.accessPath(v) != "param:"+ev.Name()+".PartitionInfo.PartitionName" {
					okp = false
				}
			}
			r.Check(okp, "C20-R4", shortFn(fn)+" | PartitionName", d.Pos(), "from PartitionInfo.PartitionName", "PartitionName of the request is not the event's PartitionInfo.PartitionName")
		}
	}

	// ---------- HandleOpMessagePack: stamp construction + R3
	hop := w.Func(pkgWriter, "ChannelWriter", "HandleOpMessagePack")
	if hop == nil {
		r.Undecided("C20-R3", "HandleOpMessagePack", 0, "anchor not found")
	} else {
		fam := familyOf(hop)
		pack := hop.Params[2]
		// the dynamic dispatch call
		var dispatch *ssa.Call
		eachInstr(hop, func(in ssa.Instruction) {
			c, ok := in.(*ssa.Call)
			if !ok || c.Call.IsInvoke() || calleeObj(c.Common()) != nil {
				return
			}
			if _, isB := c.Call.Value.(*ssa.Builtin); isB {
				return
			}
			if len(c.Call.Args) == 3 {
				dispatch = c
			}
		})
		if dispatch == nil {
			r.Undecided("C20-R3", "HandleOpMessagePack | dispatch", hop.Pos(), "dispatch call not found")
		} else {
			// stamp: arg1 alloc MsgBase{ReplicateInfo: &{IsReplicate:true, MsgTimestamp: endTs}}
			okStamp := false
			det := "msgBase passed to the op function is not a fresh MsgBase with ReplicateInfo{IsReplicate: true, MsgTimestamp: <last end position>.Timestamp}"
			if al, ok := baseObject(fam, dispatch.Call.Args[1]).(*ssa.Alloc); ok {
				for _, fs := range fieldStoresOn(fam, al) {
					if fs.Field != nil && fs.Field.Name() == "ReplicateInfo" {
						if ri, ok := fs.Val.(*ssa.Alloc); ok {
							isRep, tsOK := false, false
							for _, g := range fieldStoresOn(fam, ri) {
								if g.Field == nil {
									continue
								}
								if g.Field.Name() == "IsReplicate" {
									if c, ok := g.Val.(*ssa.Const); ok && c.Value != nil && c.Value.ExactString() == "true" {
										isRep = true
									}
								}
								if g.Field.Name() == "MsgTimestamp" {
									ap := w.accessPath(g.Val)
									if strings.HasPrefix(ap, "param:"+pack.Name()+".EndPositions[]") && strings.HasSuffix(ap, ".Timestamp") {
										// index must be len-1
										tsOK = lastIndexOf(g.Val, pack)
									}
								}
							}
							okStamp = isRep && tsOK
						}
					}
				}
			}
			r.Check(okStamp, "C20-R1", "(*ChannelWriter).HandleOpMessagePack | stamp construction", dispatch.Pos(), "IsReplicate=true, MsgTimestamp=EndPositions[len-1].Timestamp", det)

			// R3 guards
			lenOfMsgs := func(v ssa.Value) bool {
				c, ok := v.(*ssa.Call)
				if !ok {
					return false
				}
				b, ok := c.Call.Value.(*ssa.Builtin)
				return ok && b.Name() == "len" && w.accessPath(c.Call.Args[0]) == "param:"+pack.Name()+".Msgs"
			}
			guard := func(name string, match func(bo *ssa.BinOp) (errOnTrue bool, ok bool)) {
				found := false
				for _, b := range hop.Blocks {
					cond, t, f, isIf := ifSuccs(b)
					if !isIf {
						continue
					}
					bo, isB := cond.(*ssa.BinOp)
					if !isB {
						continue
					}
					eot, ok := match(bo)
					if !ok {
						continue
					}
					errB, goB := t, f
					if !eot {
						errB, goB = f, t
					}
					// error branch returns non-nil error and cannot reach dispatch; dispatch only via goB
					retErr := false
					for _, in := range errB.Instrs {
						if ret, ok := in.(*ssa.Return); ok {
							rv := returnedValue(ret, len(ret.Results)-1)
							if rv != nil && !isNilConst(rv) {
								retErr = true
							}
						}
					}
					reach := blockReach(errB, nil)[dispatch.Block()] || errB == dispatch.Block()
					dom := goB == dispatch.Block() || goB.Dominates(dispatch.Block())
					found = true
					r.Check(retErr && !reach && dom, "C20-R3", "(*ChannelWriter).HandleOpMessagePack | "+name, b.Instrs[len(b.Instrs)-1].Pos(), "error returned; dispatch only on the other branch", "the "+name+" guard does not return an error before the dispatch, or the dispatch is reachable around it")
				}
				if !found {
					r.Fail("C20-R3", "(*ChannelWriter).HandleOpMessagePack | "+name, hop.Pos(), "guard not found: a malformed pack is partially applied instead of rejected")
				}
			}
			guard("empty pack", func(bo *ssa.BinOp) (bool, bool) {
				c, isC := bo.Y.(*ssa.Const)
				if bo.Op == token.EQL && lenOfMsgs(bo.X) && isC && c.Value != nil && c.Value.ExactString() == "0" {
					return true, true
				}
				return false, false
			})
			guard("exactly one message", func(bo *ssa.BinOp) (bool, bool) {
				c, isC := bo.Y.(*ssa.Const)
				if lenOfMsgs(bo.X) && isC && c.Value != nil && c.Value.ExactString() == "1" {
					if bo.Op == token.NEQ || bo.Op == token.GTR {
						return true, true
					}
					if bo.Op == token.EQL {
						return false, true
					}
				}
				return false, false
			})
			// unknown type: the dispatch target comes from a comma-ok lookup whose !ok branch returns an error
			okLookup := false
			for _, v := range backSlice(dispatch.Call.Value, SliceOpts{MaxDepth: 4}) {
				e, ok := v.(*ssa.Extract)
				if !ok || e.Index != 0 {
					continue
				}
				lk, ok := e.Tuple.(*ssa.Lookup)
				if !ok || !lk.CommaOk || !strings.HasSuffix(w.accessPath(lk.X), ".opMessageFuncs") {
					continue
				}
				// key is msg.Type()
				kc, isCall := lk.Index.(*ssa.Call)
				if !isCall || !kc.Call.IsInvoke() || kc.Call.Method.Name() != "Type" {
					continue
				}
				for _, ref := range *lk.Referrers() {
					oke, ok := ref.(*ssa.Extract)
					if !ok || oke.Index != 1 {
						continue
					}
					for _, b := range hop.Blocks {
						cond, t, f, isIf := ifSuccs(b)
						if !isIf || cond != ssa.Value(oke) {
							continue
						}
						retErr := false
						for _, in := range f.Instrs {
							if ret, ok := in.(*ssa.Return); ok {
								rv := returnedValue(ret, len(ret.Results)-1)
								if rv != nil && !isNilConst(rv) {
									retErr = true
								}
							}
						}
						if retErr && (t == dispatch.Block() || t.Dominates(dispatch.Block())) && !blockReach(f, nil)[dispatch.Block()] {
							okLookup = true
						}
					}
				}
			}
			r.Check(okLookup, "C20-R3", "(*ChannelWriter).HandleOpMessagePack | unknown message type", dispatch.Pos(), "comma-ok lookup by msg.Type(); !ok returns an error", "the dispatch target is not taken from a checked lookup keyed by the message's type, or the !ok branch does not return an error")
		}
	}

	// ---------- R5 filtered lists
	for _, spec := range []struct{ fn, field, src string }{{"loadPartitions", "PartitionNames", "PartitionNames"}, {"releasePartitions", "PartitionNames", "PartitionNames"}, {"flush", "CollectionNames", "CollectionNames"}} {
		fn := w.Func(pkgWriter, "ChannelWriter", spec.fn)
		cons := fmt.Sprintf("(*ChannelWriter).%s | %s", spec.fn, spec.field)
		if fn == nil {
			r.Undecided("C20-R5", cons, 0, "anchor not found")
			continue
		}
		hcs := handlerCalls(fn)
		if len(hcs) != 1 {
			r.Undecided("C20-R5", cons, fn.Pos(), "downstream call not unique")
			continue
		}
		fam := familyOf(fn)
		d := hcs[0]
		preq := embeddedRequest(d.Common().Args[1].Type())
		pv := w.resolveFieldPath(fam, w.accessPath(d.Common().Args[1]), []string{preq.Obj().Name(), spec.field}, d, 0)
		ok := len(pv.Vals) > 0
		det := ""
		for _, v := range pv.Vals {
			// all appends feeding v append exactly one element
			n := 0
			for _, x := range backSlice(v, SliceOpts{ThroughArg: func(c *ssa.CallCommon) []ssa.Value {
				if b, ok := c.Value.(*ssa.Builtin); ok && b.Name() == "append" {
					return c.Args[:1]
				}
				return nil
			}, MaxDepth: 10}) {
				c, isC := x.(*ssa.Call)
				if !isC {
					continue
				}
				b, isB := c.Call.Value.(*ssa.Builtin)
				if !isB || b.Name() != "append" {
					continue
				}
				n++
				// the appended element derives from the range element of the source list (possibly mapped for collections)
				good := false
				for _, y := range backSlice(c.Call.Args[1], SliceOpts{MaxDepth: 8, ThroughArg: func(cc *ssa.CallCommon) []ssa.Value {
					if callSym(cc) == mapSymW {
						return callArgs(cc)
					}
					return nil
				}}) {
					yp := w.accessPath(y)
					if strings.HasPrefix(yp, "param:") && strings.HasSuffix(yp, "."+spec.src+"[]") {
						good = true
					}
				}
				if !good {
					ok = false
					det = "an appended element is not a member of the source message's " + spec.src
				}
				// the member is kept exactly when WaitObjReady says "not skipped" for it
				guarded := false
				for _, b := range c.Parent().Blocks {
					cond, t, f, isIf := ifSuccs(b)
					if !isIf {
						continue
					}
					keep := f
					if u, isU := cond.(*ssa.UnOp); isU && u.Op == token.NOT {
						cond, keep = u.X, t
					}
					ex, isEx := cond.(*ssa.Extract)
					if !isEx || ex.Index != 0 {
						continue
					}
					wc, isCall := ex.Tuple.(*ssa.Call)
					if !isCall || callSym(wc.Common()).name != "WaitObjReady" {
						continue
					}
					// the decision is taken per member: inside the loop that appends it
					if h := loopHeaderOf(c.Block()); h == nil || loopHeaderOf(wc.Block()) != h {
						continue
					}
					if keep == c.Block() || keep.Dominates(c.Block()) {
						guarded = true
					}
				}
				if !guarded {
					ok = false
					det = "a member is kept or dropped by something other than the skip decision of WaitObjReady for that member (e.g. `state != Created`, which also drops a live member that is not visible yet)"
				}
			}
			if n == 0 {
				ok = false
				det = "the list sent downstream is not built by appending checked members (the source list is forwarded as is, dropped members included)"
			}
		}
		r.Check(ok, "C20-R5", cons, d.Pos(), "built by appending members of the source list", det)
	}

	// ---------- R6 event literals in reader + recovery
	evType := w.Named(pkgAPI, "ReplicateAPIEvent")
	_ = evType
	nEv := 0
	for _, fn := range w.RepoFuncs() {
		p := fn.Pkg.Pkg.Path()
		if p != pkgReader && p != pkgWriter {
			continue
		}
		fam := familyOf(fn)
		for _, al := range allocsOfType(fn, pkgAPI, "ReplicateAPIEvent", false) {
			var et string
			var ri ssa.Value
			for _, fs := range fieldStoresOn(fam, al) {
				if fs.Field == nil {
					continue
				}
				if fs.Field.Name() == "EventType" {
					if c, ok := fs.Val.(*ssa.Const); ok && c.Value != nil {
						et = evNames[c.Value.ExactString()]
						if et == "" {
							et = "ReplicateError"
						}
					}
				}
				if fs.Field.Name() == "ReplicateInfo" {
					ri = fs.Val
				}
			}
			if et == "" || et == "ReplicateError" {
				continue
			}
			nEv++
			cons := fmt.Sprintf("%s | %s event literal", shortFn(rootFunc(fn)), et)
			ria, ok := ri.(*ssa.Alloc)
			if !ok {
				r.Fail("C20-R6", cons, al.Pos(), "event has no ReplicateInfo literal")
				continue
			}
			isRep := false
			tsPath := ""
			var tsVal ssa.Value
			for _, g := range fieldStoresOn(fam, ria) {
				if g.Field == nil {
					continue
				}
				if g.Field.Name() == "IsReplicate" {
					if c, ok := g.Val.(*ssa.Const); ok && c.Value != nil && c.Value.ExactString() == "true" {
						isRep = true
					}
				}
				if g.Field.Name() == "MsgTimestamp" {
					tsPath = w.accessPath(g.Val)
					tsVal = g.Val
				}
			}
			okTs := false
			want := ""
			inRecovery := fnSym(rootFunc(fn)).name == "RecoveryMetaMsg"
			switch {
			case inRecovery:
				want = "the recorded DropTS"
				okTs = strings.HasSuffix(tsPath, ".DropTS")
			case et == "ReplicateCreateCollection":
				want = "CollectionInfo.CreateTime"
				okTs = strings.HasSuffix(tsPath, ".CreateTime")
			case et == "ReplicateCreatePartition":
				want = "PartitionInfo.PartitionCreatedTimestamp"
				okTs = strings.HasSuffix(tsPath, ".PartitionCreatedTimestamp")
			default:
				want = "the barrier callback's message time parameter"
				if p, ok := tsVal.(*ssa.Parameter); ok && fn.Parent() != nil && p == fn.Params[0] {
					okTs = true
				}
			}
			r.Check(isRep && okTs, "C20-R6", cons, al.Pos(), "IsReplicate=true, MsgTimestamp from "+want, fmt.Sprintf("IsReplicate=%v, MsgTimestamp from %s (want %s)", isRep, tsPath, want))
		}
	}
	if nEv < 6 {
		r.Fail("C20-R6", "event literal census", 0, fmt.Sprintf("only %d create/drop event literals found (6 confirmed by hand)", nEv))
	}
}

func tname(n *types.Named) string {
	if n == nil {
		return "<none>"
	}
	return n.Obj().Name()
}

// lastIndexOf: v is x.EndPositions[len(x.EndPositions)-1].Timestamp (index = len-1).
func lastIndexOf(v ssa.Value, pack *ssa.Parameter) bool {
	for _, x := range backSlice(v, SliceOpts{MaxDepth: 8}) {
		ia, ok := x.(*ssa.IndexAddr)
		if !ok {
			continue
		}
		bo, ok := ia.Index.(*ssa.BinOp)
		if !ok || bo.Op != token.SUB {
			continue
		}
		c, ok := bo.Y.(*ssa.Const)
		if !ok || c.Value == nil || c.Value.ExactString() != "1" {
			continue
		}
		lc, ok := bo.X.(*ssa.Call)
		if !ok {
			continue
		}
		if b, ok := lc.Call.Value.(*ssa.Builtin); ok && b.Name() == "len" {
			return true
		}
	}
	return false
}

// usedByCallInSameBlock: the value is stored into a varargs array that is sliced and passed to an
// invoke-mode call in the same block (option built at the call site).
func usedByCallInSameBlock(c *ssa.Call) bool {
	if c.Referrers() == nil {
		return false
	}
	for _, ref := range *c.Referrers() {
		st, ok := ref.(*ssa.Store)
		if !ok {
			continue
		}
		ia, ok := st.Addr.(*ssa.IndexAddr)
		if !ok {
			continue
		}
		al, ok := ia.X.(*ssa.Alloc)
		if !ok || al.Referrers() == nil {
			continue
		}
		for _, r2 := range *al.Referrers() {
			sl, ok := r2.(*ssa.Slice)
			if !ok || sl.Referrers() == nil {
				continue
			}
			for _, r3 := range *sl.Referrers() {
				if k, ok := r3.(*ssa.Call); ok && k.Block() == c.Block() && k.Call.IsInvoke() {
					return true
				}
			}
		}
	}
	return false
}

// c20OneRequestOrSkip (C20-R9): an op function answers "done" (nil) only after its downstream request was made, or on a
// branch chosen by the readiness decision (WaitObjReady & co: the object is dropped). A nil return that neither follows
// the DataHandler call nor depends on a readiness result is a silent skip (a replay guard, a cache of "already done").
func c20OneRequestOrSkip(w *World, r *Report) {
	r.Rule("C20-R9", "an operation is answered done only after its request, or skipped by the readiness decision", "every ChannelWriter op function (ctx, *MsgBase, TsMsg) error: each return of a nil error is dominated by the DataHandler call or lies on a branch whose condition derives from a Wait*Ready* result", 10)
	named := w.Named(pkgWriter, "ChannelWriter")
	if named == nil {
		r.Undecided("C20-R9", "ChannelWriter", 0, "anchor not found")
		return
	}
	n := 0
	for i := 0; i < named.NumMethods(); i++ {
		m := named.Method(i)
		fn := w.Prog.FuncValue(m)
		if fn == nil || len(fn.Blocks) == 0 {
			continue
		}
		sg := fn.Signature
		if sg.Params().Len() != 3 || sg.Results().Len() != 1 || !isErrorType(sg.Results().At(0).Type()) {
			continue
		}
		if !strings.HasSuffix(sg.Params().At(1).Type().String(), "commonpb.MsgBase") || !strings.HasSuffix(sg.Params().At(2).Type().String(), "msgstream.TsMsg") {
			continue
		}
		var reqs []ssa.Instruction
		eachInstrDeep(fn, func(g *ssa.Function, in ssa.Instruction) {
			if c, ok := in.(*ssa.Call); ok && c.Common().IsInvoke() {
				if rv := c.Common().Value; rv != nil && strings.HasSuffix(w.accessPath(rv), ".dataHandler") {
					reqs = append(reqs, c)
				}
			}
		})
		if len(reqs) == 0 {
			continue
		}
		k := 0
		eachInstr(fn, func(in ssa.Instruction) {
			ret, ok := in.(*ssa.Return)
			if !ok || len(ret.Results) != 1 || !isNilConst(returnedValue(ret, 0)) {
				return
			}
			n++
			k++
			cons := fmt.Sprintf("(*ChannelWriter).%s | nil return #%d", m.Name(), k)
			for _, q := range reqs {
				if q.Parent() == fn && instrDominates(q, ret) {
					r.OK("C20-R9", cons, ret.Pos(), "after the downstream request")
					return
				}
				if q.Parent() != fn {
					// the request is made inside a retry / callback literal: the call that runs the literal dominates
					if site := syncCallbackSite(q.Parent()); site != nil && site.Parent() == fn && instrDominates(site, ret) {
						r.OK("C20-R9", cons, ret.Pos(), "after the downstream request (made in a callback)")
						return
					}
				}
			}
			// a readiness decision selects this return
			for _, b := range fn.Blocks {
				cond, _, _, isIf := ifSuccs(b)
				if !isIf || !(b.Dominates(ret.Block())) || b == ret.Block() {
					continue
				}
				for _, x := range backSlice(cond, SliceOpts{MaxDepth: 6}) {
					if c, isC := x.(*ssa.Call); isC {
						if nm := callSym(c.Common()).name; strings.HasPrefix(nm, "Wait") && strings.Contains(nm, "Ready") {
							r.OK("C20-R9", cons, ret.Pos(), "skip selected by "+nm)
							return
						}
						// every member of the request's list was skipped by the readiness decision taken in the loop
						if bi, isB := c.Call.Value.(*ssa.Builtin); isB && bi.Name() == "len" {
							inLoop := false
							eachInstr(fn, func(in2 ssa.Instruction) {
								if c2, ok2 := in2.(*ssa.Call); ok2 && loopHeaderOf(c2.Block()) != nil {
									if nm := callSym(c2.Common()).name; strings.HasPrefix(nm, "Wait") && strings.Contains(nm, "Ready") {
										inLoop = true
									}
								}
							})
							if inLoop {
								r.OK("C20-R9", cons, ret.Pos(), "the list left by the per-member readiness decisions is empty")
								return
							}
						}
					}
				}
			}
			r.Fail("C20-R9", cons, ret.Pos(), "the operation is answered as done although no downstream request was made and no readiness decision selected the skip (a replay guard or an 'already done' table): a source operation is turned into zero downstream requests, e.g. the re-creation of a role that was dropped in between")
		})
	}
	if n == 0 {
		r.Undecided("C20-R9", "ChannelWriter op functions", 0, "no op function with a DataHandler call found")
	}
}
