package main

import (
	"go/types"
	"os"
	"fmt"
	"go/token"
	"strings"

	"golang.org/x/tools/go/ssa"
)

func init() {
	register("C02", &propDef{run: runC02,
		explain: "The forward-versus-local routing decision (it depends on per-message runtime state), placement arithmetic and the timing of the lazy partition-id refresh are NOT decided. Decided structural necessary conditions of 're-addressed and routed to the right downstream channel': (R1) on every path from a message-type arm to the append the message's collection id, shard name and partition id(s) were stored from the target info of the message's own collection / from getPartitionID(s); (R2) the position given to SetPosition names the target physical or virtual channel and keeps the source message id; the pack's start/end positions are clones (copyMsgPositions clones every element) renamed to the handler's target channel before the non-forward return; (R3) in the drop arms every field write is on the copy made by copyDropTypeMsg, (R11) and that copy stores no pointer, slice or map of the input as it is; (R4) ForeachChannel pairs the i-th of the sorted source list with the i-th of the sorted target list after a length check; (R5) every tsManager call of the channel handler uses the key built from its replicate id and its target channel; (R6) the per-shard TargetCollectionInfo is built from the paired target vchannel and the downstream collection info; (R7) id domains: the source-keyed sets and lookups (isDropped*, getCollectionTargetInfo, getPartitionID(s), Remove*) never receive a message id field that was already overwritten with the downstream id, synthetic drop messages carry source ids, and RemovePartitionInfo's comparison mixes no domains; (R8) channelHandlerMap is only looked up with mapping keys.",
		notDec:  []string{"forward-vs-local decision per message", "placement arithmetic (C16)", "when downstream partition ids become known"},
	})
}

func runC02(w *World, r *Report) {
	// a drop-partition message that was signalled is also re-addressed and emitted
	defer c04SignalOnlyEmitted(w, r, "C02-R10")
	r.Rule("C02-R1", "rewrite completeness per message type", "every path from the arm to the local append passes stores CollectionID<-info.CollectionID, ShardName<-info.VChannel (Insert/Delete), PartitionID<-getPartitionID (Insert, DropPartition; Delete under the name test), PartitionIDs<-getPartitionIDs (Import); info = getCollectionTargetInfo(sourceCollectionID)", 10)
	r.Rule("C02-R2", "positions name the downstream channel, keep the source id", "SetPosition literal: ChannelName<-info.PChannel|info.VChannel, MsgID/MsgGroup<-the original position; pack positions: cloned by copyMsgPositions, ChannelName<-r.targetPChannel before the non-forward return", 7)
	r.Rule("C02-R3", "copy before write for dispatcher-shared messages", "DropCollection/DropPartition arms: field writes only on the value returned by copyDropTypeMsg", 2)
	r.Rule("C02-R11", "the drop-message copy shares no payload with the input", "copyDropTypeMsg: no pointer / slice / map (or struct holding one) read from the input message is stored into the copy as it is; each goes through a call (typeutil.Clone) or a fresh slice", 4)
	c02DropCopyDeep(w, r, "C02-R11")
	r.Rule("C02-R4", "sorted one-to-one pairing", "ForeachChannel: length check first; both lists are sorted copies; callback gets sources[i], targets[i]", 3)
	r.Rule("C02-R5", "channel-key provenance", "tsManager calls from replicateChannelHandler methods pass getTSManagerChannelKey(r.targetPChannel) (or r.replicateID, r.targetPChannel separately)", 12)
	r.Rule("C02-R6", "per-shard target info", "model.TargetCollectionInfo literal in StartReadCollection: VChannel<-paired target vchannel, PChannel<-ToPhysicalChannel(it), CollectionID/PartitionInfo<-downstream collection info", 4)
	r.Rule("C02-R7", "one id domain per use", "source-keyed consumers get source ids; synthetic drop messages carry source ids; no comparison between a downstream id and a source id", 12)
	r.Rule("C02-R9", "no id from a failed lookup", "handlePack: the error of getCollectionTargetInfo / getPartitionID(s) is tested before the message can be appended or the loop continued (except on drop-state / `-1` sentinel edges), and the error branch reports and returns: no message is emitted with an id that a failed lookup left at zero", 5)
	hpLookupErrors(w, r, "C02-R9")
	r.Rule("C02-R8", "handler map is keyed by mapping keys", "every lookup in channelHandlerMap uses a key from ChannelMapping.GetMapKey / getChannelMapKey", 2)

	m := buildHPModel(w)
	if m.Err != "" || m.LocalAppend == nil {
		r.Undecided("C02-R1", "handlePack model", 0, "handlePack model incomplete: "+m.Err)
		return
	}
	fn := m.Fn
	fam := m.Fam
	// info: result 0 of getCollectionTargetInfo in the loop
	var infoCall *ssa.Call
	eachInstr(fn, func(in ssa.Instruction) {
		if c, ok := in.(*ssa.Call); ok && callSym(c.Common()).name == "getCollectionTargetInfo" && loopHeaderOf(c.Block()) == m.LoopHeader {
			infoCall = c
		}
	})
	isInfoField := func(v ssa.Value, field string) bool {
		ap := w.accessPath(v)
		return strings.HasPrefix(ap, "call:getCollectionTargetInfo@") && strings.HasSuffix(ap, "#0."+field)
	}
	fromCall := func(v ssa.Value, name string) bool {
		for _, x := range backSlice(v, SliceOpts{MaxDepth: 6}) {
			if c, ok := x.(*ssa.Call); ok && callSym(c.Common()).name == name {
				return true
			}
		}
		return false
	}
	stores := msgFieldStores(w, fn)
	type need struct {
		field string
		ok    func(v ssa.Value) bool
		what  string
		cond  bool // only required on some path (Delete's partition id under the name test)
	}
	needs := map[string][]need{
		"Insert": {{"CollectionID", func(v ssa.Value) bool { return isInfoField(v, "CollectionID") }, "info.CollectionID", false},
			{"ShardName", func(v ssa.Value) bool { return isInfoField(v, "VChannel") }, "info.VChannel", false},
			{"PartitionID", func(v ssa.Value) bool { return fromCall(v, "getPartitionID") }, "getPartitionID(…)", false}},
		"Delete": {{"CollectionID", func(v ssa.Value) bool { return isInfoField(v, "CollectionID") }, "info.CollectionID", false},
			{"ShardName", func(v ssa.Value) bool { return isInfoField(v, "VChannel") }, "info.VChannel", false},
			{"PartitionID", func(v ssa.Value) bool { return fromCall(v, "getPartitionID") }, "getPartitionID(…)", true}},
		"DropCollection": {{"CollectionID", func(v ssa.Value) bool { return isInfoField(v, "CollectionID") }, "info.CollectionID", false}},
		"DropPartition": {{"CollectionID", func(v ssa.Value) bool { return isInfoField(v, "CollectionID") }, "info.CollectionID", false},
			{"PartitionID", func(v ssa.Value) bool { return fromCall(v, "getPartitionID") }, "getPartitionID(…)", false}},
		"Import": {{"CollectionID", func(v ssa.Value) bool { return isInfoField(v, "CollectionID") }, "info.CollectionID", false},
			{"PartitionIDs", func(v ssa.Value) bool { return fromCall(v, "getPartitionIDs") }, "getPartitionIDs(…)", true}},
	}
	appendBlk := m.LocalAppend.Block()
	for _, arm := range []string{"Insert", "Delete", "DropCollection", "DropPartition", "Import"} {
		ab := m.Arms[arm]
		for _, nd := range needs[arm] {
			cons := fmt.Sprintf("(*replicateChannelHandler).handlePack | %s arm: %s", arm, nd.field)
			if ab == nil {
				r.Fail("C02-R1", cons, fn.Pos(), "no arm for this message type")
				continue
			}
			var good []*ssa.Store
			for _, fs := range stores {
				if fs.MsgType == arm && fs.Field == nd.field && m.inArm(arm, fs.St) && nd.ok(fs.St.Val) {
					good = append(good, fs.St)
				}
			}
			if len(good) == 0 {
				r.Fail("C02-R1", cons, lastPos(ab), fmt.Sprintf("no store of %s into %sMsg.%s in this arm: the message is emitted with the source's %s", nd.what, arm, nd.field, nd.field))
				continue
			}
			if nd.cond {
				r.OK("C02-R1", cons, good[0].Pos(), "<- "+nd.what+" (on the path that needs it)")
				continue
			}
			// every path arm -> append passes one of the good stores
			stop := map[*ssa.BasicBlock]bool{m.LoopHeader: true}
			for _, g := range good {
				stop[g.Block()] = true
			}
			bypass := ab == appendBlk || w.reachWithNilFacts(ab, appendBlk, stop)
			if stop[ab] {
				bypass = false
			}
			r.Check(!bypass, "C02-R1", cons, good[0].Pos(), "<- "+nd.what+" on every path to the append", fmt.Sprintf("a path from the %s arm reaches the append without %s having been rewritten", arm, nd.field))
		}
	}
	// info is the target info of the message's own collection
	if infoCall != nil {
		ap := w.accessPath(infoCall.Call.Args[len(infoCall.Call.Args)-1])
		r.Check(strings.Contains(ap, "sourceCollectionID") || strings.Contains(ap, "GetCollectionID"), "C02-R1", "(*replicateChannelHandler).handlePack | info = target info of the message's collection", infoCall.Pos(), "getCollectionTargetInfo("+ap+")", "the target info is not looked up with the message's own collection id")
	} else {
		r.Fail("C02-R1", "(*replicateChannelHandler).handlePack | info = target info of the message's collection", fn.Pos(), "getCollectionTargetInfo is not called in the message loop")
	}

	// ---------- R2 positions
	{
		var sp *ssa.Call
		eachInstr(fn, func(in ssa.Instruction) {
			if c, ok := in.(*ssa.Call); ok && c.Call.IsInvoke() && c.Call.Method.Name() == "SetPosition" && loopHeaderOf(c.Block()) == m.LoopHeader {
				sp = c
			}
		})
		if sp == nil {
			r.Fail("C02-R2", "handlePack | SetPosition", fn.Pos(), "no SetPosition call in the message loop")
		} else {
			al, _ := baseObject(fam, sp.Call.Args[0]).(*ssa.Alloc)
			got := map[string]ssa.Value{}
			if al != nil {
				for _, fs := range fieldStoresOn(fam, al) {
					if fs.Field != nil {
						got[fs.Field.Name()] = fs.Val
					}
				}
			}
			okCh, bad := mustDerive(got["ChannelName"], func(v ssa.Value) leafVerdict {
				if isInfoField(v, "PChannel") || isInfoField(v, "VChannel") {
					return leafGood
				}
				return leafDescend
			})
			det := ""
			if !okCh && bad != nil {
				det = "position channel comes from " + w.accessPath(bad)
			}
			r.Check(got["ChannelName"] != nil && okCh, "C02-R2", "handlePack | message position channel", sp.Pos(), "info.PChannel or info.VChannel", "the message position does not name the downstream channel: "+det)
			for _, f := range []string{"MsgID", "MsgGroup"} {
				v := got[f]
				ok := v != nil && strings.Contains(w.accessPath(v), "call:Position@") && strings.HasSuffix(w.accessPath(v), "."+f)
				r.Check(ok, "C02-R2", "handlePack | message position "+f, sp.Pos(), "kept from the original position", "the source "+f+" is not carried over into the rewritten position")
			}
			r.Check(instrDominates(sp, m.LocalAppend), "C02-R2", "handlePack | position rewritten before the append", sp.Pos(), "SetPosition dominates the append", "a message can be appended without its position having been renamed")
		}
		// pack positions
		for _, f := range []string{"StartPositions", "EndPositions"} {
			pv := w.resolveFieldPath(fam, w.accessPath(m.NewPack), []string{f}, m.LocalAppend, 0)
			ok := len(pv.Vals) > 0
			for _, v := range pv.Vals {
				c, isC := v.(*ssa.Call)
				if !isC || callSym(c.Common()).name != "copyMsgPositions" || w.accessPath(c.Call.Args[0]) != "param:"+m.Pack.Name()+"."+f {
					ok = false
				}
			}
			r.Check(ok, "C02-R2", "handlePack | output pack "+f+" are copies", m.NewPack.Pos(), "copyMsgPositions(pack."+f+")", "the output pack shares its "+f+" with the source pack: renaming them rewrites positions the dispatcher handed to other streams")
			// renamed to the target channel in a loop before the lock / return
			renamed := false
			eachInstr(fn, func(in ssa.Instruction) {
				st, isSt := in.(*ssa.Store)
				if !isSt {
					return
				}
				ap := w.accessPath(st.Addr)
				if strings.HasSuffix(ap, "."+f+"[].ChannelName") && strings.HasSuffix(w.accessPath(st.Val), ".targetPChannel") {
					renamed = true
				}
			})
			r.Check(renamed, "C02-R2", "handlePack | output pack "+f+" renamed", m.NewPack.Pos(), "ChannelName <- r.targetPChannel", "the pack's "+f+" keep the source channel name")
		}
		if cp := w.Func(pkgReader, "", "copyMsgPositions"); cp != nil {
			ok := false
			var shared token.Pos
			eachInstr(cp, func(in ssa.Instruction) {
				st, isSt := in.(*ssa.Store)
				if !isSt {
					return
				}
				if _, isIA := st.Addr.(*ssa.IndexAddr); !isIA {
					return
				}
				if c, isC := st.Val.(*ssa.Call); isC && callSym(c.Common()).name == "Clone" {
					ok = true
				} else {
					// an element of the input stored as it is (a conditional "no need to clone" path)
					for _, x := range backSlice(st.Val, SliceOpts{MaxDepth: 5, NoAggregates: true}) {
						if strings.HasPrefix(w.accessPath(x), "param:"+cp.Params[0].Name()) {
							shared = st.Pos()
						}
					}
				}
			})
			if shared.IsValid() {
				ok = false
			}
			r.Check(ok, "C02-R2", "copyMsgPositions | clones every element", cp.Pos(), "newPositions[i] = typeutil.Clone(pos)", "copyMsgPositions copies the slice but shares the MsgPosition objects: renaming one stream's pack positions rewrites another stream's")
		} else {
			r.Undecided("C02-R2", "copyMsgPositions", 0, "anchor not found")
		}
	}

	// fromCopy: the value is the result of copyDropTypeMsg on every path reaching `at` (the variable `msg` is also
	// assigned in the other drop arm: only the store that reaches this use counts)
	var fromCopy func(v ssa.Value, at ssa.Instruction, d int) bool
	fromCopy = func(v ssa.Value, at ssa.Instruction, d int) bool {
		if d > 5 {
			return false
		}
		switch x := v.(type) {
		case *ssa.MakeInterface:
			return fromCopy(x.X, at, d+1)
		case *ssa.ChangeInterface:
			return fromCopy(x.X, at, d+1)
		case *ssa.ChangeType:
			return fromCopy(x.X, at, d+1)
		case *ssa.Call:
			return callSym(x.Common()).name == "copyDropTypeMsg"
		case *ssa.UnOp:
			if x.Op == token.MUL {
				if al, ok := fam.canon(x.X).(*ssa.Alloc); ok {
					sts := latestDominating(fam.stores[al], x)
					if len(sts) == 0 {
						return false
					}
					for _, st := range sts {
						if !fromCopy(st.Val, st, d+1) {
							return false
						}
					}
					return true
				}
			}
		case *ssa.Phi:
			for _, e := range x.Edges {
				if !fromCopy(e, at, d+1) {
					return false
				}
			}
			return len(x.Edges) > 0
		}
		return false
	}
	// ---------- R3 copy before write
	for _, arm := range []string{"DropCollection", "DropPartition"} {
		cons := fmt.Sprintf("(*replicateChannelHandler).handlePack | %s arm writes only the copy", arm)
		okAll, n := true, 0
		for _, fs := range stores {
			if fs.MsgType != arm || !m.inArm(arm, fs.St) {
				continue
			}
			n++
			// base object of the store: must come from a (non comma-ok) type assertion of copyDropTypeMsg's result
			base := fs.St.Addr
			for i := 0; i < 6; i++ {
				switch x := base.(type) {
				case *ssa.FieldAddr:
					base = x.X
					continue
				case *ssa.UnOp:
					if x.Op == token.MUL {
						if f2, ok := x.X.(*ssa.FieldAddr); ok {
							base = f2
							continue
						}
					}
				}
				break
			}
			// base is a value of type *XMsg: either a TypeAssert or a load of the captured variable
			var cands []ssa.Value
			if u, ok := base.(*ssa.UnOp); ok && u.Op == token.MUL {
				if al, isAl := fam.canon(u.X).(*ssa.Alloc); isAl {
					for _, st := range latestDominating(fam.stores[al], fs.St) {
						cands = append(cands, st.Val)
					}
				}
			} else {
				cands = []ssa.Value{base}
			}
			if len(cands) == 0 {
				okAll = false
			}
			for _, c := range cands {
				ta, isTA := c.(*ssa.TypeAssert)
				if !isTA || ta.CommaOk || !fromCopy(ta.X, ta, 0) {
					okAll = false
				}
			}
		}
		r.Check(okAll && n > 0, "C02-R3", cons, lastPos(m.Arms[arm]), fmt.Sprintf("%d field write(s), all on the copy", n), "a drop message shared by all shards of the collection is modified in place: the other shards see this shard's downstream ids")
	}

	// ---------- R4 ForeachChannel
	if fc := w.Func(pkgReader, "", "ForeachChannel"); fc != nil {
		var lenChk *ssa.BinOp
		var sorts []*ssa.Call
		var cb *ssa.Call
		eachInstr(fc, func(in ssa.Instruction) {
			switch x := in.(type) {
			case *ssa.BinOp:
				if x.Op == token.NEQ || x.Op == token.EQL {
					lx, okx := x.X.(*ssa.Call)
					ly, oky := x.Y.(*ssa.Call)
					if okx && oky {
						bx, _ := lx.Call.Value.(*ssa.Builtin)
						by, _ := ly.Call.Value.(*ssa.Builtin)
						if bx != nil && by != nil && bx.Name() == "len" && by.Name() == "len" {
							lenChk = x
						}
					}
				}
			case *ssa.Call:
				if callSym(x.Common()) == (sym{"sort", "", "Strings"}) {
					sorts = append(sorts, x)
				}
				if x.Call.Value == ssa.Value(fc.Params[2]) {
					cb = x
				}
			}
		})
		okLen := lenChk != nil && cb != nil && instrDominates(lenChk, cb)
		r.Check(okLen, "C02-R4", "ForeachChannel | length check first", fc.Pos(), "len(source)==len(target) tested before pairing", "lists of different length are paired")
		okSort := len(sorts) == 2 && cb != nil
		if okSort {
			for _, s := range sorts {
				if !instrDominates(s, cb) {
					okSort = false
				}
				// sorted value is a copy (MakeSlice), not the parameter
				if _, isMk := baseObject(familyOf(fc), s.Call.Args[0]).(*ssa.MakeSlice); !isMk {
					okSort = false
				}
			}
		}
		r.Check(okSort, "C02-R4", "ForeachChannel | both lists sorted (copies)", fc.Pos(), "sort.Strings on copies of both lists before the loop", "the two vchannel lists are not both sorted before being paired (or the caller's slices are reordered)")
		okIdx := false
		if cb != nil && len(cb.Call.Args) == 2 {
			idx := func(v ssa.Value) ssa.Value {
				for _, x := range backSlice(v, SliceOpts{MaxDepth: 4}) {
					if ia, ok := x.(*ssa.IndexAddr); ok {
						return ia.Index
					}
				}
				return nil
			}
			i0, i1 := idx(cb.Call.Args[0]), idx(cb.Call.Args[1])
			okIdx = i0 != nil && i0 == i1
		}
		r.Check(okIdx, "C02-R4", "ForeachChannel | same index on both sides", fc.Pos(), "f(sources[i], targets[i])", "the callback is not given the same index of both sorted lists")
	} else {
		r.Undecided("C02-R4", "ForeachChannel", 0, "anchor not found")
	}

	// ---------- R5 channel keys
	nKey := map[string]int{}
	for _, g := range w.RepoFuncs() {
		if s := fnSym(rootFunc(g)); s.pkg != pkgReader || s.recv != "replicateChannelHandler" {
			continue
		}
		eachInstr(g, func(in ssa.Instruction) {
			c, ok := in.(*ssa.Call)
			if !ok {
				return
			}
			s := callSym(c.Common())
			if s.recv != "tsManager" {
				return
			}
			host := shortFn2(g)
			nKey[host+s.name]++
			cons := fmt.Sprintf("%s | tsManager.%s#%d key", host, s.name, nKey[host+s.name])
			a := callArgs(c.Common())
			if len(a) == 0 {
				return
			}
			if s.name == "InitTSInfo" || s.name == "ClearTSInfo" {
				ok := strings.HasSuffix(w.accessPath(a[0]), ".replicateID") && strings.HasSuffix(w.accessPath(a[1]), ".targetPChannel")
				r.Check(ok, "C02-R5", cons, c.Pos(), "(r.replicateID, r.targetPChannel)", "the clock entry is created/cleared for another channel than the handler's target channel")
				return
			}
			okKey := false
			for _, x := range backSlice(a[0], SliceOpts{MaxDepth: 6}) {
				if kc, isC := x.(*ssa.Call); isC && callSym(kc.Common()).name == "getTSManagerChannelKey" {
					if strings.HasSuffix(w.accessPath(callArgs(kc.Common())[0]), ".targetPChannel") {
						okKey = true
					}
				}
			}
			r.Check(okKey, "C02-R5", cons, c.Pos(), "getTSManagerChannelKey(r.targetPChannel)", "this clock / queue operation addresses a channel other than the handler's own downstream channel")
		})
	}
	if gk := w.Func(pkgReader, "replicateChannelHandler", "getTSManagerChannelKey"); gk != nil {
		ok := false
		eachInstr(gk, func(in ssa.Instruction) {
			if c, isC := in.(*ssa.Call); isC && callSym(c.Common()).name == "FormatChanKey" {
				if strings.HasSuffix(w.accessPath(c.Call.Args[0]), ".replicateID") && c.Call.Args[1] == ssa.Value(gk.Params[1]) {
					ok = true
				}
			}
		})
		r.Check(ok, "C02-R5", "getTSManagerChannelKey | FormatChanKey(r.replicateID, channel)", gk.Pos(), "key = replicate id + channel", "the channel key is not built from the handler's replicate id and the channel name")
	}

	// ---------- R6 per-shard target info
	if src := w.Func(pkgReader, "replicateChannelManager", "StartReadCollection"); src != nil {
		var cb *ssa.Function
		for _, g := range src.AnonFuncs {
			if len(allocsOfType(g, pkgModel, "TargetCollectionInfo", false)) > 0 {
				cb = g
			}
		}
		if cb == nil {
			r.Fail("C02-R6", "StartReadCollection | TargetCollectionInfo literal", src.Pos(), "literal not found in the per-shard callback")
		} else {
			cfam := familyOf(cb)
			al := allocsOfType(cb, pkgModel, "TargetCollectionInfo", false)[0]
			got := map[string]ssa.Value{}
			for _, fs := range fieldStoresOn(cfam, al) {
				if fs.Field != nil {
					got[fs.Field.Name()] = fs.Val
				}
			}
			tgt := cb.Params[1]
			r.Check(got["VChannel"] == ssa.Value(tgt), "C02-R6", "StartReadCollection$lit | TargetCollectionInfo.VChannel", al.Pos(), "<- the paired target vchannel", "the shard's downstream vchannel is not the one it was paired with")
			okP := false
			if c, isC := got["PChannel"].(*ssa.Call); isC && callSym(c.Common()).name == "ToPhysicalChannel" && c.Call.Args[0] == ssa.Value(tgt) {
				okP = true
			} else if got["PChannel"] != nil {
				if c2, isC2 := baseObject(cfam, got["PChannel"]).(*ssa.Call); isC2 && callSym(c2.Common()).name == "ToPhysicalChannel" && c2.Call.Args[0] == ssa.Value(tgt) {
					okP = true
				}
			}
			r.Check(okP, "C02-R6", "StartReadCollection$lit | TargetCollectionInfo.PChannel", al.Pos(), "<- ToPhysicalChannel(target vchannel)", "the downstream physical channel is not derived from the paired target vchannel")
			for _, f := range []struct{ field, suffix string }{{"CollectionID", ".CollectionID"}, {"PartitionInfo", ".Partitions"}} {
				ap := w.accessPath(got[f.field])
				ok := got[f.field] != nil && strings.HasSuffix(ap, f.suffix) && strings.Contains(ap, "targetInfo")
				r.Check(ok, "C02-R6", "StartReadCollection$lit | TargetCollectionInfo."+f.field, al.Pos(), "<- downstream collection info", "TargetCollectionInfo."+f.field+" is taken from "+ap+", not from the downstream collection info")
			}
		}
	} else {
		r.Undecided("C02-R6", "StartReadCollection", 0, "anchor not found")
	}

	// ---------- R7 id domains
	c02IDDomains(w, r, m, "C02-R7", false)

	// ---------- R8 handler map keys
	for _, g := range w.RepoFuncs() {
		if s := fnSym(rootFunc(g)); s.pkg != pkgReader || s.recv != "replicateChannelManager" {
			continue
		}
		k := 0
		eachInstr(g, func(in ssa.Instruction) {
			lk, ok := in.(*ssa.Lookup)
			if !ok || !strings.HasSuffix(w.accessPath(lk.X), ".channelHandlerMap") {
				return
			}
			k++
			okKey := false
			for _, x := range backSlice(lk.Index, SliceOpts{MaxDepth: 6}) {
				if c, isC := x.(*ssa.Call); isC {
					n := callSym(c.Common()).name
					if n == "GetMapKey" || n == "getChannelMapKey" {
						okKey = true
					}
				}
				// the recorded mapping key read directly from sourcePChannelKeyMap (getChannelMapKey inlined)
				if os.Getenv("VDEBUG") != "" {
					if lk2, isL := x.(*ssa.Lookup); isL {
						fmt.Println("DEBUG lookup", w.accessPath(lk2.X), "|", w.accessPath(lk2))
					}
				}
				if lk2, isL := x.(*ssa.Lookup); isL && strings.Contains(w.accessPath(lk2.X), ".sourcePChannelKeyMap[]") {
					okKey = true
				}
			}
			r.Check(okKey, "C02-R8", fmt.Sprintf("%s | channelHandlerMap lookup#%d", shortFn2(g), k), lk.Pos(), "key from GetMapKey / getChannelMapKey", "the handler table (keyed by the mapping key: source or target channel depending on the channel counts) is looked up with "+w.accessPath(lk.Index)+": with equally named or crossed channels the wrong handler is selected")
		})
	}
}

// dropOnly restricts the rule to the drop bookkeeping (dropped sets, handler removal, synthetic drop messages): that
// part is also a necessary condition of C04 and is reported there as C04-R7.
func c02IDDomains(w *World, r *Report, m *hpModel, rule string, dropOnly bool) {
	_ = m.Fn
	fam := m.Fam
	// source-id consumers: callee name -> indices of id arguments (after the receiver)
	consumers := map[string][]int{
		"isDroppedCollection": {0}, "isDroppedPartition": {0}, "isDroppingPartition": {0},
		"RemoveCollection": {0}, "getCollectionTargetInfo": {0},
		"getPartitionID": {0, 1}, "getPartitionIDs": {0, 1}, "RemovePartitionInfo": {0, 2},
		"updateTargetPartitionInfo": {0}, "AddPartitionInfo": {},
	}
	// stores that move a message id field into the downstream domain
	type rewrite struct {
		path string
		st   *ssa.Store
	}
	var rewrites []rewrite
	for _, g := range fam.Funcs {
		for _, fs := range msgFieldStores(w, g) {
			if fs.Field != "CollectionID" && fs.Field != "PartitionID" {
				continue
			}
			vp := w.accessPath(fs.St.Val)
			dst := strings.Contains(vp, "getCollectionTargetInfo") || strings.Contains(vp, "getPartitionID")
			for _, x := range backSlice(fs.St.Val, SliceOpts{MaxDepth: 5}) {
				if c, ok := x.(*ssa.Call); ok && (callSym(c.Common()).name == "getPartitionID") {
					dst = true
				}
			}
			if dst {
				rewrites = append(rewrites, rewrite{w.accessPath(fs.St.Addr), fs.St})
			}
		}
	}
	n := map[string]int{}
	for _, g := range append(append([]*ssa.Function{}, fam.Funcs...), extraIDFuncs(w)...) {
		eachInstr(g, func(in ssa.Instruction) {
			c, ok := in.(*ssa.Call)
			if !ok {
				return
			}
			name := callSym(c.Common()).name
			if name == "" {
				ap := w.accessPath(c.Call.Value)
				name = ap[strings.LastIndex(ap, ".")+1:]
			}
			idxs, isCons := consumers[name]
			if !isCons {
				return
			}
			if dropOnly && !(strings.HasPrefix(name, "isDropp") || name == "RemoveCollection" || name == "RemovePartitionInfo") {
				return
			}
			args := callArgs(c.Common())
			if calleeObj(c.Common()) == nil {
				args = c.Call.Args
			}
			for _, i := range idxs {
				if i >= len(args) {
					continue
				}
				n[name]++
				cons := fmt.Sprintf("%s | %s#%d id argument %d", shortFn2(g), name, n[name], i)
				bad := ""
				// the argument is a (possibly indirect) read of a message id field that was rewritten before on some path
				for _, x := range backSlice(args[i], SliceOpts{MaxDepth: 4, NoAggregates: true}) {
					u, isU := x.(*ssa.UnOp)
					if !isU || u.Op != token.MUL {
						continue
					}
					if _, isFA := u.X.(*ssa.FieldAddr); !isFA {
						continue
					}
					lp := w.accessPath(u.X)
					for _, rw := range rewrites {
						if rw.path != lp {
							continue
						}
						reaches := false
						if rw.st.Parent() == u.Parent() {
							reaches = instrReaches(rw.st, u) && loopFree(rw.st, u)
						} else {
							// the read is in a closure created after the rewrite
							reaches = closureCreatedAfter(g, rw.st)
						}
						if reaches {
							bad = fmt.Sprintf("reads %s after it was overwritten with the downstream id at %s", lp, w.pos(rw.st.Pos()))
						}
					}
				}
				// the argument is read from the downstream collection info (TargetCollectionInfo.CollectionID / .PartitionInfo)
				for _, x := range backSlice(args[i], SliceOpts{MaxDepth: 4, NoAggregates: true}) {
					var owner types.Type
					fname := ""
					switch y := x.(type) {
					case *ssa.FieldAddr:
						owner, fname = y.X.Type(), fieldName(y.X.Type(), y.Field)
					case *ssa.Field:
						owner, fname = y.X.Type(), fieldName(y.X.Type(), y.Field)
					}
					if owner != nil && typeIs(owner, pkgModel, "TargetCollectionInfo") && (fname == "CollectionID" || fname == "PartitionInfo") {
						bad = "reads TargetCollectionInfo." + fname + " (the downstream id)"
					}
				}
				r.Check(bad == "", rule, cons, c.Pos(), "source id", "a source-keyed lookup/set is given a downstream id: "+bad)
			}
		})
	}
	// synthetic drop messages carry source ids
	for _, spec := range []struct{ fn, req string }{{"AddCollection", "DropCollectionRequest"}, {"AddPartitionInfo", "DropPartitionRequest"}} {
		f := w.Func(pkgReader, "replicateChannelHandler", spec.fn)
		if f == nil {
			r.Undecided(rule, spec.fn, 0, "anchor not found")
			continue
		}
		ffam := familyOf(f)
		for _, g := range ffam.Funcs {
			for _, al := range allocsOfType(g, pkgMsgpb, spec.req, false) {
				for _, fs := range fieldStoresOn(ffam, al) {
					if fs.Field == nil || (fs.Field.Name() != "CollectionID" && fs.Field.Name() != "PartitionID") {
						continue
					}
					ap := w.accessPath(fs.Val)
					src := strings.Contains(ap, "sourceInfo") || strings.Contains(ap, "collectionInfo.ID") || strings.Contains(ap, "partitionInfo.PartitionID") || strings.HasSuffix(ap, "collectionInfo.ID")
					tgt := strings.Contains(ap, "targetInfo")
					r.Check(src && !tgt, rule, fmt.Sprintf("(*replicateChannelHandler).%s | synthetic %s.%s", spec.fn, spec.req, fs.Field.Name()), fs.Store.Pos(), "<- "+ap+" (source id)", "the synthetic drop message carries "+ap+": handlePack looks the collection up by source id, does not find it and the drop is never replayed")
				}
			}
		}
	}
	// RemovePartitionInfo: the comparison PartitionInfo[name] == id
	if rp := w.Func(pkgReader, "replicateChannelHandler", "RemovePartitionInfo"); rp != nil && !dropOnly {
		idParam := rp.Params[3]
		mixed := false
		var where token.Pos
		eachInstr(rp, func(in ssa.Instruction) {
			bo, ok := in.(*ssa.BinOp)
			if !ok || bo.Op != token.EQL {
				return
			}
			for _, pair := range [][2]ssa.Value{{bo.X, bo.Y}, {bo.Y, bo.X}} {
				if pair[1] != ssa.Value(idParam) {
					continue
				}
				if lk, isL := pair[0].(*ssa.Lookup); isL && strings.HasSuffix(w.accessPath(lk.X), ".PartitionInfo") {
					mixed, where = true, bo.Pos()
				}
			}
		})
		// what do the callers pass as id?
		srcCallers := 0
		for _, g := range w.RepoFuncs() {
			eachInstr(g, func(in ssa.Instruction) {
				c, ok := in.(*ssa.Call)
				if !ok || callSym(c.Common()).name != "RemovePartitionInfo" {
					return
				}
				ap := w.accessPath(callArgs(c.Common())[2])
				if strings.Contains(ap, "partitionInfo.PartitionID") || strings.Contains(ap, ".PartitionID") || strings.Contains(ap, "partitionID") {
					srcCallers++
				}
			})
		}
		if mixed && srcCallers > 0 {
			r.Fail(rule, "(*replicateChannelHandler).RemovePartitionInfo | PartitionInfo[name] == id", where, fmt.Sprintf("the downstream partition id stored in PartitionInfo[name] is compared with the id parameter, which all %d callers fill with the SOURCE partition id: the name->id entry of a dropped partition is (practically) never removed and a re-created partition of the same name is re-addressed with the dropped partition's downstream id", srcCallers))
		} else {
			r.OK(rule, "(*replicateChannelHandler).RemovePartitionInfo | PartitionInfo[name] == id", rp.Pos(), "no cross-domain comparison")
		}
	}
}

// closureCreatedAfter: g is a function literal whose MakeClosure in its parent is reachable from st.
func closureCreatedAfter(g *ssa.Function, st *ssa.Store) bool {
	p := g.Parent()
	if p == nil || st.Parent() != p {
		return false
	}
	found := false
	eachInstr(p, func(in ssa.Instruction) {
		if mc, ok := in.(*ssa.MakeClosure); ok && mc.Fn == ssa.Value(g) {
			if instrReaches(st, mc) && loopFree(st, mc) {
				found = true
			}
		}
	})
	return found
}

// extraIDFuncs: the handler's id lookups outside handlePack whose arguments are source ids as well.
func extraIDFuncs(w *World) []*ssa.Function {
	var out []*ssa.Function
	for _, n := range []string{"getPartitionID", "getPartitionIDs", "getCollectionTargetInfo", "AddPartitionInfo"} {
		if f := w.Func(pkgReader, "replicateChannelHandler", n); f != nil {
			out = append(out, familyOf(f).Funcs...)
		}
	}
	return out
}

// c02DropCopyDeep: the message returned by copyDropTypeMsg is handed to one shard while the dispatcher's original is
// handed to the others; the drop arms write the downstream ids into the copy's request. A reference-typed field of
// the copy that is loaded straight from the input aliases the other shards' payload.
func c02DropCopyDeep(w *World, r *Report, rule string) {
	fn := w.Func(pkgReader, "", "copyDropTypeMsg")
	if fn == nil {
		r.Undecided(rule, "copyDropTypeMsg", 0, "anchor not found")
		return
	}
	var holdsRef func(t types.Type, d int) bool
	holdsRef = func(t types.Type, d int) bool {
		switch u := t.Underlying().(type) {
		case *types.Pointer, *types.Slice, *types.Map:
			return true
		case *types.Struct:
			if d > 3 {
				return false
			}
			for i := 0; i < u.NumFields(); i++ {
				if holdsRef(u.Field(i).Type(), d+1) {
					return true
				}
			}
		}
		return false
	}
	// fromInput: v is a load along a field path that starts at a parameter / captured variable (through type assertions)
	var fromInput func(v ssa.Value, d int) bool
	fromInput = func(v ssa.Value, d int) bool {
		if d > 8 {
			return false
		}
		switch x := v.(type) {
		case *ssa.Parameter, *ssa.FreeVar:
			return true
		case *ssa.TypeAssert:
			return fromInput(x.X, d+1)
		case *ssa.ChangeInterface:
			return fromInput(x.X, d+1)
		case *ssa.ChangeType:
			return fromInput(x.X, d+1)
		case *ssa.Extract:
			return fromInput(x.Tuple, d+1)
		case *ssa.UnOp:
			if x.Op == token.MUL {
				return fromInput(x.X, d+1)
			}
		case *ssa.FieldAddr:
			return fromInput(x.X, d+1)
		case *ssa.Field:
			return fromInput(x.X, d+1)
		case *ssa.MakeInterface:
			return fromInput(x.X, d+1)
		case *ssa.Alloc:
			// a local that is captured / address-taken: what is stored into it
			for _, ref := range *x.Referrers() {
				if st, ok := ref.(*ssa.Store); ok && st.Addr == x && fromInput(st.Val, d+1) {
					return true
				}
			}
		case *ssa.Phi:
			for _, e := range x.Edges {
				if fromInput(e, d+1) {
					return true
				}
			}
		}
		return false
	}
	fns := append([]*ssa.Function{fn}, fn.AnonFuncs...)
	n := 0
	for _, g := range fns {
		for _, b := range g.Blocks {
			for _, in := range b.Instrs {
				st, ok := in.(*ssa.Store)
				if !ok {
					continue
				}
				fa, isFA := st.Addr.(*ssa.FieldAddr)
				if !isFA || !holdsRef(st.Val.Type(), 0) {
					continue
				}
				name := "?"
				if pt, isP := fa.X.Type().Underlying().(*types.Pointer); isP {
					if stt, isS := pt.Elem().Underlying().(*types.Struct); isS && fa.Field < stt.NumFields() {
						name = stt.Field(fa.Field).Name()
					}
				}
				n++
				r.Check(!fromInput(st.Val, 0), rule, "copyDropTypeMsg | "+name+" of the copy is not the input's", st.Pos(), "cloned / freshly built", "the copy of a drop message shares its "+name+" with the dispatcher's message: the ids one shard writes into it are seen by the other shards of the collection")
			}
		}
	}
	if n == 0 {
		r.Undecided(rule, "copyDropTypeMsg", fn.Pos(), "no reference-typed field of a copy is stored")
	}
}
