package main

import (
	"flag"
	"fmt"
	"os"
	"path/filepath"
	"runtime/debug"
	"sort"
	"strconv"
	"time"
)

type propDef struct {
	run     func(w *World, r *Report)
	explain string
	notDec  []string
	whole   bool // thorough tier needs whole-program syntax
}

var props = map[string]*propDef{}

func register(id string, d *propDef) { props[id] = d }

func main() {
	prop := flag.String("prop", "", "property id (C01..C20) or 'all'")
	tier := flag.String("tier", "", "quick|thorough (default: $VERIF_TIER or quick)")
	verif := flag.String("verif", "", "verif dir (default: dir above the binary, or /verif)")
	list := flag.Bool("list", false, "list implemented properties")
	mutgen := flag.String("mutgen", "", "comma-separated repository files to generate mutants for (development aid)")
	mutout := flag.String("mutout", "/tmp/mutants", "output directory of -mutgen")
	anchors := flag.Bool("anchor-funcs", false, "print the functions overlapping the properties' anchor ranges (development aid)")
	wb := flag.String("write-baseline", "", "write the symbol table of the current tree to this file and exit")
	flag.Parse()
	if *list {
		var ids []string
		for k := range props {
			ids = append(ids, k)
		}
		sort.Strings(ids)
		for _, k := range ids {
			fmt.Println(k)
		}
		return
	}
	if *wb != "" {
		writeBaselineMode = true
		w, err := Load("quick", false, nil)
		if err != nil {
			fmt.Println("LOAD FAILURE:", err)
			os.Exit(1)
		}
		if err := writeBaseline(w.Pkgs, *wb); err != nil {
			fmt.Println(err)
			os.Exit(1)
		}
		if err := writeBaselineFields(w.Pkgs, filepath.Join(filepath.Dir(*wb), "baseline_fields.txt")); err != nil {
			fmt.Println(err)
			os.Exit(1)
		}
		if err := writeBaselineClosures(w.Pkgs, filepath.Join(filepath.Dir(*wb), "baseline_closures.txt")); err != nil {
			fmt.Println(err)
			os.Exit(1)
		}
		if err := writeBaselineGlobals(w, filepath.Join(filepath.Dir(*wb), "baseline_globals.txt")); err != nil {
			fmt.Println(err)
			os.Exit(1)
		}
		w.AllFuncs()
		theWorld = w
		if err := writeBaselineSigs(w, filepath.Join(filepath.Dir(*wb), "baseline_sigs.json")); err != nil {
			fmt.Println(err)
			os.Exit(1)
		}
		return
	}
	if *anchors {
		writeBaselineMode = true
		w, err := Load("quick", false, nil)
		if err != nil {
			fmt.Println("LOAD FAILURE:", err)
			os.Exit(1)
		}
		w.AllFuncs()
		theWorld = w
		if os.Getenv("VERIF_CENSUS") != "" {
			if os.Getenv("VERIF_CENSUS") == "namekeys" {
				printNameKeyCensus(w)
				return
			}
			if v := os.Getenv("VERIF_CENSUS"); len(v) == 3 {
				printDerivedList(w, v)
				return
			}
			printDerivedCensus(w)
			return
		}
		if err := printAnchorFuncs(w, "/verif/properties.jsonl"); err != nil {
			fmt.Println(err)
			os.Exit(1)
		}
		return
	}
	if *mutgen != "" {
		w, err := Load("quick", false, nil)
		if err != nil {
			fmt.Println("LOAD FAILURE:", err)
			os.Exit(1)
		}
		if err := runMutgen(w, *mutgen, *mutout); err != nil {
			fmt.Println(err)
			os.Exit(1)
		}
		return
	}
	if *tier == "" {
		*tier = os.Getenv("VERIF_TIER")
	}
	if *tier != "thorough" {
		*tier = "quick"
	}
	if *verif == "" {
		*verif = "/verif"
		if exe, err := os.Executable(); err == nil {
			d := filepath.Dir(filepath.Dir(exe))
			if _, err := os.Stat(filepath.Join(d, "properties.jsonl")); err == nil {
				*verif = d
			}
		}
	}
	seed := 0
	if s := os.Getenv("VERIF_SEED"); s != "" {
		seed, _ = strconv.Atoi(s)
	}
	var ids []string
	if *prop == "all" {
		for k := range props {
			ids = append(ids, k)
		}
		sort.Strings(ids)
	} else {
		if props[*prop] == nil {
			fmt.Printf("unknown property %q\n", *prop)
			os.Exit(2)
		}
		ids = []string{*prop}
	}
	if os.Getenv("GOWORK") != "" && os.Getenv("GOWORK") != "off" {
		fmt.Println("GOWORK is set; refusing to analyse a workspace view of the repository")
		failAll(*verif, ids, *tier, seed, "GOWORK set")
		os.Exit(1)
	}
	known, err := loadKnown(filepath.Join(*verif, "known_findings.json"))
	if err != nil {
		fmt.Println("cannot read known_findings.json:", err)
		failAll(*verif, ids, *tier, seed, "known_findings.json unreadable: "+err.Error())
		os.Exit(1)
	}
	whole := false
	if *tier == "thorough" {
		for _, id := range ids {
			if props[id].whole {
				whole = true
			}
		}
	}
	t0 := time.Now()
	w, err := Load(*tier, whole, nil)
	if err != nil {
		fmt.Println("LOAD FAILURE:", err)
		failAll(*verif, ids, *tier, seed, err.Error())
		os.Exit(1)
	}
	w.AllFuncs()
	theWorld = w
	exit := 0
	for _, id := range ids {
		t1 := time.Now()
		r := NewReport(w, id, *tier, known)
		d := props[id]
		r.Explain = d.explain
		r.NotDec = d.notDec
		func() {
			defer func() {
				if e := recover(); e != nil {
					r.Rule("PANIC", "analyser", "the analyser must not panic", 0)
					r.Undecided("PANIC", "analyser", 0, fmt.Sprintf("%v\n%s", e, debug.Stack()))
				}
			}()
			d.run(w, r)
			genericRules(w, r, id)
			sigRules(w, r, id)
			if *tier == "thorough" && os.Getenv("VERIF_NOSELFVAL") == "" {
				t2 := time.Now()
				sv := selfValidate(w, *verif, id)
				sv.WallS = time.Since(t2).Seconds()
				r.Extra["self_validation"] = sv
				fmt.Printf("self-validation property=%s seeded=%d reported=%d not-reported=%v out-of-reach=%d benign=%d silent=%d alarms=%v skipped=%d (%.0fs)\n", id, sv.Seeds, sv.Detected, sv.Missed, len(sv.DocumentedNA), sv.Benign, sv.Silent, sv.Alarms, len(sv.Skipped), sv.WallS)
			}
		}()
		wall := time.Since(t1).Seconds()
		if len(ids) == 1 {
			wall = time.Since(t0).Seconds()
		}
		if c := r.Finish(*verif, wall, seed); c != 0 {
			exit = 1
		}
	}
	os.Exit(exit)
}

// failAll writes a failing evidence file and a VIOLATION line for each property
// when the program could not be loaded at all.
func failAll(verif string, ids []string, tier string, seed int, why string) {
	for _, id := range ids {
		w := &World{}
		r := NewReport(w, id, tier, nil)
		r.W = nil
		r.Rule("LOAD", "loader", "the working tree must load and type-check", 0)
		r.Obls = append(r.Obls, Obligation{Rule: "LOAD", Construct: "loader", Status: StUndecided, Detail: why})
		r.W = w
		w.RepoRoot = repoRoot()
		r.Explain = "the repository could not be loaded; nothing was decided"
		r.Finish(verif, 0, seed)
	}
}
