package main

import (
	"fmt"
	"go/ast"
	"go/token"
	"go/types"
	"sort"
	"strings"

	"golang.org/x/tools/go/ssa"
)

// ---------- function families (a declared function plus its nested literals) ----------

// Family groups a source function with all function literals nested in it and
// indexes stores so that captured variables and struct fields can be followed.
type Family struct {
	Root     *ssa.Function
	Funcs    []*ssa.Function
	closures map[*ssa.Function][]*ssa.MakeClosure
	stores   map[ssa.Value][]*ssa.Store // canonical address root (Alloc/Global) -> stores
	allInstr []ssa.Instruction
}

func rootFunc(fn *ssa.Function) *ssa.Function {
	for fn.Parent() != nil {
		fn = fn.Parent()
	}
	return fn
}

var familyCache = map[*ssa.Function]*Family{}

// theWorld is set by main for helpers that need access-path rendering.
var theWorld *World

func familyOf(fn *ssa.Function) *Family {
	root := rootFunc(fn)
	if f, ok := familyCache[root]; ok {
		return f
	}
	f := &Family{Root: root, closures: map[*ssa.Function][]*ssa.MakeClosure{}, stores: map[ssa.Value][]*ssa.Store{}}
	var walk func(fn *ssa.Function)
	walk = func(fn *ssa.Function) {
		f.Funcs = append(f.Funcs, fn)
		for _, a := range fn.AnonFuncs {
			walk(a)
		}
	}
	walk(root)
	for _, fn := range f.Funcs {
		for _, b := range fn.Blocks {
			for _, in := range b.Instrs {
				f.allInstr = append(f.allInstr, in)
				if mc, ok := in.(*ssa.MakeClosure); ok {
					if cf, ok := mc.Fn.(*ssa.Function); ok {
						f.closures[cf] = append(f.closures[cf], mc)
					}
				}
			}
		}
	}
	for _, in := range f.allInstr {
		if st, ok := in.(*ssa.Store); ok {
			r := f.canon(st.Addr)
			f.stores[r] = append(f.stores[r], st)
		}
	}
	familyCache[root] = f
	return f
}

// canon resolves a free variable to the value bound to it by the enclosing
// function (an Alloc for a variable captured by reference).
func (f *Family) canon(v ssa.Value) ssa.Value {
	for i := 0; i < 8; i++ {
		fv, ok := v.(*ssa.FreeVar)
		if !ok {
			return v
		}
		fn := fv.Parent()
		idx := -1
		for k, x := range fn.FreeVars {
			if x == fv {
				idx = k
			}
		}
		mcs := f.closures[fn]
		if idx < 0 || len(mcs) == 0 {
			return v
		}
		v = mcs[0].Bindings[idx]
	}
	return v
}

// StoresTo returns all stores (anywhere in the family) into the local variable
// or captured variable whose address is addr.
func (f *Family) StoresTo(addr ssa.Value) []*ssa.Store {
	return f.stores[f.canon(addr)]
}

// ---------- iteration ----------

func eachInstr(fn *ssa.Function, f func(ssa.Instruction)) {
	for _, b := range fn.Blocks {
		for _, in := range b.Instrs {
			f(in)
		}
	}
}

// eachInstrDeep visits fn and its nested literals.
func eachInstrDeep(fn *ssa.Function, f func(*ssa.Function, ssa.Instruction)) {
	eachInstr(fn, func(in ssa.Instruction) { f(fn, in) })
	for _, a := range fn.AnonFuncs {
		eachInstrDeep(a, f)
	}
}

func instrIndex(in ssa.Instruction) int {
	for i, x := range in.Block().Instrs {
		if x == in {
			return i
		}
	}
	return -1
}

// ---------- callee resolution ----------

// funcID describes a *types.Func as (package path, bare receiver type name, name).
func funcID(obj *types.Func) (pkg, recv, name string) {
	if obj == nil {
		return "", "", ""
	}
	if obj.Pkg() != nil {
		pkg = obj.Pkg().Path()
	}
	name = obj.Name()
	if sig, ok := obj.Type().(*types.Signature); ok && sig.Recv() != nil {
		recv = bareTypeName(sig.Recv().Type())
	}
	return
}

func bareTypeName(t types.Type) string {
	for {
		switch x := t.(type) {
		case *types.Pointer:
			t = x.Elem()
			continue
		case *types.Named:
			return x.Obj().Name()
		case *types.Alias:
			t = types.Unalias(x)
			continue
		}
		return t.String()
	}
}

func namedOf(t types.Type) *types.Named {
	for {
		switch x := t.(type) {
		case *types.Pointer:
			t = x.Elem()
			continue
		case *types.Alias:
			t = types.Unalias(x)
			continue
		case *types.Named:
			return x
		}
		return nil
	}
}

// typeIs reports whether t (through pointers) is the named type pkg.name.
func typeIs(t types.Type, pkg, name string) bool {
	n := namedOf(t)
	if n == nil {
		return false
	}
	o := n.Obj()
	return o.Name() == name && o.Pkg() != nil && o.Pkg().Path() == pkg
}

// calleeObj returns the types.Func called by a call (static callee's object,
// the generic origin for instantiations, the bound method for method values, or
// the interface method for invoke-mode calls); nil if dynamic.
func calleeObj(c *ssa.CallCommon) *types.Func {
	if c.IsInvoke() {
		return c.Method
	}
	var fn *ssa.Function
	switch v := c.Value.(type) {
	case *ssa.Function:
		fn = v
	case *ssa.MakeClosure:
		fn, _ = v.Fn.(*ssa.Function)
	}
	return fnObj(fn)
}

func fnObj(fn *ssa.Function) *types.Func {
	if fn == nil {
		return nil
	}
	if o := fn.Origin(); o != nil {
		fn = o
	}
	if obj, ok := fn.Object().(*types.Func); ok && obj != nil {
		return obj.Origin()
	}
	return nil
}

type sym struct{ pkg, recv, name string }

func (s sym) String() string {
	p := s.pkg
	if i := strings.LastIndex(p, "/"); i >= 0 {
		p = p[i+1:]
	}
	if s.recv != "" {
		return fmt.Sprintf("%s.(%s).%s", p, s.recv, s.name)
	}
	return p + "." + s.name
}

func callSym(c *ssa.CallCommon) sym {
	o := calleeObj(c)
	if o == nil {
		return sym{}
	}
	p, r, n := funcID(o)
	return sym{p, r, n}
}

func isCall(in ssa.Instruction, s sym) (*ssa.CallCommon, bool) {
	ci, ok := in.(ssa.CallInstruction)
	if !ok {
		return nil, false
	}
	c := ci.Common()
	if callSym(c) == s {
		return c, true
	}
	return nil, false
}

// callArgs returns the arguments excluding the receiver (for both call modes).
func callArgs(c *ssa.CallCommon) []ssa.Value {
	if c.IsInvoke() {
		return c.Args
	}
	if o := calleeObj(c); o != nil {
		if sig, ok := o.Type().(*types.Signature); ok && sig.Recv() != nil && len(c.Args) > 0 {
			// static method call: receiver is Args[0] unless bound closure
			if _, isMC := c.Value.(*ssa.MakeClosure); !isMC {
				return c.Args[1:]
			}
		}
	}
	return c.Args
}

// callRecv returns the receiver value of a method call (nil for functions).
func callRecv(c *ssa.CallCommon) ssa.Value {
	if c.IsInvoke() {
		return c.Value
	}
	if o := calleeObj(c); o != nil {
		if sig, ok := o.Type().(*types.Signature); ok && sig.Recv() != nil && len(c.Args) > 0 {
			if mc, isMC := c.Value.(*ssa.MakeClosure); isMC {
				if len(mc.Bindings) > 0 {
					return mc.Bindings[0]
				}
				return nil
			}
			return c.Args[0]
		}
	}
	return nil
}

// callsIn lists call instructions in fn (optionally in nested literals) to s.
func callsIn(fn *ssa.Function, deep bool, s sym) []ssa.CallInstruction {
	var out []ssa.CallInstruction
	visit := func(_ *ssa.Function, in ssa.Instruction) {
		if _, ok := isCall(in, s); ok {
			out = append(out, in.(ssa.CallInstruction))
		}
	}
	if deep {
		eachInstrDeep(fn, visit)
	} else {
		eachInstr(fn, func(in ssa.Instruction) { visit(fn, in) })
	}
	return out
}

// ---------- dominance ----------

func instrDominates(a, b ssa.Instruction) bool {
	if a.Parent() != b.Parent() {
		return false
	}
	if a.Block() == b.Block() {
		return instrIndex(a) < instrIndex(b)
	}
	return a.Block().Dominates(b.Block())
}

// blockReach reports which blocks are reachable from `from` (exclusive of from
// itself unless on a cycle) without passing through blocks in stop.
func blockReach(from *ssa.BasicBlock, stop map[*ssa.BasicBlock]bool) map[*ssa.BasicBlock]bool {
	seen := map[*ssa.BasicBlock]bool{}
	var dfs func(b *ssa.BasicBlock)
	dfs = func(b *ssa.BasicBlock) {
		for _, s := range b.Succs {
			if seen[s] || stop[s] {
				continue
			}
			seen[s] = true
			dfs(s)
		}
	}
	dfs(from)
	return seen
}

// instrReaches: can control flow from a reach b (a != b) inside one function?
func instrReaches(a, b ssa.Instruction) bool {
	if a.Parent() != b.Parent() {
		return false
	}
	if a.Block() == b.Block() && instrIndex(a) < instrIndex(b) {
		return true
	}
	r := blockReach(a.Block(), nil)
	return r[b.Block()]
}

// postDominators computes, for each block, the set of blocks that post-dominate
// it (every path to a function exit passes through them). Exits are blocks
// without successors (return / panic).
func postDominators(fn *ssa.Function) map[*ssa.BasicBlock]map[*ssa.BasicBlock]bool {
	n := len(fn.Blocks)
	all := map[*ssa.BasicBlock]bool{}
	for _, b := range fn.Blocks {
		all[b] = true
	}
	pd := map[*ssa.BasicBlock]map[*ssa.BasicBlock]bool{}
	for _, b := range fn.Blocks {
		if len(b.Succs) == 0 {
			pd[b] = map[*ssa.BasicBlock]bool{b: true}
		} else {
			m := map[*ssa.BasicBlock]bool{}
			for k := range all {
				m[k] = true
			}
			pd[b] = m
		}
	}
	changed := true
	for iter := 0; changed && iter < n*4+8; iter++ {
		changed = false
		for i := n - 1; i >= 0; i-- {
			b := fn.Blocks[i]
			if len(b.Succs) == 0 {
				continue
			}
			var inter map[*ssa.BasicBlock]bool
			for _, s := range b.Succs {
				if inter == nil {
					inter = map[*ssa.BasicBlock]bool{}
					for k := range pd[s] {
						inter[k] = true
					}
				} else {
					for k := range inter {
						if !pd[s][k] {
							delete(inter, k)
						}
					}
				}
			}
			inter[b] = true
			if len(inter) != len(pd[b]) {
				pd[b] = inter
				changed = true
			}
		}
	}
	return pd
}

// ---------- must-dataflow ----------

// mustFacts computes for every block the set of facts that hold on entry on
// every path from the function entry. gen returns the facts generated (and kill
// the facts killed) by an instruction.
type factSet map[string]bool

func (s factSet) clone() factSet {
	o := factSet{}
	for k := range s {
		o[k] = true
	}
	return o
}

func mustFacts(fn *ssa.Function, gen func(ssa.Instruction) (add []string, kill []string)) (in map[*ssa.BasicBlock]factSet) {
	in = map[*ssa.BasicBlock]factSet{}
	out := map[*ssa.BasicBlock]factSet{}
	// universe
	uni := factSet{}
	eachInstr(fn, func(i ssa.Instruction) {
		a, _ := gen(i)
		for _, x := range a {
			uni[x] = true
		}
	})
	for _, b := range fn.Blocks {
		out[b] = uni.clone()
	}
	changed := true
	for changed {
		changed = false
		for _, b := range fn.Blocks {
			var cur factSet
			if b == fn.Blocks[0] {
				cur = factSet{}
			} else {
				for _, p := range b.Preds {
					if cur == nil {
						cur = out[p].clone()
					} else {
						for k := range cur {
							if !out[p][k] {
								delete(cur, k)
							}
						}
					}
				}
				if cur == nil {
					cur = uni.clone() // unreachable
				}
			}
			in[b] = cur.clone()
			for _, i := range b.Instrs {
				a, k := gen(i)
				for _, x := range k {
					delete(cur, x)
				}
				for _, x := range a {
					cur[x] = true
				}
			}
			if len(cur) != len(out[b]) {
				out[b] = cur
				changed = true
			} else {
				for k := range cur {
					if !out[b][k] {
						out[b] = cur
						changed = true
						break
					}
				}
			}
		}
	}
	return in
}

// factsBefore returns the must-facts that hold immediately before instruction at.
func factsBefore(fn *ssa.Function, gen func(ssa.Instruction) ([]string, []string), at ssa.Instruction) factSet {
	in := mustFacts(fn, gen)
	cur := in[at.Block()].clone()
	for _, i := range at.Block().Instrs {
		if i == at {
			break
		}
		a, k := gen(i)
		for _, x := range k {
			delete(cur, x)
		}
		for _, x := range a {
			cur[x] = true
		}
	}
	return cur
}

// ---------- path counting ----------

// countRange computes the minimum and maximum (saturated at 3) number of matched
// instructions on any path from entry to each exit block (acyclic: back edges
// are followed once through a fixpoint with saturation).
type cnt struct{ lo, hi int }

func countOnPaths(fn *ssa.Function, match func(ssa.Instruction) bool) map[*ssa.BasicBlock]cnt {
	const sat = 3
	in := map[*ssa.BasicBlock]cnt{}
	out := map[*ssa.BasicBlock]cnt{}
	have := map[*ssa.BasicBlock]bool{}
	local := map[*ssa.BasicBlock]int{}
	for _, b := range fn.Blocks {
		for _, i := range b.Instrs {
			if match(i) {
				local[b]++
			}
		}
	}
	changed := true
	for iter := 0; changed && iter < 50; iter++ {
		changed = false
		for _, b := range fn.Blocks {
			var c cnt
			ok := false
			if b == fn.Blocks[0] {
				c, ok = cnt{0, 0}, true
			}
			for _, p := range b.Preds {
				if !have[p] {
					continue
				}
				if !ok {
					c, ok = out[p], true
				} else {
					if out[p].lo < c.lo {
						c.lo = out[p].lo
					}
					if out[p].hi > c.hi {
						c.hi = out[p].hi
					}
				}
			}
			if !ok {
				continue
			}
			in[b] = c
			o := cnt{c.lo + local[b], c.hi + local[b]}
			if o.lo > sat {
				o.lo = sat
			}
			if o.hi > sat {
				o.hi = sat
			}
			if !have[b] || out[b] != o {
				out[b], have[b] = o, true
				changed = true
			}
		}
	}
	return out
}

// ---------- value slicing ----------

// Slice is the result of a backward slice from a value.
type SliceOpts struct {
	MaxDepth   int
	ThroughArg func(c *ssa.CallCommon) []ssa.Value // which args a call result derives from (nil: none)
	Stop       func(v ssa.Value) bool              // do not look behind v
	NoAggregates bool                              // do not look into locally built arrays/structs
	// Before: when set, field/var loads only consider stores that can reach this instruction.
}

// backSlice returns every value the given value may derive from (including itself).
func backSlice(v ssa.Value, opt SliceOpts) []ssa.Value {
	if opt.MaxDepth == 0 {
		opt.MaxDepth = 12
	}
	seen := map[ssa.Value]bool{}
	var order []ssa.Value
	var walk func(v ssa.Value, d int)
	walk = func(v ssa.Value, d int) {
		if v == nil || seen[v] {
			return
		}
		seen[v] = true
		order = append(order, v)
		if d >= opt.MaxDepth {
			return
		}
		if opt.Stop != nil && opt.Stop(v) {
			return
		}
		switch x := v.(type) {
		case *ssa.Phi:
			for _, e := range x.Edges {
				walk(e, d+1)
			}
		case *ssa.Extract:
			walk(x.Tuple, d+1)
		case *ssa.ChangeType:
			walk(x.X, d+1)
		case *ssa.Convert:
			walk(x.X, d+1)
		case *ssa.ChangeInterface:
			walk(x.X, d+1)
		case *ssa.MakeInterface:
			walk(x.X, d+1)
		case *ssa.TypeAssert:
			walk(x.X, d+1)
		case *ssa.Slice:
			walk(x.X, d+1)
		case *ssa.SliceToArrayPointer:
			walk(x.X, d+1)
		case *ssa.BinOp:
			walk(x.X, d+1)
			walk(x.Y, d+1)
		case *ssa.Index:
			walk(x.X, d+1)
		case *ssa.Lookup:
			walk(x.X, d+1)
		case *ssa.IndexAddr:
			walk(x.X, d+1)
		case *ssa.Field:
			walk(x.X, d+1)
		case *ssa.FieldAddr:
			walk(x.X, d+1)
		case *ssa.UnOp:
			if x.Op == token.MUL {
				// load: follow stores to the address
				loadSources(x, func(s ssa.Value) { walk(s, d+1) })
			}
			walk(x.X, d+1)
		case *ssa.FreeVar:
			if p := x.Parent(); p != nil {
				fam := familyOf(p)
				c := fam.canon(x)
				if c != x {
					walk(c, d+1)
				}
			}
		case *ssa.Call:
			if opt.ThroughArg != nil {
				for _, a := range opt.ThroughArg(x.Common()) {
					walk(a, d+1)
				}
			}
		case *ssa.Alloc:
			// a locally built aggregate derives from what is stored into its elements / fields
			if !opt.NoAggregates {
				if fn := x.Parent(); fn != nil {
					fam := familyOf(fn)
					for _, in := range fam.allInstr {
						st, ok := in.(*ssa.Store)
						if !ok {
							continue
						}
						switch a := st.Addr.(type) {
						case *ssa.IndexAddr:
							if a.X == ssa.Value(x) {
								walk(st.Val, d+1)
							}
						case *ssa.FieldAddr:
							if a.X == ssa.Value(x) {
								walk(st.Val, d+1)
							}
						}
					}
				}
			}
		case *ssa.Next:
			walk(x.Iter, d+1)
		case *ssa.Range:
			walk(x.X, d+1)
		case *ssa.MakeSlice, *ssa.MakeMap, *ssa.MakeChan, *ssa.Const, *ssa.Parameter, *ssa.Global, *ssa.Function, *ssa.MakeClosure, *ssa.Select:
		}
	}
	walk(v, 0)
	return order
}

// loadSources enumerates values stored to the address read by load (local
// variables, captured variables, and fields of locally built structs).
func loadSources(load *ssa.UnOp, f func(ssa.Value)) {
	fn := load.Parent()
	if fn == nil {
		return
	}
	fam := familyOf(fn)
	addr := fam.canon(load.X)
	switch a := addr.(type) {
	case *ssa.Alloc:
		for _, st := range fam.stores[a] {
			f(st.Val)
		}
	case *ssa.FieldAddr:
		// whole-struct assignments to the variable the field belongs to (e.g. `mapping := elem` then mapping.F)
		{
			var base ssa.Value = a
			for i := 0; i < 4; i++ {
				fa, ok := base.(*ssa.FieldAddr)
				if !ok {
					break
				}
				base = fam.canon(fa.X)
			}
			if al, ok := base.(*ssa.Alloc); ok {
				for _, st := range fam.stores[al] {
					if st.Parent() != load.Parent() || instrReaches(st, load) {
						f(st.Val)
					}
				}
			}
		}
		// stores to the same access path (handles nested value-struct fields such as ev.ReplicateParam.Database);
		// only stores that can execute before the load count
		if theWorld != nil {
			lp := theWorld.accessPath(a)
			if !strings.Contains(lp, "?") {
				for _, in := range fam.allInstr {
					st, ok := in.(*ssa.Store)
					if !ok {
						continue
					}
					if _, isFA := st.Addr.(*ssa.FieldAddr); !isFA {
						continue
					}
					if st.Parent() == load.Parent() && !instrReaches(st, load) {
						continue
					}
					if theWorld.accessPath(st.Addr) == lp {
						f(st.Val)
					}
				}
			}
		}
		// field of an object: match stores to the same field of the same base object
		base := baseObject(fam, a.X)
		for _, in := range fam.allInstr {
			st, ok := in.(*ssa.Store)
			if !ok {
				continue
			}
			fa, ok := fam.canon(st.Addr).(*ssa.FieldAddr)
			if !ok || fa.Field != a.Field {
				continue
			}
			if !types.Identical(fa.X.Type(), a.X.Type()) {
				continue
			}
			if baseObject(fam, fa.X) == base && base != nil {
				f(st.Val)
			}
		}
	case *ssa.IndexAddr:
		base := baseObject(fam, a.X)
		for _, in := range fam.allInstr {
			st, ok := in.(*ssa.Store)
			if !ok {
				continue
			}
			ia, ok := fam.canon(st.Addr).(*ssa.IndexAddr)
			if !ok {
				continue
			}
			if baseObject(fam, ia.X) == base && base != nil {
				f(st.Val)
			}
		}
	}
}

// baseObject canonicalises a pointer value to the object it points to when that
// is evident inside one function family: an Alloc, a parameter, a call result,
// or — through loads of single-assignment local variables — the value stored.
func baseObject(fam *Family, v ssa.Value) ssa.Value {
	return baseObjectS(fam, v, map[ssa.Value]bool{})
}

func baseObjectS(fam *Family, v ssa.Value, seen map[ssa.Value]bool) ssa.Value {
	for i := 0; i < 10; i++ {
		v = fam.canon(v)
		switch x := v.(type) {
		case *ssa.UnOp:
			if x.Op != token.MUL {
				return v
			}
			a := fam.canon(x.X)
			if al, ok := a.(*ssa.Alloc); ok {
				sts := fam.stores[al]
				if len(sts) == 1 {
					v = sts[0].Val
					continue
				}
				// several stores: identify by the variable itself
				return al
			}
			return v
		case *ssa.ChangeType:
			v = x.X
			continue
		case *ssa.Phi:
			// all edges the same object?
			if seen[v] {
				return v
			}
			seen[v] = true
			var one ssa.Value
			same := true
			for _, e := range x.Edges {
				if e == v {
					continue
				}
				b := baseObjectS(fam, e, seen)
				if one == nil {
					one = b
				} else if one != b {
					same = false
				}
			}
			if same && one != nil {
				return one
			}
			return v
		}
		return v
	}
	return v
}

// ---------- access paths ----------

// accessPath renders an address or value as root(.field)*; loads of local
// single-store variables are looked through. Roots: param:<name>, alloc@line,
// call:<callee>@line, global:<name>, var:<name>.
func (w *World) accessPath(v ssa.Value) string {
	return w.accessPathD(v, 0)
}

func (w *World) accessPathD(v ssa.Value, d int) string {
	if d > 12 || v == nil {
		return "?"
	}
	var fam *Family
	if p := parentOf(v); p != nil {
		fam = familyOf(p)
		v = fam.canon(v)
	}
	switch x := v.(type) {
	case *ssa.Parameter:
		return "param:" + x.Name()
	case *ssa.FreeVar:
		return "free:" + x.Name()
	case *ssa.Global:
		return "global:" + x.Name()
	case *ssa.Alloc:
		if x.Comment != "" && !strings.HasPrefix(x.Comment, "complit") && x.Comment != "new" {
			return "var:" + x.Comment
		}
		ps := w.Fset.Position(x.Pos())
		return fmt.Sprintf("alloc@%d:%d", ps.Line, ps.Column)
	case *ssa.FieldAddr:
		return w.accessPathD(x.X, d+1) + "." + fieldName(x.X.Type(), x.Field)
	case *ssa.Field:
		return w.accessPathD(x.X, d+1) + "." + fieldName(x.X.Type(), x.Field)
	case *ssa.IndexAddr:
		return w.accessPathD(x.X, d+1) + "[]"
	case *ssa.Index:
		return w.accessPathD(x.X, d+1) + "[]"
	case *ssa.Lookup:
		return w.accessPathD(x.X, d+1) + "[]"
	case *ssa.UnOp:
		if x.Op == token.MUL {
			a := x.X
			if fam != nil {
				a = fam.canon(a)
			}
			if al, ok := a.(*ssa.Alloc); ok && fam != nil {
				sts := fam.stores[al]
				if len(sts) == 1 {
					return w.accessPathD(sts[0].Val, d+1)
				}
				return "var:" + al.Comment
			}
			return w.accessPathD(a, d+1)
		}
	case *ssa.ChangeType:
		return w.accessPathD(x.X, d+1)
	case *ssa.MakeInterface:
		return w.accessPathD(x.X, d+1)
	case *ssa.TypeAssert:
		return w.accessPathD(x.X, d+1)
	case *ssa.Extract:
		if nx, ok := x.Tuple.(*ssa.Next); ok {
			if rg, ok := nx.Iter.(*ssa.Range); ok {
				if x.Index == 1 {
					return w.accessPathD(rg.X, d+1) + "[key]"
				}
				return w.accessPathD(rg.X, d+1) + "[]"
			}
		}
		return fmt.Sprintf("%s#%d", w.accessPathD(x.Tuple, d+1), x.Index)
	case *ssa.Call:
		s := callSym(x.Common())
		if s.name != "" {
			// getters: X.GetF() ~ X.F
			if strings.HasPrefix(s.name, "Get") && len(callArgs(x.Common())) == 0 && callRecv(x.Common()) != nil {
				return w.accessPathD(callRecv(x.Common()), d+1) + "." + strings.TrimPrefix(s.name, "Get")
			}
			return fmt.Sprintf("call:%s@%d", s.name, w.Fset.Position(x.Pos()).Line)
		}
		return fmt.Sprintf("call@%d", w.Fset.Position(x.Pos()).Line)
	case *ssa.Const:
		if x.Value == nil {
			return "const:nil"
		}
		return "const:" + x.Value.String()
	case *ssa.Phi:
		return "phi:" + x.Comment
	}
	return fmt.Sprintf("%T", v)
}

func parentOf(v ssa.Value) *ssa.Function {
	switch x := v.(type) {
	case ssa.Instruction:
		return x.Parent()
	case *ssa.Parameter:
		return x.Parent()
	case *ssa.FreeVar:
		return x.Parent()
	}
	return nil
}

func fieldName(t types.Type, idx int) string {
	if p, ok := t.Underlying().(*types.Pointer); ok {
		t = p.Elem()
	}
	if st, ok := t.Underlying().(*types.Struct); ok && idx < st.NumFields() {
		return st.Field(idx).Name()
	}
	return fmt.Sprintf("f%d", idx)
}

func fieldVar(t types.Type, idx int) *types.Var {
	if p, ok := t.Underlying().(*types.Pointer); ok {
		t = p.Elem()
	}
	if st, ok := t.Underlying().(*types.Struct); ok && idx < st.NumFields() {
		return st.Field(idx)
	}
	return nil
}

// ---------- struct literal / field stores ----------

// FieldStore is a store of Val into field Field of the struct object Base.
type FieldStore struct {
	Store *ssa.Store
	FA    *ssa.FieldAddr
	Field *types.Var
	Val   ssa.Value
}

// fieldStoresOn lists stores into direct fields of the object that `obj`
// points to (obj is e.g. the Alloc of a composite literal), within the family.
func fieldStoresOn(fam *Family, obj ssa.Value) []FieldStore {
	var out []FieldStore
	for _, in := range fam.allInstr {
		st, ok := in.(*ssa.Store)
		if !ok {
			continue
		}
		fa, ok := st.Addr.(*ssa.FieldAddr)
		if !ok {
			continue
		}
		if fa.X == obj || baseObject(fam, fa.X) == obj {
			out = append(out, FieldStore{st, fa, fieldVar(fa.X.Type(), fa.Field), st.Val})
		}
	}
	return out
}

// allocsOfType lists composite-literal / new allocations of the named struct
// type pkg.name in fn (deep).
func allocsOfType(fn *ssa.Function, pkg, name string, deep bool) []*ssa.Alloc {
	var out []*ssa.Alloc
	visit := func(_ *ssa.Function, in ssa.Instruction) {
		if a, ok := in.(*ssa.Alloc); ok {
			if pt, ok := a.Type().(*types.Pointer); ok && typeIs(pt.Elem(), pkg, name) {
				if _, isPtr := pt.Elem().(*types.Pointer); !isPtr {
					out = append(out, a)
				}
			}
		}
	}
	if deep {
		eachInstrDeep(fn, visit)
	} else {
		eachInstr(fn, func(in ssa.Instruction) { visit(fn, in) })
	}
	return out
}

// ---------- AST bridges ----------

func (w *World) buildASTIndex() {
	if w.litByPos != nil {
		return
	}
	w.litByPos = map[token.Pos]*ast.FuncLit{}
	for _, p := range w.Pkgs {
		for _, f := range p.Syntax {
			ast.Inspect(f, func(n ast.Node) bool {
				if fl, ok := n.(*ast.FuncLit); ok {
					w.litByPos[fl.Pos()] = fl
				}
				return true
			})
		}
	}
}

// inRange reports whether position p lies in node n.
func inRange(p token.Pos, n ast.Node) bool {
	return n != nil && p.IsValid() && n.Pos() <= p && p < n.End()
}

// enclosing finds the innermost AST nodes of the given kinds that contain pos in file.
func pathEnclosing(root ast.Node, pos token.Pos) []ast.Node {
	var path []ast.Node
	ast.Inspect(root, func(n ast.Node) bool {
		if n == nil {
			return false
		}
		if n.Pos() <= pos && pos < n.End() {
			path = append(path, n)
			return true
		}
		return false
	})
	return path
}

// constString returns the constant string value of v, if any.
func constString(v ssa.Value) (string, bool) {
	if c, ok := v.(*ssa.Const); ok && c.Value != nil && c.Value.Kind().String() == "String" {
		s := c.Value.ExactString()
		// ExactString is quoted
		if len(s) >= 2 && s[0] == '"' {
			var out string
			if _, err := fmt.Sscanf(s, "%q", &out); err == nil {
				return out, true
			}
		}
		return s, true
	}
	return "", false
}

func sortedKeys[M ~map[string]V, V any](m M) []string {
	var ks []string
	for k := range m {
		ks = append(ks, k)
	}
	sort.Strings(ks)
	return ks
}

// isNilConst reports whether v is the nil constant.
func isNilConst(v ssa.Value) bool {
	c, ok := v.(*ssa.Const)
	return ok && c.Value == nil
}

// succOnTrue/False for an If-terminated block.
func ifSuccs(b *ssa.BasicBlock) (cond ssa.Value, t, f *ssa.BasicBlock, ok bool) {
	if len(b.Instrs) == 0 {
		return
	}
	i, isIf := b.Instrs[len(b.Instrs)-1].(*ssa.If)
	if !isIf || len(b.Succs) != 2 {
		return
	}
	return i.Cond, b.Succs[0], b.Succs[1], true
}

// loopHeaderOf returns the header of the innermost natural loop containing block b (nil if none).
func loopHeaderOf(b *ssa.BasicBlock) *ssa.BasicBlock {
	var best *ssa.BasicBlock
	for _, h := range b.Parent().Blocks {
		if !(h == b || h.Dominates(b)) {
			continue
		}
		isHeader := false
		for _, p := range h.Preds {
			if (h == p || h.Dominates(p)) && (p == b || blockReachAvoid(b, p, h)) {
				isHeader = true
			}
		}
		if !isHeader {
			continue
		}
		if best == nil || best.Dominates(h) {
			best = h
		}
	}
	return best
}

// blockReachAvoid: can `from` reach `to` without passing through `avoid`?
func blockReachAvoid(from, to, avoid *ssa.BasicBlock) bool {
	if from == to {
		return true
	}
	return blockReach(from, map[*ssa.BasicBlock]bool{avoid: true})[to]
}

// reachWithNilFacts: can control flow from the start of block `from` reach block `to` without entering a block in
// stop, when the outcomes of `x == nil` / `x != nil` tests on the same local variable are kept consistent along the
// path (the variable not being stored in between)? Removes the classic infeasible path
// `if err == nil {..}; if err != nil {return}`.
func (w *World) reachWithNilFacts(from, to *ssa.BasicBlock, stop map[*ssa.BasicBlock]bool) bool {
	type state struct {
		b *ssa.BasicBlock
		k string
	}
	seen := map[state]bool{}
	fam := familyOf(from.Parent())
	varOf := func(v ssa.Value) (string, *ssa.Alloc) {
		if u, ok := v.(*ssa.UnOp); ok && u.Op == token.MUL {
			if al, isAl := fam.canon(u.X).(*ssa.Alloc); isAl {
				return fmt.Sprintf("%p", al), al
			}
		}
		if ph, ok := v.(*ssa.Phi); ok {
			return fmt.Sprintf("%p", ph), nil
		}
		return "", nil
	}
	encode := func(f map[string]bool) string {
		var ks []string
		for k, v := range f {
			ks = append(ks, fmt.Sprintf("%s=%v", k, v))
		}
		sort.Strings(ks)
		return strings.Join(ks, ",")
	}
	found := false
	var dfs func(b *ssa.BasicBlock, facts map[string]bool)
	dfs = func(b *ssa.BasicBlock, facts map[string]bool) {
		if found {
			return
		}
		if b == to {
			found = true
			return
		}
		if stop[b] {
			return
		}
		st := state{b, encode(facts)}
		if seen[st] {
			return
		}
		seen[st] = true
		// stores in this block invalidate facts about the stored variable
		cur := map[string]bool{}
		for k, v := range facts {
			cur[k] = v
		}
		for _, in := range b.Instrs {
			if s, ok := in.(*ssa.Store); ok {
				if al, isAl := fam.canon(s.Addr).(*ssa.Alloc); isAl {
					delete(cur, fmt.Sprintf("%p", al))
				}
			}
			if c, ok := in.(*ssa.Call); ok {
				// closures may assign captured variables
				for _, a := range c.Call.Args {
					if mc, isMC := a.(*ssa.MakeClosure); isMC {
						for _, bnd := range mc.Bindings {
							if al, isAl := bnd.(*ssa.Alloc); isAl {
								delete(cur, fmt.Sprintf("%p", al))
							}
						}
					}
				}
			}
		}
		cond, t, f, isIf := ifSuccs(b)
		if !isIf {
			for _, s := range b.Succs {
				dfs(s, cur)
			}
			return
		}
		if bo, ok := cond.(*ssa.BinOp); ok && (bo.Op == token.EQL || bo.Op == token.NEQ) && (isNilConst(bo.Y) || isNilConst(bo.X)) {
			v := bo.X
			if isNilConst(bo.X) {
				v = bo.Y
			}
			if key, _ := varOf(v); key != "" {
				if isNil, known := cur[key]; known {
					// follow only the consistent edge
					takeTrue := (bo.Op == token.EQL) == isNil
					if takeTrue {
						dfs(t, cur)
					} else {
						dfs(f, cur)
					}
					return
				}
				ct, cf := map[string]bool{}, map[string]bool{}
				for k, x := range cur {
					ct[k], cf[k] = x, x
				}
				ct[key] = bo.Op == token.EQL
				cf[key] = bo.Op != token.EQL
				dfs(t, ct)
				dfs(f, cf)
				return
			}
		}
		dfs(t, cur)
		dfs(f, cur)
	}
	dfs(from, map[string]bool{})
	return found
}
