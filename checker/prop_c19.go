package main

import (
	"go/types"
	"fmt"
	"go/token"
	"sort"
	"strings"

	"golang.org/x/tools/go/ssa"
)

func init() {
	register("C19", &propDef{run: runC19,
		explain: "Structural necessary conditions of 'the HTTP API is total and rejects are side-effect free', decided on server/server.go, handle_map.go and the create path of cdc_impl.go: (R1) every path of the HTTP handler writes exactly one JSON body: handleRequest writes an error exactly when it returns nil, the handler writes the success body exactly when the result is non-nil, and every earlier exit writes one error; (R2) the response codes are the constants 200, 400, 405, 500; (R3) no panic is reachable from the handler in the call graph except allow-listed guards, and the guard that protects util.GetCollectionNameFromFull holds: validCreateRequest rejects a '.' in every name that enters a full collection name (collection names, database keys, mapping databases and collections) and runs before anything else in Create; (R4) every decoding of request data in Create precedes the first write to the meta store; (R5) rejects do not touch the duplicate-detection bookkeeping (checkDuplicateCollection writes nothing before its last error return; the revert covers later failures — shared with C10); (R6) the task id is validated before it becomes a key segment.",
		notDec:  []string{"JSON well-formedness produced by encoding/json", "semantic validity of accepted requests beyond the listed rejects", "side effects of store faults during create (outside C19's quantifier)"},
	})
}

// c19PanicAllow: abort sites reachable from the HTTP handler that are not violations, with reasons.
var c19PanicAllow = map[string]string{
	`getTaskUniqueIDFromReq | panic() "fail to get the task unique id"`:    "validCreateRequest (which dominates the call in Create) rejects a request with neither a Milvus nor a Kafka address",
	`getTaskUniqueIDFromInfo | panic() "fail to get the task unique id"`:   "task infos are built from validated requests only",
	`GetCollectionNameFromFull | panic() "invalid full collection name"`:   "full names are <db>.<collection> built from names in which validCreateRequest forbids '.' (checked below under C19-R3)",
	`(*ChannelMapping).AddKeyValue | panic() "channel mapping is not initialized"`:      "not-initialised guard: the constructor always allocates one of the three maps",
	`(*ChannelMapping).CheckKeyNotExist | panic() "channel mapping is not initialized"`: "not-initialised guard (same)",
	`(*EtcdOp).GetAllDroppedObj | log.Panic "fail to get the ts data"`:                  "needs a source-etcd fault; faults are outside C19's quantifier (inputs and histories)",
	`(*EtcdOp).GetAllDroppedObj | log.Panic "fail to get the ts data" #2`:               "same (malformed TSO key in the source etcd)",
	`(*EtcdOp).GetAllDroppedObj | log.Panic "fail to parse the ts data"`:                "same",
	`(*EtcdOp).GetAllDroppedObj | log.Panic "fail to get all database"`:                 "same (source-etcd fault)",
	`(*EtcdOp).GetAllDroppedObj | log.Panic "fail to get all collection"`:               "same",
	`(*EtcdOp).GetAllDroppedObj | log.Panic "fail to get all partition"`:                "same",
	`(*EtcdOp).GetAllDroppedObj | log.Panic "fail to get database name"`:                "needs a downstream fault while listing databases",
	`(*EtcdOp).GetAllDroppedObj | log.Panic "fail to get database name" #2`:             "same",
	`(*EtcdOp).getDatabases | log.Panic "fail to parse the database id"`:                "corrupt key in the source catalog",
	`(*DisptachClientStreamCreator).GetStreamChan | zap.(Logger).Panic "the channel name is not virtual channel"`: "channel names come from the source catalog",
	`(*replicateChannelManager).startReadCollectionForMilvus | log.Panic "the database has been dropped but the collection is existed "`: "inconsistent source catalog (fault)",
	`OnceFuncWithContext$lit | panic()`:      "re-raises a panic of the wrapped function (copy of sync.OnceFunc); introduces none of its own",
	`OnceFuncWithContext$lit$lit | panic()`:  "same (inner recover-and-rethrow)",
	`NewMsgStreamFactory | log.Panic "the factory can't be nil"`: "configuration guard: the MQ configuration is checked at server start (checkMQConnection), not request data",
	`ParseChanKey | panic() "invalid key"`:                                 "keys are produced by FormatChanKey only",
	`resetMsgTimestamp | log.Panic "reset msg timestamp: not support msg type"`: "type-switch default unreachable while the supported-type tables agree (C03-R5)",
	`(*tsManager).SendTargetMsg | log.Panic "send target msg failed"`:      "not on a request path: reached only through goroutines started by the request (see C06-R3 known finding)",
}

func runC19(w *World, r *Report) {
	r.Rule("C19-R1", "exactly one JSON body per path", "handleRequest: returns nil <=> exactly one handleError on the path; HTTP handler: exits before dispatch write exactly one error, after dispatch exactly one body iff the result is non-nil", 5)
	r.Rule("C19-R2", "response codes", "constants reaching CDCResponse.Code are within {200, 400, 405, 500}", 3)
	r3 := r.Rule("C19-R3", "no reachable panic from the handler; dotted names rejected", "VTA reachability from the HTTP handler closure to panic/log.Panic/log.Fatal sites minus the reasoned allowlist; validCreateRequest tests strings.Contains(name, \".\") with an error return for collection names, database keys and mapping names, and is the first call of Create", 8)
	r.Rule("C19-R4", "decode before store", "in Create no call that decodes request data (Base64Decode*/Parse*) is reachable after a meta-store Put", 2)
	r.Rule("C19-R5", "rejects leave bookkeeping untouched", "checkDuplicateCollection has no error return after a bookkeeping write; the validation call dominates the reserve", 2)
	r.Rule("C19-R7", "every request is decoded into a fresh value", "the targets of json.Unmarshal in the HTTP handler and of mapstructure.Decode in handleRequest are objects allocated for this request (a composite literal in the handler / the result of a generateModel literal that returns a fresh allocation), never a pooled, global or cached object: a field the body omits must be zero, not left over from an earlier request", 2)
	c19FreshDecodeTargets(w, r)
	r.Rule("C19-R8", "bookkeeping read-modify-write is atomic", "a value written into collectionNames.{data,excludeData,extraInfos,nameMapping} that derives from a read of the same table was read in the same function under the same lock span as the write (no snapshot taken earlier is written back)", 4)
	c19AtomicRMW(w, r, "C19-R8")
	c19RegisteredBeforeStart(w, r, "C19-R9")
	c10OneCriticalSection(w, r, "C19-R10")
	c19TaskListAfterPersist(w, r)
	c19HandlersReadOnly(w, r)
	c10KeyVerbatim(w, r, "C19-R13")
	r.Rule("C19-R6", "task id validated before use as a key segment", "validCreateRequest rejects a task id containing '/' (and the relative segments) with an error", 1)

	hr := w.Func(pkgServer, "CDCServer", "handleRequest")
	gh := w.Func(pkgServer, "CDCServer", "getCDCHandler")
	if hr == nil || gh == nil || len(gh.AnonFuncs) == 0 {
		r.Undecided("C19-R1", "handleRequest/getCDCHandler", 0, "anchors not found")
		return
	}
	handler := gh.AnonFuncs[0]
	isErrWrite := func(in ssa.Instruction) bool {
		c, ok := in.(*ssa.Call)
		return ok && callSym(c.Common()) == (sym{pkgServer, "CDCServer", "handleError"})
	}
	isBodyWrite := func(in ssa.Instruction) bool {
		c, ok := in.(*ssa.Call)
		if !ok {
			return false
		}
		s := callSym(c.Common())
		return s.name == "Encode" && strings.HasSuffix(s.pkg, "json")
	}
	// handleRequest
	{
		cn := countOnPaths(hr, isErrWrite)
		okAll := true
		det := ""
		n := 0
		eachInstr(hr, func(in ssa.Instruction) {
			ret, isR := in.(*ssa.Return)
			if !isR || ret.Block().Comment == "recover" {
				return
			}
			n++
			c := cn[ret.Block()]
			isNil := isNilConst(returnedValue(ret, 0))
			if isNil && !(c.lo == 1 && c.hi == 1) {
				okAll, det = false, fmt.Sprintf("a path returning nil writes between %d and %d error bodies", c.lo, c.hi)
			}
			if !isNil && !(c.lo == 0 && c.hi == 0) {
				okAll, det = false, "a path returning a response also writes an error body"
			}
		})
		r.Check(okAll && n >= 3, "C19-R1", "(*CDCServer).handleRequest | nil result <=> one error body", hr.Pos(), fmt.Sprintf("%d returns checked", n), det)
	}
	// handler closure
	{
		var disp *ssa.Call
		eachInstr(handler, func(in ssa.Instruction) {
			if c, ok := in.(*ssa.Call); ok && callSym(c.Common()) == (sym{pkgServer, "CDCServer", "handleRequest"}) {
				disp = c
			}
		})
		if disp == nil {
			r.Fail("C19-R1", "getCDCHandler$lit | dispatch", handler.Pos(), "handleRequest call not found")
		} else {
			any := func(in ssa.Instruction) bool { return isErrWrite(in) || isBodyWrite(in) }
			cn := countOnPaths(handler, any)
			// find the `response != nil` branch
			var nonNil, isNilB *ssa.BasicBlock
			for _, b := range handler.Blocks {
				cond, t, f, ok := ifSuccs(b)
				if !ok {
					continue
				}
				if bo, isB := cond.(*ssa.BinOp); isB && bo.X == ssa.Value(disp) && isNilConst(bo.Y) {
					if bo.Op == token.NEQ {
						nonNil, isNilB = t, f
					} else {
						nonNil, isNilB = f, t
					}
				}
			}
			okPre, okNon, okNil := true, nonNil != nil, isNilB != nil
			nExit := 0
			for _, b := range handler.Blocks {
				if len(b.Succs) != 0 || b.Comment == "recover" {
					continue
				}
				nExit++
				if !instrReaches(disp, b.Instrs[len(b.Instrs)-1]) {
					if c := cn[b]; !(c.lo == 1 && c.hi == 1) {
						okPre = false
					}
				}
			}
			if nonNil != nil {
				c := countFromBlock(nonNil, any)
				okNon = c.lo == 1 && c.hi == 1
			}
			if isNilB != nil {
				c := countFromBlock(isNilB, any)
				okNil = c.lo == 0 && c.hi == 0
			}
			r.Check(okPre, "C19-R1", "getCDCHandler$lit | exits before dispatch write one error", handler.Pos(), "method / read / unmarshal rejects each write exactly one body", "an early exit writes no body or more than one")
			r.Check(okNon, "C19-R1", "getCDCHandler$lit | non-nil result -> exactly one body", disp.Pos(), "success or decode-error body, exactly one", "a non-nil result leads to zero or two bodies")
			r.Check(okNil, "C19-R1", "getCDCHandler$lit | nil result -> handler writes nothing more", disp.Pos(), "the error body was already written by handleRequest", "after handleRequest reported an error the handler writes a second body")
			// method check is first and uses 405
			okM := false
			eachInstr(handler, func(in ssa.Instruction) {
				if c, ok := in.(*ssa.Call); ok && isErrWrite(c) {
					if cv, isC := callArgs(c.Common())[2].(*ssa.Const); isC && cv.Value != nil && cv.Value.ExactString() == "405" {
						for _, b := range handler.Blocks {
							cond, t, _, isIf := ifSuccs(b)
							if isIf && (t == c.Block()) {
								if bo, isB := cond.(*ssa.BinOp); isB && bo.Op == token.NEQ && strings.HasSuffix(w.accessPath(bo.X), ".Method") {
									okM = true
								}
							}
						}
					}
				}
			})
			r.Check(okM, "C19-R1", "getCDCHandler$lit | non-POST -> 405", handler.Pos(), "request.Method != POST answers 405", "the method check does not answer 405 for non-POST requests")
			_ = nExit
		}
	}

	// ---------- R2 codes
	{
		codes := map[string]bool{}
		for _, fn := range w.RepoFuncs() {
			if fn.Pkg.Pkg.Path() != pkgServer {
				continue
			}
			fam := familyOf(fn)
			for _, al := range allocsOfType(fn, pkgRequest, "CDCResponse", false) {
				for _, fs := range fieldStoresOn(fam, al) {
					if fs.Field == nil || fs.Field.Name() != "Code" {
						continue
					}
					if c, ok := fs.Val.(*ssa.Const); ok && c.Value != nil {
						codes[c.Value.ExactString()] = true
					} else if p, isP := fs.Val.(*ssa.Parameter); isP {
						// handleError's code parameter: collect constants at its call sites
						_ = p
						for _, g := range w.RepoFuncs() {
							eachInstr(g, func(in ssa.Instruction) {
								if c, ok := in.(*ssa.Call); ok && callSym(c.Common()) == (sym{pkgServer, "CDCServer", "handleError"}) {
									for _, v := range backSlice(callArgs(c.Common())[2], SliceOpts{MaxDepth: 6}) {
										if cv, isC := v.(*ssa.Const); isC && cv.Value != nil {
											codes[cv.Value.ExactString()] = true
										}
									}
								}
							})
						}
					}
				}
			}
		}
		var got []string
		for c := range codes {
			got = append(got, c)
		}
		sort.Strings(got)
		allowed := map[string]bool{"200": true, "400": true, "405": true, "500": true}
		for _, c := range got {
			r.Check(allowed[c], "C19-R2", "CDCResponse.Code = "+c, 0, "allowed code", "response code "+c+" is outside {200, 400, 405, 500}")
		}
		if len(got) < 3 {
			r.Fail("C19-R2", "CDCResponse.Code census", 0, fmt.Sprintf("only codes %v found", got))
		}
	}

	// ---------- R3 reachability
	{
		entries := []*ssa.Function{handler}
		// the registered handle closures are called dynamically through the table: add them
		for _, fn := range w.RepoFuncs() {
			if fn.Pkg.Pkg.Path() == pkgServer && fn.Parent() != nil && fnSym(rootFunc(fn)).name == "init" {
				entries = append(entries, fn)
			}
		}
		// CDCService methods of MetaCDC
		for _, n := range []string{"Create", "Delete", "Pause", "Resume", "Get", "GetPosition", "List", "Maintenance"} {
			if f := w.Func(pkgServer, "MetaCDC", n); f != nil {
				entries = append(entries, f)
			}
		}
		pred, order := w.reachableFromMode(entries, false)
		per := map[string]int{}
		nSites := 0
		for _, f := range order {
			if f.Pkg == nil || !w.isRepoPkg(f.Pkg.Pkg.Path()) || strings.HasSuffix(f.Pkg.Pkg.Path(), "mocks") || f.Blocks == nil || f.Pkg.Pkg.Path() == pkgCoreLog {
				continue
			}
			// goroutines started by a request are not part of the request/response path
			if startedByGo(f, pred) {
				continue
			}
			for _, s := range panicSitesIn(f) {
				key := shortFn2(s.Fn) + " | " + s.Kind
				per[key]++
				cons := key
				if per[key] > 1 {
					cons = fmt.Sprintf("%s #%d", key, per[key])
				}
				nSites++
				if why, ok := c19PanicAllow[cons]; ok {
					r3.Allow = append(r3.Allow, cons+": "+why)
					r.OK("C19-R3", cons, s.In.Pos(), "allow-listed: "+why)
				} else {
					r.Fail("C19-R3", cons, s.In.Pos(), "reachable from the HTTP handler via "+pathTo(pred, s.Fn))
				}
			}
		}
		r.Extra["functions_reachable_from_handler"] = len(order)
		r.Extra["abort_sites_reachable"] = nSites
	}
	// the guard behind the GetCollectionNameFromFull allowlist entry
	vr := w.Func(pkgServer, "MetaCDC", "validCreateRequest")
	cr := w.Func(pkgServer, "MetaCDC", "Create")
	if vr == nil || cr == nil {
		r.Undecided("C19-R3", "validCreateRequest", 0, "anchor not found")
	} else {
		// sources that must be tested for '.'
		want := map[string]bool{"collection names (checkCollectionInfos)": false, "database keys of db_collections": false, "name mapping databases and collections": false}
		wantMap := map[string]bool{"name mapping: source database": false, "name mapping: target database": false, "name mapping: source collections (keys of collection_mapping)": false, "name mapping: target collections (values of collection_mapping)": false}
		dotTests := func(fn *ssa.Function) []*ssa.Call {
			var out []*ssa.Call
			eachInstr(fn, func(in ssa.Instruction) {
				c, ok := in.(*ssa.Call)
				if !ok || callSym(c.Common()) != (sym{"strings", "", "Contains"}) {
					return
				}
				if s, isS := constString(c.Call.Args[1]); !isS || s != "." {
					return
				}
				// the true outcome returns an error
				for _, b := range fn.Blocks {
					cond, t, _, isIf := ifSuccs(b)
					if !isIf || cond != ssa.Value(c) {
						continue
					}
					for _, x := range t.Instrs {
						if ret, isR := x.(*ssa.Return); isR && !isNilConst(returnedValue(ret, len(ret.Results)-1)) {
							out = append(out, c)
						}
					}
				}
			})
			return out
		}
		for _, c := range dotTests(vr) {
			for _, v := range backSlice(c.Call.Args[0], SliceOpts{MaxDepth: 18, ThroughArg: appendArgs}) {
				ap := w.accessPath(v)
				if strings.Contains(ap, ".DBCollections") {
					want["database keys of db_collections"] = true
				}
				if strings.Contains(ap, ".NameMapping") {
					want["name mapping databases and collections"] = true
				}
				// each of the four name sources of a mapping entry
				if strings.HasSuffix(ap, ".SourceDB") {
					wantMap["name mapping: source database"] = true
				}
				if strings.HasSuffix(ap, ".TargetDB") {
					wantMap["name mapping: target database"] = true
				}
				switch x := v.(type) {
				case *ssa.Extract:
					if nx, isNext := x.Tuple.(*ssa.Next); isNext && !nx.IsString {
						if rg, isR := nx.Iter.(*ssa.Range); isR && strings.Contains(w.accessPath(rg.X), ".CollectionMapping") {
							if x.Index == 1 {
								wantMap["name mapping: source collections (keys of collection_mapping)"] = true
							}
							if x.Index == 2 {
								wantMap["name mapping: target collections (values of collection_mapping)"] = true
							}
						}
					}
				case *ssa.Call:
					if cs := callSym(x.Common()); len(x.Call.Args) > 0 && strings.Contains(w.accessPath(x.Call.Args[0]), ".CollectionMapping") {
						switch {
						case strings.HasPrefix(cs.name, "Keys"):
							wantMap["name mapping: source collections (keys of collection_mapping)"] = true
						case strings.HasPrefix(cs.name, "Values"):
							wantMap["name mapping: target collections (values of collection_mapping)"] = true
						case strings.HasPrefix(cs.name, "Entries") || strings.HasPrefix(cs.name, "ToPairs"):
							wantMap["name mapping: source collections (keys of collection_mapping)"] = true
							wantMap["name mapping: target collections (values of collection_mapping)"] = true
						}
					}
				}
			}
		}
		for _, k := range sortedKeys(wantMap) {
			r.Check(wantMap[k], "C19-R3", "validCreateRequest | rejects '.' in "+k, vr.Pos(), "tested with an error return", "a '.' in this part of a name-mapping entry is not rejected: the name reaches util.GetCollectionNameFromFull (duplicate check / name resolution), which panics in the create handler, and the client gets no JSON answer")
		}
		if cci := w.Func(pkgServer, "MetaCDC", "checkCollectionInfos"); cci != nil {
			for _, c := range dotTests(cci) {
				if strings.HasSuffix(w.accessPath(c.Call.Args[0]), ".Name") {
					// and validCreateRequest calls checkCollectionInfos for both request shapes
					if len(callsIn(vr, false, sym{pkgServer, "MetaCDC", "checkCollectionInfos"})) >= 2 {
						want["collection names (checkCollectionInfos)"] = true
					}
				}
			}
		}
		for _, k := range sortedKeys(want) {
			r.Check(want[k], "C19-R3", "validCreateRequest | rejects '.' in "+k, vr.Pos(), "tested with an error return", "a '.' in these names is not rejected: util.GetCollectionNameFromFull panics in the create handler and the client gets no JSON answer")
		}
		// validCreateRequest is called first in Create and its error returns
		var vcall *ssa.Call
		eachInstr(cr, func(in ssa.Instruction) {
			if c, ok := in.(*ssa.Call); ok && callSym(c.Common()).name == "validCreateRequest" {
				vcall = c
			}
		})
		okFirst := vcall != nil
		if okFirst {
			eachInstr(cr, func(in ssa.Instruction) {
				c, ok := in.(*ssa.Call)
				if !ok || c == vcall {
					return
				}
				s := callSym(c.Common())
				if s.pkg == pkgServer && (s.name == "checkDuplicateCollection" || s.name == "getTaskUniqueIDFromReq" || strings.HasPrefix(s.name, "GetCollection")) {
					if !instrDominates(vcall, c) {
						okFirst = false
					}
				}
			})
		}
		r.Check(okFirst, "C19-R3", "(*MetaCDC).Create | validation first", cr.Pos(), "validCreateRequest dominates every use of the request's names", "request names are used before validCreateRequest ran")
		// R6
		okID := false
		eachInstr(vr, func(in ssa.Instruction) {
			c, ok := in.(*ssa.Call)
			if !ok || callSym(c.Common()) != (sym{"strings", "", "Contains"}) {
				return
			}
			if s, isS := constString(c.Call.Args[1]); isS && s == "/" && strings.HasSuffix(w.accessPath(c.Call.Args[0]), ".TaskID") {
				okID = true
			}
		})
		r.Check(okID, "C19-R6", "validCreateRequest | task id without path separator", vr.Pos(), "strings.Contains(req.TaskID, \"/\") is rejected", "a task id containing '/' is accepted and becomes a nested key segment: records of task a/b live under the prefix of task a and are deleted with it")
	}

	// ---------- R4
	if cr != nil {
		isPut := func(in ssa.Instruction) bool {
			ci, ok := in.(ssa.CallInstruction)
			return ok && ci.Common().IsInvoke() && ci.Common().Method.Name() == "Put"
		}
		isDecode := func(in ssa.Instruction) bool {
			c, ok := in.(*ssa.Call)
			if !ok {
				return false
			}
			n := callSym(c.Common()).name
			return strings.HasPrefix(n, "Base64Decode") || n == "ParseVChannel"
		}
		// closures of Create that put / decode
		putFns, decFns := map[*ssa.Function]bool{}, map[*ssa.Function]bool{}
		for _, g := range cr.AnonFuncs {
			eachInstr(g, func(in ssa.Instruction) {
				if isPut(in) {
					putFns[g] = true
				}
				if isDecode(in) {
					decFns[g] = true
				}
			})
		}
		fam := familyOf(cr)
		calls := func(in ssa.Instruction, set map[*ssa.Function]bool) bool {
			c, ok := in.(*ssa.Call)
			if !ok {
				return false
			}
			for _, v := range backSlice(c.Call.Value, SliceOpts{MaxDepth: 4}) {
				if mc, isMC := v.(*ssa.MakeClosure); isMC && set[mc.Fn.(*ssa.Function)] {
					return true
				}
			}
			_ = fam
			return false
		}
		var firstPuts, decodes []ssa.Instruction
		eachInstr(cr, func(in ssa.Instruction) {
			if isPut(in) || calls(in, putFns) {
				firstPuts = append(firstPuts, in)
			}
			if isDecode(in) {
				decodes = append(decodes, in)
			}
		})
		ok := len(decodes) >= 1
		det := ""
		for _, d := range decodes {
			for _, p := range firstPuts {
				if instrReaches(p, d) {
					ok = false
					det = fmt.Sprintf("the decode at %s can run after the store write at %s: an undecodable value rejects the request but leaves what was already written", w.pos(d.Pos()), w.pos(p.Pos()))
				}
			}
		}
		r.Check(ok, "C19-R4", "(*MetaCDC).Create | request decoding precedes every store write", cr.Pos(), fmt.Sprintf("%d decode call(s) in Create's body, none reachable from a Put", len(decodes)), det)
		// inside the position closure: decodes precede the Put of the same collection (list validated to length 1)
		for g := range putFns {
			if !decFns[g] {
				continue
			}
			okIn := true
			eachInstr(g, func(in ssa.Instruction) {
				if !isDecode(in) {
					return
				}
				eachInstr(g, func(p ssa.Instruction) {
					if isPut(p) && instrReaches(p, in) && loopFree(p, in) {
						okIn = false
					}
				})
			})
			r.Check(okIn, "C19-R4", "(*MetaCDC).Create$handleCollectionPositions | decode before the collection's Put", g.Pos(), "within one collection all positions are decoded before its Put (the list is validated to one collection)", "a position is decoded after the same collection's checkpoint was written")
		}
	}

	// ---------- R5
	if cd := w.Func(pkgServer, "MetaCDC", "checkDuplicateCollection"); cd != nil && cr != nil {
		bad := false
		eachInstr(cd, func(in ssa.Instruction) {
			if t, wr := c10Access(w, in); t == "" || !wr {
				return
			}
			eachInstr(cd, func(x ssa.Instruction) {
				if ret, isR := x.(*ssa.Return); isR && ret.Block().Comment != "recover" && instrReaches(in, ret) {
					if v := returnedValue(ret, 1); v != nil && !isNilConst(v) {
						bad = true
					}
				}
			})
		})
		r.Check(!bad, "C19-R5", "checkDuplicateCollection | no reject after a bookkeeping write", cd.Pos(), "all error returns precede the first write", "a rejected request has already changed the duplicate-detection bookkeeping")
		var v, c *ssa.Call
		eachInstr(cr, func(in ssa.Instruction) {
			if x, ok := in.(*ssa.Call); ok {
				if callSym(x.Common()).name == "validCreateRequest" {
					v = x
				}
				if callSym(x.Common()).name == "checkDuplicateCollection" {
					c = x
				}
			}
		})
		r.Check(v != nil && c != nil && instrDominates(v, c), "C19-R5", "(*MetaCDC).Create | validation precedes the reserve", cr.Pos(), "validCreateRequest dominates checkDuplicateCollection", "bookkeeping is reserved before the request was validated")
	}
}

// startedByGo: f is reachable only through a `go` statement / pool submit on the recorded path from the entries.
func startedByGo(f *ssa.Function, pred map[*ssa.Function]*ssa.Function) bool {
	for cur := f; cur != nil; cur = pred[cur] {
		p := pred[cur]
		if p == nil {
			return false
		}
		isGo := false
		eachInstr(p, func(in ssa.Instruction) {
			g, ok := in.(*ssa.Go)
			if !ok {
				return
			}
			switch t := g.Call.Value.(type) {
			case *ssa.Function:
				if t == cur {
					isGo = true
				}
			case *ssa.MakeClosure:
				if t.Fn == ssa.Value(cur) {
					isGo = true
				}
			}
		})
		if isGo {
			// but also called synchronously?
			sync := false
			eachInstr(p, func(in ssa.Instruction) {
				if c, ok := in.(*ssa.Call); ok && c.Call.StaticCallee() == cur {
					sync = true
				}
			})
			if !sync {
				return true
			}
		}
	}
	return false
}

// countFromBlock: min/max matched instructions on paths from the start of b to any function exit.
func countFromBlock(b *ssa.BasicBlock, match func(ssa.Instruction) bool) cnt {
	memo := map[*ssa.BasicBlock]*cnt{}
	on := map[*ssa.BasicBlock]bool{}
	var walk func(b *ssa.BasicBlock) cnt
	walk = func(b *ssa.BasicBlock) cnt {
		if m, ok := memo[b]; ok {
			return *m
		}
		if on[b] {
			return cnt{0, 0}
		}
		on[b] = true
		defer delete(on, b)
		n := 0
		for _, in := range b.Instrs {
			if match(in) {
				n++
			}
		}
		res := cnt{-1, -1}
		if len(b.Succs) == 0 {
			res = cnt{0, 0}
		}
		for _, s := range b.Succs {
			c := walk(s)
			if res.lo == -1 || c.lo < res.lo {
				res.lo = c.lo
			}
			if c.hi > res.hi {
				res.hi = c.hi
			}
		}
		res.lo += n
		res.hi += n
		if res.hi > 3 {
			res.hi = 3
		}
		if res.lo > 3 {
			res.lo = 3
		}
		memo[b] = &res
		return res
	}
	return walk(b)
}

// c19FreshDecodeTargets: C19-R7.
func c19FreshDecodeTargets(w *World, r *Report) {
	fresh := func(v ssa.Value, fn *ssa.Function) (bool, string) {
		for _, x := range backSlice(v, SliceOpts{MaxDepth: 6, NoAggregates: true}) {
			switch y := x.(type) {
			case *ssa.Alloc:
				if y.Heap && y.Parent() == fn {
					return true, "allocated in " + shortFn2(fn)
				}
			case *ssa.Call:
				// result of a model generator: a literal whose every return is a fresh allocation
				return false, "result of a call"
			case *ssa.Global:
				return false, "package-level variable " + y.Name()
			}
		}
		return false, "not an allocation of this request"
	}
	n := 0
	for _, fn := range w.RepoFuncs() {
		if fn.Pkg.Pkg.Path() != pkgServer {
			continue
		}
		root := fnSym(rootFunc(fn)).name
		if root != "getCDCHandler" && root != "handleRequest" {
			continue
		}
		eachInstr(fn, func(in ssa.Instruction) {
			c, ok := in.(*ssa.Call)
			if !ok {
				return
			}
			s := callSym(c.Common())
			var target ssa.Value
			switch {
			case s.name == "Unmarshal" && strings.HasSuffix(s.pkg, "json") && len(c.Call.Args) == 2:
				target = c.Call.Args[1]
			case s.name == "Decode" && strings.HasSuffix(s.pkg, "mapstructure") && len(c.Call.Args) == 2 && root == "handleRequest":
				target = c.Call.Args[1]
			default:
				return
			}
			n++
			cons := fmt.Sprintf("%s | %s.%s target", shortFn2(fn), s.pkg[strings.LastIndex(s.pkg, "/")+1:], s.name)
			ok2, why := fresh(target, fn)
			viaGenerator := false
			for _, x := range backSlice(target, SliceOpts{MaxDepth: 6, NoAggregates: true}) {
				if cc, isC := x.(*ssa.Call); isC && strings.HasSuffix(w.accessPath(cc.Call.Value), ".generateModel") {
					viaGenerator = true
				}
			}
			if !ok2 && viaGenerator && s.name == "Decode" {
				// handler.generateModel(): every generateModel literal registered in the server package returns a fresh allocation
				gens, good := 0, true
				for _, g := range w.RepoFuncs() {
					if g.Pkg.Pkg.Path() != pkgServer || g.Parent() == nil || g.Signature.Params().Len() != 0 || g.Signature.Results().Len() != 1 {
						continue
					}
					if _, isI := g.Signature.Results().At(0).Type().Underlying().(*types.Interface); !isI {
						continue
					}
					gens++
					eachInstr(g, func(x ssa.Instruction) {
						if ret, isR := x.(*ssa.Return); isR {
							f2, _ := fresh(ret.Results[0], g)
							if !f2 {
								good = false
							}
						}
					})
				}
				// one generic generator literal (`return new(Req)`) stands for every instantiation of its constructor
				if na := len(requestTypeArgs(w)); na > 0 && gens > 0 {
					gens += na - 1
				}
				ok2, why = gens >= 8 && good, fmt.Sprintf("%d model generators, all returning a fresh allocation=%v", gens, good)
			}
			r.Check(ok2, "C19-R7", cons, c.Pos(), why, "the request is decoded into an object that outlives the request ("+why+"): fields the body omits keep the values of an earlier request, e.g. a body without request_type is executed as the previous request's type")
		})
	}
	if n < 2 {
		r.Fail("C19-R7", "decode census", 0, fmt.Sprintf("only %d decode calls found in the handler (2 confirmed)", n))
	}
}

// c19AtomicRMW: C19-R8 / C10-R7.
func c19AtomicRMW(w *World, r *Report, rule string) {
	n := 0
	for _, fn := range w.RepoFuncs() {
		if fn.Pkg.Pkg.Path() != pkgServer {
			continue
		}
		fam := familyOf(fn)
		k := map[string]int{}
		eachInstr(fn, func(in ssa.Instruction) {
			mu, ok := in.(*ssa.MapUpdate)
			if !ok {
				return
			}
			t, _ := c10Access(w, in)
			if t == "" {
				return
			}
			// reads of the same table the stored value derives from
			var reads []*ssa.Lookup
			through := func(c *ssa.CallCommon) []ssa.Value { return callArgs(c) }
			for _, x := range backSlice(mu.Value, SliceOpts{MaxDepth: 8, ThroughArg: through}) {
				if lk, isL := x.(*ssa.Lookup); isL {
					if t2, _ := c10Access(w, lk); t2 == t {
						reads = append(reads, lk)
					}
				}
			}
			if len(reads) == 0 {
				return
			}
			n++
			k[t]++
			cons := fmt.Sprintf("%s | %s written from a read of %s #%d", shortFn2(fn), t, t, k[t])
			bad := ""
			for _, lk := range reads {
				if lk.Parent() != mu.Parent() {
					bad = "the value was read in " + shortFn2(lk.Parent()) + " (another function, another critical section)"
					continue
				}
				// same function: no Unlock of the collectionNames lock between the read and the write
				hr, hw := w.locksHeldAt(lk), w.locksHeldAt(mu)
				if !(heldSuffix(hr, ".collectionNames", "") && heldSuffix(hw, ".collectionNames", "W")) {
					if fnSym(rootFunc(fn)).name == "ReloadTask" || fnSym(rootFunc(fn)).name == "NewMetaCDC" {
						continue
					}
					bad = "read and write are not both inside the collectionNames lock"
					continue
				}
				unlocked := false
				eachInstr(fn, func(x ssa.Instruction) {
					if c, isC := x.(*ssa.Call); isC {
						if nme := callSym(c.Common()).name; nme == "Unlock" || nme == "RUnlock" {
							if rv := callRecv(c.Common()); rv != nil && strings.Contains(w.accessPath(rv), ".collectionNames") {
								if instrReaches(lk, c) && instrReaches(c, mu) {
									unlocked = true
								}
							}
						}
					}
				})
				if unlocked {
					bad = "the lock is released between the read and the write"
				}
			}
			_ = fam
			r.Check(bad == "", rule, cons, mu.Pos(), "read and written in one critical section", "a snapshot of "+t+" is written back later: "+bad+"; a concurrent accepted request in between is overwritten (e.g. the revert of a rejected create wipes another task's reservation)")
		})
	}
	if n < 3 {
		r.Fail(rule, "read-modify-write census", 0, fmt.Sprintf("only %d read-modify-write updates of the bookkeeping found (3 confirmed)", n))
	}
}

// c19RegisteredBeforeStart: Create's failure path removes a task that could not be started with (*MetaCDC).delete, which
// refuses a task it does not find in cdcTasks.data. The persisted record and checkpoints of a failed create are
// therefore only removed when the in-memory registration precedes the start.
func c19RegisteredBeforeStart(w *World, r *Report, id string) {
	r.Rule(id, "a created task is registered in memory before it is started", "in Create the store into cdcTasks.data[task id] dominates the startInternal call (the clean-up of a failed start, (*MetaCDC).delete, only removes a task it finds there)", 1)
	cr := w.Func(pkgServer, "MetaCDC", "Create")
	if cr == nil {
		r.Undecided(id, "(*MetaCDC).Create", 0, "anchor not found")
		return
	}
	var starts []*ssa.Call
	var regs []*ssa.MapUpdate
	eachInstr(cr, func(in ssa.Instruction) {
		switch x := in.(type) {
		case *ssa.Call:
			if s := callSym(x.Common()); s.recv == "MetaCDC" && s.name == "startInternal" {
				starts = append(starts, x)
			}
		case *ssa.MapUpdate:
			if strings.HasSuffix(strings.TrimSuffix(w.accessPath(x.Map), "[]"), ".cdcTasks.data") {
				regs = append(regs, x)
			}
		}
	})
	if len(starts) == 0 {
		r.Undecided(id, "(*MetaCDC).Create | startInternal", cr.Pos(), "no startInternal call found in Create")
		return
	}
	for i, st := range starts {
		ok := false
		for _, mu := range regs {
			if instrDominates(mu, st) {
				ok = true
			}
		}
		r.Check(ok, id, fmt.Sprintf("(*MetaCDC).Create | startInternal#%d after registration", i+1), st.Pos(), "cdcTasks.data[id] is stored on every path to the start", "the task is started before (or without) being registered in cdcTasks.data: when the start fails, delete() answers 'not found', the request is rejected, but the task record and its checkpoints stay in the meta store (list shows the task, a restart resurrects it)")
	}
}

// c19TaskListAfterPersist (C19-R11): a rejected create leaves the task list as it was. In Create every write into
// cdcTasks.data comes after the task record was persisted (the last point at which the request can still be rejected by
// validation, duplicate check or quota), so no reject path has to undo it.
func c19TaskListAfterPersist(w *World, r *Report) {
	r.Rule("C19-R11", "the task list is written only for a persisted task", "in Create every store into cdcTasks.data is dominated by the meta-store Put of the task record (no placeholder is parked there while the request can still be rejected)", 1)
	cr := w.Func(pkgServer, "MetaCDC", "Create")
	if cr == nil {
		r.Undecided("C19-R11", "(*MetaCDC).Create", 0, "anchor not found")
		return
	}
	var puts []*ssa.Call
	eachInstr(cr, func(in ssa.Instruction) {
		if c, ok := in.(*ssa.Call); ok && c.Common().IsInvoke() && c.Common().Method.Name() == "Put" {
			if len(c.Common().Args) >= 2 && strings.Contains(c.Common().Args[1].Type().String(), "TaskInfo") {
				puts = append(puts, c)
			}
		}
	})
	n := 0
	eachInstr(cr, func(in ssa.Instruction) {
		mu, ok := in.(*ssa.MapUpdate)
		if !ok || !strings.HasSuffix(strings.TrimSuffix(w.accessPath(mu.Map), "[]"), ".cdcTasks.data") {
			return
		}
		n++
		ok2 := false
		for _, p := range puts {
			if instrDominates(p, mu) {
				ok2 = true
			}
		}
		r.Check(ok2, "C19-R11", fmt.Sprintf("(*MetaCDC).Create | cdcTasks.data write #%d follows the persisted record", n), mu.Pos(), "dominated by TaskInfo store Put", "the task list is written before the task record is persisted: a request rejected afterwards (duplicate collection, limit, undecodable position) leaves an entry behind — get/list/pause see a task that does not exist, and a repeated create with that id is answered 200")
	})
	if n == 0 {
		r.Undecided("C19-R11", "(*MetaCDC).Create | cdcTasks.data", cr.Pos(), "no write of the task list found in Create")
	}
}

// c19HandlersReadOnly (C19-R12): the request handlers registered in handle_map.go pass the decoded request on; they do
// not write into it. Decoded maps are nil when the key is absent from the body: a write panics in the handler.
func c19HandlersReadOnly(w *World, r *Report) {
	r.Rule("C19-R12", "handlers do not write into the decoded request", "the handler literals of server/handle_map.go contain no map update and no field store on the request model they were given", 0)
	n, bad := 0, 0
	for _, fn := range w.RepoFuncs() {
		if fn.Pkg == nil || fn.Pkg.Pkg.Path() != pkgServer || fn.Parent() == nil {
			continue
		}
		if !strings.HasSuffix(w.Prog.Fset.Position(fn.Pos()).Filename, "handle_map.go") {
			continue
		}
		n++
		eachInstr(fn, func(in ssa.Instruction) {
			switch x := in.(type) {
			case *ssa.MapUpdate:
				// only maps that belong to the decoded request (a map the handler makes itself is its own business)
				fromReq := false
				for _, v := range backSlice(x.Map, SliceOpts{MaxDepth: 6, NoAggregates: true}) {
					var owner types.Type
					switch y := v.(type) {
					case *ssa.FieldAddr:
						owner = y.X.Type()
					case *ssa.Field:
						owner = y.X.Type()
					}
					if n := namedOf(owner); owner != nil && n != nil && n.Obj().Pkg() != nil && strings.Contains(n.Obj().Pkg().Path(), "/model") {
						fromReq = true
					}
				}
				if !fromReq {
					return
				}
				bad++
				r.Fail("C19-R12", fmt.Sprintf("%s | map write #%d", shortFn2(fn), bad), x.Pos(), "a request handler writes into a map of the decoded request: the map is nil when the body does not carry that key, the write panics and the client gets no JSON answer")
			}
		})
	}
	if bad == 0 {
		r.OK("C19-R12", "census", 0, fmt.Sprintf("%d handler literals inspected", n))
	}
}

// c10KeyVerbatim (C10-R11 / C19-R13): reserve, revert, delete and reload meet in one table entry only when the key a
// function is handed is the key it uses.
func c10KeyVerbatim(w *World, r *Report, rule string) {
	r.Rule(rule, "the per-target key is used as given", "in checkDuplicateCollection every access to collectionNames.{data,excludeData,extraInfos,nameMapping} is keyed by the uKey parameter itself (not by a trimmed / normalised copy that the revert closure, delete and reload do not compute)", 4)
	cd := w.Func(pkgServer, "MetaCDC", "checkDuplicateCollection")
	if cd == nil || len(cd.Params) < 2 {
		r.Undecided(rule, "(*MetaCDC).checkDuplicateCollection", 0, "anchor not found")
		return
	}
	key := cd.Params[1]
	n := 0
	for _, g := range familyOf(cd).Funcs {
		eachInstr(g, func(in ssa.Instruction) {
			var m, k ssa.Value
			switch x := in.(type) {
			case *ssa.Lookup:
				m, k = x.X, x.Index
			case *ssa.MapUpdate:
				m, k = x.Map, x.Key
			default:
				return
			}
			ap := strings.TrimSuffix(w.accessPath(m), "[]")
			if !strings.Contains(ap, ".collectionNames.") || strings.Count(ap[strings.Index(ap, ".collectionNames."):], "[") > 0 {
				return
			}
			n++
			direct := familyOf(cd).canon(k) == ssa.Value(key) || k == ssa.Value(key)
			if !direct {
				if u, ok := k.(*ssa.UnOp); ok {
					if al, isAl := familyOf(cd).canon(u.X).(*ssa.Alloc); isAl {
						sts := familyOf(cd).stores[al]
						direct = len(sts) == 1 && sts[0].Val == ssa.Value(key)
					}
				}
			}
			r.Check(direct, rule, fmt.Sprintf("(*MetaCDC).checkDuplicateCollection | table access #%d keyed by uKey", n), in.Pos(), "the parameter itself", "the table is accessed under a value computed from the key (trimmed, lower-cased, …): the reserve is recorded under one entry while Create's revert, delete and reload use the key as given — a rejected request leaves its names registered, a deleted task's names are never released")
		})
	}
	if n == 0 {
		r.Undecided(rule, "(*MetaCDC).checkDuplicateCollection | table accesses", cd.Pos(), "none found")
	}
}
