package main

// Generic discipline rules applied to the functions each property is anchored in (anchor_funcs.json: the function
// declarations overlapping the file:line ranges of the property's mechanisms at the pinned snapshot, frozen by symbol).
//
//   G2  a failure is not dropped on its own branch: for every `err != nil` / `err == nil` test on an error returned by
//       a call, the branch on which the error is known to be non-nil uses it (returns it, wraps it, reports or logs
//       it). A test whose non-nil branch never looks at the error again has its polarity or its body wrong.
//   G3  the failure branch does not report success: inside the region dominated by the non-nil branch, a return whose
//       error result is the constant nil is only allowed at the sites enumerated (and justified) in g3Allowed.
//   G4  comma-ok discipline: the value of a failed map lookup / Load / type assertion is not dereferenced, indexed or
//       written through on a path where ok is known to be false.
//   G5  swapped arguments: at a call of a repository function, two same-typed arguments whose names are each other's
//       parameter names.
//
// They are necessary conditions of every property whose mechanism contains the call: a dropped store / downstream /
// lookup failure, a zero value used as if the lookup had succeeded, or crossed identifiers break the behaviour the
// property states for the failing / absent / crossed case.

import (
	_ "embed"
	"encoding/json"
	"fmt"
	"go/ast"
	"go/token"
	"go/types"
	"os"
	"sort"
	"strconv"
	"strings"

	"golang.org/x/tools/go/ssa"
	"golang.org/x/tools/go/types/typeutil"
)

//go:embed anchor_funcs.json
var anchorFuncsJSON []byte

var anchorFuncs map[string][]string

// extraAnchors: functions added by hand to a property's anchored set (mechanisms the line ranges cut off).
var extraAnchors = map[string][]string{
	"C08": {pkgWriter + "\tChannelWriter\tcreateCollection", pkgWriter + "\tChannelWriter\tdropCollection", pkgWriter + "\tChannelWriter\tcreatePartition", pkgWriter + "\tChannelWriter\tdropPartition", pkgWriter + "\tChannelWriter\tdropDatabase"},
	"C11": {pkgServer + "\tMetaCDC\tPause", pkgServer + "\tMetaCDC\tResume", pkgServer + "\tMetaCDC\tDelete"},
	"C05": {pkgServer + "\tMetaCDC\treplicateMsgsFunc"},
	"C01": {pkgReader + "\treplicateChannelManager\tStartReadCollection", pkgReader + "\treplicateChannelManager\tstartReadChannel", pkgReader + "\treplicateChannelHandler\tgetPartitionID", pkgReader + "\treplicateChannelHandler\tgetCollectionTargetInfo"},
	"C03": {pkgServer + "\tMetaCDC\tstartInternal"},
	"C04": {pkgReader + "\tCollectionReader\tStartRead"},
	"C09": {pkgWriter + "\tChannelWriter\tWaitObjReady", pkgWriter + "\tChannelWriter\tWaitDatabaseReady", pkgWriter + "\tChannelWriter\tWaitCollectionReady", pkgWriter + "\tChannelWriter\tWaitPartitionReady", pkgWriter + "\tChannelWriter\tWaitObjReadyForAPIEvent", pkgWriter + "\tChannelWriter\tUpdateNameMappings"},
	"C20": {pkgWriter + "\tChannelWriter\tWaitObjReady", pkgWriter + "\tChannelWriter\tWaitPartitionReady", pkgWriter + "\tChannelWriter\tWaitCollectionReady", pkgWriter + "\t\tUpdateMsgBase"},
}

// derivedDepth > 0 adds the repository functions statically called (transitively, up to that depth) from the anchored
// functions and their literals.
// Quick tier: depth 2. Thorough tier (and the reference signatures): the whole static call closure inside the repository.
const derivedDepthQuick, derivedDepthFull = 2, 64

func derivedDepthOf(w *World) int {
	if v := os.Getenv("VERIF_DERIVED"); v != "" {
		n, _ := strconv.Atoi(v)
		return n
	}
	if writeBaselineMode || (w != nil && w.Tier == "thorough") {
		return derivedDepthFull
	}
	return derivedDepthQuick
}

// onlyLogged: the call's result is consumed by logging / metrics calls only (zap.Any("pack", util.MsgPackInfoForLog(p))):
// the callee is a presentation helper, not part of the mechanism.
func onlyLogged(ci ssa.CallInstruction) bool {
	v := ci.Value()
	if v == nil || v.Referrers() == nil || len(*v.Referrers()) == 0 {
		return false
	}
	seen := map[ssa.Value]bool{}
	var walk func(x ssa.Value, d int) bool
	walk = func(x ssa.Value, d int) bool {
		if seen[x] {
			return true
		}
		seen[x] = true
		if d > 4 || x.Referrers() == nil {
			return false
		}
		n := 0
		for _, ref := range *x.Referrers() {
			switch y := ref.(type) {
			case *ssa.DebugRef:
				continue
			case *ssa.MakeInterface:
				n++
				if !walk(y, d+1) {
					return false
				}
			case *ssa.Call:
				n++
				s := callSym(y.Common())
				if !(strings.HasSuffix(s.pkg, "/log") || strings.Contains(s.pkg, "zap")) {
					return false
				}
				if y.Referrers() != nil && len(*y.Referrers()) > 0 && !walk(y, d+1) {
					return false
				}
			case *ssa.Store:
				// stored into the variadic slice of a log call
				n++
				ia, ok := y.Addr.(*ssa.IndexAddr)
				if !ok {
					return false
				}
				if !walk(ia.X, d+1) {
					return false
				}
			case *ssa.Slice:
				n++
				if !walk(y, d+1) {
					return false
				}
			case *ssa.IndexAddr:
				continue
			default:
				return false
			}
		}
		return n > 0
	}
	return walk(v, 0)
}

func anchoredFuncs(w *World, prop string) []*ssa.Function {
	base := anchoredFuncs0(w, prop)
	if derivedDepthOf(w) <= 0 {
		return base
	}
	return append(base, derivedFuncs(w, base, derivedDepthOf(w))...)
}

func derivedFuncs(w *World, base []*ssa.Function, depth int) []*ssa.Function {
	seen := map[*ssa.Function]bool{}
	for _, f := range base {
		seen[f] = true
	}
	var out []*ssa.Function
	frontier := base
	for d := 0; d < depth && len(frontier) > 0; d++ {
		var next []*ssa.Function
		for _, root := range frontier {
			for _, fn := range familyOf(root).Funcs {
				eachInstr(fn, func(in ssa.Instruction) {
					ci, ok := in.(ssa.CallInstruction)
					if !ok {
						return
					}
					cal := ci.Common().StaticCallee()
					if cal == nil || cal.Pkg == nil || !w.isRepoPkg(cal.Pkg.Pkg.Path()) || cal.Parent() != nil || len(cal.Blocks) == 0 || cal.Synthetic != "" {
						return
					}
					if o := cal.Origin(); o != nil {
						cal = o
					}
					p := cal.Pkg.Pkg.Path()
					if strings.Contains(p, "/mocks") || strings.Contains(p, "/pb") || strings.HasSuffix(p, "/log") || strings.HasSuffix(p, "/metrics") || seen[cal] || onlyLogged(ci) {
						return
					}
					seen[cal] = true
					next = append(next, cal)
					out = append(out, cal)
				})
			}
		}
		frontier = next
	}
	sort.Slice(out, func(i, j int) bool { return sigKeyOf(out[i]) < sigKeyOf(out[j]) })
	return out
}

func anchoredFuncs0(w *World, prop string) []*ssa.Function {
	if anchorFuncs == nil {
		json.Unmarshal(anchorFuncsJSON, &anchorFuncs)
	}
	var out []*ssa.Function
	seen := map[*ssa.Function]bool{}
	for _, k := range append(append([]string{}, anchorFuncs[prop]...), extraAnchors[prop]...) {
		f := strings.Split(k, "\t")
		if len(f) != 3 || f[2] == "init" {
			continue
		}
		fn := w.Func(f[0], f[1], f[2])
		if fn == nil || seen[fn] {
			continue
		}
		seen[fn] = true
		out = append(out, fn)
	}
	return out
}

func isErrorType(t types.Type) bool {
	return types.Identical(t, types.Universe.Lookup("error").Type())
}

// nilTest: block b ends in `if v == nil` / `if v != nil` on an error value; returns v, the successor on which v is
// known non-nil and the one on which it is known nil.
func errNilTest(b *ssa.BasicBlock) (v ssa.Value, nonNil, isNil *ssa.BasicBlock, ok bool) {
	cond, t, f, isIf := ifSuccs(b)
	if !isIf {
		return
	}
	for {
		u, isU := cond.(*ssa.UnOp)
		if !isU || u.Op != token.NOT {
			break
		}
		cond, t, f = u.X, f, t
	}
	bo, isB := cond.(*ssa.BinOp)
	if !isB || (bo.Op != token.EQL && bo.Op != token.NEQ) {
		return
	}
	switch {
	case isNilConst(bo.Y) && isErrorType(bo.X.Type()):
		v = bo.X
	case isNilConst(bo.X) && isErrorType(bo.Y.Type()):
		v = bo.Y
	default:
		return
	}
	if bo.Op == token.NEQ {
		return v, t, f, true
	}
	return v, f, t, true
}

// errOrigin: the call an error value comes from (through extract / local variable), or nil.
func errOrigin(fam *Family, v ssa.Value) *ssa.Call {
	for _, x := range backSlice(v, SliceOpts{MaxDepth: 5, NoAggregates: true}) {
		if c, ok := x.(*ssa.Call); ok {
			return c
		}
	}
	return nil
}

// errUsedFrom: is the error value behind v used (other than by nil tests) in some instruction reachable from block
// `from`? For a register the uses are its referrers; for a local variable every load not cut off by a later store.
func errUsedFrom(fam *Family, v ssa.Value, from *ssa.BasicBlock) bool {
	reach := blockReach(from, nil)
	reach[from] = true
	isTestOnly := func(in ssa.Instruction) bool {
		bo, ok := in.(*ssa.BinOp)
		return ok && (bo.Op == token.EQL || bo.Op == token.NEQ) && (isNilConst(bo.X) || isNilConst(bo.Y))
	}
	usedReg := func(val ssa.Value) bool {
		seen := map[ssa.Value]bool{}
		var walk func(x ssa.Value) bool
		walk = func(x ssa.Value) bool {
			if seen[x] || x.Referrers() == nil {
				return false
			}
			seen[x] = true
			for _, ref := range *x.Referrers() {
				if isTestOnly(ref) {
					continue
				}
				if _, isDbg := ref.(*ssa.DebugRef); isDbg {
					continue
				}
				if ph, isPhi := ref.(*ssa.Phi); isPhi {
					// the phi merges this error with others: a use of the phi after the join is a use
					if reach[ph.Block()] && walk(ph) {
						return true
					}
					continue
				}
				if reach[ref.Block()] {
					return true
				}
			}
			return false
		}
		return walk(val)
	}
	if u, ok := v.(*ssa.UnOp); ok && u.Op == token.MUL {
		if al, isAl := fam.canon(u.X).(*ssa.Alloc); isAl {
			// loads of the variable reachable from `from` (in any function of the family: closures read it too)
			for _, in := range fam.allInstr {
				ld, ok := in.(*ssa.UnOp)
				if !ok || ld.Op != token.MUL || fam.canon(ld.X) != ssa.Value(al) || ld == u {
					continue
				}
				if ld.Parent() != from.Parent() {
					return true // read inside a closure (deferred logging, etc.)
				}
				if !reach[ld.Block()] {
					continue
				}
				if usedReg(ld) {
					// cut off by a store that dominates the load and is itself reachable from `from`?
					killed := false
					for _, st := range fam.stores[al] {
						if st.Parent() == ld.Parent() && reach[st.Block()] && instrDominates(st, ld) && st.Block() != from.Parent().Blocks[0] {
							killed = true
						}
					}
					if !killed {
						return true
					}
				}
			}
			return false
		}
	}
	return usedReg(v)
}

// knownNilAt: v (an error register, or a load of an error variable) is known to be nil in block `at` because a nil test
// of the same register / variable dominates `at` on its nil side with no store to the variable in between. Returns the
// testing block.
func knownNilAt(fam *Family, fn *ssa.Function, v ssa.Value, at *ssa.BasicBlock) *ssa.BasicBlock {
	allocOf := func(x ssa.Value) *ssa.Alloc {
		if u, ok := x.(*ssa.UnOp); ok && u.Op == token.MUL {
			if al, ok := fam.canon(u.X).(*ssa.Alloc); ok {
				return al
			}
		}
		return nil
	}
	val := allocOf(v)
	for _, t := range fn.Blocks {
		tv, _, nilSide, ok := errNilTest(t)
		if !ok || len(nilSide.Preds) != 1 || !(nilSide == at || nilSide.Dominates(at)) {
			continue
		}
		if tv == v {
			return t
		}
		tal := allocOf(tv)
		if val == nil || tal != val {
			continue
		}
		killed := false
		for _, st := range fam.stores[val] {
			if st.Parent() != fn {
				// written by a closure: it matters only when the closure can run between the test and `at`
				if closureMayRunIn(fam, fn, st.Parent(), func(b *ssa.BasicBlock) bool {
					return (b == nilSide || nilSide.Dominates(b)) && (b == at || blockReach(b, nil)[at])
				}) {
					killed = true
					break
				}
				continue
			}
			sb := st.Block()
			if !(sb == nilSide || nilSide.Dominates(sb)) {
				continue
			}
			if sb == at {
				if ld, isI := v.(ssa.Instruction); isI && ld.Block() == at && instrIndex(st) > instrIndex(ld) {
					continue
				}
				killed = true
			} else if blockReach(sb, nil)[at] {
				killed = true
			}
		}
		if !killed {
			return t
		}
	}
	return nil
}

// closureMayRunIn: may the literal g (nested somewhere in fn) be invoked from a block of fn satisfying inRegion, or at an
// unknown time (deferred, started as a goroutine, escaping into a call / field / return)?
func closureMayRunIn(fam *Family, fn, g *ssa.Function, inRegion func(*ssa.BasicBlock) bool) bool {
	for g.Parent() != nil && g.Parent() != fn {
		g = g.Parent()
	}
	if g.Parent() != fn {
		return true
	}
	res := false
	seen := map[ssa.Value]bool{}
	var follow func(v ssa.Value, d int)
	follow = func(v ssa.Value, d int) {
		if res || seen[v] || v.Referrers() == nil {
			return
		}
		seen[v] = true
		if d > 6 {
			res = true
			return
		}
		for _, ref := range *v.Referrers() {
			switch x := ref.(type) {
			case *ssa.DebugRef:
			case *ssa.Defer, *ssa.Go:
				res = true
			case *ssa.Call:
				if x.Call.Value == v {
					if inRegion(x.Block()) {
						res = true
					}
				} else {
					// handed to another function as a synchronous callback (retry.Do, lo.*, Range): runs at the call
					if inRegion(x.Block()) {
						res = true
					}
				}
			case *ssa.Store:
				if x.Val != v {
					continue
				}
				al, isAl := fam.canon(x.Addr).(*ssa.Alloc)
				if !isAl {
					res = true
					continue
				}
				for _, in := range fam.allInstr {
					if ld, ok := in.(*ssa.UnOp); ok && ld.Op == token.MUL && fam.canon(ld.X) == ssa.Value(al) {
						if ld.Parent() != fn {
							res = true
						} else {
							follow(ld, d+1)
						}
					}
				}
			case *ssa.Phi:
				follow(x, d+1)
			case *ssa.MakeInterface, *ssa.ChangeType:
				follow(x.(ssa.Value), d+1)
			default:
				res = true
			}
		}
	}
	found := false
	for _, b := range fn.Blocks {
		for _, in := range b.Instrs {
			if mc, ok := in.(*ssa.MakeClosure); ok && mc.Fn == ssa.Value(g) {
				found = true
				follow(mc, 0)
			}
		}
	}
	return res || !found
}

// failureReachesSuccess: from the branch on which the error v (a register) is known non-nil, is a return with a constant
// nil error reachable on a path that (a) never re-executes the call v comes from, (b) respects every later nil test of v
// or of a phi that carries v on the path taken? Returns the offending return, or nil. Paths through a log.Panic/Fatal or
// panic end there.
func failureReachesSuccess(fn *ssa.Function, v ssa.Value, nn *ssa.BasicBlock, origin *ssa.BasicBlock) *ssa.Return {
	type state struct {
		b   *ssa.BasicBlock
		key string
	}
	seen := map[state]bool{}
	var found *ssa.Return
	keyOf := func(set map[ssa.Value]bool) string {
		var ks []string
		for x := range set {
			ks = append(ks, x.Name())
		}
		sort.Strings(ks)
		return strings.Join(ks, ",")
	}
	var walk func(b *ssa.BasicBlock, set map[ssa.Value]bool, depth int)
	walk = func(b *ssa.BasicBlock, set map[ssa.Value]bool, depth int) {
		if found != nil || depth > 400 {
			return
		}
		st := state{b, keyOf(set)}
		if seen[st] {
			return
		}
		seen[st] = true
		for _, in := range b.Instrs {
			if c, ok := in.(*ssa.Call); ok {
				s := callSym(c.Common())
				if (strings.HasSuffix(s.pkg, "/log") || strings.Contains(s.pkg, "zap")) && (s.name == "Panic" || s.name == "Fatal") {
					return
				}
			}
			if _, ok := in.(*ssa.Panic); ok {
				return
			}
		}
		// variables: a store replaces the fact about the variable
		copiedV := false
		for _, in := range b.Instrs {
			stv, ok := in.(*ssa.Store)
			if !ok {
				continue
			}
			al, isAl := stv.Addr.(*ssa.Alloc)
			if !isAl || !isErrorType(al.Type().(*types.Pointer).Elem()) {
				continue
			}
			nonNilVal := set[stv.Val]
			if ld, isLd := stv.Val.(*ssa.UnOp); isLd && ld.Op == token.MUL {
				if a2, ok2 := ld.X.(*ssa.Alloc); ok2 && set[a2] {
					nonNilVal = true
				}
			}
			if nonNilVal != set[al] {
				if !copiedV {
					ns := map[ssa.Value]bool{}
					for k := range set {
						ns[k] = true
					}
					set, copiedV = ns, true
				}
				if nonNilVal {
					set[al] = true
				} else {
					delete(set, al)
				}
			}
		}
		inSet := func(x ssa.Value) bool {
			if set[x] {
				return true
			}
			if ld, isLd := x.(*ssa.UnOp); isLd && ld.Op == token.MUL {
				if a2, ok2 := ld.X.(*ssa.Alloc); ok2 && set[a2] {
					return true
				}
			}
			return false
		}
		last := b.Instrs[len(b.Instrs)-1]
		if ret, ok := last.(*ssa.Return); ok {
			res := fn.Signature.Results()
			if res.Len() == 0 || !isErrorType(res.At(res.Len()-1).Type()) {
				return
			}
			if rv := returnedValue(ret, len(ret.Results)-1); rv != nil && isNilConst(rv) {
				found = ret
			}
			return
		}
		succs := b.Succs
		if tv, nonNil, _, ok := errNilTest(b); ok && inSet(tv) {
			succs = []*ssa.BasicBlock{nonNil}
		}
		for _, sc := range succs {
			if sc == origin {
				continue // the call runs again: its new result is tested on its own
			}
			ns := set
			// phis of sc that take a known non-nil value on this edge
			idx := -1
			for i, p := range sc.Preds {
				if p == b {
					idx = i
				}
			}
			copied := false
			for _, in := range sc.Instrs {
				ph, ok := in.(*ssa.Phi)
				if !ok {
					break
				}
				has := idx >= 0 && idx < len(ph.Edges) && set[ph.Edges[idx]]
				if has != set[ph] {
					if !copied {
						ns = map[ssa.Value]bool{}
						for k := range set {
							ns[k] = true
						}
						copied = true
					}
					if has {
						ns[ph] = true
					} else {
						delete(ns, ph)
					}
				}
			}
			walk(sc, ns, depth+1)
		}
	}
	init := map[ssa.Value]bool{v: true}
	if ld, isLd := v.(*ssa.UnOp); isLd && ld.Op == token.MUL {
		if a2, ok2 := ld.X.(*ssa.Alloc); ok2 {
			init[a2] = true
		}
	}
	walk(nn, init, 0)
	return found
}

// g3Allowed: returns of a nil error inside a failure branch that are deliberate; key = function | origin callee.
var g3Allowed = map[string]string{
	"(*replicateChannelManager).startReadCollectionForMilvus | Do": "the collection does not exist downstream and is already dropped at the source: there is nothing to start, the caller skips it (the error is the probe's 'not found')",
}

// g2Allowed: error tests whose non-nil branch deliberately does not look at the error; key = function | origin callee.
var g2Allowed = map[string]string{
	"(*ChannelWriter).WaitDatabaseReady | Do":                      "downstream existence probe: a failing probe means state Unknown, which the caller turns into an error",
	"(*ChannelWriter).WaitCollectionReady | Do":                    "downstream existence probe: a failing probe means state Unknown",
	"(*ChannelWriter).WaitPartitionReady | Do":                     "downstream existence probe: a failing probe means state Unknown",
	"(*MilvusDataHandler).CreateCollection$lit | DescribeCollection": "existence probe before create: any failure means 'not there yet', the create call that follows reports real errors",
}

func genericRules(w *World, r *Report, prop string) {
	fns := anchoredFuncs(w, prop)
	r.Rule(prop+"-G2", "a failure is not dropped on its own branch", "in the functions this property is anchored in (and their literals): for every nil test of an error returned by a call, the successor on which the error is non-nil uses it (return, wrap, report, log)", 1)
	r.Rule(prop+"-G3", "the failure branch does not report success", "in the same functions: no return with a constant nil error inside the region dominated by an error's non-nil branch, except the enumerated deliberate sites", 0)
	r.Rule(prop+"-G4", "comma-ok discipline", "in the same functions: the value of a map lookup / Load / type assertion is not indexed, dereferenced or written through where ok is known false", 0)
	r.Rule(prop+"-G5", "no swapped arguments", "in the same functions: no call of a repository function passes two same-typed arguments whose names are each other's parameter names", 0)
	r.Rule(prop+"-G6", "per-iteration containers are allocated per iteration", "in the same functions: a map or slice stored into an outer map / appended to an outer slice inside a loop is allocated inside that loop, so the entries of different iterations do not alias one object", 0)
	if len(fns) == 0 {
		r.Undecided(prop+"-G2", "anchored functions", 0, "none of the property's anchored functions resolves")
		return
	}
	nG6 := 0
	for _, root := range fns {
		for _, fn := range familyOf(root).Funcs {
			host := shortFn2(fn)
			k := 0
			eachInstr(fn, func(in ssa.Instruction) {
				mu, ok := in.(*ssa.MapUpdate)
				if !ok {
					return
				}
				h := loopHeaderOf(mu.Block())
				if h == nil {
					return
				}
				switch mu.Value.Type().Underlying().(type) {
				case *types.Map, *types.Slice:
				default:
					return
				}
				// the outer container must live longer than the iteration
				if om, isMM := mu.Map.(*ssa.MakeMap); isMM && h.Dominates(om.Block()) && om.Block() != h {
					return
				}
				var site ssa.Value
				for _, x := range backSlice(mu.Value, SliceOpts{MaxDepth: 4, NoAggregates: true}) {
					switch x.(type) {
					case *ssa.MakeMap, *ssa.MakeSlice:
						site = x
					}
				}
				if site == nil {
					return
				}
				nG6++
				k++
				sb := site.(ssa.Instruction).Block()
				inside := h.Dominates(sb) && sb != h
				// inside the loop means: on a cycle through the header
				if inside {
					inside = blockReach(sb, nil)[h]
				}
				r.Check(inside, prop+"-G6", fmt.Sprintf("%s | container stored per iteration #%d", host, k), mu.Pos(), "allocated inside the loop", "the map/slice stored for each iteration is allocated once outside the loop: every entry of the outer container is the same object, so what is recorded for one item (e.g. one collection's seek positions) is seen — and overwritten — by all the others")
			})
		}
	}
	// the address of a variable appended once per iteration: the variable is declared inside the loop (hoisting the
	// declaration out of the loop makes every element of the result the same object — the last row read)
	for _, root := range fns {
		for _, fn := range familyOf(root).Funcs {
			host := shortFn2(fn)
			k := 0
			eachInstr(fn, func(in ssa.Instruction) {
				c, ok := in.(*ssa.Call)
				if !ok || len(appendArgs(c.Common())) != 2 {
					return
				}
				h := loopHeaderOf(c.Block())
				if h == nil {
					return
				}
				// elements: stores into the varargs array of this append
				sl, isSl := c.Call.Args[1].(*ssa.Slice)
				if !isSl {
					return
				}
				arr, isAl := sl.X.(*ssa.Alloc)
				if !isAl || arr.Referrers() == nil {
					return
				}
				for _, ref := range *arr.Referrers() {
					ia, isIA := ref.(*ssa.IndexAddr)
					if !isIA || ia.Referrers() == nil {
						continue
					}
					for _, r2 := range *ia.Referrers() {
						st, isSt := r2.(*ssa.Store)
						if !isSt {
							continue
						}
						v := st.Val
						for {
							if ct, isCT := v.(*ssa.ChangeType); isCT {
								v = ct.X
								continue
							}
							if mi, isMI := v.(*ssa.MakeInterface); isMI {
								v = mi.X
								continue
							}
							break
						}
						al, isPtr := v.(*ssa.Alloc)
						if !isPtr || !al.Heap {
							continue
						}
						if _, isStruct := al.Type().(*types.Pointer).Elem().Underlying().(*types.Struct); !isStruct {
							continue
						}
						nG6++
						k++
						ab := al.Block()
						inside := h.Dominates(ab) && ab != h && blockReach(ab, nil)[h]
						r.Check(inside, prop+"-G6", fmt.Sprintf("%s | address of a per-iteration variable appended #%d", host, k), c.Pos(), "the variable is declared inside the loop", "the address appended for each iteration is that of one variable declared outside the loop: every element of the result is the same object holding the last item read, so a multi-row read returns N copies of one record (another collection's / task's checkpoints)")
					}
				}
			})
		}
	}
	// ---- G11: a table keyed by a collection name also carries the database (or an id)
	r.Rule(prop+"-G11", "a name-keyed table includes the database", "in the same functions: a table that the reference tree does not have (a new struct field or package variable), or a map local to the function, is not looked up or filled with a key made of a collection name without its database or an id: a collection name identifies a collection only inside one database", 0)
	nG11 := 0
	for _, root := range fns {
		fam := familyOf(root)
		for _, fn := range fam.Funcs {
			host := shortFn2(fn)
			k := 0
			eachInstr(fn, func(in ssa.Instruction) {
				var table, key ssa.Value
				switch x := in.(type) {
				case *ssa.Lookup:
					if _, ok := x.X.Type().Underlying().(*types.Map); ok {
						table, key = x.X, x.Index
					}
				case *ssa.MapUpdate:
					table, key = x.Map, x.Key
				case *ssa.Call:
					switch callSym(x.Common()).name {
					case "Load", "LoadWithDefault", "Get", "GetOrInsert", "LoadOrStore", "Store", "Insert":
						if rv, a := callRecv(x.Common()), callArgs(x.Common()); rv != nil && len(a) >= 1 && strings.Contains(bareTypeName(rv.Type()), "Map") {
							table, key = rv, a[0]
						}
					}
				}
				if table == nil {
					return
				}
				if mi, ok := key.(*ssa.MakeInterface); ok {
					key = mi.X
				}
				if b, ok := key.Type().Underlying().(*types.Basic); !ok || b.Kind() != types.String {
					return
				}
				// which table?
				what := ""
				scoped := false
				for _, x := range backSlice(table, SliceOpts{MaxDepth: 6, NoAggregates: true}) {
					switch y := x.(type) {
					case *ssa.Lookup:
						if y != in {
							if rl, id := w.keyRoles(y.Index); id || rl["database"] {
								scoped = true
							}
							if b, ok := y.Index.Type().Underlying().(*types.Basic); ok && b.Info()&types.IsInteger != 0 {
								scoped = true
							}
						}
					case *ssa.FieldAddr:
						if n := namedOf(y.X.Type()); n != nil && n.Obj().Pkg() != nil && w.isRepoPkg(n.Obj().Pkg().Path()) && what == "" {
							if !isBaselineField(n.Obj().Pkg().Path(), n.Obj().Name(), fieldName(y.X.Type(), y.Field)) {
								what = "new field " + n.Obj().Name() + "." + fieldName(y.X.Type(), y.Field)
							} else {
								what = "-"
							}
						}
					case *ssa.Global:
						if y.Pkg != nil && w.isRepoPkg(y.Pkg.Pkg.Path()) && what == "" {
							if !isBaselineGlobal(y.Pkg.Pkg.Path(), y.Name()) {
								what = "new package variable " + y.Name()
							} else {
								what = "-"
							}
						}
					case *ssa.Alloc:
						if pt, ok := y.Type().(*types.Pointer); ok && what == "" && isMapLike(pt.Elem()) {
							what = "local table " + y.Comment
						}
					case *ssa.FreeVar:
						if al, ok := fam.canon(y).(*ssa.Alloc); ok && what == "" {
							if pt, ok := al.Type().(*types.Pointer); ok && isMapLike(pt.Elem()) {
								what = "local table " + al.Comment
							}
						}
					case *ssa.MakeMap:
						if what == "" {
							what = "local map"
						}
						// the map is itself the per-database (per-id) entry of an outer table
						if y.Referrers() != nil {
							for _, ref := range *y.Referrers() {
								if mu, ok := ref.(*ssa.MapUpdate); ok && mu.Value == ssa.Value(y) {
									if b, isB := mu.Key.Type().Underlying().(*types.Basic); isB && b.Info()&types.IsInteger != 0 {
										scoped = true
									} else if rl, id := w.keyRoles(mu.Key); id || rl["database"] {
										scoped = true
									}
								}
							}
						}
					}
				}
				if what == "" || what == "-" || scoped {
					return
				}
				roles, hasID := w.keyRoles(key)
				nG11++
				// a key that joins two names with a separator that may occur inside a name is as good as a bare name
				if !hasID {
					for _, ck := range allComposites(fn) {
						if len(ck.Ambig) == 0 {
							continue
						}
						derived := ck.Value() == key
						if !derived {
							for _, x := range backSlice(key, SliceOpts{MaxDepth: 4, NoAggregates: true}) {
								if x == ck.Value() {
									derived = true
								}
							}
						}
						if derived {
							k++
							r.Fail(prop+"-G11", fmt.Sprintf("%s | %s keyed by an ambiguous composite of names #%d", host, what, k), in.Pos(), "the key of this table joins two names with a separator that can occur inside a Milvus name ('_' or nothing): (a, b_c) and (a_b, c) share the entry, so what was decided or recorded for one object is used for the other")
							return
						}
					}
				}
				if !roles["collection"] || roles["database"] || hasID {
					return
				}
				k++
				r.Fail(prop+"-G11", fmt.Sprintf("%s | %s keyed by a bare collection name #%d", host, what, k), in.Pos(), "the key of this table is built from a collection name without its database (or an id): same-named collections of different databases share the entry, so what was recorded or fetched for one (database, partition ids, drop state, mapping) is used for the other")
			})
		}
	}
	r.OK(prop+"-G11", "census", 0, fmt.Sprintf("%d accesses to new or local string-keyed tables inspected", nG11))
	// the same for callbacks that run once per item: a struct built inside the literal must not share a container that
	// the enclosing function allocated once
	for _, root := range fns {
		fam := familyOf(root)
		for _, lit := range fam.Funcs {
			if lit.Parent() == nil || syncCallbackSite(lit) == nil {
				continue
			}
			host := shortFn2(lit)
			k := 0
			eachInstr(lit, func(in ssa.Instruction) {
				st, ok := in.(*ssa.Store)
				if !ok {
					return
				}
				fa, ok := st.Addr.(*ssa.FieldAddr)
				if !ok {
					return
				}
				if al, isAl := fa.X.(*ssa.Alloc); !isAl || al.Parent() != lit {
					return
				}
				switch st.Val.Type().Underlying().(type) {
				case *types.Map, *types.Slice, *types.Chan:
				default:
					return
				}
				nG6++
				k++
				shared := ""
				for _, x := range backSlice(st.Val, SliceOpts{MaxDepth: 3, NoAggregates: true}) {
					fv, isFV := x.(*ssa.FreeVar)
					if !isFV {
						continue
					}
					c := fam.canon(fv)
					var srcs []ssa.Value
					if al, isAl := c.(*ssa.Alloc); isAl {
						for _, s2 := range fam.stores[al] {
							srcs = append(srcs, s2.Val)
						}
					} else {
						srcs = append(srcs, c)
					}
					for _, sv := range srcs {
						switch sv.(type) {
						case *ssa.MakeMap, *ssa.MakeSlice, *ssa.MakeChan:
							if parentOf(sv) != lit {
								shared = fv.Name()
							}
						}
					}
				}
				r.Check(shared == "", prop+"-G6", fmt.Sprintf("%s | field %s of a per-item struct #%d", host, fieldName(fa.X.Type(), fa.Field), k), st.Pos(), "not a container allocated once outside the callback", "the struct built for each item shares the map/slice `"+shared+"` that the enclosing function allocates once: what one item records (e.g. one shard's dropped partitions) is seen by all the others")
			})
		}
	}
	r.OK(prop+"-G6", "census", 0, fmt.Sprintf("%d per-iteration containers inspected", nG6))
	// ---- G8 an error value is looked at before it is overwritten or dropped
	r.Rule(prop+"-G8", "no error value dies unread", "in the same functions: an error returned by a call (or built by an error constructor) and assigned to a variable is tested, returned or passed on before the variable is assigned again; it is not silently replaced by a later result", 0)
	nG8 := 0
	for _, root := range fns {
		fam := familyOf(root)
		for _, fn := range fam.Funcs {
			host := shortFn2(fn)
			k := 0
			eachInstr(fn, func(in ssa.Instruction) {
				c, ok := in.(*ssa.Call)
				if !ok {
					return
				}
				var ev ssa.Value
				if tp, isT := c.Type().(*types.Tuple); isT {
					if tp.Len() > 0 && isErrorType(tp.At(tp.Len()-1).Type()) {
						ev = extractOfTuple(c, tp.Len()-1)
					}
				} else if isErrorType(c.Type()) {
					ev = c
				}
				if ev == nil && !isErrorType(c.Type()) {
					// `x, _ := f()`: explicitly ignored
					return
				}
				// only errors assigned to a NAMED variable: `_ = f()`, `x, _ := f()` and a bare call statement are
				// explicit decisions to ignore
				if !assignedToNamedVar(rootFunc(fn), c) {
					return
				}
				if ev == nil {
					ev = c
				}
				nG8++
				live := false
				if ev.Referrers() != nil {
					for _, ref := range *ev.Referrers() {
						switch x := ref.(type) {
						case *ssa.DebugRef:
						case *ssa.Store:
							// stored into a variable: some load must see it before the next store
							al, isAl := fam.canon(x.Addr).(*ssa.Alloc)
							if !isAl {
								live = true
								break
							}
							if storeReachesLoad(fam, al, x) {
								live = true
							}
						default:
							live = true
						}
					}
				}
				if live {
					return
				}
				name := callSym(c.Common()).name
				if name == "" {
					name = "call"
				}
				k++
				r.Fail(prop+"-G8", fmt.Sprintf("%s | error of %s never read #%d", host, name, k), c.Pos(), "the error produced here is assigned but never tested, returned or passed on: a later assignment replaces it (or nothing reads it), so this failure is lost and the code goes on as if the step had succeeded")
			})
		}
	}
	r.OK(prop+"-G8", "census", 0, fmt.Sprintf("%d error-producing calls inspected", nG8))
	// ---- G9 a possibly non-nil error is not overwritten unchecked
	r.Rule(prop+"-G9", "a pending error is not overwritten", "in the same functions: when an error variable may hold a non-nil error that no branch has tested yet, it is not assigned the result of another call", 0)
	nG9 := 0
	for _, root := range fns {
		fam := familyOf(root)
		for _, fn := range fam.Funcs {
			for _, v := range pendingErrorOverwrites(fam, fn) {
				r.Fail(prop+"-G9", fmt.Sprintf("%s | %s overwritten while pending #%d", shortFn2(fn), v.name, v.n), v.at.Pos(), "on some path this error variable still holds an error that no branch has tested (set by an earlier call or inside a callback) when it is assigned the result of another call: the earlier failure is lost and the code continues as if that step had succeeded")
			}
			nG9++
		}
	}
	r.OK(prop+"-G9", "census", 0, fmt.Sprintf("%d functions inspected", nG9))
	// ---- G10 a read-modify-write of shared state stays in one critical section
	r.Rule(prop+"-G10", "read-modify-write in one critical section", "in the same functions: a value stored into a field (or map) of the receiver / a parameter / a package variable that derives from a read of the same field made under a lock is stored before that lock is released (no snapshot read in one critical section is written back in a later one)", 0)
	nG10 := 0
	for _, root := range fns {
		for _, fn := range familyOf(root).Funcs {
			host := shortFn2(fn)
			var unlocks []*ssa.Call
			eachInstr(fn, func(in ssa.Instruction) {
				if c, isC := in.(*ssa.Call); isC {
					if _, k := w.lockFactsGen(in); len(k) > 0 {
						unlocks = append(unlocks, c)
					}
				}
			})
			if len(unlocks) == 0 {
				continue
			}
			k := 0
			eachInstr(fn, func(in ssa.Instruction) {
				var target, val ssa.Value
				switch x := in.(type) {
				case *ssa.Store:
					if _, isF := x.Addr.(*ssa.FieldAddr); !isF {
						return
					}
					target, val = x.Addr, x.Val
				case *ssa.MapUpdate:
					target, val = x.Map, x.Value
				default:
					return
				}
				tp := w.accessPath(target)
				if !(strings.HasPrefix(tp, "param:") || strings.HasPrefix(tp, "global:") || strings.HasPrefix(tp, "free:")) {
					return
				}
				for _, v := range backSlice(val, SliceOpts{MaxDepth: 8, NoAggregates: true}) {
					var rd ssa.Instruction
					switch y := v.(type) {
					case *ssa.UnOp:
						if y.Op == token.MUL {
							if _, isF := y.X.(*ssa.FieldAddr); isF && w.accessPath(y.X) == tp {
								rd = y
							}
						}
					case *ssa.Lookup:
						if _, isMap := y.X.Type().Underlying().(*types.Map); isMap && w.accessPath(y.X) == tp {
							if _, isMU := in.(*ssa.MapUpdate); isMU {
								rd = y
							}
						}
					}
					if rd == nil || rd.Parent() != fn || len(w.locksHeldAt(rd)) == 0 {
						continue
					}
					nG10++
					var between *ssa.Call
					for _, u := range unlocks {
						if _, kl := w.lockFactsGen(u); len(kl) == 0 || !w.locksHeldAt(rd)[kl[0]] {
							continue // releases a lock the read was not made under
						}
						if rd.Block() == in.Block() && instrIndex(rd) < instrIndex(in) {
							if u.Block() == rd.Block() && instrIndex(rd) < instrIndex(u) && instrIndex(u) < instrIndex(in) {
								between = u
							}
							continue
						}
						// read -> unlock without passing the write's block, unlock -> write without passing the read's block
						r1 := u.Block() == rd.Block() && instrIndex(rd) < instrIndex(u)
						if !r1 && u.Block() != rd.Block() {
							r1 = blockReach(rd.Block(), map[*ssa.BasicBlock]bool{in.Block(): true})[u.Block()]
						}
						r2 := u.Block() == in.Block() && instrIndex(u) < instrIndex(in)
						if !r2 && u.Block() != in.Block() {
							r2 = blockReach(u.Block(), map[*ssa.BasicBlock]bool{rd.Block(): true})[in.Block()]
						}
						if r1 && r2 {
							between = u
						}
					}
					if between != nil {
						k++
						r.Fail(prop+"-G10", fmt.Sprintf("%s | %s written from a stale read #%d", host, pathTail(tp), k), in.Pos(), "the value stored into "+tp+" derives from a read of the same location made in an earlier critical section (the lock is released at "+w.pos(between.Pos())+" between the read and the write): an update made by another goroutine in between is overwritten")
					}
				}
			})
		}
	}
	r.OK(prop+"-G10", "census", 0, fmt.Sprintf("%d locked read-modify-write pairs inspected", nG10))
	// ---- G7 lock pairing
	r.Rule(prop+"-G7", "locks are paired", "in the same functions: a mutex / key lock taken on every path to a return is released before it (directly or by a deferred unlock), and every unlock releases a lock that is held on every path reaching it", 0)
	nLocks := 0
	for _, root := range fns {
		for _, fn := range familyOf(root).Funcs {
			host := shortFn2(fn)
			has := false
			eachInstr(fn, func(in ssa.Instruction) {
				if a, k := w.lockFactsGen(in); len(a)+len(k) > 0 {
					has = true
				}
			})
			if !has {
				continue
			}
			// a pure acquire / release wrapper (its only call is the lock operation itself, e.g. LockTargetChannel /
			// UnLockTargetChannel) pairs at its callers, not inside itself
			nCallsHere := 0
			eachInstr(fn, func(in ssa.Instruction) {
				if _, isC := in.(ssa.CallInstruction); isC {
					nCallsHere++
				}
			})
			if nCallsHere == 1 && fn.Parent() == nil {
				continue
			}
			deferred := map[string]bool{}
			noteUnlock := func(c *ssa.CallCommon) {
				s := callSym(c)
				if s.name != "Unlock" && s.name != "RUnlock" {
					return
				}
				rc := callRecv(c)
				if rc == nil {
					return
				}
				p := w.accessPath(rc)
				if a := callArgs(c); len(a) == 1 {
					p += "[" + w.accessPath(a[0]) + "]"
				}
				if s.name == "Unlock" {
					deferred["W:"+p] = true
				} else {
					deferred["R:"+p] = true
				}
			}
			eachInstr(fn, func(in ssa.Instruction) {
				d, ok := in.(*ssa.Defer)
				if !ok {
					return
				}
				noteUnlock(d.Common())
				if mc, isMC := d.Call.Value.(*ssa.MakeClosure); isMC {
					if lit, isF := mc.Fn.(*ssa.Function); isF {
						eachInstr(lit, func(x ssa.Instruction) {
							if c, isC := x.(*ssa.Call); isC {
								noteUnlock(c.Common())
							}
						})
						// the literal sees the lock through its free variables: match by suffix below
					}
				}
			})
			defSuffix := func(f string) bool {
				if deferred[f] {
					return true
				}
				for d := range deferred {
					// same mode, and the deferred path names the same field chain (free:x.mu vs param:x.mu)
					if d[:2] == f[:2] && pathTail(d[2:]) == pathTail(f[2:]) {
						return true
					}
				}
				return false
			}
			in := mustFacts(fn, w.lockFactsGen)
			k := 0
			for _, b := range fn.Blocks {
				if b != fn.Blocks[0] && len(b.Preds) == 0 {
					continue // the synthetic recover block
				}
				cur := in[b].clone()
				for _, ins := range b.Instrs {
					a, kl := w.lockFactsGen(ins)
					for _, x := range kl {
						nLocks++
						if !cur[x] {
							k++
							r.Fail(prop+"-G7", fmt.Sprintf("%s | unlock #%d of %s", host, k, x[2:]), ins.Pos(), "this unlock is reached on a path on which the lock is not held (its Lock was removed, moved or made conditional): the mutex is unlocked twice or a critical section lost its protection")
						}
						delete(cur, x)
					}
					for _, x := range a {
						cur[x] = true
					}
					if _, isRet := ins.(*ssa.Return); isRet {
						for f := range cur {
							if !defSuffix(f) {
								k++
								r.Fail(prop+"-G7", fmt.Sprintf("%s | return #%d holding %s", host, k, f[2:]), ins.Pos(), "the function returns with this lock held and no deferred unlock: the next caller blocks forever (the task can neither be paused nor deleted, the stream stops)")
							}
						}
					}
				}
			}
		}
	}
	r.OK(prop+"-G7", "census", 0, fmt.Sprintf("%d unlock sites inspected", nLocks))
	nTests, nOK4, nCalls := 0, 0, 0
	for _, root := range fns {
		fam := familyOf(root)
		for _, fn := range fam.Funcs {
			host := shortFn2(fn)
			perCallee := map[string]int{}
			// ---- G2 / G3
			for _, b := range fn.Blocks {
				v, nn, _, ok := errNilTest(b)
				if !ok {
					continue
				}
				org := errOrigin(fam, v)
				oname := "?"
				if org != nil {
					if s := callSym(org.Common()); s.name != "" {
						oname = s.name
					} else {
						ap := w.accessPath(org.Call.Value)
						oname = ap[strings.LastIndex(ap, ".")+1:]
					}
				}
				perCallee[oname]++
				cons := fmt.Sprintf("%s | error of %s", host, oname)
				if perCallee[oname] > 1 {
					cons = fmt.Sprintf("%s #%d", cons, perCallee[oname])
				}
				nTests++
				pos := b.Instrs[len(b.Instrs)-1].Pos()
				if !pos.IsValid() {
					pos = v.Pos()
				}
				used := errUsedFrom(fam, v, nn)
				if !used && len(nn.Preds) == 1 {
					// the branch reports a failure of its own making (`return x, ErrInvalid(name)`): the cause is replaced, the
					// failure is not dropped
					res := fn.Signature.Results()
					if res.Len() > 0 && isErrorType(res.At(res.Len()-1).Type()) {
						all, any := true, false
						for _, b2 := range fn.Blocks {
							if b2 != nn && !nn.Dominates(b2) {
								continue
							}
							if ret, isRet := b2.Instrs[len(b2.Instrs)-1].(*ssa.Return); isRet {
								any = true
								if last := returnedValue(ret, len(ret.Results)-1); last == nil || isNilConst(last) {
									all = false
								}
							}
						}
						// and the branch does not fall out of its region (it leaves the function on every path)
						leaves := true
						for _, b2 := range fn.Blocks {
							if b2 != nn && !nn.Dominates(b2) {
								continue
							}
							for _, sc := range b2.Succs {
								if sc != nn && !nn.Dominates(sc) {
									leaves = false
								}
							}
						}
						if any && all && leaves {
							used = true
						}
					}
				}
				if !used && len(nn.Preds) == 1 {
					// a function that cannot return an error (no error result) and logs the failure on its branch has
					// made the decision visible (util.Base64Msg: log and return "")
					res := fn.Signature.Results()
					canReturn := res.Len() > 0 && isErrorType(res.At(res.Len()-1).Type())
					if !canReturn && fn.Parent() == nil {
						for _, b2 := range fn.Blocks {
							if b2 != nn && !nn.Dominates(b2) {
								continue
							}
							for _, x := range b2.Instrs {
								if c, isC := x.(*ssa.Call); isC && (strings.HasSuffix(callSym(c.Common()).pkg, "/log") || strings.Contains(callSym(c.Common()).pkg, "zap")) {
									used = true
								}
							}
						}
					}
				}
				if why, isAllowed := g2Allowed[host+" | "+oname]; isAllowed && !used {
					r.OK(prop+"-G2", cons, pos, "enumerated deliberate site: "+why)
					continue
				}
				r.Check(used, prop+"-G2", cons, pos, "the non-nil branch uses the error", "on the branch where this error is non-nil nothing returns, wraps, reports or logs it: the failure is silently dropped (test polarity or branch body is wrong)")
				if os.Getenv("VERIF_G11") != "" && len(nn.Preds) == 1 && org != nil {
					if ret := failureReachesSuccess(fn, v, nn, org.Block()); ret != nil {
						fmt.Printf("G11? %s | %s -> return at %s\n", host, oname, w.Prog.Fset.Position(ret.Pos()))
					}
				}
				// G3: nil-error returns dominated by the non-nil successor
				if len(nn.Preds) == 1 {
					for _, b2 := range fn.Blocks {
						if !(b2 == nn || nn.Dominates(b2)) {
							continue
						}
						ret, isRet := b2.Instrs[len(b2.Instrs)-1].(*ssa.Return)
						if !isRet || len(ret.Results) == 0 {
							continue
						}
						last := returnedValue(ret, len(ret.Results)-1)
						if last == nil || !isErrorType(fn.Signature.Results().At(fn.Signature.Results().Len()-1).Type()) {
							continue
						}
						if !isNilConst(last) {
							// the returned error is a variable that a test made inside the failure branch has shown to be
							// nil (`if err = cleanup(); err != nil {…}; return err`): the first failure is reported as success
							if t := knownNilAt(fam, fn, last, b2); t != nil && t != b && (t == nn || nn.Dominates(t)) {
								c3 := fmt.Sprintf("%s | nil-tested error variable returned on the failure branch of %s", host, oname)
								if perCallee[oname] > 1 {
									c3 = fmt.Sprintf("%s #%d", c3, perCallee[oname])
								}
								r.Fail(prop+"-G3", c3, ret.Pos(), "after "+oname+" failed, the error variable is assigned the result of a later call, tested, and returned on the branch where it is nil: the caller takes the failed step for done")
							}
							continue
						}
						key := host + " | " + oname
						c3 := fmt.Sprintf("%s | nil error returned on the failure branch of %s", host, oname)
						if perCallee[oname] > 1 {
							c3 = fmt.Sprintf("%s #%d", c3, perCallee[oname])
						}
						// a decision taken inside the failure branch (a re-check / probe made after the failure whose
						// outcome selects this return) makes the success deliberate
						decided := false
						inRegion := func(x *ssa.BasicBlock) bool { return x == nn || nn.Dominates(x) }
						for _, c := range fn.Blocks {
							cond, _, _, isIf := ifSuccs(c)
							if !isIf || !inRegion(c) || !(c == b2 || c.Dominates(b2)) || c == b2 {
								continue
							}
							for _, x := range backSlice(cond, SliceOpts{MaxDepth: 6}) {
								if call, isCall := x.(*ssa.Call); isCall && inRegion(call.Block()) {
									decided = true
								}
							}
						}
						if decided {
							r.OK(prop+"-G3", c3, ret.Pos(), "the success return is selected by a check made inside the failure branch")
							continue
						}
						if why, isAllowed := g3Allowed[key]; isAllowed {
							r.OK(prop+"-G3", c3, ret.Pos(), "enumerated deliberate site: "+why)
						} else {
							r.Fail(prop+"-G3", c3, ret.Pos(), "after "+oname+" failed the function returns a nil error: the caller takes the step for done (checkpoint advanced / request answered 200 / state changed) although it did not happen")
						}
					}
				}
			}
			// ---- G4 comma-ok
			eachInstr(fn, func(in ssa.Instruction) {
				var tuple ssa.Value
				switch x := in.(type) {
				case *ssa.Lookup:
					if x.CommaOk {
						tuple = x
					}
				case *ssa.TypeAssert:
					if x.CommaOk {
						tuple = x
					}
				case *ssa.Call:
					if s := callSym(x.Common()); (s.name == "Load" || s.name == "LoadAndDelete") && x.Type() != nil {
						if tp, isT := x.Type().(*types.Tuple); isT && tp.Len() == 2 {
							if b, isB := tp.At(1).Type().Underlying().(*types.Basic); isB && b.Kind() == types.Bool {
								tuple = x
							}
						}
					}
				}
				if tuple == nil {
					return
				}
				val, okv := extractOfTuple(tuple, 0), extractOfTuple(tuple, 1)
				if val == nil || okv == nil {
					return
				}
				// successors on which ok is false
				var falseBlocks []*ssa.BasicBlock
				for _, b := range fn.Blocks {
					cond, t, f, isIf := ifSuccs(b)
					if !isIf {
						continue
					}
					if cond == okv && len(f.Preds) == 1 {
						falseBlocks = append(falseBlocks, f)
					}
					if u, isU := cond.(*ssa.UnOp); isU && u.Op == token.NOT && u.X == okv && len(t.Preds) == 1 {
						falseBlocks = append(falseBlocks, t)
					}
				}
				if len(falseBlocks) == 0 {
					return
				}
				nOK4++
				bad := token.NoPos
				what := ""
				zeroUse := func(x ssa.Value, inRegion func(*ssa.BasicBlock) bool) {
					if x.Referrers() == nil {
						return
					}
					for _, ref := range *x.Referrers() {
						if !inRegion(ref.Block()) {
							continue
						}
						switch y := ref.(type) {
						case *ssa.MapUpdate:
							if y.Map == x {
								bad, what = y.Pos(), "written through as a map"
							}
						case *ssa.FieldAddr:
							if y.X == x {
								bad, what = y.Pos(), "dereferenced"
							}
						case *ssa.Field:
						case *ssa.UnOp:
							if y.Op == token.MUL && y.X == x {
								bad, what = y.Pos(), "dereferenced"
							}
						case *ssa.Call:
							if y.Call.IsInvoke() && y.Call.Value == x {
								bad, what = y.Pos(), "used as a method receiver"
							} else if rv := callRecv(y.Common()); rv == x && !y.Call.IsInvoke() {
								if _, isPtr := x.Type().Underlying().(*types.Pointer); isPtr {
									bad, what = y.Pos(), "used as a method receiver"
								}
							}
						}
					}
				}
				for _, fb := range falseBlocks {
					inFalse := func(b *ssa.BasicBlock) bool { return b == fb || fb.Dominates(b) }
					zeroUse(val, inFalse)
					// the zero value merged into a phi on an edge coming from the false region, then written through
					if val.Referrers() != nil {
						for _, ref := range *val.Referrers() {
							ph, isPhi := ref.(*ssa.Phi)
							if !isPhi {
								continue
							}
							for i, e := range ph.Edges {
								if e == val && i < len(ph.Block().Preds) && inFalse(ph.Block().Preds[i]) {
									zeroUse(ph, func(*ssa.BasicBlock) bool { return true })
								}
							}
						}
					}
				}
				if bad != token.NoPos {
					r.Fail(prop+"-G4", fmt.Sprintf("%s | value of a failed lookup at %s", host, w.pos(tuple.Pos())), bad, "on a path where the lookup / assertion failed (ok == false) its zero value is "+what+": the existence test has the wrong polarity or the initialisation is skipped")
				}
			})
		}
		// ---- G5 swapped arguments (AST, resolved callees)
		if fd, pkg := w.FuncDecl(root); fd != nil && pkg != nil {
			host := shortFn2(root)
			ast.Inspect(fd, func(n ast.Node) bool {
				call, ok := n.(*ast.CallExpr)
				if !ok {
					return true
				}
				fo, ok := typeutil.Callee(pkg.TypesInfo, call).(*types.Func)
				if !ok || fo.Pkg() == nil || !w.isRepoPkg(fo.Pkg().Path()) {
					return true
				}
				sig := fo.Type().(*types.Signature)
				if sig.Variadic() || sig.Params().Len() != len(call.Args) {
					return true
				}
				nCalls++
				names := make([]string, len(call.Args))
				for i, a := range call.Args {
					names[i] = normName(argName(a))
				}
				// a name that says "database" handed to a parameter that says "collection" (or partition), etc.
				for i := 0; i < len(call.Args); i++ {
					pr, ar := identRole(sig.Params().At(i).Name()), identRole(argName(call.Args[i]))
					if pr != "" && ar != "" && pr != ar && isStringType(sig.Params().At(i).Type()) {
						r.Fail(prop+"-G5", fmt.Sprintf("%s | call of %s argument %d", host, fo.Name(), i), call.Pos(), fmt.Sprintf("argument %q (a %s name) is passed for parameter %q (a %s name)", argName(call.Args[i]), ar, sig.Params().At(i).Name(), pr))
					}
				}
				for i := 0; i < len(call.Args); i++ {
					for j := i + 1; j < len(call.Args); j++ {
						pi, pj := normName(sig.Params().At(i).Name()), normName(sig.Params().At(j).Name())
						if pi == "" || pj == "" || pi == pj || names[i] == "" || names[j] == "" {
							continue
						}
						if !types.Identical(sig.Params().At(i).Type(), sig.Params().At(j).Type()) {
							continue
						}
						if names[i] == pj && names[j] == pi {
							r.Fail(prop+"-G5", fmt.Sprintf("%s | call of %s arguments %d,%d", host, fo.Name(), i, j), call.Pos(), fmt.Sprintf("argument %q is passed for parameter %q and %q for %q: the two same-typed identifiers are crossed", argName(call.Args[i]), sig.Params().At(i).Name(), argName(call.Args[j]), sig.Params().At(j).Name()))
						}
					}
				}
				return true
			})
		}
	}
	r.OK(prop+"-G4", "census", 0, fmt.Sprintf("%d guarded comma-ok results inspected in %d anchored functions", nOK4, len(fns)))
	r.OK(prop+"-G5", "census", 0, fmt.Sprintf("%d calls of repository functions inspected", nCalls))
	r.OK(prop+"-G3", "census", 0, fmt.Sprintf("%d error tests inspected", nTests))
	var names []string
	for _, f := range fns {
		names = append(names, shortFn2(f))
	}
	sort.Strings(names)
	r.Extra["anchored_functions"] = names
}

func argName(e ast.Expr) string {
	switch x := e.(type) {
	case *ast.Ident:
		return x.Name
	case *ast.SelectorExpr:
		return x.Sel.Name
	case *ast.CallExpr:
		if len(x.Args) == 0 {
			return argName(x.Fun)
		}
	case *ast.ParenExpr:
		return argName(x.X)
	case *ast.StarExpr:
		return argName(x.X)
	case *ast.UnaryExpr:
		return argName(x.X)
	}
	return ""
}

func normName(s string) string {
	s = strings.ToLower(strings.ReplaceAll(s, "_", ""))
	s = strings.TrimPrefix(s, "get")
	return s
}

func extractOfTuple(t ssa.Value, idx int) ssa.Value {
	if t.Referrers() == nil {
		return nil
	}
	for _, ref := range *t.Referrers() {
		if e, ok := ref.(*ssa.Extract); ok && e.Index == idx {
			return e
		}
	}
	return nil
}

func pathTail(p string) string {
	if i := strings.Index(p, "."); i >= 0 {
		return p[i:]
	}
	return p
}

// identRole: which kind of object an identifier names, when it says so unambiguously.
func identRole(n string) string {
	l := strings.ToLower(n)
	roles := map[string]bool{}
	if strings.Contains(l, "partition") {
		roles["partition"] = true
	}
	if strings.Contains(l, "collection") || strings.HasPrefix(l, "coll") {
		roles["collection"] = true
	}
	if strings.Contains(l, "database") || strings.HasPrefix(l, "db") || strings.HasSuffix(l, "db") {
		roles["database"] = true
	}
	if len(roles) != 1 {
		return ""
	}
	for k := range roles {
		return k
	}
	return ""
}

// assignedToNamedVar: the call is the single right-hand side of an assignment / definition whose last left-hand side
// (the error position) is an identifier other than the blank one.
func assignedToNamedVar(root *ssa.Function, c *ssa.Call) bool {
	syn := root.Syntax()
	if syn == nil || !c.Pos().IsValid() {
		return false
	}
	path := pathEnclosing(syn, c.Pos())
	for i := len(path) - 1; i >= 0; i-- {
		switch x := path[i].(type) {
		case *ast.AssignStmt:
			if len(x.Rhs) != 1 {
				return false
			}
			if ce, ok := x.Rhs[0].(*ast.CallExpr); !ok || !(ce.Lparen == c.Pos() || (ce.Pos() <= c.Pos() && c.Pos() < ce.End())) {
				return false
			}
			// the call must be the RHS itself, not nested inside it
			if ce := x.Rhs[0].(*ast.CallExpr); ce.Lparen != c.Pos() {
				return false
			}
			id, ok := x.Lhs[len(x.Lhs)-1].(*ast.Ident)
			return ok && id.Name != "_"
		case *ast.ValueSpec:
			if len(x.Values) != 1 || len(x.Names) == 0 {
				return false
			}
			if ce, ok := x.Values[0].(*ast.CallExpr); !ok || ce.Lparen != c.Pos() {
				return false
			}
			return x.Names[len(x.Names)-1].Name != "_"
		case *ast.ExprStmt, *ast.ReturnStmt, *ast.GoStmt, *ast.DeferStmt, *ast.FuncLit:
			return false
		}
	}
	return false
}

// storeReachesLoad: reaching definitions for one local variable. Does the value stored by st reach a read of the
// variable (a load, or any literal that captures the variable) on some path, before another store to it?
func storeReachesLoad(fam *Family, al *ssa.Alloc, st *ssa.Store) bool {
	isLoad := func(in ssa.Instruction) bool {
		switch x := in.(type) {
		case *ssa.UnOp:
			return x.Op == token.MUL && fam.canon(x.X) == ssa.Value(al)
		case *ssa.MakeClosure:
			for _, b := range x.Bindings {
				if fam.canon(b) == ssa.Value(al) {
					return true
				}
			}
		case *ssa.Return:
			// named result: the value is what the function returns
			return al.Comment != "" && st.Parent().Signature.Results() != nil && func() bool {
				rs := st.Parent().Signature.Results()
				for i := 0; i < rs.Len(); i++ {
					if rs.At(i).Name() == al.Comment {
						return true
					}
				}
				return false
			}()
		}
		return false
	}
	isStore := func(in ssa.Instruction) bool {
		s2, ok := in.(*ssa.Store)
		return ok && s2 != st && fam.canon(s2.Addr) == ssa.Value(al)
	}
	// a literal of the same family that reads the variable may run at any time (deferred, callback): the store is
	// only dead if the literal is created after it; creation is a MakeClosure, handled by isLoad. A literal created
	// BEFORE the store and invoked later (retry callbacks stored in variables) is rare; be conservative:
	var resume ssa.Instruction
	if st.Parent() != al.Parent() {
		// a store made inside a literal into a captured variable: it is seen by later reads inside the literal and,
		// once the literal has returned, by the code after the call it was handed to
		site := syncCallbackSite(st.Parent())
		if site == nil || site.Parent() != al.Parent() {
			return true
		}
		resume = site
	}
	blk := st.Block()
	seen := map[*ssa.BasicBlock]bool{}
	var walk func(b *ssa.BasicBlock, from int) bool
	walk = func(b *ssa.BasicBlock, from int) bool {
		for i := from; i < len(b.Instrs); i++ {
			in := b.Instrs[i]
			if isLoad(in) {
				return true
			}
			if isStore(in) {
				return false
			}
			// a call of a literal that was created earlier and captures the variable may read it
			if c, ok := in.(ssa.CallInstruction); ok {
				for _, a := range c.Common().Args {
					if mc, isMC := a.(*ssa.MakeClosure); isMC {
						for _, bd := range mc.Bindings {
							if fam.canon(bd) == ssa.Value(al) {
								return true
							}
						}
					}
				}
			}
		}
		for _, s := range b.Succs {
			if seen[s] {
				continue
			}
			seen[s] = true
			if walk(s, 0) {
				return true
			}
		}
		return false
	}
	if walk(blk, instrIndex(st)+1) {
		return true
	}
	if resume != nil {
		// the literal may run several times (retry): its own reads at the top of the next attempt count as well
		for _, in := range st.Parent().Blocks[0].Instrs {
			if isLoad(in) {
				return true
			}
			if isStore(in) {
				break
			}
		}
		seen = map[*ssa.BasicBlock]bool{}
		return walk(resume.Block(), instrIndex(resume)+1)
	}
	return false
}

type pendingOverwrite struct {
	at   *ssa.Store
	name string
	n    int
}

// pendingErrorOverwrites: forward dataflow per error-typed local variable that lives in memory (captured or
// addressed): Nil / Checked (some branch looked at it) / Unchecked. Reports stores of a call result made in state
// Unchecked.
func pendingErrorOverwrites(fam *Family, fn *ssa.Function) []pendingOverwrite {
	const (
		stNil = iota
		stChecked
		stUnchecked
	)
	var out []pendingOverwrite
	var vars []*ssa.Alloc
	eachInstr(fn, func(in ssa.Instruction) {
		if al, ok := in.(*ssa.Alloc); ok {
			if p, isP := al.Type().Underlying().(*types.Pointer); isP && isErrorType(p.Elem()) {
				vars = append(vars, al)
			}
		}
	})
	for _, al := range vars {
		isA := func(v ssa.Value) bool { return fam.canon(v) == ssa.Value(al) }
		// literals that assign the variable
		assigns := map[*ssa.Function]bool{}
		for _, st := range fam.stores[al] {
			if st.Parent() != fn {
				assigns[st.Parent()] = true
			}
		}
		in := map[*ssa.BasicBlock]int{}
		outS := map[*ssa.BasicBlock]int{}
		edge := map[[2]*ssa.BasicBlock]int{} // state forced on an edge by a nil test (-1: none)
		for _, b := range fn.Blocks {
			v, nn, isNil, ok := errNilTest(b)
			if !ok {
				continue
			}
			if ld, isLd := v.(*ssa.UnOp); isLd && ld.Op == token.MUL && isA(ld.X) {
				edge[[2]*ssa.BasicBlock{b, nn}] = stChecked + 10
				edge[[2]*ssa.BasicBlock{b, isNil}] = stNil + 10
			}
		}
		join := func(a, b int) int {
			if a == stUnchecked || b == stUnchecked {
				return stUnchecked
			}
			if a == stChecked || b == stChecked {
				return stChecked
			}
			return stNil
		}
		reported := map[*ssa.Store]bool{}
		transfer := func(b *ssa.BasicBlock, s int, report bool) int {
			var closureCall ssa.Value
			for _, ins := range b.Instrs {
				switch x := ins.(type) {
				case *ssa.Alloc:
					if x == al {
						s = stNil // the declaration is executed again: a fresh variable
					}
				case *ssa.Store:
					if !isA(x.Addr) {
						continue
					}
					if isNilConst(x.Val) {
						s = stNil
						continue
					}
					fromCall := false
					var src ssa.Value
					switch y := x.Val.(type) {
					case *ssa.Call:
						fromCall, src = true, y
					case *ssa.Extract:
						_, fromCall = y.Tuple.(*ssa.Call)
						src = y.Tuple
					}
					// `err = retry.Do(ctx, func() error { …; err = f(); return err })`: the callback's own assignment is
					// what the call returns
					if fromCall && src != nil && src == closureCall {
						s = stUnchecked
						continue
					}
					if fromCall && s == stUnchecked && report && !reported[x] {
						reported[x] = true
						out = append(out, pendingOverwrite{at: x, name: al.Comment, n: len(out) + 1})
					}
					if fromCall {
						s = stUnchecked
					} else {
						// copying another error value (err = retryErr): pending again unless that value was tested; stay conservative
						if s != stUnchecked {
							s = stChecked
						}
					}
				case ssa.CallInstruction:
					for _, a := range x.Common().Args {
						if mc, isMC := a.(*ssa.MakeClosure); isMC {
							if lit, isF := mc.Fn.(*ssa.Function); isF && assigns[lit] {
								s = stUnchecked
								if v, isV := x.(ssa.Value); isV {
									closureCall = v
								}
							}
						}
					}
				}
			}
			return s
		}
		for iter := 0; iter < 50; iter++ {
			changed := false
			for _, b := range fn.Blocks {
				s := stNil
				first := true
				for _, p := range b.Preds {
					ps, seen := outS[p]
					if !seen {
						continue
					}
					if e, forced := edge[[2]*ssa.BasicBlock{p, b}]; forced {
						ps = e - 10
					}
					if first {
						s, first = ps, false
					} else {
						s = join(s, ps)
					}
				}
				in[b] = s
				o := transfer(b, s, false)
				if old, ok := outS[b]; !ok || old != o {
					outS[b] = o
					changed = true
				}
			}
			if !changed {
				break
			}
		}
		for _, b := range fn.Blocks {
			transfer(b, in[b], true)
		}
	}
	return out
}

func printDerivedCensus(w *World) {
	for i := 1; i <= 20; i++ {
		p := fmt.Sprintf("C%02d", i)
		b := anchoredFuncs0(w, p)
		fmt.Printf("%s anchored=%d", p, len(b))
		for d := 1; d <= 4; d++ {
			fmt.Printf(" d%d=%d", d, len(derivedFuncs(w, b, d)))
		}
		fmt.Println()
	}
}

func printDerivedList(w *World, p string) {
	b := anchoredFuncs0(w, p)
	for _, f := range derivedFuncs(w, b, derivedDepthOf(w)) {
		fmt.Println(p, shortFn2(f))
	}
}

// keyRoles: the name roles (database / collection / partition) and id-ness of the values a table key derives from.
func (w *World) keyRoles(key ssa.Value) (roles map[string]bool, hasID bool) {
	roles = map[string]bool{}
	for _, x := range backSlice(key, SliceOpts{MaxDepth: 8, ThroughArg: func(c *ssa.CallCommon) []ssa.Value {
		s := callSym(c)
		if s.name == "Sprintf" || s.name == "Join" || strings.HasSuffix(s.name, "Key") || strings.HasSuffix(s.name, "Keys") || s.name == "GetFullCollectionName" {
			return callArgs(c)
		}
		return nil
	}}) {
		if b, ok := x.Type().Underlying().(*types.Basic); ok && b.Info()&types.IsInteger != 0 {
			switch x.(type) {
			case *ssa.Const:
			default:
				hasID = true
			}
			continue
		}
		name := ""
		switch y := x.(type) {
		case *ssa.Parameter:
			name = y.Name()
		case *ssa.FreeVar:
			name = y.Name()
		case *ssa.FieldAddr:
			name = fieldName(y.X.Type(), y.Field)
			if name == "Name" {
				name = bareTypeName(y.X.Type()) + "Name"
			}
		case *ssa.Field:
			name = fieldName(y.X.Type(), y.Field)
			if name == "Name" {
				name = bareTypeName(y.X.Type()) + "Name"
			}
		case *ssa.Call:
			if n := callSym(y.Common()).name; strings.HasPrefix(n, "Get") && len(callArgs(y.Common())) == 0 {
				name = strings.TrimPrefix(n, "Get")
				if name == "Name" {
					if rv := callRecv(y.Common()); rv != nil {
						name = bareTypeName(rv.Type()) + "Name"
					}
				}
			}
		case *ssa.Alloc:
			name = y.Comment
		case *ssa.Phi:
			name = y.Comment
		}
		if name == "" {
			continue
		}
		if r := identRole(name); r != "" {
			roles[r] = true
		}
		if strings.Contains(strings.ToLower(name), "schema") {
			roles["collection"] = true
		}
	}
	return roles, hasID
}

func printNameKeyCensus(w *World) {
	seen := map[string]bool{}
	for _, fn := range allAnchoredFull(w) {
		for _, g := range familyOf(fn).Funcs {
			eachInstr(g, func(in ssa.Instruction) {
				var key ssa.Value
				what := ""
				switch x := in.(type) {
				case *ssa.Lookup:
					if mt, ok := x.X.Type().Underlying().(*types.Map); ok {
						if b, isB := mt.Key().Underlying().(*types.Basic); isB && b.Kind() == types.String {
							key, what = x.Index, "lookup "+w.accessPath(x.X)
						}
					}
				case *ssa.Call:
					s := callSym(x.Common())
					switch s.name {
					case "Load", "LoadWithDefault", "Get", "GetOrInsert", "LoadOrStore":
						if a := callArgs(x.Common()); len(a) >= 1 {
							if b, isB := a[0].Type().Underlying().(*types.Basic); isB && b.Kind() == types.String {
								if rv := callRecv(x.Common()); rv != nil && (strings.Contains(bareTypeName(rv.Type()), "Map")) {
									key, what = a[0], s.name+" "+w.accessPath(rv)
								}
							}
						}
					}
				}
				if key == nil {
					return
				}
				roles, hasID := w.keyRoles(key)
				k := fmt.Sprintf("%s | %s | roles=%v id=%v", shortFn2(g), what, sortedKeys(roles), hasID)
				if !seen[k] {
					seen[k] = true
					fmt.Println("NAMEKEY", k)
				}
			})
		}
	}
}

func allAnchoredFull(w *World) []*ssa.Function {
	seen := map[*ssa.Function]bool{}
	var out []*ssa.Function
	for i := 1; i <= 20; i++ {
		base := anchoredFuncs0(w, fmt.Sprintf("C%02d", i))
		for _, f := range append(base, derivedFuncs(w, base, derivedDepthFull)...) {
			if !seen[f] {
				seen[f] = true
				out = append(out, f)
			}
		}
	}
	return out
}

//go:embed baseline_globals.txt
var baselineGlobalsTxt string

func writeBaselineGlobals(w *World, path string) error {
	var ls []string
	for _, p := range w.Pkgs {
		if p.Types == nil {
			continue
		}
		sc := p.Types.Scope()
		for _, n := range sc.Names() {
			if v, ok := sc.Lookup(n).(*types.Var); ok {
				ls = append(ls, p.PkgPath+"\t"+v.Name())
			}
		}
	}
	sort.Strings(ls)
	return os.WriteFile(path, []byte(strings.Join(ls, "\n")+"\n"), 0o644)
}

var baseGlobalSet, baseFieldSet map[string]bool

func isBaselineGlobal(pkg, name string) bool {
	if baseGlobalSet == nil {
		baseGlobalSet = map[string]bool{}
		for _, l := range strings.Split(baselineGlobalsTxt, "\n") {
			if l != "" {
				baseGlobalSet[l] = true
			}
		}
	}
	return baseGlobalSet[pkg+"\t"+name]
}

func isBaselineField(pkg, typ, name string) bool {
	if baseFieldSet == nil {
		baseFieldSet = map[string]bool{}
		for _, l := range strings.Split(baselineFieldsTxt, "\n") {
			if f := strings.Split(l, "\t"); len(f) == 5 {
				baseFieldSet[f[0]+"\t"+f[1]+"\t"+f[3]] = true
			}
		}
	}
	return baseFieldSet[pkg+"\t"+typ+"\t"+name]
}
