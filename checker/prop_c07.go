package main

import (
	"fmt"
	"go/token"
	"go/types"
	"strings"

	"golang.org/x/tools/go/ssa"
)

func init() {
	register("C07", &propDef{run: runC07,
		explain: "Byte-level round-trip equality with Milvus' decoder is a runtime fact and is NOT decided. Decided structural necessary conditions: (R1) the ReplicateMessageParam built by HandleReplicateMessage takes channel, begin/end timestamps and start/end positions from the same-named inputs, is flagged IsReplicate, and MsgsBytes is the accumulator to which exactly one Marshal result of the current message is appended per loop iteration, in order; (R2) the returned source checkpoint is EndPositions[len-1].MsgID of the same pack; (R3) the marshal error, the downstream completion error and the base64 error are each returned as the error result; (R4) the per-channel handler calls exactly one of FailFunc/SuccessFunc per message on every path, FailFunc with the downstream error, and handleMessage either fails or enqueues exactly once; the success/fail closures both send on the channel the caller receives from before returning; (R5) with a replicate id configured every message that has a base is marked IsReplicate with that id and ticks are replaced by ReplicateMsg carrying the tick's begin/end time; (R6) the Milvus handler forwards the parameter's fields position by position and returns both error sources.",
		notDec:  []string{"that the bytes decode to equal messages (serialization round trip)", "concurrent calls on different channels beyond the per-channel handler map's lock discipline"},
	})
}

// countBetween computes min/max (saturating at 3) matched instructions on paths from `from`
// (exclusive) until a block in stop is entered or the function exits.
func countBetween(from ssa.Instruction, stop map[*ssa.BasicBlock]bool, match func(ssa.Instruction) bool) (cnt, bool) {
	const sat = 3
	type key = *ssa.BasicBlock
	memo := map[key]*cnt{}
	onstack := map[key]bool{}
	okAll := true
	var walk func(b *ssa.BasicBlock, startIdx int) cnt
	walk = func(b *ssa.BasicBlock, startIdx int) cnt {
		if startIdx == 0 {
			if m, ok := memo[b]; ok {
				return *m
			}
			if onstack[b] {
				okAll = false // inner cycle not through a stop block
				return cnt{0, 0}
			}
			onstack[b] = true
			defer delete(onstack, b)
		}
		n := 0
		for i := startIdx; i < len(b.Instrs); i++ {
			if match(b.Instrs[i]) {
				n++
			}
		}
		res := cnt{-1, -1}
		if len(b.Succs) == 0 {
			res = cnt{0, 0}
		}
		for _, s := range b.Succs {
			var c cnt
			if stop[s] {
				c = cnt{0, 0}
			} else {
				c = walk(s, 0)
			}
			if res.lo == -1 || c.lo < res.lo {
				res.lo = c.lo
			}
			if c.hi > res.hi {
				res.hi = c.hi
			}
		}
		res.lo += n
		res.hi += n
		if res.lo > sat {
			res.lo = sat
		}
		if res.hi > sat {
			res.hi = sat
		}
		if startIdx == 0 {
			memo[b] = &res
		}
		return res
	}
	r := walk(from.Block(), instrIndex(from)+1)
	return r, okAll
}

func runC07(w *World, r *Report) {
	// "names ... equal to the pack handed to the writer" under a name mapping: the table the writer maps with keeps the
	// entries of every task of the target (C09-R10)
	defer r.importRules(runC09, "C07-", map[string]bool{"C09-R10": true})
	r.Rule("C07-R1", "call content", "ReplicateMessageParam: ChannelName<-channelName, StartPositions/EndPositions/BeginTs/EndTs<-msgPack's same-named fields, Base.ReplicateInfo.IsReplicate=true, MsgsBytes<-accumulator appended exactly once per iteration with the Marshal result of the current message (msg.Marshal(msg)), in order", 10)
	r.Rule("C07-R2", "returned checkpoint", "result 0 on the success path is msgPack.EndPositions[len-1].MsgID", 1)
	r.Rule("C07-R3", "errors are returned", "marshal error, completion error and base64 error: the branch `e != nil` returns e as the error result", 3)
	r.Rule("C07-R4", "exactly one completion", "handler loop: after ReplicateMessage exactly one of FailFunc(param, err)/SuccessFunc(param) on every path; handleMessage: exactly one of FailFunc / enqueue; writer closures: both send on the channel whose receive dominates the success return", 5)
	r.Rule("C07-R5", "replicate marking", "under replicateID != \"\": IsReplicate=true and ReplicateID=c.replicateID stored into the message base's ReplicateInfo (created and attached when nil); ticks replaced by ReplicateMsg{Begin/EndTimestamp from the tick, Base{MsgType_Replicate, Timestamp: EndTs, ReplicateInfo{true, id}}}", 6)
	r.Rule("C07-R7", "a message is serialised after its last rewrite", "in HandleReplicateMessage no store into a field of the message (names, replicate marking) is reachable, within the same loop iteration, after the message was marshalled: the bytes sent are the bytes of the message as handed downstream", 1)
	c07MarshalLast(w, r)
	r.Rule("C07-R6", "handler forwards the parameter", "MilvusDataHandler.ReplicateMessage passes param.{ChannelName,BeginTs,EndTs,MsgsBytes,StartPositions,EndPositions,Base} in the client's argument order, stores resp.Position into TargetMsgPosition and returns err/opErr", 3)

	hrm := w.Func(pkgWriter, "ChannelWriter", "HandleReplicateMessage")
	if hrm == nil {
		r.Undecided("C07-R1", "HandleReplicateMessage", 0, "anchor not found")
		return
	}
	fam := familyOf(hrm)
	chName := hrm.Params[2]
	pack := hrm.Params[3]
	allocs := allocsOfType(hrm, pkgAPI, "ReplicateMessageParam", false)
	if len(allocs) != 1 {
		r.Undecided("C07-R1", "HandleReplicateMessage | ReplicateMessageParam literal", hrm.Pos(), fmt.Sprintf("%d literals found", len(allocs)))
		return
	}
	pa := allocs[0]
	stored := map[string]ssa.Value{}
	for _, fs := range fieldStoresOn(fam, pa) {
		if fs.Field != nil {
			stored[fs.Field.Name()] = fs.Val
		}
	}
	base := "(*ChannelWriter).HandleReplicateMessage | param."
	r.Check(stored["ChannelName"] == ssa.Value(chName), "C07-R1", base+"ChannelName", pa.Pos(), "<- channelName", "ChannelName is not the channelName argument")
	for _, f := range []string{"StartPositions", "EndPositions", "BeginTs", "EndTs"} {
		v := stored[f]
		ok := v != nil && w.accessPath(v) == "param:"+pack.Name()+"."+f
		det := ""
		if !ok {
			det = fmt.Sprintf("%s is taken from %s, not from the pack's %s", f, w.accessPath(v), f)
		}
		r.Check(ok, "C07-R1", base+f, pa.Pos(), "<- msgPack."+f, det)
	}
	// IsReplicate
	pvr := w.resolveFieldPath(fam, w.accessPath(pa), []string{"MsgBaseParam", "Base", "ReplicateInfo", "IsReplicate"}, lastInstrOf(hrm, pa), 0)
	isRep := false
	for _, v := range pvr.Vals {
		if c, ok := v.(*ssa.Const); ok && c.Value != nil && c.Value.ExactString() == "true" {
			isRep = true
		}
	}
	if !isRep {
		// struct-literal assigned as a whole: look for a store of true into any IsReplicate field reachable from pa's MsgBaseParam
		for _, in := range fam.allInstr {
			st, ok := in.(*ssa.Store)
			if !ok || st.Parent() != hrm {
				continue
			}
			if fa, ok := st.Addr.(*ssa.FieldAddr); ok && fieldName(fa.X.Type(), fa.Field) == "IsReplicate" {
				if c, ok := st.Val.(*ssa.Const); ok && c.Value != nil && c.Value.ExactString() == "true" {
					// the object must flow into pa.MsgBaseParam
					for _, x := range backSlice(stored["MsgBaseParam"], SliceOpts{MaxDepth: 10}) {
						if x == fa.X {
							isRep = true
						}
					}
				}
			}
		}
	}
	r.Check(isRep, "C07-R1", base+"Base.ReplicateInfo.IsReplicate", pa.Pos(), "= true", "the downstream call is not flagged as a replication call")

	// MsgsBytes accumulator
	mb := stored["MsgsBytes"]
	var appendCall *ssa.Call
	nApp := 0
	for _, x := range backSlice(mb, SliceOpts{ThroughArg: func(c *ssa.CallCommon) []ssa.Value {
		if b, ok := c.Value.(*ssa.Builtin); ok && b.Name() == "append" {
			return c.Args[:1]
		}
		return nil
	}, MaxDepth: 10}) {
		if c, ok := x.(*ssa.Call); ok {
			if b, ok := c.Call.Value.(*ssa.Builtin); ok && b.Name() == "append" {
				appendCall = c
				nApp++
			}
		}
	}
	if appendCall == nil || nApp != 1 {
		r.Fail("C07-R1", base+"MsgsBytes", pa.Pos(), fmt.Sprintf("MsgsBytes is fed by %d append sites (want exactly one inside the message loop)", nApp))
	} else {
		// loop header: a block dominating the append that the append can reach again
		header := loopHeaderOf(appendCall.Block())
		okLoop := header != nil
		detail := "append is not inside a loop"
		if okLoop {
			// every back edge source is dominated by the append (each continued iteration appended)
			for _, p := range header.Preds {
				if header.Dominates(p) && !(appendCall.Block() == p || appendCall.Block().Dominates(p)) {
					okLoop = false
					detail = "an iteration can continue without appending its message's bytes: a message is silently left out"
				}
			}
			// loop ranges over msgPack.Msgs
			ranges := false
			eachInstr(hrm, func(in ssa.Instruction) {
				if ia, ok := in.(*ssa.IndexAddr); ok && header.Dominates(ia.Block()) && w.accessPath(ia.X) == "param:"+pack.Name()+".Msgs" {
					ranges = true
				}
			})
			if !ranges {
				okLoop = false
				detail = "the loop containing the append does not range over msgPack.Msgs"
			}
		}
		r.Check(okLoop, "C07-R1", base+"MsgsBytes | one append per message", appendCall.Pos(), "single append dominating every loop back edge, loop over msgPack.Msgs", detail)
		// element appended = Marshal result of the current message, marshalled with itself
		okEl := false
		det := "appended element is not the []byte of msg.Marshal(msg)"
		for _, x := range backSlice(appendCall.Call.Args[1], SliceOpts{MaxDepth: 8}) {
			c, ok := x.(*ssa.Call)
			if !ok || !c.Call.IsInvoke() || c.Call.Method.Name() != "Marshal" {
				continue
			}
			if c.Call.Value == c.Call.Args[0] {
				okEl = true
			} else {
				det = "a message is marshalled with a different message as argument"
			}
		}
		r.Check(okEl, "C07-R1", base+"MsgsBytes | element", appendCall.Pos(), "element = msg.Marshal(msg).([]byte)", det)
		// the accumulator is local to this call (not a field / global shared between calls)
		okLocal, badLeaf := mustDerive(mb, func(v ssa.Value) leafVerdict {
			switch x := v.(type) {
			case *ssa.MakeSlice:
				return leafGood
			case *ssa.Slice:
				if isFreshEmptySlice(x) {
					return leafGood
				}
				return leafDescend
			case *ssa.Call:
				if b, ok := x.Call.Value.(*ssa.Builtin); ok && b.Name() == "append" {
					// only the accumulator argument matters for aliasing
					ok2, _ := mustDerive(x.Call.Args[0], func(y ssa.Value) leafVerdict {
						switch z := y.(type) {
						case *ssa.MakeSlice:
							return leafGood
						case *ssa.Slice:
							if isFreshEmptySlice(z) {
								return leafGood
							}
						case *ssa.Call:
							if y == v {
								return leafGood
							}
							if bb, ok := z.Call.Value.(*ssa.Builtin); ok && bb.Name() == "append" {
								return leafGood
							}
						}
						return leafDescend
					})
					if ok2 {
						return leafGood
					}
					return leafBad
				}
			}
			return leafDescend
		})
		det2 := ""
		if !okLocal {
			det2 = "the byte accumulator is backed by " + w.accessPath(badLeaf) + ", storage that outlives the call: concurrent calls on other channels overwrite bytes still in flight"
		}
		r.Check(okLocal, "C07-R1", base+"MsgsBytes | call-local storage", appendCall.Pos(), "accumulator starts as a fresh slice in this call", det2)
		// order: accumulator first
		accOK := false
		for _, x := range backSlice(appendCall.Call.Args[0], SliceOpts{MaxDepth: 4}) {
			if x == ssa.Value(appendCall) {
				accOK = true
			}
			if ph, ok := x.(*ssa.Phi); ok {
				for _, e := range ph.Edges {
					if e == ssa.Value(appendCall) {
						accOK = true
					}
				}
			}
		}
		r.Check(accOK, "C07-R1", base+"MsgsBytes | order", appendCall.Pos(), "append(acc, element): arrival order kept", "the accumulator is not the first argument of append (order not preserved)")
	}

	// ---------- R2/R3
	var recv *ssa.UnOp
	eachInstr(hrm, func(in ssa.Instruction) {
		if u, ok := in.(*ssa.UnOp); ok && u.Op == token.ARROW {
			recv = u
		}
	})
	var okRet *ssa.Return
	eachInstr(hrm, func(in ssa.Instruction) {
		ret, ok := in.(*ssa.Return)
		if !ok || len(ret.Results) != 3 {
			return
		}
		if isNilConst(returnedValue(ret, 2)) && !isNilConst(returnedValue(ret, 0)) {
			okRet = ret
		}
	})
	if okRet == nil {
		r.Fail("C07-R2", "(*ChannelWriter).HandleReplicateMessage | success return", hrm.Pos(), "no success return with a checkpoint found")
	} else {
		v := returnedValue(okRet, 0)
		ap := w.accessPath(v)
		ok := strings.HasPrefix(ap, "param:"+pack.Name()+".EndPositions[]") && strings.HasSuffix(ap, ".MsgID") && lastIndexOf(v, pack)
		r.Check(ok, "C07-R2", "(*ChannelWriter).HandleReplicateMessage | success return", okRet.Pos(), "msgPack.EndPositions[len-1].MsgID", "the checkpoint returned is "+ap+", not the message id of the pack's last end position")
		// receive dominates success return
		// the completion channel belongs to this call alone
		if recv != nil {
			own := false
			for _, x := range backSlice(recv.X, SliceOpts{MaxDepth: 4, NoAggregates: true}) {
				if mc, isMC := x.(*ssa.MakeChan); isMC && mc.Parent() == hrm {
					own = true
				}
			}
			r.Check(own, "C07-R4", "(*ChannelWriter).HandleReplicateMessage | completion channel is per call", recv.Pos(), "made inside the call", "the channel on which the call waits for its completion is not created by the call itself (a field or shared channel): with calls in flight on two channels one caller receives the other's result, returning a checkpoint for a pack whose write has not finished and swallowing its error")
		}
		r.Check(recv != nil && instrDominates(recv, okRet), "C07-R4", "(*ChannelWriter).HandleReplicateMessage | completion awaited", okRet.Pos(), "the receive from the completion channel dominates the success return", "success is returned without waiting for the downstream completion")
	}
	errSources := map[string]ssa.Value{}
	eachInstr(hrm, func(in ssa.Instruction) {
		switch x := in.(type) {
		case *ssa.Call:
			if x.Call.IsInvoke() && x.Call.Method.Name() == "Marshal" {
				errSources["marshal error"] = extractIdx(x, 1)
			}
			if callSym(x.Common()).name == "DecodeString" {
				errSources["base64 error"] = extractIdx(x, 1)
			}
		case *ssa.UnOp:
			if x.Op == token.ARROW {
				errSources["completion error"] = x
			}
		}
	})
	for _, name := range []string{"marshal error", "completion error", "base64 error"} {
		e := errSources[name]
		cons := "(*ChannelWriter).HandleReplicateMessage | " + name
		if e == nil {
			r.Fail("C07-R3", cons, hrm.Pos(), "error source not found")
			continue
		}
		ok := false
		for _, b := range hrm.Blocks {
			cond, t, _, isIf := ifSuccs(b)
			if !isIf {
				continue
			}
			bo, isB := cond.(*ssa.BinOp)
			if !isB || bo.Op != token.NEQ || !(bo.X == e && isNilConst(bo.Y)) {
				continue
			}
			// all returns reachable first from t return e
			good := true
			found := false
			for _, in := range t.Instrs {
				if ret, isR := in.(*ssa.Return); isR {
					found = true
					if returnedValue(ret, 2) != e {
						good = false
					}
				}
			}
			if found && good {
				ok = true
			}
		}
		r.Check(ok, "C07-R3", cons, e.Pos(), "`!= nil` branch returns it", "the "+name+" is tested but not returned as the error result (swallowed)")
	}

	// closures: SuccessFunc sends nil, FailFunc sends its err on the channel received from
	if recv != nil {
		ch := baseObject(fam, recv.X)
		nSend := 0
		okSends := true
		for _, g := range hrm.AnonFuncs {
			eachInstr(g, func(in ssa.Instruction) {
				s, ok := in.(*ssa.Send)
				if !ok {
					return
				}
				if baseObject(fam, s.Chan) != ch {
					return
				}
				nSend++
				if len(g.Params) == 2 {
					if s.X != ssa.Value(g.Params[1]) {
						okSends = false
					}
				} else if !isNilConst(s.X) {
					okSends = false
				}
			})
		}
		r.Check(nSend == 2 && okSends, "C07-R4", "(*ChannelWriter).HandleReplicateMessage | completion closures", recv.Pos(), "SuccessFunc sends nil, FailFunc sends its error, on the awaited channel", fmt.Sprintf("%d sends on the awaited channel; FailFunc must send its error and SuccessFunc nil", nSend))
		// buffered channel so that a completion never blocks the handler goroutine
		if mk, ok := ch.(*ssa.MakeChan); ok {
			c, isC := mk.Size.(*ssa.Const)
			r.Check(isC && c.Value != nil && c.Value.ExactString() != "0", "C07-R4", "(*ChannelWriter).HandleReplicateMessage | completion channel buffered", mk.Pos(), "capacity >= 1", "unbuffered completion channel")
		}
	}

	// ---------- R4 handler loop
	loopFn := w.Func(pkgWriter, "replicateMessageHandler", "startHandleMessageLoop")
	if loopFn == nil || len(loopFn.AnonFuncs) == 0 {
		r.Undecided("C07-R4", "startHandleMessageLoop", 0, "anchor not found")
	} else {
		g := loopFn.AnonFuncs[0]
		var rm ssa.CallInstruction
		eachInstr(g, func(in ssa.Instruction) {
			if ci, ok := in.(ssa.CallInstruction); ok && ci.Common().IsInvoke() && ci.Common().Method.Name() == "ReplicateMessage" {
				rm = ci
			}
		})
		if rm == nil {
			r.Fail("C07-R4", "(*replicateMessageHandler).startHandleMessageLoop | downstream call", g.Pos(), "no ReplicateMessage call in the loop")
		} else {
			isCB := func(in ssa.Instruction, field string) (*ssa.Call, bool) {
				c, ok := in.(*ssa.Call)
				if !ok || c.Call.IsInvoke() || calleeObj(c.Common()) != nil {
					return nil, false
				}
				return c, strings.HasSuffix(w.accessPath(c.Call.Value), "."+field)
			}
			// loop header = block of the receive
			var header *ssa.BasicBlock
			eachInstr(g, func(in ssa.Instruction) {
				if u, ok := in.(*ssa.UnOp); ok && u.Op == token.ARROW {
					header = u.Block()
				}
			})
			stop := map[*ssa.BasicBlock]bool{header: true}
			c, okAll := countBetween(rm, stop, func(in ssa.Instruction) bool {
				_, a := isCB(in, "FailFunc")
				_, b := isCB(in, "SuccessFunc")
				return a || b
			})
			r.Check(okAll && c.lo == 1 && c.hi == 1, "C07-R4", "(*replicateMessageHandler).startHandleMessageLoop | one completion per message", rm.Pos(), "exactly one FailFunc/SuccessFunc on every path back to the receive", fmt.Sprintf("between %d and %d completion callbacks per message", c.lo, c.hi))
			// FailFunc gets the downstream error, only under err != nil
			okFail := false
			eachInstr(g, func(in ssa.Instruction) {
				if fc, ok := isCB(in, "FailFunc"); ok {
					if len(fc.Call.Args) == 2 && fc.Call.Args[1] == rm.Value() {
						// dominated by err != nil true edge
						for _, b := range g.Blocks {
							cond, t, _, isIf := ifSuccs(b)
							if !isIf {
								continue
							}
							if bo, isB := cond.(*ssa.BinOp); isB && bo.Op == token.NEQ && bo.X == rm.Value() && isNilConst(bo.Y) {
								if t == fc.Block() || t.Dominates(fc.Block()) {
									okFail = true
								}
							}
						}
					}
				}
			})
			r.Check(okFail, "C07-R4", "(*replicateMessageHandler).startHandleMessageLoop | FailFunc carries the error", rm.Pos(), "FailFunc(param, err) under err != nil", "FailFunc is not called with the downstream error under err != nil (a failure would be reported as success or with another error)")
			// the call uses the message's own param
			okParam := strings.HasSuffix(w.accessPath(rm.Common().Args[1]), ".Param")
			r.Check(okParam, "C07-R4", "(*replicateMessageHandler).startHandleMessageLoop | param", rm.Pos(), "ReplicateMessage(ctx, message.Param)", "the downstream call does not send the message's own Param")
		}
	}
	hm := w.Func(pkgWriter, "replicateMessageHandler", "handleMessage")
	if hm == nil {
		r.Undecided("C07-R4", "handleMessage", 0, "anchor not found")
	} else {
		cn := countOnPaths(hm, func(in ssa.Instruction) bool {
			if s, ok := in.(*ssa.Send); ok && s.X == ssa.Value(hm.Params[1]) {
				return true
			}
			if c, ok := in.(*ssa.Call); ok && !c.Call.IsInvoke() && calleeObj(c.Common()) == nil && strings.HasSuffix(w.accessPath(c.Call.Value), ".FailFunc") {
				return true
			}
			// a select with a send case
			if sel, ok := in.(*ssa.Select); ok {
				for _, st := range sel.States {
					if st.Dir == types.SendOnly && st.Send == ssa.Value(hm.Params[1]) && !sel.Blocking {
						return false
					}
				}
			}
			return false
		})
		bad := ""
		for _, b := range hm.Blocks {
			if len(b.Succs) == 0 && b.Comment != "recover" {
				if x, ok := cn[b]; ok && (x.lo != 1 || x.hi != 1) {
					bad = fmt.Sprintf("an exit path performs between %d and %d of {enqueue, FailFunc}", x.lo, x.hi)
				}
			}
		}
		r.Check(bad == "", "C07-R4", "(*replicateMessageHandler).handleMessage | fail or enqueue", hm.Pos(), "every path either fails the message or enqueues it, once", bad)
	}

	// ---------- R5 replicate marking
	var idCond *ssa.BasicBlock // true successor of replicateID != ""
	for _, b := range hrm.Blocks {
		cond, t, _, ok := ifSuccs(b)
		if !ok {
			continue
		}
		if bo, isB := cond.(*ssa.BinOp); isB && bo.Op == token.NEQ && strings.HasSuffix(w.accessPath(bo.X), ".replicateID") {
			if s, ok := constString(bo.Y); ok && s == "" {
				idCond = t
			}
		}
	}
	if idCond == nil {
		r.Fail("C07-R5", "(*ChannelWriter).HandleReplicateMessage | replicateID guard", hrm.Pos(), "no `c.replicateID != \"\"` branch found")
	} else {
		under := func(in ssa.Instruction) bool {
			return in.Block() == idCond || idCond.Dominates(in.Block())
		}
		var stIsRep, stID, stAttach *ssa.Store
		for _, in := range fam.allInstr {
			st, ok := in.(*ssa.Store)
			if !ok || st.Parent() != hrm || !under(st) {
				continue
			}
			fa, ok := st.Addr.(*ssa.FieldAddr)
			if !ok {
				continue
			}
			fname := fieldName(fa.X.Type(), fa.Field)
			if !typeIs(fa.X.Type(), pkgCommonpb, "ReplicateInfo") && !typeIs(fa.X.Type(), pkgCommonpb, "MsgBase") {
				continue
			}
			// exclude the tick replacement literal (handled below): its objects are fresh allocs stored into a ReplicateMsg
			if _, isAlloc := baseObject(fam, fa.X).(*ssa.Alloc); isAlloc && typeIs(fa.X.Type(), pkgCommonpb, "ReplicateInfo") {
				// could be the fresh replicateInfo for a nil base info: keep if it is attached to GetBase()
			}
			switch fname {
			case "IsReplicate":
				if c, ok := st.Val.(*ssa.Const); ok && c.Value != nil && c.Value.ExactString() == "true" {
					if _, isPhi := fa.X.(*ssa.Phi); isPhi || derivesFromGetBase(fa.X) {
						stIsRep = st
					}
				}
			case "ReplicateID":
				if strings.HasSuffix(w.accessPath(st.Val), ".replicateID") {
					if _, isPhi := fa.X.(*ssa.Phi); isPhi || derivesFromGetBase(fa.X) {
						stID = st
					}
				}
			case "ReplicateInfo":
				if derivesFromGetBase(fa.X) {
					stAttach = st
				}
			}
		}
		r.Check(stIsRep != nil, "C07-R5", "(*ChannelWriter).HandleReplicateMessage | IsReplicate on message base", hrm.Pos(), "replicateInfo.IsReplicate = true", "messages are not marked IsReplicate when a replicate id is configured")
		r.Check(stID != nil, "C07-R5", "(*ChannelWriter).HandleReplicateMessage | ReplicateID on message base", hrm.Pos(), "replicateInfo.ReplicateID = c.replicateID", "messages do not carry the configured replicate id")
		r.Check(stAttach != nil, "C07-R5", "(*ChannelWriter).HandleReplicateMessage | fresh ReplicateInfo attached", hrm.Pos(), "GetBase().ReplicateInfo = replicateInfo when nil", "a freshly created ReplicateInfo is not attached to the message base (marking lost for messages without one)")
		// tick replacement
		rmAllocs := allocsOfType(hrm, pkgMsgstream, "ReplicateMsg", false)
		if len(rmAllocs) != 1 || !under(rmAllocs[0]) {
			r.Fail("C07-R5", "(*ChannelWriter).HandleReplicateMessage | tick -> ReplicateMsg", hrm.Pos(), "no ReplicateMsg literal under the replicateID guard")
		} else {
			ra := rmAllocs[0]
			get := func(path ...string) []ssa.Value {
				return w.resolveFieldPath(fam, w.accessPath(ra), path, lastInstrOf(hrm, ra), 0).Vals
			}
			isCallOn := func(vs []ssa.Value, m string) bool {
				if len(vs) == 0 {
					return false
				}
				for _, v := range vs {
					c, ok := v.(*ssa.Call)
					if !ok || !c.Call.IsInvoke() || c.Call.Method.Name() != m {
						return false
					}
				}
				return true
			}
			okB := isCallOn(get("BaseMsg", "BeginTimestamp"), "BeginTs") && isCallOn(get("BaseMsg", "EndTimestamp"), "EndTs")
			r.Check(okB, "C07-R5", "(*ChannelWriter).HandleReplicateMessage | ReplicateMsg times", ra.Pos(), "Begin/EndTimestamp = tick.BeginTs()/EndTs()", "the replicate-tick does not carry the tick's begin/end timestamps")
			okT := isCallOn(get("ReplicateMsg", "Base", "Timestamp"), "EndTs")
			mt := get("ReplicateMsg", "Base", "MsgType")
			okMT := false
			for _, v := range mt {
				if c, ok := v.(*ssa.Const); ok && c.Value != nil && msgTypeNames(w)[c.Value.ExactString()] == "Replicate" {
					okMT = true
				}
			}
			ri := get("ReplicateMsg", "Base", "ReplicateInfo", "IsReplicate")
			rid := get("ReplicateMsg", "Base", "ReplicateInfo", "ReplicateID")
			okRI := len(ri) > 0 && len(rid) > 0
			for _, v := range ri {
				if c, ok := v.(*ssa.Const); !ok || c.Value == nil || c.Value.ExactString() != "true" {
					okRI = false
				}
			}
			for _, v := range rid {
				if !strings.HasSuffix(w.accessPath(v), ".replicateID") {
					okRI = false
				}
			}
			r.Check(okT && okMT && okRI, "C07-R5", "(*ChannelWriter).HandleReplicateMessage | ReplicateMsg base", ra.Pos(), "MsgType_Replicate, Timestamp=EndTs, ReplicateInfo{true, id}", fmt.Sprintf("replicate-tick base incomplete: timestamp=%v msgtype=%v replicateinfo=%v", okT, okMT, okRI))
			// guarded by Type()==TimeTick
			okGuard := false
			for _, b := range hrm.Blocks {
				cond, t, _, ok := ifSuccs(b)
				if !ok {
					continue
				}
				if bo, isB := cond.(*ssa.BinOp); isB && bo.Op == token.EQL {
					if c, isC := bo.Y.(*ssa.Const); isC && c.Value != nil && msgTypeNames(w)[c.Value.ExactString()] == "TimeTick" {
						if t == ra.Block() || t.Dominates(ra.Block()) {
							okGuard = true
						}
					}
				}
			}
			r.Check(okGuard, "C07-R5", "(*ChannelWriter).HandleReplicateMessage | only ticks are replaced", ra.Pos(), "replacement under msg.Type() == TimeTick", "the ReplicateMsg replacement is not restricted to time-tick messages")
		}
	}

	// ---------- R6 handler forwarding
	mh := w.Func(pkgWriter, "MilvusDataHandler", "ReplicateMessage")
	if mh == nil {
		r.Undecided("C07-R6", "MilvusDataHandler.ReplicateMessage", 0, "anchor not found")
	} else {
		pn := mh.Params[2].Name()
		var cc ssa.CallInstruction
		eachInstrDeep(mh, func(_ *ssa.Function, in ssa.Instruction) {
			if ci, ok := in.(ssa.CallInstruction); ok && ci.Common().IsInvoke() && ci.Common().Method.Name() == "ReplicateMessage" {
				cc = ci
			}
		})
		if cc == nil {
			r.Fail("C07-R6", "(*MilvusDataHandler).ReplicateMessage | client call", mh.Pos(), "no client ReplicateMessage call")
		} else {
			want := []string{"ChannelName", "BeginTs", "EndTs", "MsgsBytes", "StartPositions", "EndPositions"}
			ok := true
			det := ""
			for i, f := range want {
				ap := w.accessPath(cc.Common().Args[1+i])
				if !strings.HasSuffix(ap, "."+f) || !strings.Contains(ap, pn) {
					ok = false
					det = fmt.Sprintf("argument %d is %s, want param.%s", i+1, ap, f)
				}
			}
			// Base via option
			okBase := false
			for _, x := range backSlice(cc.Common().Args[7], SliceOpts{ThroughArg: func(c *ssa.CallCommon) []ssa.Value { return c.Args }, MaxDepth: 8}) {
				if strings.HasSuffix(w.accessPath(x), ".Base") && strings.Contains(w.accessPath(x), pn) {
					okBase = true
				}
			}
			if !okBase {
				ok = false
				det = "param.Base is not forwarded as the message base option"
			}
			r.Check(ok, "C07-R6", "(*MilvusDataHandler).ReplicateMessage | argument correspondence", cc.Pos(), "fields forwarded position by position", det)
		}
		// returns: every non-nil error source is returned
		okErr := 0
		eachInstr(mh, func(in ssa.Instruction) {
			ret, ok := in.(*ssa.Return)
			if !ok {
				return
			}
			if v := returnedValue(ret, 0); v != nil && !isNilConst(v) {
				okErr++
			}
		})
		r.Check(okErr >= 2, "C07-R6", "(*MilvusDataHandler).ReplicateMessage | errors returned", mh.Pos(), "both err and opErr have returning branches", "fewer than two error-returning branches: a downstream error is swallowed")
		okPos := false
		eachInstr(mh, func(in ssa.Instruction) {
			if st, ok := in.(*ssa.Store); ok && strings.HasSuffix(w.accessPath(st.Addr), ".TargetMsgPosition") && strings.HasSuffix(w.accessPath(st.Val), ".Position") {
				okPos = true
			}
		})
		r.Check(okPos, "C07-R6", "(*MilvusDataHandler).ReplicateMessage | target position", mh.Pos(), "param.TargetMsgPosition = resp.Position", "the downstream position is not handed back")
	}
}

func extractIdx(c *ssa.Call, idx int) ssa.Value {
	for _, ref := range *c.Referrers() {
		if e, ok := ref.(*ssa.Extract); ok && e.Index == idx {
			return e
		}
	}
	return nil
}

func derivesFromGetBase(v ssa.Value) bool {
	for _, x := range backSlice(v, SliceOpts{MaxDepth: 6}) {
		if c, ok := x.(*ssa.Call); ok && c.Call.IsInvoke() && c.Call.Method.Name() == "GetBase" {
			return true
		}
	}
	return false
}

// lastInstrOf returns the terminator of the block of v (a point after the literal is built).
func lastInstrOf(fn *ssa.Function, v *ssa.Alloc) ssa.Instruction {
	// the first call/send/return that uses the literal's address after it: use the block terminator
	b := v.Block()
	// prefer the function's last block dominated by b with a return
	var best ssa.Instruction = b.Instrs[len(b.Instrs)-1]
	for _, ref := range *v.Referrers() {
		if ref.Block() != nil && b.Dominates(ref.Block()) {
			if _, isStore := ref.(*ssa.Store); !isStore {
				if _, isFA := ref.(*ssa.FieldAddr); !isFA {
					best = ref
				}
			}
		}
	}
	return best
}

// c07MarshalLast: C07-R7.
func c07MarshalLast(w *World, r *Report) {
	fn := w.Func(pkgWriter, "ChannelWriter", "HandleReplicateMessage")
	if fn == nil {
		r.Undecided("C07-R7", "HandleReplicateMessage", 0, "anchor not found")
		return
	}
	n := 0
	eachInstr(fn, func(in ssa.Instruction) {
		c, ok := in.(*ssa.Call)
		if !ok || !c.Call.IsInvoke() || c.Call.Method.Name() != "Marshal" {
			return
		}
		n++
		h := loopHeaderOf(c.Block())
		stop := map[*ssa.BasicBlock]bool{}
		if h != nil {
			stop[h] = true
		}
		reach := blockReach(c.Block(), stop)
		bad := token.NoPos
		what := ""
		check := func(x ssa.Instruction) {
			st, isSt := x.(*ssa.Store)
			if !isSt {
				return
			}
			fa, isFA := st.Addr.(*ssa.FieldAddr)
			if !isFA {
				return
			}
			for _, v := range backSlice(fa.X, SliceOpts{MaxDepth: 6, NoAggregates: true}) {
				isMsg := false
				if ta, isTA := v.(*ssa.TypeAssert); isTA && strings.Contains(ta.AssertedType.String(), "msgstream.") {
					isMsg = true
				}
				if cc, isC := v.(*ssa.Call); isC && cc.Call.IsInvoke() && cc.Call.Method.Name() == "GetBase" {
					isMsg = true
				}
				if isMsg {
					bad, what = st.Pos(), fieldName(fa.X.Type(), fa.Field)
				}
			}
		}
		after := false
		for _, x := range c.Block().Instrs {
			if x == ssa.Instruction(c) {
				after = true
				continue
			}
			if after {
				check(x)
			}
		}
		for b := range reach {
			if b == c.Block() {
				continue
			}
			for _, x := range b.Instrs {
				check(x)
			}
		}
		r.Check(bad == token.NoPos, "C07-R7", fmt.Sprintf("(*ChannelWriter).HandleReplicateMessage | Marshal#%d is the last touch", n), c.Pos(), "no message field is written after the message was marshalled", "field "+what+" of the message is written after the message was marshalled: the bytes sent downstream keep the old value (e.g. the unmapped source names) while the pack in memory says otherwise")
	})
	if n == 0 {
		r.Undecided("C07-R7", "(*ChannelWriter).HandleReplicateMessage | Marshal", fn.Pos(), "no Marshal call found")
	}
}
