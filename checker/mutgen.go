package main

// Mutant generator (development / thorough-tier self-assessment aid, never part of a verdict).
//
// `vcheck -mutgen <file>[,<file>...] -mutout <dir>` writes, for each listed repository source file, one complete variant
// of the file per AST-directed mutation (negated condition, deleted statement, flipped relational operator, error
// swallowed at a return, swapped same-typed arguments) and an index.json. A driver (tools/mutsweep.py) analyses each
// variant through VERIF_OVERLAY — nothing is written into /repo — and reports which rules notice it.

import (
	"bytes"
	"encoding/json"
	"fmt"
	"go/ast"
	"go/printer"
	"go/token"
	"go/types"
	"os"
	"path/filepath"
	"strings"

	"golang.org/x/tools/go/packages"
)

type mutant struct {
	ID   string `json:"id"`
	File string `json:"file"`
	Func string `json:"func"`
	Line int    `json:"line"`
	Op   string `json:"op"`
	What string `json:"what"`
	Path string `json:"path"`
}

func runMutgen(w *World, files string, outDir string) error {
	os.MkdirAll(outDir, 0o755)
	var all []mutant
	for _, rel := range strings.Split(files, ",") {
		rel = strings.TrimSpace(rel)
		if rel == "" {
			continue
		}
		abs := filepath.Join(w.RepoRoot, rel)
		var pkg *packages.Package
		var file *ast.File
		for _, p := range w.Pkgs {
			for i, f := range p.CompiledGoFiles {
				if f == abs && i < len(p.Syntax) {
					pkg, file = p, p.Syntax[i]
				}
			}
		}
		if file == nil {
			return fmt.Errorf("file %s not among the loaded packages", rel)
		}
		src, err := os.ReadFile(abs)
		if err != nil {
			return err
		}
		ms := mutateFile(w, pkg, file, src, rel)
		for i := range ms {
			ms[i].ID = fmt.Sprintf("%s-%04d", strings.NewReplacer("/", "_", ".go", "").Replace(rel), i)
			ms[i].Path = filepath.Join(outDir, ms[i].ID+".go")
		}
		all = append(all, ms...)
	}
	if err := writeMutants(all); err != nil {
		return err
	}
	b, _ := json.MarshalIndent(all, "", " ")
	return os.WriteFile(filepath.Join(outDir, "index.json"), b, 0o644)
}

type edit struct {
	start, end int
	text       string
	op, what   string
	pos        token.Pos
}

func isLogOrMetric(info *types.Info, call *ast.CallExpr) bool {
	var id *ast.Ident
	switch f := call.Fun.(type) {
	case *ast.SelectorExpr:
		id = f.Sel
		// log.X(...) / metrics.X.WithLabelValues(...).Inc()
		s := exprText(call.Fun)
		if strings.HasPrefix(s, "log.") || strings.HasPrefix(s, "metrics.") || strings.Contains(s, "Logger") {
			return true
		}
	case *ast.Ident:
		id = f
	}
	if id != nil {
		if o, ok := info.Uses[id].(*types.Func); ok && o.Pkg() != nil {
			p := o.Pkg().Path()
			if strings.HasSuffix(p, "/log") || strings.Contains(p, "zap") || strings.Contains(p, "prometheus") || strings.HasSuffix(p, "/metrics") {
				return true
			}
		}
	}
	return false
}

func exprText(e ast.Node) string {
	var b bytes.Buffer
	printer.Fprint(&b, token.NewFileSet(), e)
	return b.String()
}

func mutateFile(w *World, pkg *packages.Package, file *ast.File, src []byte, rel string) []mutant {
	fset := pkg.Fset
	tf := fset.File(file.Pos())
	off := func(p token.Pos) int { return tf.Offset(p) }
	text := func(n ast.Node) string { return string(src[off(n.Pos()):off(n.End())]) }
	info := pkg.TypesInfo
	var edits []edit
	add := func(n ast.Node, repl, op, what string) {
		edits = append(edits, edit{off(n.Pos()), off(n.End()), repl, op, what, n.Pos()})
	}
	errType := types.Universe.Lookup("error").Type()
	var funcOf = map[int]string{}
	for _, d := range file.Decls {
		fd, ok := d.(*ast.FuncDecl)
		if !ok || fd.Body == nil {
			continue
		}
		name := fd.Name.Name
		if fd.Recv != nil && len(fd.Recv.List) > 0 {
			name = "(" + strings.TrimPrefix(exprText(fd.Recv.List[0].Type), "*") + ")." + name
		}
		start := len(edits)
		ast.Inspect(fd.Body, func(n ast.Node) bool {
			switch x := n.(type) {
			case *ast.IfStmt:
				add(x.Cond, "!("+text(x.Cond)+")", "cond-negate", text(x.Cond))
			case *ast.ExprStmt:
				if c, ok := x.X.(*ast.CallExpr); ok {
					if isLogOrMetric(info, c) {
						return false
					}
					add(x, "", "stmt-delete", firstLine(text(x)))
				}
			case *ast.AssignStmt:
				if x.Tok != token.DEFINE {
					add(x, "", "stmt-delete", firstLine(text(x)))
				}
			case *ast.IncDecStmt, *ast.SendStmt, *ast.GoStmt, *ast.DeferStmt:
				add(x, "", "stmt-delete", firstLine(text(x)))
			case *ast.BranchStmt:
				if x.Tok == token.CONTINUE || x.Tok == token.BREAK {
					add(x, "", "stmt-delete", text(x))
				}
			case *ast.ReturnStmt:
				if len(x.Results) == 0 {
					add(x, "", "stmt-delete", "return")
				} else {
					last := x.Results[len(x.Results)-1]
					if tv, ok := info.Types[last]; ok && tv.Type != nil && types.Identical(tv.Type, errType) && !tv.IsNil() {
						if _, isCall := last.(*ast.CallExpr); !isCall || len(x.Results) > 1 {
							add(last, "nil", "return-nil-error", firstLine(text(x)))
						}
					}
				}
			case *ast.BinaryExpr:
				flip := map[token.Token]string{token.LSS: "<=", token.LEQ: "<", token.GTR: ">=", token.GEQ: ">", token.EQL: "!=", token.NEQ: "=="}
				if r, ok := flip[x.Op]; ok {
					// skip nil comparisons of errors for ==/!= (covered by cond-negate)
					if (x.Op == token.EQL || x.Op == token.NEQ) && (exprText(x.Y) == "nil" || exprText(x.X) == "nil") {
						return true
					}
					edits = append(edits, edit{off(x.OpPos), off(x.OpPos) + len(x.Op.String()), r, "relop", text(x), x.Pos()})
				}
			case *ast.CallExpr:
				if isLogOrMetric(info, x) {
					return false
				}
				for i := 0; i+1 < len(x.Args); i++ {
					a, b := x.Args[i], x.Args[i+1]
					ta, tb := info.Types[a], info.Types[b]
					if ta.Type == nil || tb.Type == nil || !types.Identical(ta.Type, tb.Type) {
						continue
					}
					if text(a) == text(b) || ta.Value != nil && tb.Value != nil {
						continue
					}
					edits = append(edits, edit{off(a.Pos()), off(b.End()), text(b) + string(src[off(a.End()):off(b.Pos())]) + text(a), "arg-swap", firstLine(text(x)), x.Pos()})
				}
			}
			return true
		})
		for i := start; i < len(edits); i++ {
			funcOf[i] = name
		}
	}
	var out []mutant
	for i, e := range edits {
		out = append(out, mutant{File: rel, Func: funcOf[i], Line: fset.Position(e.pos).Line, Op: e.op, What: e.what})
	}
	// write variants lazily by the caller: we need IDs first, so return edits through a side channel
	pendingEdits[rel] = pendingFile{src: src, edits: edits}
	return out
}

type pendingFile struct {
	src   []byte
	edits []edit
}

var pendingEdits = map[string]pendingFile{}

func firstLine(s string) string {
	if i := strings.IndexByte(s, '\n'); i >= 0 {
		s = s[:i] + " …"
	}
	if len(s) > 140 {
		s = s[:140]
	}
	return s
}

func writeMutants(ms []mutant) error {
	idx := map[string]int{}
	for _, m := range ms {
		pf := pendingEdits[m.File]
		i := idx[m.File]
		idx[m.File]++
		e := pf.edits[i]
		var b bytes.Buffer
		b.Write(pf.src[:e.start])
		b.WriteString(e.text)
		b.Write(pf.src[e.end:])
		if err := os.WriteFile(m.Path, b.Bytes(), 0o644); err != nil {
			return err
		}
	}
	return nil
}

// printAnchorFuncs lists, per property, the function declarations overlapping the file:line ranges named in the
// property's mechanism anchors (run against the snapshot the ranges were written for).
func printAnchorFuncs(w *World, propsPath string) error {
	data, err := os.ReadFile(propsPath)
	if err != nil {
		return err
	}
	out := map[string][]string{}
	for _, line := range strings.Split(string(data), "\n") {
		if strings.TrimSpace(line) == "" {
			continue
		}
		var p struct {
			ID      string `json:"id"`
			Anchors struct {
				Mechanism []struct {
					Where string `json:"where"`
				} `json:"mechanism"`
			} `json:"anchors"`
		}
		if err := json.Unmarshal([]byte(line), &p); err != nil {
			return err
		}
		seen := map[string]bool{}
		for _, m := range p.Anchors.Mechanism {
			for _, part := range strings.Split(m.Where, ";") {
				part = strings.TrimSpace(part)
				i := strings.Index(part, ":")
				if i < 0 {
					continue
				}
				file, ranges := part[:i], part[i+1:]
				abs := filepath.Join(w.RepoRoot, file)
				for _, rg := range strings.Split(ranges, ",") {
					var a, b int
					if n, _ := fmt.Sscanf(rg, "%d-%d", &a, &b); n < 2 {
						fmt.Sscanf(rg, "%d", &a)
						b = a
					}
					for _, pk := range w.Pkgs {
						for fi, f := range pk.CompiledGoFiles {
							if f != abs || fi >= len(pk.Syntax) {
								continue
							}
							for _, d := range pk.Syntax[fi].Decls {
								fd, ok := d.(*ast.FuncDecl)
								if !ok || fd.Body == nil {
									continue
								}
								s, e := pk.Fset.Position(fd.Pos()).Line, pk.Fset.Position(fd.End()).Line
								if s <= b && e >= a {
									di, obj := declOf(pk, fd)
									if obj != nil && !seen[di.key()] {
										seen[di.key()] = true
										out[p.ID] = append(out[p.ID], di.pkg+"\t"+di.recv+"\t"+di.name)
									}
								}
							}
						}
					}
				}
			}
		}
	}
	b, _ := json.MarshalIndent(out, "", " ")
	fmt.Println(string(b))
	return nil
}
