package main

import (
	"fmt"
	"go/types"
	"sort"
	"strings"

	"golang.org/x/tools/go/ssa"
)

func init() {
	register("C10", &propDef{run: runC10,
		explain: "Exclusivity over all reachable bookkeeping states is NOT decided. Decided structural necessary conditions of 'a source collection is replicated by at most one task per target': (R1) every bookkeeping table that checkDuplicateCollection both reads for its decision and writes when it reserves is given back by the revert closure of Create, by delete, and rebuilt by ReloadTask; the revert is registered right after a successful reserve so that every later failure of Create passes through it; (R2) rejects come before the reserve: in checkDuplicateCollection no error return is reachable after a bookkeeping write; (R3) every access to the four bookkeeping tables holds the collectionNames lock (ReloadTask, which runs before the server listens, is the one allow-listed exception); (R4) the stream path (ShouldReadFunc) and the DDL-message path (dataHandleFunc) select through the same two functions GetCollectionInfos and GetMatchCollectionInfo; (R5) the rebuild combines the user-role owner flag with the same operator (OR) as the reserve.",
		notDec:  []string{"that the overlap predicate itself (matchCollectionName over all specification shapes) implies exclusivity", "histories of create/delete requests"},
	})
}

var c10Tables = []string{"data", "excludeData", "extraInfos", "nameMapping"}

// c10Access classifies instructions touching e.collectionNames.<table>.
func c10Access(w *World, in ssa.Instruction) (table string, write bool) {
	var m ssa.Value
	switch x := in.(type) {
	case *ssa.MapUpdate:
		m, write = x.Map, true
	case *ssa.Lookup:
		m = x.X
	case *ssa.Range:
		m = x.X
	case *ssa.Call:
		if b, ok := x.Call.Value.(*ssa.Builtin); ok && b.Name() == "delete" {
			m, write = x.Call.Args[0], true
		}
	}
	if m == nil {
		return "", false
	}
	ap := w.accessPath(m)
	for _, t := range c10Tables {
		if strings.HasSuffix(ap, ".collectionNames."+t) {
			return t, write
		}
	}
	return "", false
}

func runC10(w *World, r *Report) {
	r.Rule("C10-R1", "reserve / revert / delete / reload symmetry", "each table read and written by checkDuplicateCollection is written by Create's revert closure, by delete and by ReloadTask; the revert closure is deferred under err != nil directly after the successful reserve", 10)
	r.Rule("C10-R2", "reject before reserve", "in checkDuplicateCollection no error return is reachable from a bookkeeping write", 1)
	r.Rule("C10-R3", "lock discipline", "every read or write of collectionNames.{data,excludeData,extraInfos,nameMapping} holds the collectionNames lock (write lock for writes); ReloadTask is allow-listed (runs before ListenAndServe)", 15)
	r.Rule("C10-R4", "one selection predicate", "GetShouldReadFunc's closure and getChannelReader's dataHandleFunc both call GetCollectionInfos and reach GetMatchCollectionInfo", 4)
	r.Rule("C10-R5", "rebuild uses the reserve combinator", "ReloadTask stores extraInfos[uKey].EnableUserRole = existing || task's flag, as checkDuplicateCollection does", 1)

	r.Rule("C10-R7", "bookkeeping read-modify-write is atomic", "a value written into collectionNames.{data,excludeData,extraInfos,nameMapping} that derives from a read of the same table was read in the same function under the same lock span as the write (same analysis as C19-R8)", 4)
	c19AtomicRMW(w, r, "C10-R7")
	c10OneCriticalSection(w, r, "C10-R8")
	c10ReloadRegistersAll(w, r)
	c10SiblingKeys(w, r)
	c10KeyVerbatim(w, r, "C10-R11")
	// "the bookkeeping after delete ... equals what the remaining tasks imply": ownership is released only when the
	// persisted deletion really happened (C11-R8), and the deletion commits or fails as a whole (C12-R3)
	defer r.importRules(runC11, "C10-", map[string]bool{"C11-R8": true})
	defer r.importRules(runC12, "C10-", map[string]bool{"C12-R3": true})

	cd := w.Func(pkgServer, "MetaCDC", "checkDuplicateCollection")
	cr := w.Func(pkgServer, "MetaCDC", "Create")
	del := w.Func(pkgServer, "MetaCDC", "delete")
	rl := w.Func(pkgServer, "MetaCDC", "ReloadTask")
	if cd == nil || cr == nil || del == nil || rl == nil {
		r.Undecided("C10-R1", "anchors", 0, "checkDuplicateCollection / Create / delete / ReloadTask not found")
		return
	}
	reads, writes := map[string]bool{}, map[string]bool{}
	eachInstrDeep(cd, func(_ *ssa.Function, in ssa.Instruction) {
		if t, wr := c10Access(w, in); t != "" {
			if wr {
				writes[t] = true
			} else if v, isV := in.(ssa.Value); isV && !onlyWriteThrough(v, 0) {
				reads[t] = true
			}
		}
	})
	var decision []string
	for _, t := range c10Tables {
		if reads[t] && writes[t] {
			decision = append(decision, t)
		}
	}
	sort.Strings(decision)
	r.Extra["decision_state_tables"] = decision
	if len(decision) < 3 {
		r.Fail("C10-R1", "checkDuplicateCollection | decision state", cd.Pos(), fmt.Sprintf("only %v are both read and written (data, excludeData, extraInfos confirmed)", decision))
	}
	writesOf := func(fn *ssa.Function, deep bool) map[string]bool {
		out := map[string]bool{}
		visit := func(_ *ssa.Function, in ssa.Instruction) {
			if t, wr := c10Access(w, in); t != "" && wr {
				out[t] = true
			}
		}
		if deep {
			eachInstrDeep(fn, visit)
		} else {
			eachInstr(fn, func(in ssa.Instruction) { visit(fn, in) })
		}
		return out
	}
	// the revert closure: the literal in Create that writes `data`
	var revert *ssa.Function
	for _, g := range cr.AnonFuncs {
		if writesOf(g, false)["data"] {
			revert = g
		}
	}
	for _, t := range decision {
		if revert == nil {
			r.Fail("C10-R1", "(*MetaCDC).Create | revert gives back "+t, cr.Pos(), "no revert closure found in Create")
		} else {
			r.Check(writesOf(revert, false)[t], "C10-R1", "(*MetaCDC).Create | revert gives back "+t, revert.Pos(), "written by the revert closure", "after a failed create the reservation in "+t+" stays: the next request that needs it is rejected (or accepted) wrongly")
		}
		r.Check(writesOf(del, false)[t], "C10-R1", "(*MetaCDC).delete | releases "+t, del.Pos(), "written by delete", "deleting a task leaves its reservation in "+t+" behind")
		r.Check(writesOf(rl, false)[t], "C10-R1", "(*MetaCDC).ReloadTask | rebuilds "+t, rl.Pos(), "rebuilt at reload", "after a restart "+t+" does not reflect the persisted tasks")
	}
	// revert registered right after the reserve
	if revert != nil {
		var reserve *ssa.Call
		eachInstr(cr, func(in ssa.Instruction) {
			if c, ok := in.(*ssa.Call); ok && callSym(c.Common()).name == "checkDuplicateCollection" {
				reserve = c
			}
		})
		okReg := false
		det := "no deferred call of the revert closure (under err != nil) follows the reserve"
		if reserve != nil {
			eachInstr(cr, func(in ssa.Instruction) {
				d, ok := in.(*ssa.Defer)
				if !ok || !instrDominates(reserve, d) {
					return
				}
				mc, isMC := d.Call.Value.(*ssa.MakeClosure)
				if !isMC {
					return
				}
				calls := false
				eachInstr(mc.Fn.(*ssa.Function), func(x ssa.Instruction) {
					if c, isC := x.(*ssa.Call); isC {
						fam := familyOf(cr)
						for _, v := range backSlice(c.Call.Value, SliceOpts{MaxDepth: 4}) {
							if m2, isM := v.(*ssa.MakeClosure); isM && m2.Fn == ssa.Value(revert) {
								calls = true
							}
							_ = fam
						}
					}
				})
				if !calls {
					return
				}
				// the deferred literal decides on the function's NAMED error result: only then does every `return …, e`
				// reach it. A local `var err error` that some return paths never assign leaves their reservations behind.
				resName := ""
				if rs := cr.Signature.Results(); rs != nil && rs.Len() > 0 {
					resName = rs.At(rs.Len() - 1).Name()
				}
				onResult := false
				lit := mc.Fn.(*ssa.Function)
				for _, b := range lit.Blocks {
					v, _, _, isT := errNilTest(b)
					if !isT {
						continue
					}
					if ld, isLd := v.(*ssa.UnOp); isLd {
						if al, isAl := familyOf(cr).canon(ld.X).(*ssa.Alloc); isAl && resName != "" && al.Comment == resName {
							onResult = true
						}
					}
				}
				r.Check(onResult, "C10-R1", "(*MetaCDC).Create | revert decides on the named error result", d.Pos(), "tests the result variable "+resName, "the deferred revert tests a variable that is not Create's named error result: an error returned directly (`return nil, NewClientError(…)`) does not pass through it, so a rejected request keeps its names, exclusions and user-role flag registered")
				// no error return between reserve success and the defer
				bad := false
				eachInstr(cr, func(x ssa.Instruction) {
					ret, isR := x.(*ssa.Return)
					if !isR || !instrReaches(reserve, ret) || instrReaches(d, ret) {
						return
					}
					// returns on the reserve's own error edge are fine (nothing was reserved)
					if errEdgeOf(reserve, ret) {
						return
					}
					if len(ret.Results) == 2 && !isNilConst(returnedValue(ret, 1)) {
						bad = true
					}
				})
				if !bad {
					okReg = true
				} else {
					det = "an error return lies between the successful reserve and the registration of the revert"
				}
			})
		}
		r.Check(okReg, "C10-R1", "(*MetaCDC).Create | revert registered right after the reserve", cr.Pos(), "deferred revert dominates every later return", det)
	}

	// ---------- R2
	{
		bad := false
		var where ssa.Instruction
		eachInstr(cd, func(in ssa.Instruction) {
			if t, wr := c10Access(w, in); t == "" || !wr {
				return
			}
			eachInstr(cd, func(x ssa.Instruction) {
				ret, isR := x.(*ssa.Return)
				if !isR || ret.Block().Comment == "recover" || !instrReaches(in, ret) {
					return
				}
				if v := returnedValue(ret, 1); v != nil && !isNilConst(v) {
					bad, where = true, ret
				}
			})
		})
		pos := cd.Pos()
		if where != nil {
			pos = where.Pos()
		}
		r.Check(!bad, "C10-R2", "(*MetaCDC).checkDuplicateCollection | reject before reserve", pos, "no error return after a bookkeeping write", "a request can be rejected after part of its reservation was already written: the reject is not side-effect free")
	}

	// ---------- R3
	n3 := map[string]int{}
	for _, fn := range w.RepoFuncs() {
		if fn.Pkg.Pkg.Path() != pkgServer {
			continue
		}
		host := shortFn2(fn)
		eachInstr(fn, func(in ssa.Instruction) {
			t, wr := c10Access(w, in)
			if t == "" {
				return
			}
			n3[host+t]++
			cons := fmt.Sprintf("%s | collectionNames.%s access#%d", host, t, n3[host+t])
			if fnSym(rootFunc(fn)).name == "ReloadTask" || fnSym(rootFunc(fn)).name == "NewMetaCDC" {
				r.OK("C10-R3", cons, in.Pos(), "allow-listed: runs before the HTTP server starts, single goroutine")
				return
			}
			mode := ""
			if wr {
				mode = "W"
			}
			held := w.locksHeldAt(in)
			r.Check(heldSuffix(held, ".collectionNames", mode), "C10-R3", cons, in.Pos(), "collectionNames lock held", "bookkeeping table "+t+" is accessed without the collectionNames lock: two concurrent creates can both pass the overlap check")
		})
	}

	// ---------- R4
	reach := func(fn *ssa.Function, name string) bool {
		seen := map[*ssa.Function]bool{}
		var walk func(f *ssa.Function, d int) bool
		walk = func(f *ssa.Function, d int) bool {
			if f == nil || seen[f] || d > 4 {
				return false
			}
			seen[f] = true
			found := false
			eachInstr(f, func(in ssa.Instruction) {
				if c, ok := in.(*ssa.Call); ok {
					if s := callSym(c.Common()); s.pkg == pkgServer && s.name == name {
						found = true
					} else if cal := c.Call.StaticCallee(); cal != nil && cal.Pkg != nil && cal.Pkg.Pkg.Path() == pkgServer {
						if walk(cal, d+1) {
							found = true
						}
					}
				}
			})
			return found
		}
		return walk(fn, 0)
	}
	var srf, dhf *ssa.Function
	if g := w.Func(pkgServer, "", "GetShouldReadFunc"); g != nil && len(g.AnonFuncs) > 0 {
		srf = g.AnonFuncs[0]
	}
	if g := w.Func(pkgServer, "MetaCDC", "getChannelReader"); g != nil {
		for _, a := range g.AnonFuncs {
			if reach(a, "GetCollectionInfos") {
				dhf = a
			}
		}
	}
	for _, spec := range []struct {
		fn   *ssa.Function
		name string
	}{{srf, "stream path (ShouldReadFunc)"}, {dhf, "DDL-message path (dataHandleFunc)"}} {
		for _, callee := range []string{"GetCollectionInfos", "GetMatchCollectionInfo"} {
			cons := spec.name + " | decides through " + callee
			if spec.fn == nil {
				r.Fail("C10-R4", cons, 0, "selection closure not found")
				continue
			}
			r.Check(reach(spec.fn, callee), "C10-R4", cons, spec.fn.Pos(), "reaches "+callee, "this path does not select through "+callee+": the data path and the DDL path can disagree about which task owns a collection")
		}
	}

	// ---------- R6 exclusions are interpreted with the matcher that produced them
	r.Rule("C10-R6", "exclusions are matched like they were computed", "the reserve side records exclusions as `db.collection` or `db.*`; in GetMatchCollectionInfo the whole-database selection tests every entry of taskInfo.ExcludeCollections through matchCollectionName (the wildcard-aware matcher checkDuplicateCollection uses), and the selected info is returned only when no entry matches", 1)
	if gm := w.Func(pkgServer, "", "GetMatchCollectionInfo"); gm == nil {
		r.Undecided("C10-R6", "GetMatchCollectionInfo", 0, "anchor not found")
	} else {
		viaMatcher, overExcl := false, false
		for _, g := range familyOf(gm).Funcs {
			eachInstr(g, func(in ssa.Instruction) {
				c, ok := in.(*ssa.Call)
				if !ok {
					return
				}
				s := callSym(c.Common())
				if s.name == "matchCollectionName" && s.pkg == pkgServer {
					// first argument is the exclusion entry: the literal's own parameter or an element of ExcludeCollections
					a0 := callArgs(c.Common())[0]
					if p, isP := a0.(*ssa.Parameter); isP && g.Parent() != nil && len(g.Params) > 0 && p == g.Params[0] {
						viaMatcher = true
					}
					if strings.Contains(w.accessPath(a0), "ExcludeCollections") {
						viaMatcher = true
					}
				}
				for _, a := range callArgs(c.Common()) {
					if strings.HasSuffix(w.accessPath(a), ".ExcludeCollections") {
						overExcl = true
					}
				}
			})
			eachInstr(g, func(in ssa.Instruction) {
				if rg, ok := in.(*ssa.Range); ok && strings.HasSuffix(w.accessPath(rg.X), ".ExcludeCollections") {
					overExcl = true
				}
			})
		}
		r.Check(viaMatcher && overExcl, "C10-R6", "GetMatchCollectionInfo | exclusion test", gm.Pos(), "every exclusion entry goes through matchCollectionName", "the whole-database selection does not test the task's exclusions through matchCollectionName: a `db.*` exclusion (recorded when another task owns the whole database) matches no concrete collection, so both tasks select the collections of that database")
	}

	// ---------- R5
	{
		ok := false
		eachInstr(rl, func(in ssa.Instruction) {
			mu, isMU := in.(*ssa.MapUpdate)
			if !isMU {
				return
			}
			if t, _ := c10Access(w, in); t != "extraInfos" {
				return
			}
			// value struct: EnableUserRole field stored from a phi/|| of existing lookup and the task's flag
			fam := familyOf(rl)
			var val ssa.Value = mu.Value
			if u, isU := val.(*ssa.UnOp); isU {
				if al, isAl := u.X.(*ssa.Alloc); isAl {
					for _, fs := range fieldStoresOn(fam, al) {
						if fs.Field != nil && fs.Field.Name() == "EnableUserRole" {
							val = fs.Val
						}
					}
				}
			}
			fromExisting, fromTask := false, false
			// `a || b` is a phi whose constant-true edge is controlled by a
			if ph, isPh := val.(*ssa.Phi); isPh {
				for i, e := range ph.Edges {
					if c, isC := e.(*ssa.Const); isC && c.Value != nil && c.Value.ExactString() == "true" && i < len(ph.Block().Preds) {
						if cond, _, _, isIf := ifSuccs(ph.Block().Preds[i]); isIf {
							for _, v := range backSlice(cond, SliceOpts{MaxDepth: 8}) {
								if strings.Contains(w.accessPath(v), ".collectionNames.extraInfos[]") {
									fromExisting = true
								}
							}
						}
					}
				}
			}
			for _, v := range backSlice(val, SliceOpts{MaxDepth: 8}) {
				ap := w.accessPath(v)
				if strings.Contains(ap, ".collectionNames.extraInfos[]") {
					fromExisting = true
				}
				if strings.HasSuffix(ap, ".ExtraInfo.EnableUserRole") || strings.HasSuffix(ap, ".ExtraInfo") {
					fromTask = true
				}
			}
			if fromExisting && fromTask {
				ok = true
			}
		})
		r.Check(ok, "C10-R5", "(*MetaCDC).ReloadTask | user-role flag combined with OR", rl.Pos(), "existing || task flag", "ReloadTask overwrites the user-role owner flag with the last listed task's value: after a restart a second user-role task can be accepted (or the owner forgotten)")
	}
	_ = types.Identical
}

// errEdgeOf: ret lies on the `err != nil` branch of the call's own error result.
func errEdgeOf(c *ssa.Call, ret *ssa.Return) bool {
	errv := extractIdx(c, 1)
	if errv == nil {
		return false
	}
	fn := c.Parent()
	for _, b := range fn.Blocks {
		cond, t, _, ok := ifSuccs(b)
		if !ok {
			continue
		}
		bo, isB := cond.(*ssa.BinOp)
		if !isB || !isNilConst(bo.Y) {
			continue
		}
		same := bo.X == errv
		if !same {
			for _, v := range backSlice(bo.X, SliceOpts{MaxDepth: 4}) {
				if v == errv {
					same = true
				}
			}
		}
		if same && (t == ret.Block() || t.Dominates(ret.Block())) {
			return true
		}
	}
	return false
}

// onlyWriteThrough: a looked-up map value that is only compared with nil, re-stored, or used as the map operand
// of a MapUpdate is not a decision input.
func onlyWriteThrough(v ssa.Value, d int) bool {
	if d > 4 || v.Referrers() == nil {
		return false
	}
	for _, ref := range *v.Referrers() {
		switch x := ref.(type) {
		case *ssa.MapUpdate:
			if x.Map != v {
				return false
			}
		case *ssa.BinOp:
			if !(isNilConst(x.X) || isNilConst(x.Y)) {
				return false
			}
		case *ssa.Phi:
			if !onlyWriteThrough(x, d+1) {
				return false
			}
		case *ssa.Extract:
			if !onlyWriteThrough(x, d+1) {
				return false
			}
		case *ssa.DebugRef:
		case *ssa.Call:
			// maps.Copy(dst, src): dst is only written
			if cs := callSym(x.Common()); !(cs.pkg == "maps" && cs.name == "Copy" && len(x.Call.Args) == 2 && x.Call.Args[0] == v) {
				return false
			}
		default:
			return false
		}
	}
	return true
}

// c10OneCriticalSection (C10-R8, shared with C19): the overlap scan and the reservation of checkDuplicateCollection are
// one critical section. Two creates for the same collection are only serialised when the scan that finds "nobody owns
// it" and the write that records the new owner cannot be separated by another request.
func c10OneCriticalSection(w *World, r *Report, rule string) {
	r.Rule(rule, "check and reserve in one critical section", "checkDuplicateCollection (with the helpers it was split into) acquires the collectionNames lock exactly once, in write mode, before its first read of the bookkeeping tables, and does not release it before the last write", 1)
	cd := w.Func(pkgServer, "MetaCDC", "checkDuplicateCollection")
	if cd == nil {
		r.Undecided(rule, "(*MetaCDC).checkDuplicateCollection", 0, "anchor not found")
		return
	}
	var acq []*ssa.Call
	var mode []string
	var explicitRel []*ssa.Call
	for _, g := range familyOf(cd).Funcs {
		eachInstr(g, func(in ssa.Instruction) {
			switch x := in.(type) {
			case *ssa.Call:
				s := callSym(x.Common())
				rc := callRecv(x.Common())
				if rc == nil || !strings.HasSuffix(w.accessPath(rc), ".collectionNames") && !strings.Contains(w.accessPath(rc), ".collectionNames.") {
					return
				}
				switch s.name {
				case "Lock", "RLock":
					acq = append(acq, x)
					mode = append(mode, s.name)
				case "Unlock", "RUnlock":
					explicitRel = append(explicitRel, x)
				}
			}
		})
	}
	cons := "(*MetaCDC).checkDuplicateCollection | collectionNames lock"
	switch {
	case len(acq) == 0:
		r.Fail(rule, cons, cd.Pos(), "the collectionNames lock is not taken in checkDuplicateCollection")
	case len(acq) > 1:
		r.Fail(rule, cons, acq[1].Pos(), fmt.Sprintf("the collectionNames lock is taken %d times (%s): the overlap scan and the reservation are separate critical sections, two concurrent creates for the same collection (or two enable_user_role requests) both pass the scan and both register", len(acq), strings.Join(mode, ", ")))
	case mode[0] != "Lock":
		r.Fail(rule, cons, acq[0].Pos(), "the only acquisition is a read lock: the reservation is written without exclusion")
	case len(explicitRel) > 0:
		// an explicit unlock is fine only on paths that leave the function right away (reject paths)
		bad := false
		for _, u := range explicitRel {
			for b := range blockReach(u.Block(), nil) {
				for _, in := range b.Instrs {
					if mu, ok := in.(*ssa.MapUpdate); ok && strings.Contains(w.accessPath(mu.Map), ".collectionNames.") {
						bad = true
					}
				}
			}
		}
		r.Check(!bad, rule, cons, acq[0].Pos(), "one write-lock span; explicit unlocks only on paths that write nothing afterwards", "the lock is released before a later write of the bookkeeping tables")
	default:
		r.OK(rule, cons, acq[0].Pos(), "one write-lock acquisition, released at exit")
	}
}

// c10ReloadRegistersAll (C10-R9): after a restart the bookkeeping equals what ALL persisted tasks imply, also the paused
// and the not auto-started ones.
func c10ReloadRegistersAll(w *World, r *Report) {
	r.Rule("C10-R9", "reload registers every listed task", "in ReloadTask's loop over the persisted tasks the updates of collectionNames.data, excludeData and extraInfos lie on every path through one iteration (no `continue` — disabled auto start, failed start — bypasses them)", 3)
	fn := w.Func(pkgServer, "MetaCDC", "ReloadTask")
	if fn == nil {
		r.Undecided("C10-R9", "(*MetaCDC).ReloadTask", 0, "anchor not found")
		return
	}
	seen := map[string]bool{}
	eachInstr(fn, func(in ssa.Instruction) {
		mu, ok := in.(*ssa.MapUpdate)
		if !ok {
			return
		}
		ap := strings.TrimSuffix(w.accessPath(mu.Map), "[]")
		i := strings.Index(ap, ".collectionNames.")
		if i < 0 {
			return
		}
		table := ap[i+len(".collectionNames."):]
		if table != "data" && table != "excludeData" && table != "extraInfos" {
			return
		}
		h := loopHeaderOf(mu.Block())
		if h == nil {
			r.Fail("C10-R9", "(*MetaCDC).ReloadTask | "+table+" registered per task", mu.Pos(), "the update is not inside the loop over the persisted tasks")
			seen[table] = true
			return
		}
		ok2 := true
		for _, p := range h.Preds {
			if (h == p || h.Dominates(p)) && !(mu.Block() == p || mu.Block().Dominates(p)) {
				ok2 = false
			}
		}
		if seen[table] && ok2 {
			return
		}
		if !ok2 {
			// another update of the same table may cover the iteration
			for _, b := range fn.Blocks {
				for _, in2 := range b.Instrs {
					if mu2, isMu := in2.(*ssa.MapUpdate); isMu && mu2 != mu && strings.HasSuffix(strings.TrimSuffix(w.accessPath(mu2.Map), "[]"), ".collectionNames."+table) {
						all := true
						for _, p := range h.Preds {
							if (h == p || h.Dominates(p)) && !(b == p || b.Dominates(p)) {
								all = false
							}
						}
						if all {
							ok2 = true
						}
					}
				}
			}
		}
		seen[table] = true
		r.Check(ok2, "C10-R9", "(*MetaCDC).ReloadTask | "+table+" registered for every listed task", mu.Pos(), "on every path through one iteration", "an iteration can end (continue) without this update: a persisted task that is not started at reload (disable_auto_start, failed start) owns nothing in the bookkeeping, so an overlapping create is accepted and, once the task is resumed, two tasks replicate the same collection")
	})
	for _, t := range []string{"data", "excludeData", "extraInfos"} {
		if !seen[t] {
			r.Fail("C10-R9", "(*MetaCDC).ReloadTask | "+t+" registered for every listed task", fn.Pos(), "ReloadTask does not update collectionNames."+t)
		}
	}
}

// c10SiblingKeys (C10-R10): the per-target key of the bookkeeping is computed by two sibling functions, one from the
// create request and one from the persisted task; create, delete and reload only meet in the same table entry when
// both apply the same functions to the same connect parameters.
func c10SiblingKeys(w *World, r *Report) {
	r.Rule("C10-R10", "sibling key functions agree", "getTaskUniqueIDFromReq and getTaskUniqueIDFromInfo return the result of the same functions applied to the Milvus / Kafka connect parameters (same set of callees on the way to the returned key)", 1)
	a, b := w.Func(pkgServer, "", "getTaskUniqueIDFromReq"), w.Func(pkgServer, "", "getTaskUniqueIDFromInfo")
	if a == nil || b == nil {
		r.Undecided("C10-R10", "getTaskUniqueIDFrom{Req,Info}", 0, "anchor not found")
		return
	}
	callees := func(fn *ssa.Function) []string {
		set := map[string]bool{}
		eachInstr(fn, func(in ssa.Instruction) {
			ret, ok := in.(*ssa.Return)
			if !ok {
				return
			}
			for _, res := range ret.Results {
				for _, x := range backSlice(res, SliceOpts{MaxDepth: 10, ThroughArg: func(c *ssa.CallCommon) []ssa.Value { return callArgs(c) }}) {
					if c, isC := x.(*ssa.Call); isC {
						if n := calleeName(w, c.Common()); !strings.HasPrefix(n, "dyn:") {
							set[n] = true
						}
					}
				}
			}
		})
		return sortedKeys(set)
	}
	ca, cb := callees(a), callees(b)
	r.Check(eqSet(ca, cb), "C10-R10", "getTaskUniqueIDFromReq ~ getTaskUniqueIDFromInfo", a.Pos(), "both keys are "+strings.Join(ca, ", ")+" of the connect parameters", fmt.Sprintf("the key computed from a create request goes through %v, the key computed from a persisted task through %v: for an address the extra step changes, create checks one table entry while reload and delete use another (a duplicate create is accepted after a restart; a deleted task's names stay registered)", ca, cb))
}
