package main

import (
	"fmt"
	"go/token"
	"go/types"
	"strings"

	"golang.org/x/tools/go/ssa"
)

func init() {
	register("C05", &propDef{run: runC05,
		explain: "What the next incarnation re-reads after a crash at an arbitrary point is a statement about histories and is NOT decided. Decided structural necessary conditions: (R1) a checkpoint value only exists after an acknowledged write: every PositionInfo handed to UpdateTaskCollectionPosition is built from result 0/1 of the downstream write of the same function on the edge where its error is nil, or from the source catalog's declared start positions; (R2) on any write/store error the failing item's task is paused and the loop is left without persisting (shared with C06-R5); (R3) entries of a dropped collection are frozen (shared with C12-R4); (R4) checkpoint -> seek chain: the seek position of a channel is built from that channel's own stored entry (message id, channel name and time all from the same map entry), stored under the record's collection id, handed to the collection reader, looked up by the collection's id, selected by channel name and passed unchanged to the stream creator; (R5) time domain: the checkpoint's Time, which startInternal turns into the source stream's seek filter, must not come from a pack whose times were rewritten for the downstream; (R6) attribution: the checkpoint is written for the task, collection and channel of the very pack that was acknowledged.",
		notDec:  []string{"crash-point enumeration", "batch boundaries", "what the next incarnation actually reads", "channels of a collection without a stored entry are opened at the latest position"},
	})
}

// rangeElemOf strips loads, field selections and tuple extraction and returns the iteration the value comes from:
// the *ssa.Next of a map range or the *ssa.IndexAddr of a slice range.
func rangeElemOf(v ssa.Value) ssa.Value {
	for i := 0; i < 12 && v != nil; i++ {
		switch x := v.(type) {
		case *ssa.UnOp:
			v = x.X
		case *ssa.FieldAddr:
			v = x.X
		case *ssa.Field:
			v = x.X
		case *ssa.ChangeType:
			v = x.X
		case *ssa.IndexAddr:
			return x
		case *ssa.Extract:
			if n, ok := x.Tuple.(*ssa.Next); ok {
				return n
			}
			return nil
		default:
			return nil
		}
	}
	return nil
}

func rangeNextOf(v ssa.Value) *ssa.Next {
	n, _ := rangeElemOf(v).(*ssa.Next)
	return n
}

func rangeOperand(n *ssa.Next) ssa.Value {
	if rg, ok := n.Iter.(*ssa.Range); ok {
		return rg.X
	}
	return nil
}

func runC05(w *World, r *Report) {
	r.Rule("C05-R1", "ack before checkpoint", "every PositionInfo reaching UpdateTaskCollectionPosition has DataPair.Data <- result of the downstream write (HandleReplicateMessage / HandleOpMessagePack) of the same function, built on the edge where that write's error is nil, or <- a declared start position of the source catalog", 6)
	r.Rule("C05-R2", "error => pause, leave, no persist", "every pauseTaskWithReason in the server loops pauses the failing item's own task and leaves the loop without reaching a persist call (shared with C06-R5)", 10)
	r.Rule("C05-R3", "dropped checkpoints are frozen", "store.UpdateTaskCollectionPosition: the three table updates are single-entry and skipped when the stored entry is marked Dropped (shared with C12-R4)", 6)
	r.Rule("C05-R4", "checkpoint -> seek chain", "startInternal builds each channel's MsgPosition from that channel's own stored entry; the per-collection table is stored under the record's CollectionID and handed to NewCollectionReader; the reader looks it up by the collection's id and hands it to StartReadCollection; the per-shard SeekPosition is selected by channel name; every GetStreamChan call receives the same source info's VChannel and SeekPosition; the stream creators pass the position on to Seek / Register", 12)
	r.Rule("C05-R5", "one time domain for the checkpoint time", "PositionInfo.Time of the source checkpoint is read by startInternal as the seek filter of the SOURCE stream; it must not be computed from the times of a pack handed to HandleReplicateMessage (rewritten for the downstream)", 3)
	r.Rule("C05-R6", "attribution", "the record persisted after an acknowledged pack carries that replicate message's TaskID, CollectionID, CollectionName and PChannelName, and the persist call passes the record's own fields", 5)

	r.Rule("C05-R7", "no gap before a checkpointed pack", "in the per-channel write loop of startReplicateDMLMsg every pack taken from the channel is handed to the packer or ends the loop: no path from the receive back to the loop head bypasses packer.Receive (except the dry-run branch), because the checkpoint persisted after a later pack would name a position beyond a pack that was never written", 1)
	c05NoGap(w, r)
	c06R5(w, r, "C05-R2")
	// the batcher between the stream and the writer keeps arrival order and hands every pack over exactly once:
	// the checkpoint persisted after a batch names its LAST pack, so reordering or skipping inside the batcher puts the
	// checkpoint ahead of unacknowledged packs
	r.importRules(runC14, "C05-", map[string]bool{"C14-R1": true, "C14-R2": true, "C14-R3": true, "C14-R5": true})
	// resume loses nothing only if every live collection with a checkpoint is started again: incarnations are told
	// apart by (database, name), not by name alone (C13-R4)
	r.importRules(runC13, "C05-", map[string]bool{"C13-R4": true})
	c12R4(w, r, "C05-R3")
	c12DropMarksAll(w, r, "C05-R8")

	writeSyms := map[string]int{"HandleReplicateMessage": 2, "HandleOpMessagePack": 1} // name -> index of the error result
	// ---------- R1 / R5 / R6: persist call sites
	nPersist := 0
	seekReadsTime := c05SeekReadsTime(w)
	for _, fn := range w.RepoFuncs() {
		if fn.Pkg.Pkg.Path() != pkgServer {
			continue
		}
		fam := familyOf(fn)
		var persists []*ssa.Call
		eachInstr(fn, func(in ssa.Instruction) {
			if c, ok := in.(*ssa.Call); ok && callSym(c.Common()) == (sym{pkgServer, "WriteCallback", "UpdateTaskCollectionPosition"}) {
				persists = append(persists, c)
			}
		})
		if len(persists) == 0 {
			continue
		}
		nPersist += len(persists)
		// PositionInfo allocs of this function
		type pinfo struct {
			al      *ssa.Alloc
			data    ssa.Value
			time    ssa.Value
			write   *ssa.Call
			catalog bool
		}
		var pis []*pinfo
		for _, al := range allocsOfType(fn, pkgSrvMeta, "PositionInfo", false) {
			pi := &pinfo{al: al}
			for _, fs := range fieldStoresOn(fam, al) {
				if fs.Field == nil {
					continue
				}
				switch fs.Field.Name() {
				case "Time":
					pi.time = fs.Val
				case "DataPair":
					if kd, ok := baseObject(fam, fs.Val).(*ssa.Alloc); ok {
						for _, fs2 := range fieldStoresOn(fam, kd) {
							if fs2.Field != nil && fs2.Field.Name() == "Data" {
								pi.data = fs2.Val
							}
						}
					}
				}
			}
			pis = append(pis, pi)
		}
		for k, pi := range pis {
			cons := fmt.Sprintf("%s | PositionInfo#%d", shortFn2(fn), k+1)
			ok, why := false, "the checkpoint's message id does not come from an acknowledged write or a declared start position: "+w.accessPath(pi.data)
			if ex, isE := pi.data.(*ssa.Extract); isE {
				if c, isC := ex.Tuple.(*ssa.Call); isC {
					if ei, isW := writeSyms[callSym(c.Common()).name]; isW && ex.Index < ei {
						pi.write = c
						// success edge of the error test dominates the alloc
						ok = false
						why = "the checkpoint is built on a path where the write's error was not tested nil"
						for _, b := range fn.Blocks {
							cond, t, f, isIf := ifSuccs(b)
							if !isIf {
								continue
							}
							bo, isB := cond.(*ssa.BinOp)
							if !isB || !isNilConst(bo.Y) {
								continue
							}
							e2, isE2 := bo.X.(*ssa.Extract)
							if !isE2 || e2.Tuple != ssa.Value(c) || e2.Index != ei {
								continue
							}
							succ := f
							if bo.Op == token.EQL {
								succ = t
							}
							if (succ == pi.al.Block() || succ.Dominates(pi.al.Block())) && len(succ.Preds) == 1 {
								ok = true
							}
						}
					}
				}
			} else if pi.data != nil && strings.Contains(w.accessPath(pi.data), ".StartPositions[]") {
				ok, pi.catalog = true, true
			}
			r.Check(ok, "C05-R1", cons+" | message id", pi.al.Pos(), "from an acknowledged write / declared start position", why)
		}
		for i, c := range persists {
			cons := fmt.Sprintf("%s | UpdateTaskCollectionPosition#%d", shortFn2(fn), i+1)
			// every position argument derives only from the PositionInfo literals of this function (or nil)
			okArgs := true
			bad := ""
			var reach []*pinfo
			for ai := 4; ai <= 6 && ai < len(c.Call.Args); ai++ {
				srcs := c05PositionSources(w, fam, fn, c.Call.Args[ai])
				if srcs == nil {
					okArgs = false
					bad = w.accessPath(c.Call.Args[ai])
					continue
				}
				for _, s := range srcs {
					for _, pi := range pis {
						if pi.al == s {
							if ai == 4 {
								reach = append(reach, pi)
							}
						}
					}
				}
			}
			r.Check(okArgs, "C05-R1", cons+" | positions passed", c.Pos(), "only checkpoint values built in this function", "a position argument is not one of the checkpoint values built after the acknowledged write: "+bad)
			// R5: the time of the source checkpoint
			for _, pi := range reach {
				if pi.time == nil {
					continue
				}
				cons5 := fmt.Sprintf("%s | PositionInfo.Time of the source checkpoint", shortFn2(fn))
				rewritten := false
				src := ""
				for _, v := range backSlice(pi.time, SliceOpts{MaxDepth: 6, ThroughArg: func(cc *ssa.CallCommon) []ssa.Value {
					if callSym(cc).name == "ParseHybridTs" {
						return cc.Args
					}
					return nil
				}}) {
					u, isU := v.(*ssa.UnOp)
					if !isU || u.Op != token.MUL {
						continue
					}
					fa, isF := u.X.(*ssa.FieldAddr)
					if !isF {
						continue
					}
					fname := fieldName(fa.X.Type(), fa.Field)
					if fname != "EndTs" && fname != "BeginTs" {
						if src == "" {
							src = w.accessPath(v)
						}
						continue
					}
					src = w.accessPath(v)
					// is that pack the argument of HandleReplicateMessage?
					if pi.write != nil && callSym(pi.write.Common()).name == "HandleReplicateMessage" {
						for _, a := range pi.write.Call.Args {
							if typeIs(a.Type(), pkgMsgstream, "MsgPack") && w.accessPath(a) == w.accessPath(fa.X) {
								rewritten = true
							}
						}
					}
				}
				if !seekReadsTime {
					rewritten = false // the time is not used as a source filter any more
				}
				r.Check(!rewritten, "C05-R5", cons5, pi.al.Pos(), "time <- "+src, "the source checkpoint's Time is the END TIME OF THE REWRITTEN PACK ("+src+"); startInternal turns it into the seek filter of the source stream (ComposeTS(Time+1,0)), and the stream's Seek drops every message at or below it: when the rewritten clock is ahead of this stream's source clock, unacknowledged source messages are skipped on resume")
			}
		}
		// R6 attribution (only where a record type is used)
		for _, al := range allocsOfType(fn, pkgServer, "UpdatePositionInfo", false) {
			var wr *ssa.Call
			eachInstr(fn, func(in ssa.Instruction) {
				if c, ok := in.(*ssa.Call); ok && callSym(c.Common()).name == "HandleReplicateMessage" {
					wr = c
				}
			})
			if wr == nil {
				r.Fail("C05-R6", shortFn2(fn)+" | UpdatePositionInfo without a write", al.Pos(), "a checkpoint record is built in a function that does not write")
				continue
			}
			var packArg ssa.Value
			for _, a := range wr.Call.Args {
				if typeIs(a.Type(), pkgMsgstream, "MsgPack") {
					packArg = a
				}
			}
			base := strings.TrimSuffix(w.accessPath(packArg), ".MsgPack")
			want := map[string]string{"collectionID": ".CollectionID", "collectionName": ".CollectionName", "pChannelName": ".PChannelName", "taskID": ".TaskID"}
			got := map[string]bool{}
			for _, fs := range fieldStoresOn(fam, al) {
				if fs.Field == nil {
					continue
				}
				suf, isW := want[fs.Field.Name()]
				if !isW {
					continue
				}
				got[fs.Field.Name()] = true
				p := w.accessPath(fs.Val)
				r.Check(p == base+suf, "C05-R6", fmt.Sprintf("%s | record.%s", shortFn2(fn), fs.Field.Name()), fs.Store.Pos(), "<- "+p, fmt.Sprintf("the checkpoint record's %s is %s, not %s%s of the replicate message whose pack was acknowledged", fs.Field.Name(), p, base, suf))
			}
			for k := range want {
				if !got[k] {
					r.Fail("C05-R6", fmt.Sprintf("%s | record.%s", shortFn2(fn), k), al.Pos(), "the field is not set")
				}
			}
		}
		for i, c := range persists {
			// persist call's id arguments: when they come from a record, they are that record's own fields
			names := []string{"", "collectionID", "collectionName", "pChannelName", "position", "opPosition", "targetPosition"}
			var bases []string
			fromRec := false
			for ai := 1; ai < len(c.Call.Args) && ai < len(names); ai++ {
				p := w.accessPath(c.Call.Args[ai])
				if strings.HasSuffix(p, "."+names[ai]) {
					fromRec = true
					bases = append(bases, strings.TrimSuffix(p, "."+names[ai]))
				} else if fromRec || ai > 3 {
					bases = append(bases, "?"+p)
				}
			}
			if !fromRec {
				continue
			}
			same := true
			for _, b := range bases {
				if b != bases[0] {
					same = false
				}
			}
			// the write callback's task id
			tidOK := false
			if nc, isC := baseObject(fam, c.Call.Args[0]).(*ssa.Call); isC && callSym(nc.Common()).name == "NewWriteCallback" {
				tidOK = w.accessPath(nc.Call.Args[2]) == bases[0]+".taskID"
			}
			r.Check(same && tidOK, "C05-R6", fmt.Sprintf("%s | UpdateTaskCollectionPosition#%d arguments", shortFn2(fn), i+1), c.Pos(), "all from "+bases[0], "the persist call mixes fields of different records (or another task id): "+strings.Join(bases, ", "))
		}
	}
	if nPersist < 3 {
		r.Fail("C05-R1", "persist call census", 0, fmt.Sprintf("only %d UpdateTaskCollectionPosition call sites found in package server (3 confirmed)", nPersist))
	}

	c05SeekChain(w, r)
}

// c05PositionSources returns the PositionInfo allocs an argument can denote (nil const allowed), or nil when some source is something else.
func c05PositionSources(w *World, fam *Family, fn *ssa.Function, v ssa.Value) []*ssa.Alloc {
	out := []*ssa.Alloc{}
	seen := map[ssa.Value]bool{}
	var walk func(v ssa.Value, d int) bool
	walk = func(v ssa.Value, d int) bool {
		if seen[v] {
			return true
		}
		seen[v] = true
		if d > 12 {
			return false
		}
		switch x := v.(type) {
		case *ssa.Const:
			return x.Value == nil
		case *ssa.Alloc:
			if typeIs(x.Type(), pkgSrvMeta, "PositionInfo") {
				out = append(out, x)
				return true
			}
			// a local variable
			sts := fam.StoresTo(x)
			if len(sts) == 0 {
				return true
			}
			for _, st := range sts {
				if !walk(st.Val, d+1) {
					return false
				}
			}
			return true
		case *ssa.Phi:
			for _, e := range x.Edges {
				if !walk(e, d+1) {
					return false
				}
			}
			return true
		case *ssa.UnOp:
			if x.Op != token.MUL {
				return false
			}
			if al, ok := fam.canon(x.X).(*ssa.Alloc); ok {
				return walk(al, d+1)
			}
			// a field of a record read back from a local table: all stores to the same field of records built here
			if fa, ok := x.X.(*ssa.FieldAddr); ok {
				fname := fieldName(fa.X.Type(), fa.Field)
				found := false
				okAll := true
				for _, in := range fam.allInstr {
					st, isS := in.(*ssa.Store)
					if !isS {
						continue
					}
					fa2, isF := st.Addr.(*ssa.FieldAddr)
					if !isF || fieldName(fa2.X.Type(), fa2.Field) != fname || !types.Identical(fa2.X.Type(), fa.X.Type()) {
						continue
					}
					found = true
					if !walk(st.Val, d+1) {
						okAll = false
					}
				}
				return found && okAll
			}
			return false
		}
		return false
	}
	if !walk(v, 0) {
		return nil
	}
	return out
}

// c05SeekReadsTime: does startInternal turn PositionInfo.Time into the Timestamp of a seek position?
func c05SeekReadsTime(w *World) bool {
	si := w.Func(pkgServer, "MetaCDC", "startInternal")
	if si == nil {
		return true
	}
	fam := familyOf(si)
	res := false
	for _, al := range allocsOfType(si, pkgMsgpb, "MsgPosition", false) {
		for _, fs := range fieldStoresOn(fam, al) {
			if fs.Field == nil || fs.Field.Name() != "Timestamp" {
				continue
			}
			for _, v := range backSlice(fs.Val, SliceOpts{MaxDepth: 8, ThroughArg: func(cc *ssa.CallCommon) []ssa.Value {
				if callSym(cc).name == "ComposeTS" {
					return cc.Args
				}
				return nil
			}}) {
				if strings.HasSuffix(w.accessPath(v), ".Time") {
					res = true
				}
			}
		}
	}
	return res
}

func c05SeekChain(w *World, r *Report) {
	si := w.Func(pkgServer, "MetaCDC", "startInternal")
	if si == nil {
		r.Undecided("C05-R4", "startInternal", 0, "anchor not found")
		return
	}
	fam := familyOf(si)
	// (a) per-channel MsgPosition built from the channel's own entry
	var innerMap, outerMap ssa.Value
	var outerNext ssa.Value
	nPos := 0
	eachInstr(si, func(in ssa.Instruction) {
		mu, ok := in.(*ssa.MapUpdate)
		if !ok {
			return
		}
		al, isAl := baseObject(fam, mu.Value).(*ssa.Alloc)
		if !isAl || !typeIs(al.Type(), pkgMsgpb, "MsgPosition") {
			return
		}
		nPos++
		keyNext := rangeNextOf(mu.Key)
		cons := "(*MetaCDC).startInternal | seek position of a channel"
		if keyNext == nil || !strings.HasSuffix(w.accessPath(rangeOperand(keyNext)), ".Positions") {
			r.Fail("C05-R4", cons+" | key", mu.Pos(), "the seek table is not keyed by the channel of the stored entry being read: "+w.accessPath(mu.Key))
			return
		}
		innerMap = mu.Map
		outerNext = rangeElemOf(rangeOperand(keyNext))
		for _, fs := range fieldStoresOn(fam, al) {
			if fs.Field == nil {
				continue
			}
			fname := fs.Field.Name()
			if fname != "ChannelName" && fname != "MsgID" && fname != "Timestamp" {
				continue
			}
			var classify func(v ssa.Value) leafVerdict
			classify = func(v ssa.Value) leafVerdict {
				switch x := v.(type) {
				case *ssa.Const:
					return leafGood
				case *ssa.Extract:
					if n, isN := x.Tuple.(*ssa.Next); isN {
						if n == keyNext {
							return leafGood
						}
						return leafBad
					}
				case *ssa.UnOp:
					if x.Op == token.MUL {
						if _, isAlloc := fam.canon(x.X).(*ssa.Alloc); isAlloc {
							return leafDescend
						}
						if n := rangeNextOf(x); n != nil {
							if n == keyNext {
								return leafGood
							}
							return leafBad
						}
					}
				case *ssa.Call:
					if callSym(x.Common()).name == "ComposeTS" {
						for _, a := range x.Call.Args {
							if ok, _ := mustDerive(a, classify); !ok {
								return leafBad
							}
						}
						return leafGood
					}
				}
				return leafDescend
			}
			ok, bad := mustDerive(fs.Val, classify)
			why := ""
			if !ok {
				why = fmt.Sprintf("the seek position's %s of a channel is computed from something other than that channel's own stored entry: %s", fname, w.accessPath(bad))
			}
			r.Check(ok, "C05-R4", cons+" | "+fname, fs.Store.Pos(), "from the channel's own entry", why)
		}
	})
	if nPos == 0 {
		r.Fail("C05-R4", "(*MetaCDC).startInternal | seek position census", si.Pos(), "no seek position is built from the stored checkpoints")
		return
	}
	// (b) stored under the record's collection id; handed to NewCollectionReader
	okOuter := false
	eachInstr(si, func(in ssa.Instruction) {
		mu, ok := in.(*ssa.MapUpdate)
		if !ok || innerMap == nil {
			return
		}
		if baseObject(fam, mu.Value) == baseObject(fam, innerMap) && baseObject(fam, mu.Value) != nil {
			kn := rangeElemOf(mu.Key)
			if kn != nil && outerNext != nil && kn == outerNext && strings.HasSuffix(w.accessPath(mu.Key), ".CollectionID") {
				okOuter = true
				outerMap = mu.Map
			}
		}
	})
	r.Check(okOuter, "C05-R4", "(*MetaCDC).startInternal | per-collection table key", si.Pos(), "stored under the record's own CollectionID", "the channel seek positions of a checkpoint record are not stored under that record's collection id")
	okHand := false
	eachInstr(si, func(in ssa.Instruction) {
		c, ok := in.(*ssa.Call)
		if !ok || callSym(c.Common()).name != "NewCollectionReader" || outerMap == nil {
			return
		}
		if len(c.Call.Args) > 3 && baseObject(fam, c.Call.Args[3]) == baseObject(fam, outerMap) {
			okHand = true
		}
	})
	r.Check(okHand, "C05-R4", "(*MetaCDC).startInternal | table handed to NewCollectionReader", si.Pos(), "argument 3", "the seek table built from the checkpoints is not the one handed to the collection reader")
	// (c) NewCollectionReader stores it
	if ncr := w.Func(pkgReader, "", "NewCollectionReader"); ncr != nil {
		ok := false
		f2 := familyOf(ncr)
		for _, al := range allocsOfType(ncr, pkgReader, "CollectionReader", false) {
			for _, fs := range fieldStoresOn(f2, al) {
				if fs.Field != nil && fs.Field.Name() == "channelSeekPositions" && len(ncr.Params) > 3 && fs.Val == ssa.Value(ncr.Params[3]) {
					ok = true
				}
			}
		}
		r.Check(ok, "C05-R4", "reader.NewCollectionReader | channelSeekPositions <- parameter", ncr.Pos(), "stored", "the reader does not keep the seek table it is given")
	} else {
		r.Undecided("C05-R4", "NewCollectionReader", 0, "anchor not found")
	}
	// (d) reader: StartReadCollection(…, info, seekPositions, …) with seekPositions <- channelSeekPositions[info.ID]
	nSR := 0
	for _, fn := range w.RepoFuncs() {
		if fn.Pkg.Pkg.Path() != pkgReader || fnSym(rootFunc(fn)).recv != "CollectionReader" {
			continue
		}
		eachInstr(fn, func(in ssa.Instruction) {
			c, ok := in.(*ssa.Call)
			if !ok || callSym(c.Common()).name != "StartReadCollection" {
				return
			}
			args := callArgs(c.Common())
			if len(args) < 5 {
				return
			}
			nSR++
			cons := fmt.Sprintf("%s | StartReadCollection#%d seek positions", shortFn2(fn), nSR)
			infoPath := w.accessPath(args[2])
			viaTable, okKey, viaStart := false, false, false
			for _, v := range backSlice(args[3], SliceOpts{MaxDepth: 16, ThroughArg: func(cc *ssa.CallCommon) []ssa.Value {
				if n := callSym(cc).name; n == "Values" || n == "append" || strings.HasSuffix(callSym(cc).pkg, "samber/lo") {
					return cc.Args
				}
				return getterRecv(cc)
			}}) {
				// a mapping literal (lo.Map(info.StartPositions, func…)) reads the elements through its own parameter:
				// what matters is the collection it is applied to, which is followed above
				if lk, isL := v.(*ssa.Lookup); isL && strings.HasSuffix(w.accessPath(lk.X), ".channelSeekPositions") {
					viaTable = true
					okKey = w.accessPath(lk.Index) == infoPath+".ID"
				}
				if strings.Contains(w.accessPath(v), ".StartPositions") {
					viaStart = true
				}
			}
			if !viaTable {
				// the call for a newly created collection reads from its declared start positions
				r.Check(viaStart, "C05-R4", cons, c.Pos(), "declared start positions of the same collection", "the seek positions come neither from the stored table nor from the collection's declared start positions")
				return
			}
			r.Check(okKey, "C05-R4", cons, c.Pos(), "channelSeekPositions["+infoPath+".ID]", "the stored seek positions are looked up under another collection's id than the collection being started")
		})
	}
	if nSR < 2 {
		r.Fail("C05-R4", "CollectionReader | StartReadCollection census", 0, fmt.Sprintf("only %d call sites found (2 confirmed)", nSR))
	}
	// (e) StartReadCollection: SeekPosition <- getSeekPosition(sourcePChannel)
	if src := w.Func(pkgReader, "replicateChannelManager", "StartReadCollection"); src != nil {
		done := false
		eachInstrDeep(src, func(fn *ssa.Function, in ssa.Instruction) {
			al, ok := in.(*ssa.Alloc)
			if !ok || !typeIs(al.Type(), pkgModel, "SourceCollectionInfo") {
				return
			}
			f3 := familyOf(fn)
			var seekV, pchV ssa.Value
			for _, fs := range fieldStoresOn(f3, al) {
				if fs.Field == nil {
					continue
				}
				switch fs.Field.Name() {
				case "SeekPosition":
					seekV = fs.Val
				case "PChannel":
					pchV = fs.Val
				}
			}
			done = true
			cons := "(*replicateChannelManager).StartReadCollection | SourceCollectionInfo.SeekPosition"
			call, isC := seekV.(*ssa.Call)
			if !isC {
				r.Fail("C05-R4", cons, al.Pos(), "the shard's seek position is not selected from the given seek positions: "+w.accessPath(seekV))
				return
			}
			var sel *ssa.Function
			cv := call.Call.Value
			if u, isU := cv.(*ssa.UnOp); isU {
				for _, st := range f3.StoresTo(u.X) {
					if mc, isMC := st.Val.(*ssa.MakeClosure); isMC {
						sel, _ = mc.Fn.(*ssa.Function)
					}
				}
			} else if mc, isMC := f3.canon(cv).(*ssa.MakeClosure); isMC {
				sel, _ = mc.Fn.(*ssa.Function)
			} else if lf, isF := cv.(*ssa.Function); isF && lf.Parent() != nil {
				sel = lf
			}
			okSel := false
			applied := sel != nil && len(call.Call.Args) == 0 && len(sel.Params) == 0 // a literal applied on the spot: the channel is captured
			if sel != nil && ((len(call.Call.Args) == 1 && call.Call.Args[0] == pchV) || applied) {
				// the selector returns an element of the seekPositions parameter whose ChannelName equals its argument
				// (a hand-written loop, or lo.Find(seekPositions, func(p) bool { return p.ChannelName == channelName }))
				cmp, fromParam := false, false
				isSelArg := func(v ssa.Value) bool {
					for _, x := range backSlice(v, SliceOpts{MaxDepth: 4}) {
						if !applied && x == ssa.Value(sel.Params[0]) {
							return true
						}
						if applied && (x == pchV || w.accessPath(x) == w.accessPath(pchV)) {
							return true
						}
					}
					return false
				}
				eachInstrDeep(sel, func(_ *ssa.Function, x ssa.Instruction) {
					if bo, isB := x.(*ssa.BinOp); isB && bo.Op == token.EQL {
						if (strings.HasSuffix(w.accessPath(bo.X), ".ChannelName") && isSelArg(bo.Y)) || (strings.HasSuffix(w.accessPath(bo.Y), ".ChannelName") && isSelArg(bo.X)) {
							cmp = true
						}
					}
				})
				eachInstr(sel, func(x ssa.Instruction) {
					if rt, isR := x.(*ssa.Return); isR && len(rt.Results) == 1 && !isNilConst(rt.Results[0]) {
						for _, y := range backSlice(rt.Results[0], SliceOpts{MaxDepth: 8, ThroughArg: func(cc *ssa.CallCommon) []ssa.Value {
							if strings.HasSuffix(callSym(cc).pkg, "samber/lo") {
								return cc.Args
							}
							return nil
						}}) {
							if y == ssa.Value(src.Params[4]) {
								fromParam = true
							}
							if strings.Contains(w.accessPath(y), src.Params[4].Name()) {
								fromParam = true
							}
						}
					}
				})
				okSel = cmp && fromParam
			}
			r.Check(okSel, "C05-R4", cons, al.Pos(), "the given seek position whose ChannelName is the shard's physical channel", "the shard's seek position is not the given position of its own physical channel")
		})
		if !done {
			r.Fail("C05-R4", "(*replicateChannelManager).StartReadCollection | SourceCollectionInfo", src.Pos(), "no source info literal found")
		}
	} else {
		r.Undecided("C05-R4", "StartReadCollection", 0, "anchor not found")
	}
	// (f) every GetStreamChan call gets the same source info's VChannel and SeekPosition
	nGS := 0
	for _, fn := range w.RepoFuncs() {
		if fn.Pkg.Pkg.Path() != pkgReader {
			continue
		}
		eachInstr(fn, func(in ssa.Instruction) {
			c, ok := in.(*ssa.Call)
			if !ok || callSym(c.Common()).name != "GetStreamChan" {
				return
			}
			args := callArgs(c.Common())
			if len(args) < 3 {
				return
			}
			nGS++
			v, s := w.accessPath(args[1]), w.accessPath(args[2])
			ok2 := strings.HasSuffix(v, ".VChannel") && strings.HasSuffix(s, ".SeekPosition") && strings.TrimSuffix(v, ".VChannel") == strings.TrimSuffix(s, ".SeekPosition")
			r.Check(ok2, "C05-R4", fmt.Sprintf("%s | GetStreamChan#%d", shortFn2(fn), nGS), c.Pos(), v+", "+s, "the stream is opened with a seek position that is not the one of the same source info: "+v+" / "+s)
		})
	}
	if nGS < 1 {
		r.Fail("C05-R4", "GetStreamChan census", 0, fmt.Sprintf("only %d call sites found (1 confirmed)", nGS))
	}
	// (g) the stream creators pass the position on
	for _, recv := range []string{"FactoryStreamCreator", "DisptachClientStreamCreator"} {
		g := w.Func(pkgReader, recv, "GetStreamChan")
		cons := fmt.Sprintf("(*%s).GetStreamChan | position passed on", recv)
		if g == nil {
			r.Undecided("C05-R4", cons, 0, "anchor not found")
			continue
		}
		seekParam := g.Params[len(g.Params)-1]
		ok := false
		eachInstr(g, func(in ssa.Instruction) {
			c, isC := in.(*ssa.Call)
			if !isC {
				return
			}
			n := callSym(c.Common()).name
			if n != "getStream" && n != "NewStreamConfig" {
				return
			}
			for _, a := range callArgs(c.Common()) {
				for _, v := range backSlice(a, SliceOpts{MaxDepth: 8, ThroughArg: func(cc *ssa.CallCommon) []ssa.Value {
					if callSym(cc).name == "Clone" {
						return cc.Args
					}
					return nil
				}}) {
					if v == ssa.Value(seekParam) {
						ok = true
					}
					if u, isU := v.(*ssa.UnOp); isU {
						for _, st := range familyOf(g).StoresTo(u.X) {
							if st.Val == ssa.Value(seekParam) {
								ok = true
							}
						}
					}
				}
			}
		})
		r.Check(ok, "C05-R4", cons, g.Pos(), "reaches getStream / NewStreamConfig", "the stream creator does not pass the given seek position to the stream")
	}
	if gs := w.Func(pkgReader, "", "getStream"); gs != nil {
		ok := false
		seekParam := gs.Params[len(gs.Params)-1]
		eachInstr(gs, func(in ssa.Instruction) {
			c, isC := in.(*ssa.Call)
			if !isC || callSym(c.Common()).name != "Seek" {
				return
			}
			for _, a := range callArgs(c.Common()) {
				if ok2, _ := mustDerive(a, func(v ssa.Value) leafVerdict {
					if v == ssa.Value(seekParam) {
						return leafGood
					}
					return leafDescend
				}); ok2 {
					if _, isSl := a.Type().Underlying().(*types.Slice); isSl {
						ok = true
					}
				}
			}
		})
		r.Check(ok, "C05-R4", "reader.getStream | Seek(position)", gs.Pos(), "the given position only", "the stream is not positioned at the given seek position")
	} else {
		r.Undecided("C05-R4", "getStream", 0, "anchor not found")
	}
}

// c05NoGap: the write loop either hands a received pack to the packer or stops.
func c05NoGap(w *World, r *Report) {
	root := w.Func(pkgServer, "MetaCDC", "startReplicateDMLMsg")
	if root == nil {
		r.Undecided("C05-R7", "startReplicateDMLMsg", 0, "anchor not found")
		return
	}
	n := 0
	eachInstrDeep(root, func(fn *ssa.Function, in ssa.Instruction) {
		c, ok := in.(*ssa.Call)
		if !ok || callSym(c.Common()).name != "Receive" || callSym(c.Common()).recv != "Packer" {
			return
		}
		n++
		cons := shortFn2(fn) + " | write loop"
		h := loopHeaderOf(c.Block())
		if h == nil {
			r.Fail("C05-R7", cons, c.Pos(), "packer.Receive is not inside the receive loop")
			return
		}
		// the receive: the select (or plain receive) of the loop that dominates the hand-over
		var recv ssa.Instruction
		for _, b := range fn.Blocks {
			if !(h == b || h.Dominates(b)) || !(b == c.Block() || b.Dominates(c.Block())) {
				continue
			}
			for _, x := range b.Instrs {
				switch y := x.(type) {
				case *ssa.Select:
					recv = y
				case *ssa.UnOp:
					if y.Op == token.ARROW {
						recv = y
					}
				}
			}
		}
		if recv == nil {
			r.Undecided("C05-R7", cons, c.Pos(), "no receive dominating packer.Receive found in the loop")
			return
		}
		stop := map[*ssa.BasicBlock]bool{c.Block(): true}
		// the dry-run branch prints the pack and goes on: nothing is written or checkpointed at all in that mode
		for _, b := range fn.Blocks {
			cond, t, f, isIf := ifSuccs(b)
			if !isIf {
				continue
			}
			neg := false
			if u, isU := cond.(*ssa.UnOp); isU && u.Op == token.NOT {
				cond, neg = u.X, true
			}
			if strings.HasSuffix(w.accessPath(cond), ".DryRun") {
				if neg {
					stop[f] = true
				} else {
					stop[t] = true
				}
			}
		}
		reach := blockReach(recv.Block(), stop)
		var via *ssa.BasicBlock
		for _, p := range h.Preds {
			if (p == h || h.Dominates(p)) && (reach[p] || p == recv.Block()) && !stop[p] {
				via = p
			}
		}
		if h != recv.Block() && !h.Dominates(recv.Block()) {
			via = nil
		}
		pos := c.Pos()
		why := ""
		if via != nil {
			for i := len(via.Instrs) - 1; i >= 0; i-- {
				if via.Instrs[i].Pos().IsValid() {
					pos = via.Instrs[i].Pos()
					break
				}
			}
			why = "a received pack can be dropped and the loop continued (block " + via.String() + " returns to the loop head without packer.Receive): a later pack of the same stream is then written and its position persisted beyond the dropped one"
		}
		r.Check(via == nil, "C05-R7", cons, pos, "every path from the receive reaches packer.Receive or leaves the loop", why)
	})
	if n == 0 {
		r.Fail("C05-R7", "startReplicateDMLMsg | packer.Receive census", root.Pos(), "no packer.Receive call found in the write loop")
	}
}
