package main

import (
	"go/types"
	"strings"

	"golang.org/x/tools/go/ssa"
)

// Composite string keys. A key that joins several NAME components (database, collection, partition names) is only a
// faithful key if distinct tuples give distinct strings: between two adjacent string components there must be a
// character that cannot occur inside a Milvus name. Milvus names consist of letters, digits, '_' and (collections,
// by default configuration) '$'; so "_" or "" as separator is ambiguous ("a"+"b_c" == "a_b"+"c"), while '.', '/', ':'
// and '-' are not.

type compKey struct {
	Fn     *ssa.Function
	Call   *ssa.Call // the fmt.Sprintf call (nil for a concatenation)
	Format string
	Args   []ssa.Value // variadic arguments in order (unwrapped from MakeInterface)
	Seps   []string    // Seps[i] = literal text between verb i and verb i+1
	Ambig  []int       // indexes i such that args i and i+1 are strings and Seps[i] is ambiguous
	val    ssa.Value   // the composite itself when it is not a call
}

func nameAlphabetOnly(s string) bool {
	for _, c := range s {
		if !(c == '_' || c == '$' || (c >= '0' && c <= '9') || (c >= 'a' && c <= 'z') || (c >= 'A' && c <= 'Z')) {
			return false
		}
	}
	return true
}

func isStringType(t types.Type) bool {
	b, ok := t.Underlying().(*types.Basic)
	return ok && b.Info()&types.IsString != 0
}

// variadicArgs returns the elements of the []any built for a variadic call.
func variadicArgs(v ssa.Value) []ssa.Value {
	sl, ok := v.(*ssa.Slice)
	if !ok {
		return nil
	}
	al, ok := sl.X.(*ssa.Alloc)
	if !ok {
		return nil
	}
	arr, ok := al.Type().Underlying().(*types.Pointer).Elem().Underlying().(*types.Array)
	if !ok {
		return nil
	}
	out := make([]ssa.Value, arr.Len())
	for _, ref := range *al.Referrers() {
		ia, ok := ref.(*ssa.IndexAddr)
		if !ok {
			continue
		}
		c, ok := ia.Index.(*ssa.Const)
		if !ok || c.Value == nil {
			continue
		}
		idx := int(c.Int64())
		for _, r2 := range *ia.Referrers() {
			if st, ok := r2.(*ssa.Store); ok && st.Addr == ssa.Value(ia) {
				val := st.Val
				if mi, ok := val.(*ssa.MakeInterface); ok {
					val = mi.X
				}
				if idx >= 0 && idx < len(out) {
					out[idx] = val
				}
			}
		}
	}
	return out
}

// parseFormat splits a printf format into the literal pieces around its verbs: pieces[0] verb0 pieces[1] verb1 ... pieces[n].
func parseFormat(f string) (pieces []string, verbs []byte) {
	cur := strings.Builder{}
	for i := 0; i < len(f); i++ {
		if f[i] != '%' {
			cur.WriteByte(f[i])
			continue
		}
		if i+1 < len(f) && f[i+1] == '%' {
			cur.WriteByte('%')
			i++
			continue
		}
		j := i + 1
		for j < len(f) && strings.IndexByte("+-# 0123456789.*[]", f[j]) >= 0 {
			j++
		}
		if j >= len(f) {
			break
		}
		pieces = append(pieces, cur.String())
		cur.Reset()
		verbs = append(verbs, f[j])
		i = j
	}
	pieces = append(pieces, cur.String())
	return
}

// sprintfComposites lists the fmt.Sprintf calls of fn with a constant format and at least two arguments.
func sprintfComposites(fn *ssa.Function) []compKey {
	var out []compKey
	eachInstr(fn, func(in ssa.Instruction) {
		c, ok := in.(*ssa.Call)
		if !ok {
			return
		}
		s := callSym(c.Common())
		if s.pkg != "fmt" || s.name != "Sprintf" || len(c.Call.Args) < 2 {
			return
		}
		format, ok := constString(c.Call.Args[0])
		if !ok {
			return
		}
		args := variadicArgs(c.Call.Args[1])
		pieces, verbs := parseFormat(format)
		if len(args) < 2 || len(verbs) != len(args) {
			return
		}
		k := compKey{Fn: fn, Call: c, Format: format, Args: args}
		for i := 0; i+1 < len(args); i++ {
			sep := pieces[i+1]
			k.Seps = append(k.Seps, sep)
			if args[i] == nil || args[i+1] == nil {
				continue
			}
			if isStringType(args[i].Type()) && isStringType(args[i+1].Type()) && nameAlphabetOnly(sep) {
				k.Ambig = append(k.Ambig, i)
			}
		}
		out = append(out, k)
	})
	return out
}

// mapKeyUses: is the value used (directly, or after flowing through phis/extracts/local variables) as the key of a
// builtin map operation or of a util.Map / sync.Map method inside its function family?
func usedAsMapKey(v ssa.Value) (ssa.Instruction, bool) {
	seen := map[ssa.Value]bool{}
	var found ssa.Instruction
	var walk func(v ssa.Value, d int)
	walk = func(v ssa.Value, d int) {
		if v == nil || seen[v] || d > 8 || found != nil {
			return
		}
		seen[v] = true
		refs := v.Referrers()
		if refs == nil {
			return
		}
		for _, ref := range *refs {
			switch x := ref.(type) {
			case *ssa.Lookup:
				if x.Index == v {
					if _, isMap := x.X.Type().Underlying().(*types.Map); isMap {
						found = x
						return
					}
				}
			case *ssa.MapUpdate:
				if x.Key == v {
					found = x
					return
				}
			case *ssa.Call:
				s := callSym(x.Common())
				if mapMethod[s.name] && len(x.Call.Args) > 0 {
					args := callArgs(x.Common())
					if len(args) > 0 && args[0] == v {
						if rt := callRecv(x.Common()); rt != nil && isMapLike(rt.Type()) {
							found = x
							return
						}
					}
				}
				if x.Common().IsInvoke() {
					continue
				}
				// builtin delete(m, k)
				if b, ok := x.Call.Value.(*ssa.Builtin); ok && b.Name() == "delete" && len(x.Call.Args) == 2 && x.Call.Args[1] == v {
					found = x
					return
				}
			case *ssa.Phi:
				walk(x, d+1)
			case *ssa.MakeInterface:
				walk(x, d+1)
			case *ssa.ChangeType:
				walk(x, d+1)
			case *ssa.Convert:
				walk(x, d+1)
			case *ssa.Store:
				// stored into a local variable: follow its loads
				if x.Val == v {
					if al, ok := x.Addr.(*ssa.Alloc); ok {
						for _, r2 := range *al.Referrers() {
							if ld, ok := r2.(*ssa.UnOp); ok {
								walk(ld, d+1)
							}
						}
					}
				}
			}
		}
	}
	walk(v, 0)
	return found, found != nil
}

var mapMethod = map[string]bool{"Load": true, "Store": true, "LoadWithDefault": true, "LoadOrStore": true, "LoadAndDelete": true, "Delete": true, "CompareAndSwap": true, "Swap": true}

func isMapLike(t types.Type) bool {
	if p, ok := t.Underlying().(*types.Pointer); ok {
		t = p.Elem()
	}
	n := namedOf(t)
	if n == nil {
		return false
	}
	name := n.Obj().Name()
	pkg := ""
	if n.Obj().Pkg() != nil {
		pkg = n.Obj().Pkg().Path()
	}
	return (pkg == pkgUtil && name == "Map") || (pkg == "sync" && name == "Map") || strings.HasSuffix(pkg, "typeutil") && strings.Contains(name, "Map")
}

// returnsValue: does fn return (a value derived from) v?
func returnsValue(fn *ssa.Function, v ssa.Value) bool {
	res := false
	eachInstr(fn, func(in ssa.Instruction) {
		ret, ok := in.(*ssa.Return)
		if !ok {
			return
		}
		for _, rv := range ret.Results {
			for _, x := range backSlice(rv, SliceOpts{MaxDepth: 6, ThroughArg: func(c *ssa.CallCommon) []ssa.Value {
				// key decorators such as GetCreateInfoKey(key) keep the composite inside
				var out []ssa.Value
				for _, a := range callArgs(c) {
					if isStringType(a.Type()) {
						out = append(out, a)
					}
				}
				return out
			}}) {
				if x == v {
					res = true
				}
			}
		}
	})
	return res
}

// concatComposites lists maximal string concatenations (a + "sep" + b ...) of fn with at least two non-constant parts.
func concatComposites(fn *ssa.Function) []compKey {
	var out []compKey
	isAdd := func(v ssa.Value) (*ssa.BinOp, bool) {
		b, ok := v.(*ssa.BinOp)
		return b, ok && b.Op.String() == "+" && isStringType(b.Type())
	}
	eachInstr(fn, func(in ssa.Instruction) {
		b, ok := isAdd(valueOf(in))
		if !ok {
			return
		}
		// maximal: not an operand of another string +
		if refs := b.Referrers(); refs != nil {
			for _, r := range *refs {
				if p, ok := r.(*ssa.BinOp); ok {
					if _, isA := isAdd(p); isA {
						return
					}
				}
			}
		}
		var parts []ssa.Value
		var flat func(v ssa.Value)
		flat = func(v ssa.Value) {
			if bb, ok := isAdd(v); ok {
				flat(bb.X)
				flat(bb.Y)
				return
			}
			parts = append(parts, v)
		}
		flat(b)
		k := compKey{Fn: fn, Format: "concat"}
		sep := ""
		started := false
		for _, p := range parts {
			if s, isC := constString(p); isC {
				if started {
					sep += s
				}
				continue
			}
			if started {
				k.Seps = append(k.Seps, sep)
			}
			k.Args = append(k.Args, p)
			sep = ""
			started = true
		}
		if len(k.Args) < 2 {
			return
		}
		for i := 0; i+1 < len(k.Args); i++ {
			if nameAlphabetOnly(k.Seps[i]) {
				k.Ambig = append(k.Ambig, i)
			}
		}
		k.Call = nil
		out = append(out, compKeyAt(k, b))
	})
	return out
}

func compKeyAt(k compKey, v ssa.Value) compKey { k.val = v; return k }

func valueOf(in ssa.Instruction) ssa.Value {
	v, _ := in.(ssa.Value)
	return v
}

// joinComposites lists strings.Join(<literal slice>, "sep") calls with at least two elements.
func joinComposites(fn *ssa.Function) []compKey {
	var out []compKey
	eachInstr(fn, func(in ssa.Instruction) {
		c, ok := in.(*ssa.Call)
		if !ok {
			return
		}
		s := callSym(c.Common())
		if s.pkg != "strings" || s.name != "Join" || len(c.Call.Args) != 2 {
			return
		}
		sep, ok := constString(c.Call.Args[1])
		if !ok {
			return
		}
		args := variadicArgs(c.Call.Args[0])
		if len(args) < 2 {
			return
		}
		k := compKey{Fn: fn, Call: c, Format: "strings.Join(…, " + quote(sep) + ")", Args: args}
		for i := 0; i+1 < len(args); i++ {
			k.Seps = append(k.Seps, sep)
			if nameAlphabetOnly(sep) {
				k.Ambig = append(k.Ambig, i)
			}
		}
		out = append(out, k)
	})
	return out
}

// Value is the SSA value holding the composite string.
func (k compKey) Value() ssa.Value {
	if k.Call != nil {
		return k.Call
	}
	return k.val
}

func allComposites(fn *ssa.Function) []compKey {
	out := sprintfComposites(fn)
	out = append(out, concatComposites(fn)...)
	out = append(out, joinComposites(fn)...)
	return out
}

type keyUse struct {
	At  ssa.Instruction
	Key ssa.Value
}

// mapKeyUses lists the keyed accesses (builtin maps, util.Map, sync.Map) of one function.
func mapKeyUses(fn *ssa.Function) []keyUse {
	var out []keyUse
	eachInstr(fn, func(in ssa.Instruction) {
		switch x := in.(type) {
		case *ssa.Lookup:
			if _, isMap := x.X.Type().Underlying().(*types.Map); isMap {
				out = append(out, keyUse{x, x.Index})
			}
		case *ssa.MapUpdate:
			out = append(out, keyUse{x, x.Key})
		case *ssa.Call:
			if b, ok := x.Call.Value.(*ssa.Builtin); ok && b.Name() == "delete" && len(x.Call.Args) == 2 {
				out = append(out, keyUse{x, x.Call.Args[1]})
				return
			}
			s := callSym(x.Common())
			if mapMethod[s.name] {
				if rt := callRecv(x.Common()); rt != nil && isMapLike(rt.Type()) {
					if args := callArgs(x.Common()); len(args) > 0 {
						out = append(out, keyUse{x, args[0]})
					}
				}
			}
		}
	})
	return out
}
