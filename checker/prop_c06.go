package main

import (
	"fmt"
	"go/token"
	"go/types"
	"sort"
	"strings"

	"golang.org/x/tools/go/ssa"
)

func init() {
	register("C06", &propDef{run: runC06,
		explain: "Structural necessary conditions of 'a replication failure pauses exactly the failing task, never crashes the service': (R1) results of repository functions that return a bare nil pointer as error sentinel are nil-tested before every dereference at their call sites on the replication path; (R2) every ReplicateAPIEvent literal of type ReplicateError names a task (TaskID taken from a task-id value), because the server pauses exactly event.TaskID; (R3) no panic / log.Panic / log.Fatal is reachable in the call graph from the goroutines of the replication path, except sites on a reasoned allowlist; (R4) in handlePack's message loop an error from the target-info / partition-id lookups reaches sendErrEvent + return, and the loop can be continued between the call and the test only on an edge justified by drop state or by the callee's error-free sentinel; (R5) every pauseTaskWithReason call in the server's event/DML loops names the failing item's own task and is followed by leaving the loop without persisting a checkpoint.",
		notDec:  []string{"that a paused task stops emitting (liveness)", "other tasks' liveness: most error branches end event/DML processing for the whole target, which C06 as stated does not forbid", "panics inside third-party packages"},
		whole:   false,
	})
}

// nilSentinelFuncs: repo functions with a single pointer result that return a literal nil on
// some path and a non-nil value on another.
func nilSentinelFuncs(w *World, pkgs map[string]bool) []*ssa.Function {
	var out []*ssa.Function
	for _, fn := range w.RepoFuncs() {
		if fn.Parent() != nil || !pkgs[fn.Pkg.Pkg.Path()] {
			continue
		}
		res := fn.Signature.Results()
		if res.Len() != 1 {
			continue
		}
		if _, ok := res.At(0).Type().Underlying().(*types.Pointer); !ok {
			continue
		}
		nilRet, other := false, false
		eachInstr(fn, func(in ssa.Instruction) {
			ret, ok := in.(*ssa.Return)
			if !ok || ret.Block().Comment == "recover" {
				return
			}
			v := returnedValue(ret, 0)
			if isNilConst(v) {
				nilRet = true
			} else {
				other = true
			}
		})
		if nilRet && other {
			out = append(out, fn)
		}
	}
	return out
}

// derefs lists instructions that dereference pointer value v (field access, load, store, method call on it).
func derefsOf(v ssa.Value) []ssa.Instruction {
	var out []ssa.Instruction
	if v.Referrers() == nil {
		return nil
	}
	for _, ref := range *v.Referrers() {
		switch x := ref.(type) {
		case *ssa.FieldAddr:
			if x.X == v {
				out = append(out, x)
			}
		case *ssa.UnOp:
			if x.Op == token.MUL && x.X == v {
				out = append(out, x)
			}
		case *ssa.Store:
			if x.Addr == v {
				out = append(out, x)
			}
		case *ssa.Phi:
			out = append(out, derefsOf(x)...)
		}
	}
	return out
}

// nilGuarded: is instruction `use` dominated by the non-nil outcome of a nil test of v?
func nilGuarded(v ssa.Value, use ssa.Instruction) bool {
	fn := use.Parent()
	for _, b := range fn.Blocks {
		cond, t, f, ok := ifSuccs(b)
		if !ok {
			continue
		}
		var nonNil *ssa.BasicBlock
		var check func(c ssa.Value, t, f *ssa.BasicBlock)
		check = func(c ssa.Value, t, f *ssa.BasicBlock) {
			bo, isB := c.(*ssa.BinOp)
			if !isB {
				return
			}
			if (bo.X == v && isNilConst(bo.Y)) || (bo.Y == v && isNilConst(bo.X)) {
				if bo.Op == token.NEQ {
					nonNil = t
				} else if bo.Op == token.EQL {
					nonNil = f
				}
			}
		}
		check(cond, t, f)
		if nonNil != nil && (nonNil == use.Block() || nonNil.Dominates(use.Block())) {
			// the edge must be the only way into nonNil from b: nonNil has b as single pred or is dominated
			if len(nonNil.Preds) == 1 {
				return true
			}
			// `if p == nil || p == X { return }`: nonNil block reached from two tests; accept when every
			// predecessor of nonNil is dominated by the false/non-nil edge of the nil test
			all := true
			for _, p := range nonNil.Preds {
				if p != b && !b.Dominates(p) {
					all = false
				}
			}
			if all {
				// predecessors other than b lie after the nil test on its non-nil side?
				okSide := true
				for _, p := range nonNil.Preds {
					if p == b {
						continue
					}
					// p must not be reachable through the nil side
					nilSide := t
					if nonNil == t {
						nilSide = f
					}
					if nilSide == p || blockReach(nilSide, nil)[p] {
						okSide = false
					}
				}
				if okSide {
					return true
				}
			}
		}
	}
	return false
}

// c06PanicAllow: reachable abort sites that are not violations of C06, one reason each.
var c06PanicAllow = map[string]string{
	`(*ChannelReader).initMsgStream$lit | log.Panic "fail to unmarshal the message"`:                  "undecodable payload in the source message queue: a source-side corruption, not one of C06's failure classes (unknown object, downstream reject, store reject)",
	`(*FactoryStreamCreator).GetStreamChan$lit | log.Panic "fail to unmarshal the message"`:            "same: undecodable source payload",
	`(*DisptachClientStreamCreator).GetStreamChan | zap.(Logger).Panic "the channel name is not virtual channel"`: "precondition guard: channel names come from the source catalog's VirtualChannelNames",
	`(*ChannelMapping).AddKeyValue | panic() "channel mapping is not initialized"`:                    "not-initialised guard: NewChannelMapping always allocates exactly one of the three maps",
	`(*ChannelMapping).CheckKeyNotExist | panic() "channel mapping is not initialized"`:               "not-initialised guard (same)",
	`(*replicateChannelManager).AddPartition$lit | log.Panic "the message is not drop partition message"`:   "type guard: the partition barrier is only written from the DropPartitionMsg arm of handlePack",
	`(*replicateChannelManager).StartReadCollection$lit | log.Panic "the message is not drop collection message"`: "type guard: the collection barrier is only written from the DropCollectionMsg arm of handlePack",
	`getTaskUniqueIDFromInfo | panic() "fail to get the task unique id"`:                              "unreachable for accepted tasks: validCreateRequest rejects a request with neither a Milvus nor a Kafka address",
	`GetCollectionNameFromFull | panic() "invalid full collection name"`:                              "arguments are built by GetFullCollectionName from names that validCreateRequest restricts to contain no '.' (see C19-R3)",
	`resetMsgTimestamp | log.Panic "reset msg timestamp: not support msg type"`:                       "type-switch default unreachable while isSupportedMsgType and the switch agree (checked by C03-R5)",
	`(*EtcdOp).getDatabases | log.Panic "fail to parse the database id"`:                              "corrupt key in the source catalog: a source-side fault outside C06's failure classes",
}

func runC06(w *World, r *Report) {
	// "stops emitting": a batch the downstream rejected is dropped from the batcher, or the final flush of the paused
	// task sends it again (C14-R3 reset after every flush, C14-R5 the handler error is returned)
	defer r.importRules(runC14, "C06-", map[string]bool{"C14-R3": true, "C14-R5": true})
	// a paused task "stops emitting": its reader's shutdown stops every collection and both event subscriptions (C11-R6)
	defer r.importRules(runC11, "C06-", map[string]bool{"C11-R6": true})
	r.Rule("C06-R1", "error-sentinel nil safety", "for repository functions returning a bare pointer with a literal-nil return path, every dereference of the result at a call site in reader/writer/server is dominated by the non-nil outcome of a nil test", 1)
	r.Rule("C06-R2", "error events name a task", "every api.ReplicateAPIEvent literal with EventType ReplicateError stores TaskID from a task-id value (parameter, field or context getter), not a constant", 2)
	r3 := r.Rule("C06-R3", "no reachable panic on the replication path", "from every goroutine literal / go target / pool task of core/reader, core/writer and server, no builtin panic, log.Panic*, log.Fatal* or os.Exit is reachable in the VTA call graph unless allow-listed with a reason", 10)
	r.Rule("C06-R4", "no silent skip", "handlePack: the error of getCollectionTargetInfo / getPartitionID(s) / the barrier retry reaches sendErrEvent and a return; the loop is continued before the test only on edges conditioned on drop state or on the callee's `-1` (error-free) sentinel", 5)
	r.Rule("C06-R5", "the failing item's task is paused, then the loop is left", "each pauseTaskWithReason call in startReplicateAPIEvent / startReplicateDMLMsg takes the task id of the item being processed and is followed by a return on every path", 10)

	replPkgs := map[string]bool{pkgReader: true, pkgWriter: true, pkgServer: true, pkgAPI: true, pkgUtil: true, pkgMeta: true, pkgStore: true, pkgPacker: true}

	// ---------- R1
	sentinels := nilSentinelFuncs(w, map[string]bool{pkgReader: true, pkgWriter: true, pkgServer: true})
	sset := map[*ssa.Function]bool{}
	for _, f := range sentinels {
		sset[f] = true
	}
	n1 := 0
	for _, fn := range w.RepoFuncs() {
		if !replPkgs[fn.Pkg.Pkg.Path()] {
			continue
		}
		eachInstr(fn, func(in ssa.Instruction) {
			c, ok := in.(*ssa.Call)
			if !ok {
				return
			}
			callee := c.Call.StaticCallee()
			if callee == nil || !sset[callee] {
				return
			}
			n1++
			cons := fmt.Sprintf("%s | result of %s", shortFn2(fn), shortFn(callee))
			ds := derefsOf(c)
			var bad ssa.Instruction
			for _, d := range ds {
				if !nilGuarded(c, d) {
					// also accept a guard on a phi copy
					bad = d
					break
				}
			}
			if bad != nil {
				r.Fail("C06-R1", cons, bad.Pos(), fmt.Sprintf("%s returns nil on an error path but its result is dereferenced here without a nil test: the process crashes instead of pausing the task", shortFn(callee)))
			} else {
				r.OK("C06-R1", cons, c.Pos(), fmt.Sprintf("%d dereference(s), all nil-guarded", len(ds)))
			}
		})
	}
	r.Extra["nil_sentinel_functions"] = func() []string {
		var s []string
		for _, f := range sentinels {
			s = append(s, shortFn(f))
		}
		sort.Strings(s)
		return s
	}()

	// ---------- R2
	n2 := 0
	for _, fn := range w.RepoFuncs() {
		if !replPkgs[fn.Pkg.Pkg.Path()] {
			continue
		}
		fam := familyOf(fn)
		for _, al := range allocsOfType(fn, pkgAPI, "ReplicateAPIEvent", false) {
			isErr := false
			var tid ssa.Value
			for _, fs := range fieldStoresOn(fam, al) {
				if fs.Field == nil {
					continue
				}
				if fs.Field.Name() == "EventType" {
					if c, ok := fs.Val.(*ssa.Const); ok && c.Value != nil && c.Value.ExactString() == "100" {
						isErr = true
					}
				}
				if fs.Field.Name() == "TaskID" {
					tid = fs.Val
				}
			}
			if !isErr {
				continue
			}
			n2++
			cons := fmt.Sprintf("%s | ReplicateError event", shortFn2(fn))
			ok := false
			det := "the error event carries no TaskID: the server then calls pauseTaskWithReason(\"\"), which looks up all tasks and marks the first one it finds Paused — the failing task keeps running and an unrelated task's record changes"
			if tid != nil {
				if _, isConst := tid.(*ssa.Const); isConst {
					det = "TaskID is a constant"
				} else {
					for _, x := range backSlice(tid, SliceOpts{MaxDepth: 8}) {
						ap := strings.ToLower(w.accessPath(x))
						if strings.HasSuffix(ap, "taskid") || strings.Contains(ap, "gettaskidfromctx") {
							ok = true
						}
					}
					if !ok {
						det = "TaskID does not come from a task-id value: " + w.accessPath(tid)
					}
				}
			}
			r.Check(ok, "C06-R2", cons, al.Pos(), "TaskID from "+w.accessPath(tid), det)
			// the event is delivered, not offered: it is handed to the event channel by a plain (blocking) send, never
			// by a select that can give up (default / timeout / other case)
			sent, droppable := false, false
			for _, g := range fam.Funcs {
				eachInstr(g, func(in ssa.Instruction) {
					switch x := in.(type) {
					case *ssa.Send:
						if baseObject(fam, x.X) == ssa.Value(al) {
							sent = true
						}
					case *ssa.Select:
						for _, st := range x.States {
							if st.Dir == types.SendOnly && st.Send != nil && baseObject(fam, st.Send) == ssa.Value(al) {
								droppable = true
							}
						}
					}
				})
			}
			if sent || droppable {
				r.Check(sent && !droppable, "C06-R2", cons+" | delivered by a blocking send", al.Pos(), "plain send", "the error event is offered through a select (default / other case): when the event channel is full the event is dropped, nobody pauses the task and the failing message is silently skipped")
			}
		}
	}

	// ---------- R3
	entries := w.goEntries(map[string]bool{pkgReader: true, pkgWriter: true, pkgServer: true})
	pred, order := w.reachableFrom(entries)
	var sites []PanicSite
	for _, f := range order {
		if f.Pkg == nil || !w.isRepoPkg(f.Pkg.Pkg.Path()) || strings.HasSuffix(f.Pkg.Pkg.Path(), "mocks") {
			continue
		}
		if f.Blocks == nil || f.Pkg.Pkg.Path() == pkgCoreLog {
			continue // the log wrappers themselves: their callers are the sites
		}
		sites = append(sites, panicSitesIn(f)...)
	}
	r.Extra["goroutine_entries"] = len(entries)
	r.Extra["functions_reachable"] = len(order)
	perFn := map[string]int{}
	for _, s := range sites {
		key := shortFn2(s.Fn)
		perFn[key+"|"+s.Kind]++
		cons := fmt.Sprintf("%s | %s", key, s.Kind)
		if perFn[key+"|"+s.Kind] > 1 {
			cons = fmt.Sprintf("%s #%d", cons, perFn[key+"|"+s.Kind])
		}
		if why, ok := c06PanicAllow[cons]; ok {
			r3.Allow = append(r3.Allow, cons+": "+why)
			r.OK("C06-R3", cons, s.In.Pos(), "allow-listed: "+why)
			continue
		}
		r.Fail("C06-R3", cons, s.In.Pos(), "reachable via "+pathTo(pred, s.Fn))
	}

	// ---------- R4
	hpLookupErrors(w, r, "C06-R4")

	// ---------- R4b: the `-1` sentinel of getPartitionID is error-free, errors come with a non-sentinel value
	for _, name := range []string{"getPartitionID"} {
		fn := w.Func(pkgReader, "replicateChannelHandler", name)
		cons := "(*replicateChannelHandler)." + name + " | error returns never carry the skip sentinel"
		if fn == nil {
			r.Undecided("C06-R4", cons, 0, "anchor not found")
			continue
		}
		okS, n := true, 0
		eachInstr(fn, func(in ssa.Instruction) {
			ret, isR := in.(*ssa.Return)
			if !isR || len(ret.Results) != 2 {
				return
			}
			ev := returnedValue(ret, 1)
			if ev == nil || isNilConst(ev) {
				return
			}
			n++
			c, isC := returnedValue(ret, 0).(*ssa.Const)
			if !isC || c.Value == nil || c.Value.ExactString() == "-1" {
				okS = false
			}
		})
		r.Check(okS && n > 0, "C06-R4", cons, fn.Pos(), fmt.Sprintf("%d error return(s), each with a non-sentinel constant id", n), "an error return carries -1 (or a computed id): handlePack tests `== -1` before the error and silently skips the message instead of pausing the task")
	}

	// ---------- R7: the reader's error receiver exists before the reader starts
	r.Rule("C06-R7", "the reader's error receiver is started before the reader", "in startInternal the goroutine that receives from collectionReader.ErrorChan() (and pauses the task) is started before collectionReader.StartRead: the reader reports start-up failures with a non-blocking send, which is lost without a receiver", 1)
	if si := w.Func(pkgServer, "MetaCDC", "startInternal"); si != nil {
		var goRecv ssa.Instruction
		var start ssa.Instruction
		eachInstr(si, func(in ssa.Instruction) {
			if g, ok := in.(*ssa.Go); ok {
				var lit *ssa.Function
				if mc, isMC := g.Call.Value.(*ssa.MakeClosure); isMC {
					lit, _ = mc.Fn.(*ssa.Function)
				} else if f, isF := g.Call.Value.(*ssa.Function); isF {
					lit = f
				}
				if lit != nil {
					eachInstr(lit, func(x ssa.Instruction) {
						if c, isC := x.(*ssa.Call); isC && callSym(c.Common()).name == "ErrorChan" {
							goRecv = g
						}
					})
				}
			}
			if c, ok := in.(*ssa.Call); ok {
				if s := callSym(c.Common()); s.name == "StartRead" {
					// the collection reader: the value NewCollectionReader returned
					if rv := callRecv(c.Common()); rv != nil || c.Call.IsInvoke() {
						var recvV ssa.Value = rv
						if c.Call.IsInvoke() {
							recvV = c.Call.Value
						}
						for _, y := range backSlice(recvV, SliceOpts{MaxDepth: 5}) {
							if cc, isCC := y.(*ssa.Call); isCC && callSym(cc.Common()).name == "NewCollectionReader" {
								start = c
							}
						}
					}
				}
			}
		})
		if goRecv == nil || start == nil {
			r.Undecided("C06-R7", "(*MetaCDC).startInternal | error receiver / StartRead", si.Pos(), "the goroutine receiving from ErrorChan or the StartRead call was not found")
		} else {
			r.Check(instrDominates(goRecv, start), "C06-R7", "(*MetaCDC).startInternal | error receiver before StartRead", goRecv.Pos(), "started before the reader", "the goroutine that turns reader errors into a pause is started after StartRead: failures of the initial scan (a collection that cannot be started downstream) are sent to nobody, the task stays Running and the collection is silently not replicated")
		}
	} else {
		r.Undecided("C06-R7", "startInternal", 0, "anchor not found")
	}

	// ---------- R6: a pause always stops the task's readers, whatever the store says
	r.Rule("C06-R6", "pausing stops the readers regardless of the store", "in pauseTaskWithReason the removal and invocation of the task's quit function is reachable from the failure outcome of the persisted update (only a task unknown in memory returns early)", 1)
	if pf := w.Func(pkgServer, "MetaCDC", "pauseTaskWithReason"); pf != nil {
		{
			var u0 *ssa.Call
			eachInstr(pf, func(in ssa.Instruction) {
				if c, ok := in.(*ssa.Call); ok && callSym(c.Common()) == (sym{pkgStore, "", "UpdateTaskState"}) && u0 == nil {
					u0 = c
				}
			})
			okAll := u0 != nil
			eachInstr(pf, func(in ssa.Instruction) {
				if ret, ok := in.(*ssa.Return); ok && u0 != nil && !instrDominates(u0, ret) && ret.Block().Comment != "recover" && len(ret.Block().Preds) > 0 {
					okAll = false
				}
			})
			r.Check(okAll, "C06-R6", "(*MetaCDC).pauseTaskWithReason | the persisted update is attempted on every call", pf.Pos(), "store.UpdateTaskState dominates every return", "a path returns without attempting the persisted state update (e.g. because the task already looks paused in memory): a pause whose first store write failed is never repaired, get/list keep reporting Running, and the cleanup that follows the update is skipped")
		}
		var upd, gar *ssa.Call
		eachInstr(pf, func(in ssa.Instruction) {
			if c, ok := in.(*ssa.Call); ok {
				if callSym(c.Common()) == (sym{pkgStore, "", "UpdateTaskState"}) {
					upd = c
				}
				if callSym(c.Common()).name == "GetAndRemove" {
					gar = c
				}
			}
		})
		ok := false
		if upd != nil && gar != nil {
			ok = true
			for _, b := range pf.Blocks {
				cond, t, f, isIf := ifSuccs(b)
				if !isIf {
					continue
				}
				bo, isB := cond.(*ssa.BinOp)
				if !isB || bo.X != ssa.Value(upd) || !isNilConst(bo.Y) {
					continue
				}
				fail := t
				if bo.Op == token.EQL {
					fail = f
				}
				if !(fail == gar.Block() || blockReach(fail, nil)[gar.Block()]) {
					ok = false
				}
			}
		}
		r.Check(ok, "C06-R6", "(*MetaCDC).pauseTaskWithReason | readers stopped also when the store rejects the update", pf.Pos(), "the quit function is reached from the store-failure edge", "when the metadata store rejects the Paused update the function returns before stopping the task's readers: the failing task keeps emitting and stays Running in memory")
	} else {
		r.Undecided("C06-R6", "pauseTaskWithReason", 0, "anchor not found")
	}

	// ---------- R5
	c06R5(w, r, "C06-R5")
}

// c06R5 is shared with C05-R2: pause calls in the two server loops.
func c06R5(w *World, r *Report, rule string) {
	pause := sym{pkgServer, "MetaCDC", "pauseTaskWithReason"}
	persist := map[string]bool{"UpdateTaskCollectionPosition": true, "UpdateDropStateCollectionPosition": true}
	for _, name := range []string{"startReplicateAPIEvent", "startReplicateDMLMsg", "getChannelReader"} {
		root := w.Func(pkgServer, "MetaCDC", name)
		if root == nil {
			r.Undecided(rule, name, 0, "anchor not found")
			continue
		}
		n := 0
		eachInstrDeep(root, func(fn *ssa.Function, in ssa.Instruction) {
			c, ok := isCall(in, pause)
			if !ok {
				return
			}
			n++
			cons := fmt.Sprintf("(*MetaCDC).%s | pauseTaskWithReason#%d", name, n)
			tid := callArgs(c)[0]
			tp := strings.ToLower(w.accessPath(tid))
			okID := strings.HasSuffix(tp, "taskid") && !strings.HasPrefix(tp, "const")
			// the item: a value received from a channel, a range element, or the closure's own record
			// followed by return on every path, no persist call after
			okLeave := true
			det := ""
			eachInstr(fn, func(x ssa.Instruction) {
				if ci, isC := x.(ssa.CallInstruction); isC && persist[callSym(ci.Common()).name] {
					if instrReaches(in, ci) && loopFree(in, ci) {
						okLeave = false
						det = "a checkpoint is persisted after the pause on the same pass"
					}
				}
			})
			// every path from the pause reaches a return without passing the loop header again
			h := loopHeaderOf(in.Block())
			if h != nil {
				if blockReach(in.Block(), nil)[h] {
					// can we get back to the header without a return? returns end paths, so reaching h means continuing
					if reachesAvoidingReturn(in.Block(), h) {
						okLeave = false
						det = "after pausing, the loop continues with the next item (the failing item is skipped and later ones are applied)"
					}
				}
			}
			if !okID {
				det = "the task paused is " + w.accessPath(tid) + ", not the failing item's own TaskID"
			}
			r.Check(okID && okLeave, rule, cons, in.Pos(), "pauses "+w.accessPath(tid)+" and leaves the loop", det)
		})
	}
}

// loopFree: b reachable from a without passing a's innermost loop header again.
func loopFree(a, b ssa.Instruction) bool {
	h := loopHeaderOf(a.Block())
	if h == nil {
		return true
	}
	if a.Block() == b.Block() {
		return instrIndex(a) < instrIndex(b)
	}
	return blockReach(a.Block(), map[*ssa.BasicBlock]bool{h: true})[b.Block()]
}

// reachesAvoidingReturn: from block `from` can control reach header h (next iteration)?
func reachesAvoidingReturn(from, h *ssa.BasicBlock) bool {
	// a block ending in Return has no successors, so plain reachability is what we need,
	// but the pause's own block must not already be the header
	return blockReach(from, nil)[h]
}

// hpLookupErrors: for every id lookup of handlePack (getCollectionTargetInfo, getPartitionID(s)) the error result is
// tested before the loop can continue or the function can be left, except on edges justified by drop state or by the
// callee's error-free `-1` sentinel; the error branch reports and returns. Shared by C06-R4 (no silent skip) and
// C02-R9 (no message is emitted with an id taken from a failed lookup).
func hpLookupErrors(w *World, r *Report, rule string) {
	hp := w.Func(pkgReader, "replicateChannelHandler", "handlePack")
	if hp == nil {
		r.Undecided(rule, "handlePack", 0, "anchor not found")
	} else {
		fam := familyOf(hp)
		errSrc := map[string]bool{"getCollectionTargetInfo": true, "getPartitionID": true, "getPartitionIDs": true}
		// the shared err variable(s): allocs/phi that receive the error results
		isErrTest := func(b *ssa.BasicBlock) (ssa.Value, *ssa.BasicBlock, bool) {
			cond, t, _, ok := ifSuccs(b)
			if !ok {
				return nil, nil, false
			}
			bo, isB := cond.(*ssa.BinOp)
			if !isB || bo.Op != token.NEQ || !isNilConst(bo.Y) {
				return nil, nil, false
			}
			if _, isIface := bo.X.Type().Underlying().(*types.Interface); !isIface {
				return nil, nil, false
			}
			return bo.X, t, true
		}
		k := map[string]int{}
		eachInstr(hp, func(in ssa.Instruction) {
			c, ok := in.(*ssa.Call)
			if !ok {
				return
			}
			s := callSym(c.Common())
			if s.recv != "replicateChannelHandler" || !errSrc[s.name] {
				return
			}
			k[s.name]++
			cons := fmt.Sprintf("(*replicateChannelHandler).handlePack | error of %s#%d", s.name, k[s.name])
			ev := extractIdx(c, 1)
			if ev == nil {
				r.Fail(rule, cons, c.Pos(), "the error result is discarded")
				return
			}
			res0 := extractIdx(c, 0)
			header := loopHeaderOf(c.Block())
			// blocks that test an error value fed by ev
			tests := map[*ssa.BasicBlock]*ssa.BasicBlock{}
			for _, b := range hp.Blocks {
				tv, t, ok := isErrTest(b)
				if !ok {
					continue
				}
				for _, x := range backSlice(tv, SliceOpts{MaxDepth: 6}) {
					if x == ev {
						tests[b] = t
					}
				}
			}
			if len(tests) == 0 {
				r.Fail(rule, cons, c.Pos(), "the error is never tested: a failing lookup is silently ignored and the message is emitted with wrong ids or dropped")
				return
			}
			// reachability from the call to the loop header / exits avoiding test blocks and justified edges
			justified := func(b *ssa.BasicBlock) *ssa.BasicBlock {
				cond, t, _, ok := ifSuccs(b)
				if !ok {
					return nil
				}
				// result0 == -1  (the stored result field compared with -1)
				if bo, isB := cond.(*ssa.BinOp); isB && bo.Op == token.EQL {
					if cst, isC := bo.Y.(*ssa.Const); isC && cst.Value != nil && cst.Value.ExactString() == "-1" {
						_ = res0
						return t
					}
				}
				// drop-state predicates
				for _, x := range backSlice(cond, SliceOpts{MaxDepth: 5}) {
					if cc, isCall := x.(*ssa.Call); isCall {
						ap := w.accessPath(cc.Call.Value)
						if strings.HasSuffix(ap, ".isDroppedCollection") || strings.HasSuffix(ap, ".isDroppedPartition") {
							return t
						}
					}
				}
				return nil
			}
			seen := map[*ssa.BasicBlock]bool{}
			var leak *ssa.BasicBlock
			var dfs func(b *ssa.BasicBlock)
			dfs = func(b *ssa.BasicBlock) {
				if seen[b] || leak != nil {
					return
				}
				seen[b] = true
				if _, isTest := tests[b]; isTest && b != c.Block() {
					return
				}
				jt := justified(b)
				for _, s := range b.Succs {
					if s == jt {
						continue
					}
					if s == header {
						leak = b
						return
					}
					if len(s.Succs) == 0 {
						// function exit without an error test: only acceptable if s itself reports
						leak = s
						return
					}
					dfs(s)
				}
			}
			// start after the call: successors of the call's block, or the block itself if it is a test
			if _, isTest := tests[c.Block()]; !isTest {
				dfs(c.Block())
			}
			if leak != nil {
				r.Fail(rule, cons, leak.Instrs[len(leak.Instrs)-1].Pos(), "the loop can be continued (or the function left) after this call without testing its error and without a drop-state / `-1` justification: the failing message is silently skipped")
				return
			}
			// the true branch of each test reports and returns
			okRep := true
			for _, t := range tests {
				rep, ret := false, false
				for _, in := range t.Instrs {
					if cc, ok := in.(*ssa.Call); ok && callSym(cc.Common()).name == "sendErrEvent" {
						rep = true
					}
					if _, ok := in.(*ssa.Return); ok {
						ret = true
					}
				}
				if !rep || !ret {
					okRep = false
				}
			}
			r.Check(okRep, rule, cons, c.Pos(), "tested; the error branch calls sendErrEvent and returns", "the error branch does not both report (sendErrEvent) and return")
		})
		_ = fam
	}

}
