package main

import (
	"fmt"
	"go/token"
	"go/types"
	"strings"

	"golang.org/x/tools/go/ssa"
)

func init() {
	register("C13", &propDef{run: runC13,
		explain: "The list/watch hand-off race itself is a schedule property and is NOT decided. Decided structural necessary conditions of 'no source collection or partition is missed or double-started': (R1) in CollectionReader.StartRead both subscriptions and both catalog watches are made before the listing and StartWatch follows the listings on every completing path; in EtcdOp.Watch* the etcd watch is opened before the goroutine and the event loop starts only after the start-watch signal; (R2) consumer protocol: where a task's own selection predicate says 'not mine' the consumer returns false (the dispatcher stops at the first true); (R3) the lookup and the insert of replicateCollections[id] / replicatePartitions[c][p] are in one write-lock span and the found branch does not insert; (R4) incarnations: the ids recorded as repeated go to AddDroppedCollection and are excluded from both start loops, the newer creation time wins, and creating->dropped events go to AddDroppedCollection; (R5) the shared once-only catalog watch must not be bound to the context of a single task.",
		notDec:  []string{"the interleaving of catalog writes with subscribe/watch/list/start-watch (only the order of the steps is decided)", "etcd watch delivery guarantees"},
	})
}

func runC13(w *World, r *Report) {
	defer c13StopReleases(w, r, "C13-R7")
	defer c13NotMineOnlyBySelection(w, r)
	defer c15CatalogTables(w, r, "C13-R8")
	defer catalogStatePairs(w, r, "C13-R6")
	r.Rule("C13-R1", "subscribe and watch before list, release after", "StartRead: Subscribe{Collection,Partition}Event and Watch{Collection,Partition} dominate GetAllCollection; StartWatch post-dominates GetAllPartition. Watch*: etcd Watch opened outside the goroutine; the event loop is entered only through the start-watch case", 8)
	r.Rule("C13-R2", "consumer protocol", "in both event consumers the branch on which shouldReadFunc reports false returns false", 2)
	r.Rule("C13-R3", "dedup is atomic", "replicateCollections / replicatePartitions: comma-ok lookup and insert inside one write-lock span, insert only on the not-found branch", 2)
	r.Rule("C13-R4", "incarnations", "repeated ids -> AddDroppedCollection before the start loops; both start loops skip repeated ids; newer CreateTime wins; SkipCollectionState -> AddDroppedCollection", 5)
	r.Rule("C13-R5", "shared watch outlives any single task", "a sync.Once-guarded watcher of the per-target catalog client that stops on ctx.Done() must not be given a context that a single task's quit function cancels", 2)

	sr := w.Func(pkgReader, "CollectionReader", "StartRead")
	if sr == nil || len(sr.AnonFuncs) == 0 {
		r.Undecided("C13-R1", "StartRead", 0, "anchor not found")
		return
	}
	body := sr.AnonFuncs[0] // the startOnce.Do literal
	find := func(fn *ssa.Function, name string) []ssa.CallInstruction {
		var out []ssa.CallInstruction
		eachInstr(fn, func(in ssa.Instruction) {
			if ci, ok := in.(ssa.CallInstruction); ok && ci.Common().IsInvoke() && ci.Common().Method.Name() == name {
				if _, isGo := in.(*ssa.Go); !isGo {
					out = append(out, ci)
				}
			}
		})
		return out
	}
	list := find(body, "GetAllCollection")
	listP := find(body, "GetAllPartition")
	if len(list) != 1 || len(listP) != 1 {
		r.Undecided("C13-R1", "StartRead | listings", body.Pos(), "GetAllCollection/GetAllPartition calls not unique")
	} else {
		for _, n := range []string{"SubscribeCollectionEvent", "SubscribePartitionEvent", "WatchCollection", "WatchPartition"} {
			cs := find(body, n)
			ok := len(cs) >= 1
			for _, c := range cs {
				if !instrDominates(c, list[0]) {
					ok = false
				}
			}
			r.Check(ok, "C13-R1", "(*CollectionReader).StartRead | "+n+" before listing", list[0].Pos(), n+" dominates GetAllCollection", n+" does not precede the listing: an object created between listing and subscription/watch is never noticed")
		}
		sw := find(body, "StartWatch")
		pd := postDominators(body)
		ok := len(sw) == 1 && postDomInstr(pd, sw[0], listP[0]) && instrDominates(list[0], sw[0])
		r.Check(ok, "C13-R1", "(*CollectionReader).StartRead | StartWatch after listings", listP[0].Pos(), "StartWatch post-dominates GetAllPartition", "StartWatch is not reached on every path after the listings (buffered watch events are never released) or is called before the listing (events race with the listing)")
	}
	for _, name := range []string{"WatchCollection", "WatchPartition"} {
		fn := w.Func(pkgReader, "EtcdOp", name)
		cons := "(*EtcdOp)." + name
		if fn == nil || len(fn.AnonFuncs) == 0 || len(fn.AnonFuncs[0].AnonFuncs) == 0 {
			r.Undecided("C13-R1", cons, 0, "anchor not found")
			continue
		}
		once := fn.AnonFuncs[0]
		var goFn *ssa.Function
		var goIn ssa.Instruction
		eachInstr(once, func(in ssa.Instruction) {
			if g, ok := in.(*ssa.Go); ok {
				if mc, ok := g.Call.Value.(*ssa.MakeClosure); ok {
					goFn, goIn = mc.Fn.(*ssa.Function), in
				}
			}
		})
		watch := find(once, "Watch")
		okOpen := goFn != nil && len(watch) == 1 && instrDominates(watch[0], goIn)
		r.Check(okOpen, "C13-R1", cons+" | watch opened before the goroutine", fn.Pos(), "etcdClient.Watch precedes `go`", "the etcd watch is not opened synchronously in "+name+": events written before the goroutine runs are lost")
		if goFn != nil {
			// first select has a case receiving from .startWatch; the loop is reachable only through it
			var sel *ssa.Select
			for _, in := range goFn.Blocks[0].Instrs {
				if s, ok := in.(*ssa.Select); ok {
					sel = s
				}
			}
			okGate := false
			if sel != nil && sel.Blocking {
				idx := -1
				for i, st := range sel.States {
					if st.Dir == types.RecvOnly && strings.HasSuffix(w.accessPath(st.Chan), ".startWatch") {
						idx = i
					}
				}
				if idx >= 0 {
					// every other case must return before any loop
					okGate = true
					for i := range sel.States {
						if i == idx {
							continue
						}
						cb := selectCaseBlock(sel, i)
						if cb == nil {
							okGate = false
							continue
						}
						for b := range blockReach(cb, nil) {
							if loopHeaderOf(b) != nil {
								okGate = false
							}
						}
					}
				}
			}
			r.Check(okGate, "C13-R1", cons+" | loop gated by start-watch", goFn.Pos(), "event loop entered only after <-startWatch", "watch events are dispatched before StartWatch releases them (an object can be started from the watch and again from the listing, or with stale listing state)")
		}
	}

	// ---------- R2
	for _, spec := range []struct{ sub, label string }{{"SubscribeCollectionEvent", "collection"}, {"SubscribePartitionEvent", "partition"}} {
		cs := find(body, spec.sub)
		cons := "(*CollectionReader).StartRead | " + spec.label + " consumer: not-mine returns false"
		if len(cs) != 1 {
			r.Undecided("C13-R2", cons, body.Pos(), "subscription call not unique")
			continue
		}
		mc, ok := cs[0].Common().Args[1].(*ssa.MakeClosure)
		if !ok {
			// changetype wrapper
			for _, v := range backSlice(cs[0].Common().Args[1], SliceOpts{MaxDepth: 3}) {
				if m, isM := v.(*ssa.MakeClosure); isM {
					mc, ok = m, true
				}
			}
		}
		if !ok {
			r.Undecided("C13-R2", cons, cs[0].Pos(), "consumer is not a function literal")
			continue
		}
		g := mc.Fn.(*ssa.Function)
		good, found := true, false
		for _, b := range g.Blocks {
			cond, t, f, isIf := ifSuccs(b)
			if !isIf {
				continue
			}
			e, isE := cond.(*ssa.Extract)
			if !isE || e.Index != 1 {
				continue
			}
			c, isC := e.Tuple.(*ssa.Call)
			if !isC || !strings.HasSuffix(w.accessPath(c.Call.Value), ".shouldReadFunc") {
				continue
			}
			found = true
			_ = t
			// false successor = not mine
			for _, in := range f.Instrs {
				if ret, isR := in.(*ssa.Return); isR {
					cv, isConst := ret.Results[0].(*ssa.Const)
					if !isConst || cv.Value == nil || cv.Value.ExactString() != "false" {
						good = false
					}
				}
			}
			// the not-mine block must return directly
			if _, isR := f.Instrs[len(f.Instrs)-1].(*ssa.Return); !isR {
				good = false
			}
		}
		r.Check(found && good, "C13-R2", cons, g.Pos(), "returns false when the task does not select the object", "the consumer reports an object it does not replicate as consumed: with several tasks on one source the owning task never sees it when this task is visited first")
	}

	// ---------- R3
	for _, spec := range []struct{ fn, field, lock string }{{"StartReadCollection", "replicateCollections", ".collectionLock"}, {"AddPartition", "replicatePartitions", ".partitionLock"}} {
		fn := w.Func(pkgReader, "replicateChannelManager", spec.fn)
		cons := fmt.Sprintf("(*replicateChannelManager).%s | %s lookup+insert atomic", spec.fn, spec.field)
		if fn == nil {
			r.Undecided("C13-R3", cons, 0, "anchor not found")
			continue
		}
		var ins *ssa.MapUpdate
		eachInstr(fn, func(in ssa.Instruction) {
			if mu, ok := in.(*ssa.MapUpdate); ok {
				ap := w.accessPath(mu.Map)
				if strings.HasSuffix(ap, "."+spec.field) || strings.HasSuffix(ap, "."+spec.field+"[]") {
					if _, isChan := mu.Value.Type().Underlying().(*types.Chan); isChan {
						ins = mu
					}
				}
			}
		})
		if ins == nil {
			r.Fail("C13-R3", cons, fn.Pos(), "insert into "+spec.field+" not found")
			continue
		}
		held := w.locksHeldAt(ins)
		okLock := heldSuffix(held, spec.lock, "W")
		// a comma-ok lookup on the same map whose found-branch cannot reach the insert, in the same span
		okLookup := false
		for _, b := range fn.Blocks {
			cond, t, f, isIf := ifSuccs(b)
			if !isIf {
				continue
			}
			e, isE := cond.(*ssa.Extract)
			if !isE || e.Index != 1 {
				continue
			}
			lk, isL := e.Tuple.(*ssa.Lookup)
			if !isL {
				continue
			}
			lap := w.accessPath(lk.X)
			if !(strings.HasSuffix(lap, "."+spec.field) || strings.HasSuffix(lap, "."+spec.field+"[]")) {
				continue
			}
			if _, isChan := lk.Type().(*types.Tuple).At(0).Type().Underlying().(*types.Chan); !isChan {
				continue
			}
			_ = f
			foundReachesInsert := t == ins.Block() || blockReach(t, nil)[ins.Block()]
			sameSpan := heldSuffix(w.locksHeldAt(lk), spec.lock, "W") && spanUnbroken(w, lk, ins, spec.lock)
			if !foundReachesInsert && sameSpan {
				okLookup = true
			}
		}
		r.Check(okLock && okLookup, "C13-R3", cons, ins.Pos(), "lookup and insert in one write-lock span; found branch does not insert", fmt.Sprintf("check-then-insert of %s is not atomic (write lock at insert=%v, guarded by a same-span lookup=%v): two notifications about one object can both start it", spec.field, okLock, okLookup))
	}

	// ---------- R4
	{
		fam := familyOf(body)
		// AddDroppedCollection(lo.Keys(repeatedCollectionID)) dominates the StartReadCollection call of the listing loop
		adds := find(body, "AddDroppedCollection")
		starts := find(body, "StartReadCollection")
		var repAlloc ssa.Value
		okAdd := false
		for _, a := range adds {
			for _, v := range backSlice(a.Common().Args[0], SliceOpts{ThroughArg: func(c *ssa.CallCommon) []ssa.Value { return c.Args }, MaxDepth: 6}) {
				if mm, ok := v.(*ssa.MakeMap); ok {
					repAlloc = mm
				}
			}
			if repAlloc != nil && len(starts) == 1 && instrDominates(a, starts[0]) {
				okAdd = true
			}
		}
		r.Check(okAdd, "C13-R4", "(*CollectionReader).StartRead | repeated ids recorded as dropped", body.Pos(), "AddDroppedCollection(keys of the repeated-id set) dominates the start loop", "older incarnations of a re-created collection are not recorded as dropped before streams are started")
		// start loop skips repeated ids
		skipOK := func(call ssa.CallInstruction, host *ssa.Function) bool {
			for _, b := range host.Blocks {
				cond, t, f, isIf := ifSuccs(b)
				if !isIf {
					continue
				}
				e, isE := cond.(*ssa.Extract)
				if !isE || e.Index != 1 {
					continue
				}
				lk, isL := e.Tuple.(*ssa.Lookup)
				if !isL || baseObject(familyOf(host), lk.X) != repAlloc {
					continue
				}
				_ = t
				if (f == call.Block() || f.Dominates(call.Block())) && !(blockReach(t, map[*ssa.BasicBlock]bool{b: true})[call.Block()] && loopHeaderOf(b) == nil) {
					return true
				}
			}
			return false
		}
		if len(starts) == 1 && repAlloc != nil {
			r.Check(skipOK(starts[0], body), "C13-R4", "(*CollectionReader).StartRead | collection start loop skips repeated ids", starts[0].Pos(), "StartReadCollection only on the not-repeated branch", "an older incarnation of a repeated name can be started")
		} else {
			r.Fail("C13-R4", "(*CollectionReader).StartRead | collection start loop skips repeated ids", body.Pos(), "start loop / repeated-id set not found")
		}
		// partition filter: AddPartition in the GetAllPartition callback dominated by not-repeated
		var pcb *ssa.Function
		if len(listP) == 1 {
			for _, v := range backSlice(listP[0].Common().Args[1], SliceOpts{MaxDepth: 3}) {
				if m, ok := v.(*ssa.MakeClosure); ok {
					pcb = m.Fn.(*ssa.Function)
				}
			}
		}
		if pcb != nil && repAlloc != nil {
			ap := find(pcb, "AddPartition")
			ok := len(ap) == 1
			if ok {
				// the lookup in the closure goes through a free variable bound to repAlloc
				ok = false
				for _, b := range pcb.Blocks {
					cond, _, f, isIf := ifSuccs(b)
					if !isIf {
						continue
					}
					e, isE := cond.(*ssa.Extract)
					if !isE || e.Index != 1 {
						continue
					}
					lk, isL := e.Tuple.(*ssa.Lookup)
					if !isL || baseObject(fam, lk.X) != repAlloc {
						continue
					}
					if f == ap[0].Block() || f.Dominates(ap[0].Block()) {
						ok = true
					}
				}
			}
			r.Check(ok, "C13-R4", "(*CollectionReader).StartRead | partition start skips repeated collections", pcb.Pos(), "AddPartition only for collections not in the repeated-id set", "partitions of an older incarnation can be started")
		} else {
			r.Fail("C13-R4", "(*CollectionReader).StartRead | partition start skips repeated collections", body.Pos(), "partition listing callback not found")
		}
		// newer creation time wins: under `createTime > last.CreateTime` the last id is marked repeated, else the current one
		okNewer := false
		nScope := 0
		for _, b := range body.Blocks {
			cond, t, f, isIf := ifSuccs(b)
			if !isIf {
				continue
			}
			bo, isB := cond.(*ssa.BinOp)
			if !isB || (bo.Op != token.GTR && bo.Op != token.LSS) {
				continue
			}
			xp, yp := w.accessPath(bo.X), w.accessPath(bo.Y)
			if !strings.HasSuffix(xp, ".CreateTime") || !strings.HasSuffix(yp, ".CreateTime") {
				continue
			}
			cur, last := xp, yp // cur > last
			newerB, olderB := t, f
			if bo.Op == token.LSS {
				newerB, olderB = f, t
			}
			markIn := func(blk *ssa.BasicBlock, ofPrefix string) bool {
				for _, in := range blk.Instrs {
					if mu, ok := in.(*ssa.MapUpdate); ok && baseObject(fam, mu.Map) == repAlloc {
						if strings.HasPrefix(w.accessPath(mu.Key), strings.TrimSuffix(ofPrefix, ".CreateTime")) {
							return true
						}
					}
				}
				return false
			}
			if markIn(newerB, last) && markIn(olderB, cur) {
				okNewer = true
			}
			// the two incarnations compared belong to one database: the remembered one is found through a lookup
			// keyed (at some level) by the database id of the listed one
			scoped := false
			for _, side := range []ssa.Value{bo.X, bo.Y} {
				for _, x := range backSlice(side, SliceOpts{MaxDepth: 10}) {
					lk, isL := x.(*ssa.Lookup)
					if !isL {
						continue
					}
					for _, y := range backSlice(lk.Index, SliceOpts{MaxDepth: 6, ThroughArg: func(c *ssa.CallCommon) []ssa.Value { return callArgs(c) }}) {
						if c, isC := y.(*ssa.Call); isC && callSym(c.Common()).name == "GetDbId" {
							scoped = true
						}
						if strings.HasSuffix(w.accessPath(y), ".DbId") {
							scoped = true
						}
					}
				}
			}
			nScope++
			r.Check(scoped, "C13-R4", fmt.Sprintf("(*CollectionReader).StartRead | incarnations are compared within one database #%d", nScope), bo.Pos(), "the remembered incarnation is looked up under the listed collection's database id", "creation times of same-named collections are compared across databases: a live collection whose name also exists in another database is recorded as an older incarnation (dropped) and never replicated")
		}
		if nScope == 0 {
			r.Fail("C13-R4", "(*CollectionReader).StartRead | incarnations are compared within one database", body.Pos(), "no comparison of creation times found")
		}
		r.Check(okNewer, "C13-R4", "(*CollectionReader).StartRead | newest incarnation wins", body.Pos(), "the incarnation with the smaller CreateTime is the one marked repeated", "the comparison of creation times marks the wrong incarnation as repeated (the older one would be replicated)")
		// SkipCollectionState -> AddDroppedCollection in the collection consumer
		okSkip := false
		for _, g := range body.AnonFuncs {
			for _, c := range find(g, "AddDroppedCollection") {
				for _, b := range g.Blocks {
					cond, t, _, isIf := ifSuccs(b)
					if !isIf {
						continue
					}
					if bo, isB := cond.(*ssa.BinOp); isB && bo.Op == token.EQL && strings.HasSuffix(w.accessPath(bo.X), ".State") {
						if t == c.Block() || t.Dominates(c.Block()) {
							okSkip = true
						}
					}
				}
			}
		}
		r.Check(okSkip, "C13-R4", "(*CollectionReader).StartRead | creating->dropped goes to AddDroppedCollection", body.Pos(), "SkipCollectionState handled", "objects that went from creating straight to dropped are not recorded as dropped")
	}

	// ---------- R5
	c13R5(w, r)
}

// selectCaseBlock returns the block executed when select chose case i (nil if not found).
func selectCaseBlock(sel *ssa.Select, i int) *ssa.BasicBlock {
	var idx ssa.Value
	for _, ref := range *sel.Referrers() {
		if e, ok := ref.(*ssa.Extract); ok && e.Index == 0 {
			idx = e
		}
	}
	if idx == nil {
		return nil
	}
	fn := sel.Parent()
	var lastElse *ssa.BasicBlock
	n := len(sel.States)
	for _, b := range fn.Blocks {
		cond, t, f, ok := ifSuccs(b)
		if !ok {
			continue
		}
		bo, isB := cond.(*ssa.BinOp)
		if !isB || bo.Op != token.EQL || bo.X != idx {
			continue
		}
		c, isC := bo.Y.(*ssa.Const)
		if !isC || c.Value == nil {
			continue
		}
		if c.Value.ExactString() == fmt.Sprint(i) {
			return t
		}
		if c.Value.ExactString() == fmt.Sprint(n-2) {
			lastElse = f
		}
	}
	if i == n-1 {
		// the last case is the else branch of the last comparison (or the only successor for 1 case)
		if lastElse != nil {
			return lastElse
		}
		if n == 1 && len(sel.Block().Succs) == 1 {
			return sel.Block().Succs[0]
		}
	}
	return nil
}

// spanUnbroken: no Unlock of the lock whose path ends with suffix can execute between a and b.
func spanUnbroken(w *World, a, b ssa.Instruction, suffix string) bool {
	fn := a.Parent()
	ok := true
	eachInstr(fn, func(in ssa.Instruction) {
		c, isC := in.(*ssa.Call)
		if !isC {
			return
		}
		s := callSym(c.Common())
		if s.name != "Unlock" && s.name != "RUnlock" {
			return
		}
		rc := callRecv(c.Common())
		if rc == nil || !strings.HasSuffix(w.accessPath(rc), suffix) {
			return
		}
		if instrReaches(a, c) && instrReaches(c, b) && loopFree(a, c) {
			// only unlocks on paths that continue to b matter
			if c.Block() == b.Block() && instrIndex(c) < instrIndex(b) {
				ok = false
			} else if blockReach(c.Block(), nil)[b.Block()] {
				ok = false
			}
		}
	})
	return ok
}

func c13R5(w *World, r *Report) {
	// hop 1: once-guarded watcher bound to the caller's ctx
	shared := map[string]bool{}
	for _, name := range []string{"WatchCollection", "WatchPartition"} {
		fn := w.Func(pkgReader, "EtcdOp", name)
		if fn == nil || len(fn.AnonFuncs) == 0 {
			r.Undecided("C13-R5", "(*EtcdOp)."+name, 0, "anchor not found")
			continue
		}
		// guarded by sync.Once.Do
		once := false
		eachInstr(fn, func(in ssa.Instruction) {
			if c, ok := in.(*ssa.Call); ok && callSym(c.Common()) == (sym{"sync", "Once", "Do"}) {
				once = true
			}
		})
		// some goroutine in it selects on Done() of the function's ctx parameter
		bound := false
		ctxParam := fn.Params[1]
		eachInstrDeep(fn, func(g *ssa.Function, in ssa.Instruction) {
			c, ok := in.(*ssa.Call)
			if !ok || !c.Call.IsInvoke() || c.Call.Method.Name() != "Done" {
				return
			}
			fam := familyOf(g)
			if fam.canon(c.Call.Value) == ssa.Value(ctxParam) || baseObject(fam, c.Call.Value) == ssa.Value(ctxParam) {
				bound = true
			}
		})
		shared[name] = once && bound
	}
	// hop 2: StartRead passes a context derived from its own parameter
	sr := w.Func(pkgReader, "CollectionReader", "StartRead")
	passes := false
	if sr != nil && len(sr.AnonFuncs) > 0 {
		eachInstr(sr.AnonFuncs[0], func(in ssa.Instruction) {
			ci, ok := in.(ssa.CallInstruction)
			if !ok || !ci.Common().IsInvoke() || !strings.HasPrefix(ci.Common().Method.Name(), "Watch") {
				return
			}
			for _, v := range backSlice(ci.Common().Args[0], SliceOpts{ThroughArg: func(c *ssa.CallCommon) []ssa.Value { return c.Args }, MaxDepth: 8}) {
				if v == ssa.Value(sr.Params[1]) {
					passes = true
				}
			}
		})
	}
	// hop 3: startInternal gives StartRead a context whose cancel function is called by the task's quit function
	si := w.Func(pkgServer, "MetaCDC", "startInternal")
	perTask := false
	if si != nil {
		fam := familyOf(si)
		eachInstr(si, func(in ssa.Instruction) {
			ci, ok := in.(ssa.CallInstruction)
			if !ok || !ci.Common().IsInvoke() || ci.Common().Method.Name() != "StartRead" {
				return
			}
			if !typeIs(ci.Common().Value.Type(), pkgAPI, "Reader") {
				return
			}
			ctxv := baseObject(fam, ci.Common().Args[0])
			e, isE := ctxv.(*ssa.Extract)
			if !isE {
				return
			}
			wc, isC := e.Tuple.(*ssa.Call)
			if !isC || callSym(wc.Common()) != (sym{"context", "", "WithCancel"}) {
				return
			}
			cancel := extractIdx(wc, 1)
			// the cancel func is invoked inside a closure that is inserted into taskQuitFuncs
			for _, g := range si.AnonFuncs {
				called := false
				eachInstr(g, func(x ssa.Instruction) {
					if c, ok := x.(*ssa.Call); ok && fam.canon(c.Call.Value) != nil {
						if baseObject(fam, c.Call.Value) == cancel || fam.canon(c.Call.Value) == cancel {
							called = true
						}
						if u, isU := c.Call.Value.(*ssa.UnOp); isU {
							if al, isAl := fam.canon(u.X).(*ssa.Alloc); isAl {
								for _, st := range fam.stores[al] {
									if st.Val == cancel {
										called = true
									}
								}
							}
						}
					}
				})
				if called {
					perTask = true
				}
			}
		})
	}
	for _, name := range []string{"WatchCollection", "WatchPartition"} {
		cons := "(*EtcdOp)." + name + " | lifetime of the shared watch"
		bad := shared[name] && passes && perTask
		fn := w.Func(pkgReader, "EtcdOp", name)
		pos := token.NoPos
		if fn != nil {
			pos = fn.Pos()
		}
		r.Check(!bad, "C13-R5", cons, pos, fmt.Sprintf("not bound to one task (once-guarded+ctx-bound=%v, reader passes its ctx=%v, server passes a per-task ctx=%v)", shared[name], passes, perTask),
			"the catalog watch is opened once per target (sync.Once) but runs under the context of the task that happened to start first; when that task is paused or deleted its quit function cancels the context, the watch goroutine exits, and collections/partitions created later are never noticed by the other tasks of the target")
	}
}

// c13StopReleases (C13-R7, shared with C11): stopping a collection always gives its registration back. A collection that
// joined another collection's channel handler has no handler of its own to stop, but it is registered in
// replicateCollections all the same; if a return can bypass the release the next start is refused as "already replicated".
func c13StopReleases(w *World, r *Report, rule string) {
	r.Rule(rule, "stopping a collection always releases its registration", "every return of replicateChannelManager.StopReadCollection is dominated by the lookup of replicateCollections[info.ID] (the table the dedup of StartReadCollection consults): no early return skips the release", 1)
	fn := w.Func(pkgReader, "replicateChannelManager", "StopReadCollection")
	if fn == nil {
		r.Undecided(rule, "StopReadCollection", 0, "anchor not found")
		return
	}
	var lks []ssa.Instruction
	eachInstr(fn, func(in ssa.Instruction) {
		if lk, ok := in.(*ssa.Lookup); ok && strings.HasSuffix(strings.TrimSuffix(w.accessPath(lk.X), "[]"), ".replicateCollections") {
			lks = append(lks, lk)
		}
	})
	n := 0
	eachInstr(fn, func(in ssa.Instruction) {
		ret, ok := in.(*ssa.Return)
		if !ok || ret.Block().Comment == "recover" {
			return
		}
		n++
		dom := false
		for _, lk := range lks {
			if instrDominates(lk, ret) {
				dom = true
			}
		}
		r.Check(dom, rule, fmt.Sprintf("(*replicateChannelManager).StopReadCollection | return #%d follows the release", n), ret.Pos(), "replicateCollections is consulted on every path", "this return is reached without looking the collection up in replicateCollections: its registration (and its partitions') stays behind, so after pause and resume the collection is refused as already replicated and never restarted")
	})
}

// c13NotMineOnlyBySelection (C13-R9): an event consumer answers "not mine" (false: let the other tasks look at it) only
// when its own selection function said so, or after it has handed the object to the channel manager. Any other reason
// (a table of what this task happens to replicate right now) turns a timing window into a lost partition.
func c13NotMineOnlyBySelection(w *World, r *Report) {
	r.Rule("C13-R9", "an event is declined only by the selection function", "in the collection / partition event consumers of CollectionReader.StartRead every `return false` is controlled by the result of shouldReadFunc or follows the AddPartition / StartReadCollection call", 2)
	sr := w.Func(pkgReader, "CollectionReader", "StartRead")
	if sr == nil {
		r.Undecided("C13-R9", "StartRead", 0, "anchor not found")
		return
	}
	n := 0
	for _, g := range familyOf(sr).Funcs {
		if g.Parent() == nil || g.Signature.Results().Len() != 1 || g.Signature.Params().Len() != 1 {
			continue
		}
		if b, ok := g.Signature.Results().At(0).Type().Underlying().(*types.Basic); !ok || b.Kind() != types.Bool {
			continue
		}
		pt := g.Signature.Params().At(0).Type().String()
		if !strings.HasSuffix(pt, "pb.PartitionInfo") && !strings.HasSuffix(pt, "pb.CollectionInfo") {
			continue
		}
		var selects, hands []ssa.Instruction
		eachInstr(g, func(in ssa.Instruction) {
			c, ok := in.(*ssa.Call)
			if !ok {
				return
			}
			if strings.HasSuffix(w.accessPath(c.Call.Value), ".shouldReadFunc") {
				selects = append(selects, c)
			}
			if nm := callSym(c.Common()).name; nm == "AddPartition" || nm == "StartReadCollection" {
				hands = append(hands, c)
			}
		})
		if len(selects) == 0 {
			continue // the listing filters: not an event consumer
		}
		k := 0
		eachInstr(g, func(in ssa.Instruction) {
			ret, ok := in.(*ssa.Return)
			if !ok || len(ret.Results) != 1 {
				return
			}
			c, isC := ret.Results[0].(*ssa.Const)
			if !isC || c.Value == nil || c.Value.String() != "false" {
				return
			}
			n++
			k++
			good := ""
			for _, h := range hands {
				if instrDominates(h, ret) {
					good = "after the object was handed to the channel manager"
				}
			}
			if good == "" {
				for _, b := range g.Blocks {
					cond, _, _, isIf := ifSuccs(b)
					if !isIf || !b.Dominates(ret.Block()) || b == ret.Block() {
						continue
					}
					// the innermost deciding branch must be the selection's
					for _, x := range backSlice(cond, SliceOpts{MaxDepth: 5}) {
						for _, sc := range selects {
							if x == sc.(ssa.Value) {
								// and no other decision lies between it and the return
								inner := false
								for _, b2 := range g.Blocks {
									if _, _, _, isIf2 := ifSuccs(b2); isIf2 && b2 != b && b.Dominates(b2) && b2.Dominates(ret.Block()) && b2 != ret.Block() {
										inner = true
									}
								}
								if !inner {
									good = "shouldReadFunc said no"
								}
							}
						}
					}
				}
			}
			r.Check(good != "", "C13-R9", fmt.Sprintf("%s | return false #%d", shortFn2(g), k), ret.Pos(), good, "the consumer declines the event for a reason other than its selection function (e.g. the collection is not yet in the table of collections this task replicates): a partition created right after its collection — whose start is still waiting for the target — is dropped by every task, silently")
		})
	}
	if n == 0 {
		r.Undecided("C13-R9", "StartRead consumers", sr.Pos(), "no consumer literal with a `return false` found")
	}
}
