package main

import (
	"fmt"
	"go/ast"
	"go/token"
	"go/types"
	"os"
	"sort"
	"strings"
	"time"

	"golang.org/x/tools/go/packages"
	"golang.org/x/tools/go/ssa"
	"golang.org/x/tools/go/ssa/ssautil"
)

const (
	modCore   = "github.com/zilliztech/milvus-cdc/core"
	modServer = "github.com/zilliztech/milvus-cdc/server"

	pkgReader    = modCore + "/reader"
	pkgWriter    = modCore + "/writer"
	pkgAPI       = modCore + "/api"
	pkgUtil      = modCore + "/util"
	pkgModel     = modCore + "/model"
	pkgMeta      = modCore + "/meta"
	pkgCorePB    = modCore + "/pb"
	pkgCoreLog   = modCore + "/log"
	pkgServer    = modServer
	pkgStore     = modServer + "/store"
	pkgPacker    = modServer + "/msgpacker"
	pkgSrvMeta   = modServer + "/model/meta"
	pkgSrvModel  = modServer + "/model"
	pkgRequest   = modServer + "/model/request"
	pkgMetrics   = modServer + "/metrics"
	pkgMsgstream = "github.com/milvus-io/milvus/pkg/mq/msgstream"
	pkgMsgpb     = "github.com/milvus-io/milvus-proto/go-api/v2/msgpb"
	pkgCommonpb  = "github.com/milvus-io/milvus-proto/go-api/v2/commonpb"
	pkgMilvuspb  = "github.com/milvus-io/milvus-proto/go-api/v2/milvuspb"
)

// World is the resolved program under analysis.
type World struct {
	RepoRoot string
	Tier     string
	Fset     *token.FileSet
	Pkgs     []*packages.Package          // the initial (repo) packages
	ByPath   map[string]*packages.Package // every package in the import closure
	Prog     *ssa.Program
	SSA      map[string]*ssa.Package // by package path (repo packages only in quick tier)
	LoadS    float64
	NumFuncs int
	// lazily computed
	allFuncs  map[*ssa.Function]bool
	Canon     *CanonLog
	funcDecls map[*types.Func]*ast.FuncDecl
	litByPos  map[token.Pos]*ast.FuncLit
}

var writeBaselineMode bool

func repoRoot() string {
	if r := os.Getenv("VERIF_REPO"); r != "" {
		return r
	}
	return "/repo"
}

// Load loads the working tree of the repository. whole=true loads syntax for the
// whole import closure (thorough tier).
func Load(tier string, whole bool, overlay map[string][]byte) (*World, error) {
	t0 := time.Now()
	root := repoRoot()
	mode := packages.LoadSyntax
	if whole {
		mode = packages.LoadAllSyntax
	}
	env := []string{}
	for _, e := range os.Environ() {
		if strings.HasPrefix(e, "GOWORK=") || strings.HasPrefix(e, "GOFLAGS=") || strings.HasPrefix(e, "GOPROXY=") || strings.HasPrefix(e, "GOSUMDB=") || strings.HasPrefix(e, "GOTOOLCHAIN=") {
			continue
		}
		env = append(env, e)
	}
	env = append(env, "GOWORK=off", "GOFLAGS=-mod=mod", "GOPROXY=off", "GOSUMDB=off", "GOTOOLCHAIN=local")
	if ov := os.Getenv("VERIF_OVERLAY"); ov != "" && overlay == nil {
		overlay = map[string][]byte{}
		for _, kv := range strings.Split(ov, ";") {
			if i := strings.Index(kv, "="); i > 0 {
				b, err := os.ReadFile(kv[i+1:])
				if err != nil {
					return nil, fmt.Errorf("VERIF_OVERLAY: %w", err)
				}
				overlay[kv[:i]] = b
			}
		}
	}
	cfg := &packages.Config{
		Mode:    mode,
		Dir:     root + "/server",
		Env:     env,
		Tests:   false,
		Overlay: overlay,
	}
	pkgs, err := packages.Load(cfg, "./...", modCore+"/...")
	if err != nil {
		return nil, fmt.Errorf("packages.Load: %w", err)
	}
	if len(pkgs) < 28 {
		return nil, fmt.Errorf("loader: only %d repository packages loaded (expected >= 28)", len(pkgs))
	}
	var canon *CanonLog
	if os.Getenv("VERIF_NOCANON") == "" && !writeBaselineMode {
		clean := true
		for _, p := range pkgs {
			if len(p.Errors) > 0 {
				clean = false
			}
		}
		var lifted []string
		if clean {
			// closures the reference tree does not have become package-level helpers, which canonicalize() inlines
			lov, llog := liftNewClosures(pkgs, func(name string) ([]byte, error) {
				if b, ok := cfg.Overlay[name]; ok {
					return b, nil
				}
				return os.ReadFile(name)
			})
			if len(lov) > 0 {
				cfgL := *cfg
				cfgL.Overlay = map[string][]byte{}
				for k, v := range cfg.Overlay {
					cfgL.Overlay[k] = v
				}
				for k, v := range lov {
					cfgL.Overlay[k] = v
				}
				pkgsL, errL := packages.Load(&cfgL, "./...", modCore+"/...")
				okL := errL == nil && len(pkgsL) == len(pkgs)
				if okL {
					for _, p := range pkgsL {
						if len(p.Errors) > 0 {
							okL = false
						}
					}
				}
				if okL {
					cfg, pkgs, lifted = &cfgL, pkgsL, llog
				}
			}
		}
		if clean {
			ov, lg := canonicalize(*cfg, pkgs)
			if len(lifted) > 0 {
				lg.Lifted = lifted
				if ov == nil {
					ov = cfg.Overlay
				}
			}
			canon = lg
			if ov != nil {
				cfg2 := *cfg
				cfg2.Overlay = ov
				pkgs2, err2 := packages.Load(&cfg2, "./...", modCore+"/...")
				ok2 := err2 == nil && len(pkgs2) == len(pkgs)
				if ok2 {
					for _, p := range pkgs2 {
						if len(p.Errors) > 0 {
							ok2 = false
							lg.Failed = append(lg.Failed, fmt.Sprintf("canonical form of %s does not type-check: %v", p.PkgPath, p.Errors[0]))
						}
					}
				}
				if d := os.Getenv("VERIF_DUMPCANON"); d != "" {
					os.MkdirAll(d, 0o755)
					for name, b := range ov {
						os.WriteFile(d+"/"+strings.ReplaceAll(strings.TrimPrefix(name, root+"/"), "/", "__"), b, 0o644)
					}
				}
				if ok2 {
					pkgs = pkgs2
				} else {
					lg.Failed = append(lg.Failed, "canonical form rejected; the source is analysed as it is")
				}
			}
		}
	}
	w := &World{Canon: canon, RepoRoot: root, Tier: tier, Pkgs: pkgs, ByPath: map[string]*packages.Package{}, SSA: map[string]*ssa.Package{}}
	var errs []string
	packages.Visit(pkgs, nil, func(p *packages.Package) {
		w.ByPath[p.PkgPath] = p
		if strings.HasPrefix(p.PkgPath, "github.com/zilliztech/milvus-cdc/") {
			for _, e := range p.Errors {
				errs = append(errs, p.PkgPath+": "+e.Error())
			}
		}
	})
	if len(errs) > 0 {
		sort.Strings(errs)
		if len(errs) > 8 {
			errs = errs[:8]
		}
		return nil, fmt.Errorf("loader: repository packages have errors: %s", strings.Join(errs, "; "))
	}
	w.Fset = pkgs[0].Fset
	var prog *ssa.Program
	var spkgs []*ssa.Package
	if whole {
		prog, spkgs = ssautil.AllPackages(pkgs, 0)
	} else {
		prog, spkgs = ssautil.Packages(pkgs, 0)
	}
	prog.Build()
	w.Prog = prog
	for i, sp := range spkgs {
		if sp != nil {
			w.SSA[pkgs[i].PkgPath] = sp
		}
	}
	if whole {
		for _, sp := range prog.AllPackages() {
			w.SSA[sp.Pkg.Path()] = sp
		}
	}
	w.LoadS = time.Since(t0).Seconds()
	return w, nil
}

func (w *World) isRepoPkg(path string) bool {
	return strings.HasPrefix(path, "github.com/zilliztech/milvus-cdc/")
}

// AllFuncs returns every function of the program (with bodies or not).
func (w *World) AllFuncs() map[*ssa.Function]bool {
	if w.allFuncs == nil {
		w.allFuncs = ssautil.AllFunctions(w.Prog)
		w.NumFuncs = len(w.allFuncs)
	}
	return w.allFuncs
}

// RepoFuncs returns the source functions (incl. nested literals) of repository
// packages, excluding mocks, in deterministic order.
func (w *World) RepoFuncs() []*ssa.Function {
	var out []*ssa.Function
	for fn := range w.AllFuncs() {
		if fn.Pkg == nil || fn.Blocks == nil || fn.Synthetic != "" {
			continue
		}
		p := fn.Pkg.Pkg.Path()
		if !w.isRepoPkg(p) || strings.HasSuffix(p, "mocks") {
			continue
		}
		out = append(out, fn)
	}
	sort.Slice(out, func(i, j int) bool { return funcKey(out[i]) < funcKey(out[j]) })
	return out
}

func funcKey(fn *ssa.Function) string {
	return fmt.Sprintf("%s@%d", fn.String(), fn.Pos())
}

// Func resolves a package-level function or method by symbol. recv is the bare
// receiver type name ("" for a function).
func (w *World) Func(pkg, recv, name string) *ssa.Function {
	sp := w.SSA[pkg]
	if sp == nil {
		return nil
	}
	if recv == "" {
		return sp.Func(name)
	}
	tn, ok := sp.Pkg.Scope().Lookup(recv).(*types.TypeName)
	if !ok {
		return nil
	}
	named, ok := tn.Type().(*types.Named)
	if !ok {
		return nil
	}
	for _, t := range []types.Type{types.NewPointer(named), named} {
		sel := w.Prog.MethodSets.MethodSet(t).Lookup(sp.Pkg, name)
		if sel == nil {
			continue
		}
		// only methods declared on this very type (not promoted)
		if fobj, ok := sel.Obj().(*types.Func); ok {
			if fn := w.Prog.FuncValue(fobj); fn != nil {
				return fn
			}
		}
	}
	return nil
}

// Named returns the named type pkg.name.
func (w *World) Named(pkg, name string) *types.Named {
	p := w.ByPath[pkg]
	if p == nil || p.Types == nil {
		return nil
	}
	tn, ok := p.Types.Scope().Lookup(name).(*types.TypeName)
	if !ok {
		return nil
	}
	n, _ := tn.Type().(*types.Named)
	return n
}

// Obj returns a package-level object.
func (w *World) Obj(pkg, name string) types.Object {
	p := w.ByPath[pkg]
	if p == nil || p.Types == nil {
		return nil
	}
	return p.Types.Scope().Lookup(name)
}

// Field returns the *types.Var of struct field pkg.typ.field (searching embedded
// structs one level deep is NOT done: exact struct only).
func (w *World) Field(pkg, typ, field string) *types.Var {
	n := w.Named(pkg, typ)
	if n == nil {
		return nil
	}
	st, ok := n.Underlying().(*types.Struct)
	if !ok {
		return nil
	}
	for i := 0; i < st.NumFields(); i++ {
		if st.Field(i).Name() == field {
			return st.Field(i)
		}
	}
	return nil
}

func (w *World) pos(p token.Pos) string {
	if !p.IsValid() {
		return "-"
	}
	ps := w.Fset.Position(p)
	f := ps.Filename
	if strings.HasPrefix(f, w.RepoRoot+"/") {
		f = f[len(w.RepoRoot)+1:]
	} else if i := strings.Index(f, "/pkg/mod/"); i >= 0 {
		f = f[i+9:]
	}
	return fmt.Sprintf("%s:%d", f, ps.Line)
}

// FuncDecl returns the AST declaration and its package for an ssa function that
// has source syntax.
func (w *World) FuncDecl(fn *ssa.Function) (*ast.FuncDecl, *packages.Package) {
	if fn == nil {
		return nil, nil
	}
	if fd, ok := fn.Syntax().(*ast.FuncDecl); ok {
		return fd, w.ByPath[fn.Pkg.Pkg.Path()]
	}
	return nil, nil
}

// PkgOf returns the packages.Package holding fn (for TypesInfo).
func (w *World) PkgOf(fn *ssa.Function) *packages.Package {
	for fn.Parent() != nil {
		fn = fn.Parent()
	}
	if fn.Pkg == nil {
		return nil
	}
	return w.ByPath[fn.Pkg.Pkg.Path()]
}
