package main

import (
	"strings"

	"golang.org/x/tools/go/ssa"
)

// lockFacts computes, for function fn, which locks are held before each instruction.
// A lock is identified by the access path of the mutex value (e.g. "param:r.channelLock").
// Facts: "W:"+path (write lock), "R:"+path (read lock). Deferred unlocks do not release before exit.
func (w *World) lockFactsGen(in ssa.Instruction) (add []string, kill []string) {
	c, ok := in.(*ssa.Call)
	if !ok {
		return nil, nil
	}
	s := callSym(c.Common())
	switch s.name {
	case "Lock", "RLock", "Unlock", "RUnlock":
	default:
		return nil, nil
	}
	rc := callRecv(c.Common())
	if rc == nil {
		return nil, nil
	}
	// only mutex-like receivers
	tn := bareTypeName(rc.Type())
	if !strings.Contains(tn, "Mutex") && !strings.Contains(tn, "KeyLock") {
		return nil, nil
	}
	p := w.accessPath(rc)
	// keyed locks: include the key argument
	if a := callArgs(c.Common()); len(a) == 1 {
		p += "[" + w.accessPath(a[0]) + "]"
	}
	switch s.name {
	case "Lock":
		return []string{"W:" + p}, nil
	case "RLock":
		return []string{"R:" + p}, nil
	case "Unlock":
		return nil, []string{"W:" + p}
	case "RUnlock":
		return nil, []string{"R:" + p}
	}
	return nil, nil
}

// locksHeldAt returns the set of lock facts that hold on every path before `at`.
// Inside a function literal that is handed directly to a call as a synchronous callback (lo.ContainsBy, Map.Range,
// retry.Do, …) or applied on the spot, the locks held at that call site are held as well.
func (w *World) locksHeldAt(at ssa.Instruction) factSet {
	fs := factsBefore(at.Parent(), w.lockFactsGen, at)
	fn := at.Parent()
	for depth := 0; fn != nil && fn.Parent() != nil && depth < 4; depth++ {
		site := syncCallbackSite(fn)
		if site == nil {
			break
		}
		outer := factsBefore(site.Parent(), w.lockFactsGen, site)
		if fs == nil {
			fs = factSet{}
		} else {
			fs = fs.clone()
		}
		for k := range outer {
			fs[k] = true
		}
		fn = site.Parent()
	}
	return fs
}

// syncCallbackSite: the single call instruction that receives literal fn as an argument (or applies it), when fn's
// closure value has no other use (not started with go, not deferred, not stored).
func syncCallbackSite(fn *ssa.Function) ssa.Instruction {
	p := fn.Parent()
	if p == nil {
		return nil
	}
	var site ssa.Instruction
	n := 0
	check := func(v ssa.Value) {
		if v.Referrers() == nil {
			return
		}
		for _, ref := range *v.Referrers() {
			switch x := ref.(type) {
			case *ssa.Call:
				n++
				site = x
			case *ssa.DebugRef:
			default:
				_ = x
				n += 100 // go, defer, store, phi…: not a plain synchronous callback
			}
		}
	}
	eachInstr(p, func(in ssa.Instruction) {
		switch x := in.(type) {
		case *ssa.MakeClosure:
			if x.Fn == ssa.Value(fn) {
				check(x)
			}
		case *ssa.Call:
			// a literal without free variables is referenced as a plain function value
			for _, a := range x.Call.Args {
				if a == ssa.Value(fn) {
					n++
					site = x
				}
			}
			if x.Call.Value == ssa.Value(fn) {
				n++
				site = x
			}
		case *ssa.Go:
			if x.Call.Value == ssa.Value(fn) {
				n += 100
			}
		case *ssa.Defer:
			if x.Call.Value == ssa.Value(fn) {
				n += 100
			}
		}
	})
	if n == 1 {
		return site
	}
	return nil
}

// heldSuffix reports whether a lock whose path ends with suffix is held (mode "W", "R" or "" for any).
func heldSuffix(fs factSet, suffix, mode string) bool {
	for f := range fs {
		m, p := f[:1], f[2:]
		if i := strings.Index(p, "["); i >= 0 {
			p = p[:i]
		}
		p = strings.TrimSuffix(strings.TrimSuffix(p, ".RWMutex"), ".Mutex")
		if strings.HasSuffix(p, suffix) && (mode == "" || mode == m) {
			return true
		}
	}
	return false
}
