package main

import (
	"strings"

	"golang.org/x/tools/go/ssa"
)

// lockFacts computes, for function fn, which locks are held before each instruction.
// A lock is identified by the access path of the mutex value (e.g. "param:r.channelLock").
// Facts: "W:"+path (write lock), "R:"+path (read lock). Deferred unlocks do not release before exit.
func (w *World) lockFactsGen(in ssa.Instruction) (add []string, kill []string) {
	c, ok := in.(*ssa.Call)
	if !ok {
		return nil, nil
	}
	s := callSym(c.Common())
	switch s.name {
	case "Lock", "RLock", "Unlock", "RUnlock":
	default:
		return nil, nil
	}
	rc := callRecv(c.Common())
	if rc == nil {
		return nil, nil
	}
	// only mutex-like receivers
	tn := bareTypeName(rc.Type())
	if !strings.Contains(tn, "Mutex") && !strings.Contains(tn, "KeyLock") {
		return nil, nil
	}
	p := w.accessPath(rc)
	// keyed locks: include the key argument
	if a := callArgs(c.Common()); len(a) == 1 {
		p += "[" + w.accessPath(a[0]) + "]"
	}
	switch s.name {
	case "Lock":
		return []string{"W:" + p}, nil
	case "RLock":
		return []string{"R:" + p}, nil
	case "Unlock":
		return nil, []string{"W:" + p}
	case "RUnlock":
		return nil, []string{"R:" + p}
	}
	return nil, nil
}

// locksHeldAt returns the set of lock facts that hold on every path before `at`.
func (w *World) locksHeldAt(at ssa.Instruction) factSet {
	return factsBefore(at.Parent(), w.lockFactsGen, at)
}

// heldSuffix reports whether a lock whose path ends with suffix is held (mode "W", "R" or "" for any).
func heldSuffix(fs factSet, suffix, mode string) bool {
	for f := range fs {
		m, p := f[:1], f[2:]
		if i := strings.Index(p, "["); i >= 0 {
			p = p[:i]
		}
		p = strings.TrimSuffix(strings.TrimSuffix(p, ".RWMutex"), ".Mutex")
		if strings.HasSuffix(p, suffix) && (mode == "" || mode == m) {
			return true
		}
	}
	return false
}
