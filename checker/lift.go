package main

// Closure lifting (part of canonicalisation, see DESIGN 2.2). A maintainer who removes a repeated block may put it into
// a local closure (`persist := func(state T) (bool, error) {…}` called at three places) instead of a new method. Rules
// that look at one function's statements would no longer see the store call. A local closure that the reference tree
// does not have, that is bound once with `:=`, only ever called (never deferred, started, passed on or stored) and that
// does not assign to the variables it captures is rewritten — in memory — into a package-level function taking the
// captured variables as leading parameters; the ordinary helper inlining then puts its body back at every call site.
// Passing the captured variables at call time reads exactly the values the closure would read, so the transformation
// preserves behaviour.

import (
	"bytes"
	_ "embed"
	"fmt"
	"go/ast"
	"go/token"
	"go/types"
	"os"
	"sort"
	"strings"

	"golang.org/x/tools/go/packages"
)

//go:embed baseline_closures.txt
var baselineClosuresTxt string

var baseClosureSet map[string]bool

func isBaselineClosure(pkg, recv, fn, name string) bool {
	if baseClosureSet == nil {
		baseClosureSet = map[string]bool{}
		for _, l := range strings.Split(baselineClosuresTxt, "\n") {
			if l != "" {
				baseClosureSet[l] = true
			}
		}
	}
	return baseClosureSet[pkg+"\t"+recv+"\t"+fn+"\t"+name]
}

type localClosure struct {
	pkg     *packages.Package
	file    *ast.File
	fd      *ast.FuncDecl
	assign  *ast.AssignStmt
	lit     *ast.FuncLit
	obj     types.Object
	recv    string
	varName string
}

func eachLocalClosure(pkgs []*packages.Package, f func(lc localClosure)) {
	for _, p := range pkgs {
		if !canonScope(p.PkgPath) || p.TypesInfo == nil {
			continue
		}
		for _, file := range p.Syntax {
			for _, d := range file.Decls {
				fd, ok := d.(*ast.FuncDecl)
				if !ok || fd.Body == nil {
					continue
				}
				di, _ := declOf(p, fd)
				ast.Inspect(fd.Body, func(n ast.Node) bool {
					as, ok := n.(*ast.AssignStmt)
					if !ok || as.Tok != token.DEFINE || len(as.Lhs) != 1 || len(as.Rhs) != 1 {
						return true
					}
					id, ok1 := as.Lhs[0].(*ast.Ident)
					lit, ok2 := as.Rhs[0].(*ast.FuncLit)
					if !ok1 || !ok2 || id.Name == "_" {
						return true
					}
					obj := p.TypesInfo.Defs[id]
					if obj == nil {
						return true
					}
					f(localClosure{p, file, fd, as, lit, obj, di.recv, id.Name})
					return true
				})
			}
		}
	}
}

func writeBaselineClosures(pkgs []*packages.Package, path string) error {
	var ls []string
	eachLocalClosure(pkgs, func(lc localClosure) {
		ls = append(ls, lc.pkg.PkgPath+"\t"+lc.recv+"\t"+lc.fd.Name.Name+"\t"+lc.varName)
	})
	sort.Strings(ls)
	return os.WriteFile(path, []byte(strings.Join(ls, "\n")+"\n"), 0o644)
}

// liftNewClosures returns replacement contents for the files in which a closure was lifted, and a log line per closure.
func liftNewClosures(pkgs []*packages.Package, readFile func(string) ([]byte, error)) (map[string][]byte, []string) {
	type edit struct {
		start, end int
		text       string
	}
	edits := map[string][]edit{}
	appended := map[string]*bytes.Buffer{}
	var log []string
	fileOf := func(p *packages.Package, f *ast.File) string { return p.Fset.Position(f.Pos()).Filename }
	// a function in which a closure of the reference tree is missing has had a closure RENAMED: the unknown name is the
	// old closure, which the rules know as a closure — nothing is lifted there
	have := map[string]bool{}
	eachLocalClosure(pkgs, func(lc localClosure) {
		have[lc.pkg.PkgPath+"\t"+lc.recv+"\t"+lc.fd.Name.Name+"\t"+lc.varName] = true
	})
	renamedIn := map[string]bool{}
	isBaselineClosure("", "", "", "")
	for k := range baseClosureSet {
		if !have[k] {
			renamedIn[k[:strings.LastIndex(k, "\t")]] = true
		}
	}
	eachLocalClosure(pkgs, func(lc localClosure) {
		p := lc.pkg
		if isBaselineClosure(p.PkgPath, lc.recv, lc.fd.Name.Name, lc.varName) {
			return
		}
		if renamedIn[p.PkgPath+"\t"+lc.recv+"\t"+lc.fd.Name.Name] {
			return
		}
		info := p.TypesInfo
		fname := fileOf(p, lc.file)
		src, err := readFile(fname)
		if err != nil {
			return
		}
		off := func(pos token.Pos) int { return p.Fset.Position(pos).Offset }
		// every use of the variable is the callee of a plain call statement / expression
		var calls []*ast.CallExpr
		okUses := true
		var stack []ast.Node
		ast.Inspect(lc.fd.Body, func(n ast.Node) bool {
			if n == nil {
				stack = stack[:len(stack)-1]
				return true
			}
			stack = append(stack, n)
			id, ok := n.(*ast.Ident)
			if !ok || info.Uses[id] != lc.obj {
				return true
			}
			if len(stack) < 2 {
				okUses = false
				return true
			}
			call, isCall := stack[len(stack)-2].(*ast.CallExpr)
			if !isCall || call.Fun != ast.Expr(id) {
				okUses = false
				return true
			}
			if len(stack) >= 3 {
				switch stack[len(stack)-3].(type) {
				case *ast.DeferStmt, *ast.GoStmt:
					okUses = false
				}
			}
			// a call inside the literal itself is recursion
			if call.Pos() >= lc.lit.Pos() && call.End() <= lc.lit.End() {
				okUses = false
			}
			calls = append(calls, call)
			return true
		})
		if !okUses || len(calls) == 0 {
			return
		}
		// captured variables: declared in the enclosing function outside the literal, used inside it
		var capt []*types.Var
		seen := map[*types.Var]bool{}
		okCapt := true
		ast.Inspect(lc.lit.Body, func(n ast.Node) bool {
			switch x := n.(type) {
			case *ast.Ident:
				v, isVar := info.Uses[x].(*types.Var)
				if !isVar || v.IsField() || v.Pkg() == nil || v.Parent() == v.Pkg().Scope() {
					return true
				}
				if v.Pos() >= lc.fd.Pos() && v.Pos() < lc.fd.End() && !(v.Pos() >= lc.lit.Pos() && v.Pos() < lc.lit.End()) {
					if !seen[v] {
						seen[v] = true
						capt = append(capt, v)
					}
				}
			case *ast.ReturnStmt, *ast.LabeledStmt, *ast.BranchStmt:
			}
			return true
		})
		isCaptured := func(e ast.Expr) bool {
			id, ok := e.(*ast.Ident)
			if !ok {
				return false
			}
			v, _ := info.Uses[id].(*types.Var)
			return v != nil && seen[v]
		}
		ast.Inspect(lc.lit.Body, func(n ast.Node) bool {
			switch x := n.(type) {
			case *ast.AssignStmt:
				for _, l := range x.Lhs {
					if isCaptured(l) {
						okCapt = false
					}
				}
			case *ast.IncDecStmt:
				if isCaptured(x.X) {
					okCapt = false
				}
			case *ast.UnaryExpr:
				if x.Op == token.AND && isCaptured(x.X) {
					okCapt = false
				}
			case *ast.RangeStmt:
				if x.Tok == token.ASSIGN && (isCaptured(x.Key) || (x.Value != nil && isCaptured(x.Value))) {
					okCapt = false
				}
			case *ast.FuncLit:
				// nested literals capturing by reference: keep it simple
				if x != lc.lit {
					okCapt = false
				}
			}
			return true
		})
		if !okCapt {
			return
		}
		// type texts relative to this file's imports
		imports := map[string]string{}
		for _, im := range lc.file.Imports {
			path := strings.Trim(im.Path.Value, `"`)
			name := ""
			if im.Name != nil {
				name = im.Name.Name
			} else if ip := p.Imports[path]; ip != nil {
				name = ip.Name
			} else {
				name = path[strings.LastIndex(path, "/")+1:]
			}
			imports[path] = name
		}
		missing := false
		qual := func(other *types.Package) string {
			if other == p.Types {
				return ""
			}
			if n, ok := imports[other.Path()]; ok && n != "_" && n != "." {
				return n
			}
			missing = true
			return other.Name()
		}
		var params []string
		var names []string
		for _, v := range capt {
			params = append(params, v.Name()+" "+types.TypeString(v.Type(), qual))
			names = append(names, v.Name())
		}
		if missing {
			return
		}
		newName := lc.fd.Name.Name + "_" + lc.varName + "Lifted"
		if p.Types.Scope().Lookup(newName) != nil {
			return
		}
		// the literal's own parameter list and results, verbatim
		ft := lc.lit.Type
		ownParams := strings.TrimSpace(string(src[off(ft.Params.Opening)+1 : off(ft.Params.Closing)]))
		results := ""
		if ft.Results != nil {
			results = " " + string(src[off(ft.Results.Pos()):off(ft.Results.End())])
		}
		all := strings.Join(params, ", ")
		if ownParams != "" {
			if all != "" {
				all += ", "
			}
			all += ownParams
		}
		body := string(src[off(lc.lit.Body.Pos()):off(lc.lit.Body.End())])
		if appended[fname] == nil {
			appended[fname] = &bytes.Buffer{}
		}
		fmt.Fprintf(appended[fname], "\nfunc %s(%s)%s %s\n", newName, all, results, body)
		// remove the definition, rewrite the calls
		edits[fname] = append(edits[fname], edit{off(lc.assign.Pos()), off(lc.assign.End()), ""})
		for _, c := range calls {
			pre := strings.Join(names, ", ")
			if len(c.Args) > 0 && pre != "" {
				pre += ", "
			}
			edits[fname] = append(edits[fname], edit{off(c.Fun.Pos()), off(c.Lparen) + 1, newName + "(" + pre})
		}
		log = append(log, fmt.Sprintf("%s.%s: local closure %s lifted to %s(%s)", shortPkg(p.PkgPath), lc.fd.Name.Name, lc.varName, newName, strings.Join(names, ", ")))
	})
	if len(edits) == 0 {
		return nil, nil
	}
	out := map[string][]byte{}
	for fname, es := range edits {
		src, _ := readFile(fname)
		sort.Slice(es, func(i, j int) bool { return es[i].start > es[j].start })
		okFile := true
		for i := 1; i < len(es); i++ {
			if es[i].end > es[i-1].start {
				okFile = false // overlapping edits (a call inside another lifted closure): leave the file alone
			}
		}
		if !okFile {
			continue
		}
		b := append([]byte{}, src...)
		for _, e := range es {
			b = append(b[:e.start], append([]byte(e.text), b[e.end:]...)...)
		}
		b = append(b, appended[fname].Bytes()...)
		out[fname] = b
	}
	sort.Strings(log)
	return out, log
}
