package main

import (
	"encoding/json"
	"fmt"
	"go/token"
	"os"
	"path/filepath"
	"sort"
	"strings"
)

type Status string

const (
	StOK        Status = "discharged"
	StViolation Status = "violation"
	StKnown     Status = "known-finding"
	StUndecided Status = "undecided"
	StInfo      Status = "info"
)

// Obligation is one instance of one rule on one construct.
type Obligation struct {
	Rule      string `json:"rule"`
	Construct string `json:"construct"`
	Status    Status `json:"status"`
	Pos       string `json:"pos,omitempty"`
	Detail    string `json:"detail,omitempty"`
}

type RuleInfo struct {
	ID         string   `json:"id"`
	Kind       string   `json:"kind"`
	Text       string   `json:"text"`
	MinCount   int      `json:"min_instances_confirmed_by_hand"`
	Seen       int      `json:"instances_seen"`
	Discharged int      `json:"discharged"`
	Known      int      `json:"known_findings"`
	Violated   int      `json:"violated"`
	Undecided  int      `json:"undecided"`
	Exhaustive bool     `json:"exhaustive,omitempty"`
	Allow      []string `json:"allowlist,omitempty"`
	SelfTest   string   `json:"self_test,omitempty"`
}

type KnownFinding struct {
	Property  string `json:"property"`
	Rule      string `json:"rule"`
	Construct string `json:"construct"`
	What      string `json:"what"`
	Status    string `json:"status"` // "known" | "fixed"
	Commit    string `json:"commit,omitempty"`
}

type Report struct {
	W        *World
	Prop     string
	Tier     string
	Rules    []*RuleInfo
	ruleByID map[string]*RuleInfo
	Obls     []Obligation
	Known    []KnownFinding
	NotDec   []string // clauses not decided
	Assume   []string
	Explain  string
	Extra    map[string]any
}

func NewReport(w *World, prop, tier string, known []KnownFinding) *Report {
	return &Report{W: w, Prop: prop, Tier: tier, ruleByID: map[string]*RuleInfo{}, Known: known, Extra: map[string]any{}}
}

// Rule declares a rule; min is the instance count confirmed by hand (lower bound).
func (r *Report) Rule(id, kind, text string, min int) *RuleInfo {
	ri := &RuleInfo{ID: id, Kind: kind, Text: text, MinCount: min}
	r.Rules = append(r.Rules, ri)
	r.ruleByID[id] = ri
	return ri
}

func (r *Report) add(rule, construct string, st Status, pos token.Pos, detail string) {
	if _, ok := r.ruleByID[rule]; !ok {
		panic("undeclared rule " + rule)
	}
	p := ""
	if r.W != nil {
		p = r.W.pos(pos)
	}
	r.Obls = append(r.Obls, Obligation{Rule: rule, Construct: construct, Status: st, Pos: p, Detail: detail})
}

func (r *Report) OK(rule, construct string, pos token.Pos, detail string) {
	r.add(rule, construct, StOK, pos, detail)
}
func (r *Report) Fail(rule, construct string, pos token.Pos, detail string) {
	r.add(rule, construct, StViolation, pos, detail)
}
func (r *Report) Undecided(rule, construct string, pos token.Pos, detail string) {
	r.add(rule, construct, StUndecided, pos, detail)
}
func (r *Report) Info(rule, construct string, pos token.Pos, detail string) {
	r.add(rule, construct, StInfo, pos, detail)
}

// Check is a convenience: OK if cond else Fail.
func (r *Report) Check(cond bool, rule, construct string, pos token.Pos, okDetail, failDetail string) bool {
	if cond {
		r.OK(rule, construct, pos, okDetail)
	} else {
		r.Fail(rule, construct, pos, failDetail)
	}
	return cond
}

func loadKnown(path string) ([]KnownFinding, error) {
	b, err := os.ReadFile(path)
	if err != nil {
		if os.IsNotExist(err) {
			return nil, nil
		}
		return nil, err
	}
	var f struct {
		Findings []KnownFinding `json:"findings"`
	}
	if err := json.Unmarshal(b, &f); err != nil {
		return nil, err
	}
	return f.Findings, nil
}

// Finish classifies, prints, writes evidence and replay files; returns exit code.
func (r *Report) Finish(verifDir string, wall float64, seed int) int {
	// apply known findings
	usedKnown := map[int]bool{}
	for i := range r.Obls {
		o := &r.Obls[i]
		if o.Status != StViolation {
			continue
		}
		for k, kf := range r.Known {
			if kf.Status == "known" && kf.Property == r.Prop && kf.Rule == o.Rule && kf.Construct == o.Construct {
				o.Status = StKnown
				usedKnown[k] = true
			}
		}
	}
	// instance-count floors and duplicates
	seenKey := map[string]bool{}
	for i := range r.Obls {
		o := &r.Obls[i]
		ri := r.ruleByID[o.Rule]
		if o.Status == StInfo {
			continue
		}
		key := o.Rule + "|" + o.Construct
		if seenKey[key] {
			// same construct reported twice: make the key unique but stable
			n := 2
			for seenKey[fmt.Sprintf("%s#%d", key, n)] {
				n++
			}
			o.Construct = fmt.Sprintf("%s#%d", o.Construct, n)
			key = o.Rule + "|" + o.Construct
		}
		seenKey[key] = true
		ri.Seen++
		switch o.Status {
		case StOK:
			ri.Discharged++
		case StKnown:
			ri.Known++
		case StViolation:
			ri.Violated++
		case StUndecided:
			ri.Undecided++
		}
	}
	for _, ri := range r.Rules {
		if ri.Seen < ri.MinCount {
			r.Obls = append(r.Obls, Obligation{Rule: ri.ID, Construct: "instance-count", Status: StViolation,
				Detail: fmt.Sprintf("rule matched %d instances, fewer than the %d confirmed by hand: anchors moved or the rule no longer sees the code it is about", ri.Seen, ri.MinCount)})
			ri.Violated++
		}
	}
	// output
	evDir := filepath.Join(verifDir, "evidence")
	vioDir := filepath.Join(evDir, "violations")
	os.MkdirAll(vioDir, 0o755)
	// remove stale replay files of this property
	if old, _ := filepath.Glob(filepath.Join(vioDir, r.Prop+"-*.json")); old != nil {
		for _, f := range old {
			os.Remove(f)
		}
	}
	nViol, nKnown, nUndec, nOK := 0, 0, 0, 0
	var lines []string
	idx := 0
	for _, o := range r.Obls {
		switch o.Status {
		case StOK:
			nOK++
		case StKnown:
			nKnown++
			what := o.Detail
			for _, kf := range r.Known {
				if kf.Status == "known" && kf.Property == r.Prop && kf.Rule == o.Rule && kf.Construct == o.Construct {
					what = kf.What
				}
			}
			lines = append(lines, fmt.Sprintf("KNOWN-FINDING: property=%s rule=%s construct=%q at %s: %s", r.Prop, o.Rule, o.Construct, o.Pos, what))
		case StViolation, StUndecided:
			if o.Status == StViolation {
				nViol++
			} else {
				nUndec++
			}
			idx++
			path := filepath.Join(vioDir, fmt.Sprintf("%s-%s-%d.json", r.Prop, o.Rule, idx))
			ri := r.ruleByID[o.Rule]
			rep := map[string]any{"property": r.Prop, "rule": o.Rule, "rule_text": ri.Text, "kind": ri.Kind, "construct": o.Construct,
				"status": o.Status, "pos": o.Pos, "detail": o.Detail}
			b, _ := json.MarshalIndent(rep, "", " ")
			os.WriteFile(path, b, 0o644)
			lines = append(lines, fmt.Sprintf("%s %s construct=%q at %s: %s", strings.ToUpper(string(o.Status)), o.Rule, o.Construct, o.Pos, o.Detail))
			lines = append(lines, fmt.Sprintf("VIOLATION property=%s replay=%s", r.Prop, path))
		}
	}
	// evidence
	var samples []any
	perRule := map[string]int{}
	for _, o := range r.Obls {
		if o.Status == StInfo {
			continue
		}
		if perRule[o.Rule] < 2 || o.Status != StOK {
			if len(samples) < 60 {
				samples = append(samples, o)
			}
			perRule[o.Rule]++
		}
	}
	var infos []Obligation
	for _, o := range r.Obls {
		if o.Status == StInfo {
			infos = append(infos, o)
		}
	}
	total := nOK + nKnown + nViol + nUndec
	distinct := len(seenKey)
	cov := map[string]any{
		"explanation":         r.Explain,
		"obligations":         total,
		"discharged":          nOK,
		"known_findings":      nKnown,
		"violated":            nViol,
		"undecided":           nUndec,
		"evaluations":         total,
		"distinct_nontrivial": distinct,
		"rule":                "one obligation per (rule, construct) enumerated from the resolved program of /repo's working tree; distinct = distinct rule+construct keys; every obligation is non-trivial in that it names a concrete symbol, call site, branch or field found by the analysis",
		"rules":               r.Rules,
		"samples":             samples,
		"not_decided":         r.NotDec,
		"exhaustive":          false,
		"checker_cmd":         fmt.Sprintf("bin/vcheck -prop %s -tier %s", r.Prop, r.Tier),
		"packages_analysed":   len(r.W.Pkgs),
		"packages_in_closure": len(r.W.ByPath),
		"ssa_functions":       r.W.NumFuncs,
		"load_s":              r.W.LoadS,
	}
	if len(infos) > 0 {
		if len(infos) > 40 {
			infos = infos[:40]
		}
		cov["informational"] = infos
	}
	if r.W.Canon != nil && (len(r.W.Canon.NewFuncs) > 0 || len(r.W.Canon.Failed) > 0) {
		cov["canonicalisation"] = r.W.Canon
	}
	for k, v := range r.Extra {
		cov[k] = v
	}
	assume := append([]string{
		"go/packages, go/types and go/ssa (golang.org/x/tools v0.29.0) resolve the program as the Go compiler would for GOOS=linux GOARCH=amd64 without build tags",
		"third-party packages (milvus pkg, protobufs, zap, lo) behave as documented; only repository code is analysed in the quick tier",
		"reflection, unsafe and cgo are not used to reach the analysed fields (none found in the repository packages)",
	}, r.Assume...)
	if r.NotDec == nil {
		r.NotDec = []string{}
	}
	ev := map[string]any{
		"property_id": r.Prop,
		"tier":        r.Tier,
		"seed":        seed,
		"level":       "other",
		"coverage":    cov,
		"assumptions": assume,
		"wall_s":      wall,
		"violations":  nViol + nUndec,
	}
	b, _ := json.MarshalIndent(ev, "", " ")
	if err := os.WriteFile(filepath.Join(evDir, r.Prop+".json"), b, 0o644); err != nil {
		fmt.Println("cannot write evidence:", err)
		return 1
	}
	// summary
	sort.SliceStable(r.Rules, func(i, j int) bool { return false })
	for _, ri := range r.Rules {
		fmt.Printf("rule %-8s %-28s seen=%d (min %d) ok=%d known=%d violated=%d undecided=%d\n", ri.ID, ri.Kind, ri.Seen, ri.MinCount, ri.Discharged, ri.Known, ri.Violated, ri.Undecided)
	}
	for _, l := range lines {
		fmt.Println(l)
	}
	fmt.Printf("property=%s tier=%s obligations=%d discharged=%d known=%d violations=%d undecided=%d wall=%.1fs\n", r.Prop, r.Tier, total, nOK, nKnown, nViol, nUndec, wall)
	if nViol+nUndec > 0 {
		return 1
	}
	return 0
}

// importRules runs another property's rule function and files selected rules of it under this report, with the rule
// ids renamed (from "C14-R1" to prefix+"C14R1"): a necessary condition that belongs to two properties is decided once
// and reported by both checks.
var importNesting int

func (r *Report) importRules(run func(*World, *Report), prefix string, only map[string]bool) {
	if importNesting > 0 {
		// the imported rule function's own imports are not needed (rules are selected by their native ids), and
		// following them would loop when two properties share rules both ways
		return
	}
	importNesting++
	defer func() { importNesting-- }()
	sub := NewReport(r.W, r.Prop, r.Tier, nil)
	run(r.W, sub)
	ren := map[string]string{}
	for _, ri := range sub.Rules {
		if only != nil && !only[ri.ID] {
			continue
		}
		id := prefix + strings.ReplaceAll(ri.ID, "-", "")
		ren[ri.ID] = id
		r.Rule(id, ri.Kind+" (shared with "+ri.ID+")", ri.Text, ri.MinCount)
	}
	for _, o := range sub.Obls {
		if id, ok := ren[o.Rule]; ok {
			o.Rule = id
			r.Obls = append(r.Obls, o)
		}
	}
}
